------------------------------- MODULE RoadmLaw -------------------------------
(* C06 - a ROADM never amplifies and equalises every channel to its egress target.                             *)
(*                                                                                                            *)
(* State machine at the grain of the code:                                                                     *)
(*   Load   json_io.Roadm / merge_equalization / RoadmParams: the node-level policies written in the library    *)
(*          entry (lib) and in the element (elt) are resolved to the ONE policy in force, or the configuration  *)
(*          is rejected;                                                                                        *)
(*   Cross  Roadm.propagate(spectral_info, degree, from_degree): every channel leaves with                      *)
(*          min(target + offset, input - path loss), target = egress degree's setting if any, else the node's;   *)
(*          the path loss is the one configured for the frequency range the channel lies in.                    *)
(* All powers in micro-dB (LineElements).                                                                       *)
EXTENDS LineElements

CONSTANTS
  Chan,         \* channel ids 1..N
  ChanType,     \* [Chan -> [baudDb, slotDb]]      10 log10 of baud rate / slot width in GHz (udB)
  ChanType2,    \* [Chan -> [baudDb, slotDb]]      other baud rates / slot widths ON THE SAME FREQUENCIES (second crossing);
                \*   the bounded instance makes it a single-rate spectrum on a flexible grid (one baud rate, several slot widths)
  Stages,       \* subset of {"designed", "reloaded", "yang"}: the crossing is made on the designed network, or on the network
                \*   exported (network_to_json / save_network) and loaded again, in the legacy form or converted to the YANG
                \*   form (RFC 7951 JSON) and loaded through load_network - the configuration is the same
  NodeV,        \* [PolicyKinds -> Int]            value of the node-level policy of each kind
  DegV,         \* [PolicyKinds -> Int]            value written for the egress degree when it has its own setting
  LoadCases,    \* set of [lib, elt]               node-level policy kinds written in library entry / element
  EltDegKinds,  \* subset of DegKinds explored when the node policy is written in the ELEMENT (all of them in the thorough tier)
  DegKinds,     \* subset of PolicyKinds \cup {"none", "pch0"}   kind of the egress degree's own setting
  Crossings,    \* subset of {"add", "drop", "express"}
  Deltas,       \* set of Int                      input power of a channel relative to its target
  OffsetVecs,   \* set of [Chan -> Int]            per-channel power offsets (delta_pdb_per_channel)
  ProfKinds,    \* subset of {"single", "firstListed", "explicit"}: how the library lists the profiles of the crossed path
                \*   type: one profile; two profiles NOT listed by increasing id, none chosen in the element (the first
                \*   listed applies); two profiles and the element names the second one for this pair of degrees
  MaxLossVecs   \* set of [Chan -> Int]            path loss (roadm-maxloss) of the crossed internal path, PER CHANNEL:
                \*                                 the loss is configured per frequency range

VARIABLES phase,   \* "cfg" -> "ready" | "rejected";  "ready" -> "out"
          cfg,     \* the configuration and the crossing to perform
          pch,     \* [Chan -> Int] per-channel power
          last,    \* record of the crossing performed (in, tgt, out), NoCross before
          last2    \* record of the SECOND crossing of the same ROADM (same frequencies, channel types ChanType2)
vars == <<phase, cfg, pch, last, last2>>

NoCross == [in |-> <<>>, tgt |-> <<>>, out |-> <<>>]
N == Cardinality(Chan)

InForce(c)    == PolicyInForce(c.lib, c.elt)
NodePolicy(c) == LET k == CHOOSE x \in InForce(c) : TRUE IN [kind |-> k, v |-> NodeV[k]]
\* "pch0": the egress degree is set to exactly 0 dBm per channel (a value, not an absent setting)
DegKindOf(d)  == IF d = "pch0" THEN "pch" ELSE d
DegValueOf(d) == IF d = "pch0" THEN 0 ELSE DegV[d]
DegSetting(c) == IF c.degKind = "none" THEN [has |-> FALSE, kind |-> "pch", v |-> 0]
                 ELSE [has |-> TRUE, kind |-> DegKindOf(c.degKind), v |-> DegValueOf(c.degKind)]
\* the profiles of the crossed path type as listed in the library: the second one (lower id) loses 1.5 dB more
Extra == 1500000
Profiles(c) == IF c.prof = "single" THEN <<[id |-> 1, type |-> c.crossing, loss |-> c.maxloss]>>
               ELSE <<[id |-> 7, type |-> c.crossing, loss |-> c.maxloss],
                      [id |-> 2, type |-> c.crossing, loss |-> [k \in Chan |-> c.maxloss[k] + Extra]]>>
ExplicitId(c) == IF c.prof = "explicit" THEN 2 ELSE NONE
PathLoss(c)   == ProfileFor(Profiles(c), c.crossing, ExplicitId(c)).loss
ChanRecOf(T, c, k, pin) == [baudDb |-> T[k].baudDb, slotDb |-> T[k].slotDb, offset |-> c.offset[k],
                            in |-> pin, maxloss |-> PathLoss(c)[k]]
ChanRec(c, k, pin) == ChanRecOf(ChanType, c, k, pin)

Cfgs == [lib : {l.lib : l \in LoadCases}, elt : {l.elt : l \in LoadCases}, degKind : DegKinds, crossing : Crossings,
         offset : OffsetVecs, maxloss : MaxLossVecs, prof : ProfKinds, stage : Stages, delta : [Chan -> Deltas]]

\* one initial state per case; rejected configurations are not multiplied by the crossing grid
Init == /\ phase = "cfg"
        /\ last = NoCross
        /\ last2 = NoCross
        /\ cfg \in Cfgs
        /\ [lib |-> cfg.lib, elt |-> cfg.elt] \in LoadCases
        \* the profile layouts are explored on the plain configuration only (library policy, no degree setting, no offsets)
        /\ cfg.degKind = "pch0" => cfg.elt = {}
        /\ cfg.elt # {} => cfg.degKind \in EltDegKinds
        \* export + reload is explored on the plain configurations (library policy, no offsets, one profile, first loss)
        /\ cfg.stage = "yang" => (cfg.crossing = "express" /\ cfg.degKind \in PolicyKinds)
        /\ cfg.stage # "designed" => (cfg.elt = {} /\ cfg.prof = "single" /\ (\A k \in Chan : cfg.offset[k] = 0)
                                      /\ cfg.maxloss = CHOOSE m \in MaxLossVecs : TRUE)
        /\ cfg.prof # "single" => (cfg.elt = {} /\ cfg.degKind = "none" /\ \A k \in Chan : cfg.offset[k] = 0)
        /\ ~ConfigAccepted(cfg.lib, cfg.elt) =>
              /\ cfg.degKind = CHOOSE d \in DegKinds : TRUE
              /\ cfg.crossing = CHOOSE x \in Crossings : TRUE
              /\ cfg.offset = CHOOSE o \in OffsetVecs : TRUE
              /\ cfg.maxloss = CHOOSE m \in MaxLossVecs : TRUE
              /\ cfg.prof = "single"
              /\ cfg.stage = "designed"
              /\ cfg.delta = CHOOSE d \in [Chan -> Deltas] : TRUE
        /\ pch = [k \in Chan |-> 0]

\* loading resolves the policy in force or rejects; the launched powers are set relative to each channel's target
Load == /\ phase = "cfg"
        /\ IF ConfigAccepted(cfg.lib, cfg.elt)
           THEN /\ phase' = "ready"
                /\ pch' = [k \in Chan |-> Target(NodePolicy(cfg), DegSetting(cfg), ChanRec(cfg, k, 0)) + cfg.delta[k]]
           ELSE /\ phase' = "rejected"
                /\ pch' = pch
        /\ UNCHANGED <<cfg, last, last2>>

Cross == /\ phase = "ready"
         /\ LET node == NodePolicy(cfg)
                deg  == DegSetting(cfg)
                out  == [k \in Chan |-> RoadmOut(node, deg, ChanRec(cfg, k, pch[k]))]
            IN /\ pch' = out
               /\ last' = [in  |-> [k \in 1..N |-> pch[k]],
                           tgt |-> [k \in 1..N |-> Target(node, deg, ChanRec(cfg, k, pch[k]))],
                           out |-> [k \in 1..N |-> out[k]]]
         /\ phase' = "out"
         /\ UNCHANGED <<cfg, last2>>

\* the same ROADM object is crossed again by a spectrum on the SAME frequencies with other baud rates / slot widths
\* (another transceiver mode): a crossing depends on the spectrum it is given only - the ROADM has no memory.
\* The inputs sit at the same distance from each channel's (new) target.
\* (explored on the configurations without per-channel offsets)
RecrossEnabled == \A k \in Chan : cfg.offset[k] = 0
Recross == /\ phase = "out"
           /\ RecrossEnabled
           /\ LET node == NodePolicy(cfg)
                  deg  == DegSetting(cfg)
                  tgt  == [k \in Chan |-> Target(node, deg, ChanRecOf(ChanType2, cfg, k, 0))]
                  inp  == [k \in Chan |-> tgt[k] + cfg.delta[k]]
                  out  == [k \in Chan |-> RoadmOut(node, deg, ChanRecOf(ChanType2, cfg, k, inp[k]))]
              IN /\ pch' = out
                 /\ last2' = [in |-> [k \in 1..N |-> inp[k]], tgt |-> [k \in 1..N |-> tgt[k]], out |-> [k \in 1..N |-> out[k]]]
           /\ phase' = "out2"
           /\ UNCHANGED <<cfg, last>>

Next == Load \/ Cross \/ Recross
Spec == Init /\ [][Next]_vars

(* ---------------------------------------------- the clauses of C06 ------------------------------------------ *)
TypeOK == /\ phase \in {"cfg", "ready", "rejected", "out", "out2"}
          /\ pch \in [Chan -> Int]

\* exactly one equalisation policy is in force; an element-level policy replaces the library default
SinglePolicy == phase \in {"ready", "out", "out2"} =>
                   /\ Cardinality(InForce(cfg)) = 1
                   /\ cfg.elt # {} => InForce(cfg) = cfg.elt
                   /\ cfg.elt = {} => InForce(cfg) = cfg.lib
\* two node-level policies (in the library entry or in the element), or none in the library, are rejected at load
InvalidRejected == /\ phase = "rejected" => (Cardinality(cfg.elt) > 1 \/ Cardinality(cfg.lib) # 1)
                   /\ phase \in {"ready", "out", "out2"} => (Cardinality(cfg.elt) <= 1 /\ Cardinality(cfg.lib) = 1)

Crossed == phase \in {"out", "out2"}
\* no channel ever leaves a ROADM with more power than it entered
NeverAmplifies == Crossed => \A k \in 1..N : last.out[k] <= last.in[k]
NeverAmplifiesStep == [][phase' = "out" => \A k \in Chan : pch'[k] <= pch[k]]_vars
\* a channel that arrives with enough power leaves exactly at target + offset ...
EqualisedToTarget == Crossed => \A k \in 1..N :
                        last.in[k] - PathLoss(cfg)[k] >= last.tgt[k] + cfg.offset[k] => last.out[k] = last.tgt[k] + cfg.offset[k]
\* ... one that arrives below it is only attenuated by the path loss OF ITS OWN frequency range (left unequalised,
\* never boosted)
BelowTargetLossOnly == Crossed => \A k \in 1..N :
                        last.in[k] - PathLoss(cfg)[k] < last.tgt[k] + cfg.offset[k] => last.out[k] = last.in[k] - PathLoss(cfg)[k]
\* no memory: the second crossing (other baud rates / slot widths on the same frequencies) obeys the law with ITS OWN channel
\* types, and never amplifies either
SecondCrossingOnItsOwn == phase = "out2" => \A k \in 1..N :
                        /\ last2.tgt[k] = Target(NodePolicy(cfg), DegSetting(cfg), ChanRecOf(ChanType2, cfg, k, 0))
                        /\ last2.out[k] = MinI(last2.tgt[k] + cfg.offset[k], last2.in[k] - PathLoss(cfg)[k])
                        /\ last2.out[k] <= last2.in[k]
\* ... and its targets are per carrier: whatever the carriers have in common (here the baud rate), two carriers' targets
\* differ by exactly the difference of the quantity the policy in force scales with (nothing / baud rate / slot width)
EffPolicy(c) == IF c.degKind # "none" THEN [kind |-> DegKindOf(c.degKind), v |-> DegValueOf(c.degKind)] ELSE NodePolicy(c)
ScaleOf(kind, t) == IF kind = "pch" THEN 0 ELSE IF kind = "psd" THEN t.baudDb ELSE t.slotDb
SecondCrossingPerCarrier == phase = "out2" => \A k, j \in 1..N :
                        last2.tgt[k] - last2.tgt[j] = ScaleOf(EffPolicy(cfg).kind, ChanType2[k]) - ScaleOf(EffPolicy(cfg).kind, ChanType2[j])
\* the path loss is the one of the profile named for the pair of degrees, else of the first listed profile of the type
PathLossByListing == Crossed => PathLoss(cfg) = (IF cfg.prof = "explicit" THEN [k \in Chan |-> cfg.maxloss[k] + Extra] ELSE cfg.maxloss)
\* the target is the egress degree's setting if one exists (of whatever kind), else the node's
TargetIsDegreeElseNode == Crossed => \A k \in 1..N :
                        last.tgt[k] = IF cfg.degKind # "none"
                                      THEN Level([kind |-> DegKindOf(cfg.degKind), v |-> DegValueOf(cfg.degKind)], ChanRec(cfg, k, 0))
                                      ELSE Level(NodePolicy(cfg), ChanRec(cfg, k, 0))
\* pch / psd x baud rate / psw x slot width
LevelByKind == Crossed /\ cfg.degKind = "none" => \A k \in 1..N :
                  LET p == NodePolicy(cfg)
                  IN last.tgt[k] - p.v = (IF p.kind = "pch" THEN 0 ELSE IF p.kind = "psd" THEN ChanType[k].baudDb
                                                                 ELSE ChanType[k].slotDb)
==============================================================================
