CONSTANTS
  Chan <- MCChan
  ChanF <- MCChanF
  Kind <- MCKind
  Span <- MCSpan
  DCd <- MCDCd
  DLat <- MCDLat
  DPmd <- MCDPmd
  DPdl <- MCDPdl
  Assemblies <- MCAssemblies
INIT Init
NEXT Next
INVARIANT LossIsBudget
INVARIANT CdLinear
INVARIANT LatencyLinear
INVARIANT CdFromConfig
INVARIANT PmdQuadrature
INVARIANT PdlQuadrature
INVARIANT OrderIndependent
INVARIANT GridExact
