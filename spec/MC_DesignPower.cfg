CONSTANTS
  Configs <- MCConfigs
  Profiles <- MCProfiles
  VoaGrid <- MCVoaGrid
  Followed <- MCFollowed
  LossSet <- MCLossesQuick
  MaxSpans = 2
  MultiUser = FALSE
  Rich = TRUE
  EmitStride1 = 1
  EmitStride2 = 1
INIT Init
NEXT Next
INVARIANT TypeOK
INVARIANT Closure
INVARIANT RefChannelAtTarget
INVARIANT PowerRule
INVARIANT ZeroBeforeRoadm
INVARIANT ReductionOnlyAsNeeded
INVARIANT OperatorOffsetKept
INVARIANT OperatorGainKept
INVARIANT VoaKept
INVARIANT NeverAboveMaxOutput
INVARIANT DesignedAgainIsTheSame
INVARIANT NoTieOnGrid
PROPERTY UseKeepsTheDesign
