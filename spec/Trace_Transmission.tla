--------------------------- MODULE Trace_Transmission ---------------------------
(* B3 for Transmission.tla: real runs of worker_utils.transmission_simulation, one case per (network, mode):      *)
(*   pref      nominal reference channel power (micro-dBm)                                                       *)
(*   mode      1 power mode, 0 gain mode                                                                         *)
(*   nominal   the step record of the run without a sweep (range <<0, 0, step>>)                                 *)
(*   runs      sequence of [range |-> <<start, stop, step>> (micro-dB), powers |-> reported powers,               *)
(*                          steps |-> sequence of step records]                                                  *)
(*                          outside0/outside1 |-> digest of every setting but the path's amplifiers, before/after] *)
(*   step record: [dp, amps |-> sequence of [gain, dp, voa, out] along the path, gsnr]   (all micro-dB);          *)
(*                dp = offset before the output VOA, voa = output VOA, out = channel power after the VOA           *)
(* Monitor-shaped: every case is judged by every clause; the verdict names the failing clauses.                  *)
EXTENDS GnpyBase, TLC, Json, IOUtils

T == ndJsonDeserialize(IOEnv.TRACE_FILE)
VARIABLES tid, done, viol
vars == <<tid, done, viol>>

Tol == 10                   \* two computations of the same thing (micro-dB)
BudgetTol == 300000         \* noise power accumulated on the line (0.3 dB; worst measured 0.03 dB)

\* power_range_db expansion of transmission_simulation: |round((stop - start) / step)| + 1 points from start to stop
Expand(r) == LET n == IF r[3] = 0 THEN 1 ELSE AbsI((r[2] - r[1]) \div r[3]) + 1
             IN [i \in 1..n |-> IF n = 1 THEN r[1] ELSE r[1] + ((i - 1) * (r[2] - r[1])) \div (n - 1)]
EffRange(c, run) == IF c.mode = 1 THEN Expand(run.range) ELSE <<0>>

SameAmp(a, b) == Within(a.gain, b.gain, Tol) /\ Within(a.dp, b.dp, Tol) /\ Within(a.voa, b.voa, Tol) /\ Within(a.out, b.out, Tol)
SameSettings(s, t) == Len(s.amps) = Len(t.amps)
                      /\ \A a \in 1..Len(s.amps) : /\ Within(s.amps[a].gain, t.amps[a].gain, Tol) /\ Within(s.amps[a].dp, t.amps[a].dp, Tol)
                                                  /\ Within(s.amps[a].voa, t.amps[a].voa, Tol)
SameStep(s, t) == Len(s.amps) = Len(t.amps) /\ (\A a \in 1..Len(s.amps) : SameAmp(s.amps[a], t.amps[a]))
                  /\ Within(s.gsnr, t.gsnr, Tol)

Clauses(c) ==
  LET R == 1..Len(c.runs)
      Multi == {r \in R : Len(EffRange(c, c.runs[r])) > 1}
      Single == R \ Multi
      St(r) == c.runs[r].steps
  IN (IF \A r \in R : /\ Len(St(r)) = Len(EffRange(c, c.runs[r]))
                      /\ Len(c.runs[r].powers) = Len(St(r))
                      /\ \A i \in 1..Len(St(r)) : /\ Within(St(r)[i].dp, EffRange(c, c.runs[r])[i], Tol)
                                                  /\ Within(c.runs[r].powers[i], c.pref + EffRange(c, c.runs[r])[i], Tol)
      THEN {} ELSE {"PowersReported"})
     \cup (IF c.mode = 0 /\ (\E r \in R : Len(St(r)) # 1) THEN {"GainModeHasNoSweep"} ELSE {})
     \cup (IF \A r \in Multi : \A i \in 1..Len(St(r)) : \A a \in 1..Len(St(r)[i].amps) :
                 Within(St(r)[i].amps[a].out, c.pref + St(r)[i].dp + St(r)[i].amps[a].dp - St(r)[i].amps[a].voa, BudgetTol)
           THEN {} ELSE {"BudgetClosedEachStep"})
     \cup (IF \A r1, r2 \in Multi : \A i \in 1..Len(St(r1)) : \A j \in 1..Len(St(r2)) :
                 Within(St(r1)[i].dp, St(r2)[j].dp, Tol) => SameStep(St(r1)[i], St(r2)[j])
           THEN {} ELSE {"ResultIsFunctionOfPower"})
     \cup (IF \A r \in Multi : \A i \in 1..Len(St(r)) : Within(St(r)[i].dp, 0, Tol) => SameStep(St(r)[i], c.nominal)
           THEN {} ELSE {"ZeroStepIsTheNominalDesign"})
     \cup (IF \A r \in Single : Len(St(r)) = 1 => SameSettings(St(r)[1], c.nominal)
           THEN {} ELSE {"SingleStepKeepsTheDesign"})
     \cup (IF c.sim0 = c.sim1 THEN {} ELSE {"SimParamsUntouched"})
     \* a sweep redesigns the amplifiers of the path and nothing else (other directions, other degrees of a crossed ROADM)
     \cup (IF \A r \in R : c.runs[r].outside0 = c.runs[r].outside1 THEN {} ELSE {"SweepTouchesOnlyThePathAmplifiers"})

Init == tid \in 1..Len(T) /\ done = FALSE /\ viol = {}
Next == ~done /\ done' = TRUE /\ tid' = tid /\ viol' = Clauses(T[tid])
Done == ~done \/ PrintT("@@" \o ToJson([name |-> T[tid].name, n |-> Len(T[tid].runs), viol |-> viol]))
==============================================================================
