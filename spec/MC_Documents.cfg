INIT Init
NEXT Next
INVARIANT OneTypePerDegree
INVARIANT RoundTripInv
INVARIANT IdempotentInv
INVARIANT StructureInv
INVARIANT AliasInv
INVARIANT KeyedOrderInv
INVARIANT FormsDiffer
