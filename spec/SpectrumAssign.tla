---------------------------- MODULE SpectrumAssign ----------------------------
(* C14 - spectrum assignment as a state machine over a set of OMS.                                            *)
(* State: occ[o] = indices of the 6.25 GHz axis marked OCCUPIED on OMS o by accepted services.               *)
(* One action Assign(t) per request (SpectrumOps.Outcome evaluated on the current occupancy, then Write).      *)
EXTENDS SpectrumOps

CONSTANTS Templates,          \* sequence of request templates (MC) -- see MC_SpectrumAssign
          MaxHist             \* bound on the number of requests in a history

VARIABLES occ,    \* [OMS -> SUBSET Slots]
          hist,   \* sequence of [t |-> template, out |-> outcome]   (history of the batch)
          last    \* last step: [t, out, before]  (before = occ ahead of the step, for action-shaped clauses)
vars == <<occ, hist, last>>

-----------------------------------------------------------------------------
Init == /\ occ = [o \in OMS |-> {}]
        /\ hist = <<>>
        /\ last = [t |-> [path |-> {}, slots |-> <<>>, bw |-> 0, rate |-> 1, spacing |-> 12500, pre |-> TRUE],
                   out |-> [st |-> "init", nm |-> <<>>], before |-> [o \in OMS |-> {}]]

Assign(t) == LET out == Outcome(occ, t)
             IN /\ Len(hist) < MaxHist
                /\ occ' = Write(occ, t, out)
                /\ hist' = Append(hist, [t |-> t, out |-> out])
                /\ last' = [t |-> t, out |-> out, before |-> occ]

Next == \E i \in 1..Len(Templates) : Assign(Templates[i])
Spec == Init /\ [][Next]_vars

-----------------------------------------------------------------------------
(* The clauses of C14.  State invariants range over the history; step clauses over `last`.                    *)
Served == {i \in 1..Len(hist) : hist[i].out.st = "served"}
SlotSets(i) == {SlotRange(hist[i].out.nm[j].n, hist[i].out.nm[j].m) : j \in 1..Len(hist[i].out.nm)}

NoDoubleBooking ==     \* accepted services sharing an OMS never overlap; nor do the slots of one service
    /\ \A i, j \in Served : i < j /\ hist[i].t.path \cap hist[j].t.path # {} =>
            \A r1 \in SlotSets(i), r2 \in SlotSets(j) : r1 \cap r2 = {}
    /\ \A i \in Served : \A a, b \in 1..Len(hist[i].out.nm) : a < b =>
            SlotRange(hist[i].out.nm[a].n, hist[i].out.nm[a].m) \cap SlotRange(hist[i].out.nm[b].n, hist[i].out.nm[b].m) = {}

InsideBandAndGuards == \A i \in Served : \A k \in UNION SlotSets(i) :
    /\ k >= IdxMin /\ k <= IdxMax
    /\ \A o \in hist[i].t.path : k \notin Unusable[o]

EnoughSlots == \A i \in Served : SumM(hist[i].out.nm) >= NbWl(hist[i].t) * Pcm(hist[i].t)

\* occupancy recorded per OMS is exactly the union of the accepted assignments crossing it (hence identical on the path)
OccupancyIsUnionOfServed == \A o \in OMS :
    occ[o] = UNION {UNION SlotSets(i) : i \in {j \in Served : o \in hist[j].t.path}}

\* step clauses (about the last request, judged against the occupancy before it)
BlockedChangesNothing == last.out.st # "served" => occ = last.before

UserFixedHonouredOrBlocked ==      \* every selected slot that the user fixed keeps the user's N and M
    last.out.st = "served" =>
       LET fixedN == {s.n : s \in {last.t.slots[i] : i \in 1..Len(last.t.slots)}} \ {NONE}
           fixedBoth == {s \in {last.t.slots[i] : i \in 1..Len(last.t.slots)} : s.n # NONE /\ s.m # NONE}
           got == {last.out.nm[j] : j \in 1..Len(last.out.nm)}
       IN /\ \A s \in fixedBoth : [n |-> s.n, m |-> s.m] \in got        \* every fully fixed slot is used as given
          /\ Len(last.out.nm) <= Len(last.t.slots)

FirstFitIsLowest ==                \* a request with a single fully free slot gets the lowest feasible position
    (Policy = "first_fit" /\ last.out.st = "served" /\ Len(last.t.slots) = 1 /\ last.t.slots[1] = NoSel) =>
       LET g == last.out.nm[1]
           busy == BusyOn(last.before, last.t.path)
       IN ~\E n \in Slots : n < g.n /\ OkAt(busy, n, g.m)

LastFitIsHighest ==                \* ... and with the last_fit policy the highest one
    (Policy = "last_fit" /\ last.out.st = "served" /\ Len(last.t.slots) = 1 /\ last.t.slots[1] = NoSel) =>
       LET g == last.out.nm[1]
           busy == BusyOn(last.before, last.t.path)
       IN ~\E n \in Slots : n > g.n /\ OkAt(busy, n, g.m)

\* a free N is never refused while some position is feasible, whatever the policy
FreeSlotServedWhenFeasible ==
    (last.out.st = "NO_SPECTRUM" /\ Len(last.t.slots) = 1 /\ last.t.slots[1] = NoSel) =>
       ~\E n \in Slots : OkAt(BusyOn(last.before, last.t.path), n, NbWl(last.t) * Pcm(last.t))

SameOnEveryOms ==                  \* the ranges just written are present on every OMS of the path
    last.out.st = "served" => \A o \in last.t.path : RangesOf(last.out.nm) \subseteq occ[o]

TypeOK == occ \in [OMS -> SUBSET Slots]

-----------------------------------------------------------------------------
(* Refinement of SpectrumCore (whose invariant - occupancy is exactly the union of the grants, grants that share an  *)
(* OMS share no slot - is PROVED with TLAPS for any set of OMS, the unbounded axis and histories of any length):        *)
(* the grants are the served requests of the history, and every Assign step is an Accept step of the core for the     *)
(* request's path and the union of its slot ranges, or leaves occupancy and grants as they were.                       *)
Grants == {[path |-> hist[i].t.path, rng |-> UNION SlotSets(i)] : i \in Served}
Core == INSTANCE SpectrumCore WITH served <- Grants
CoreStep == [][IF last'.out.st = "served" THEN Core!Accept(last'.t.path, RangesOf(last'.out.nm))
               ELSE (occ' = occ /\ Grants' = Grants)]_vars
==============================================================================
