--------------------------- MODULE Trace_Documents ---------------------------
(* B2/B3 judge for C18.  Every line of the trace file is what the REAL converters and loaders did with one    *)
(* document; the harness only projected the JSON / object graphs back to the vocabulary of Documents.tla.     *)
(*                                                                                                           *)
(* kind = "abstract" (B2): `doc` is the abstract legacy document TLC enumerated in MC_Documents; y, l, y2 are *)
(*   the projections of legacy_to_yang(J), yang_to_legacy(that), legacy_to_yang(that again); `loads` are      *)
(*   pairs of value-number vectors of the object graphs the loaders built from the legacy and the YANG file;  *)
(*   `lib` is the alias view of the loaded equipment library.                                                 *)
(* kind = "file" (B3): a shipped document; o, l1, y1, l2, y2 are value-number vectors over the union of the   *)
(*   leaf paths of the original, Y2L(L2Y(o)), L2Y(o), and the same one round later (0 = leaf absent);         *)
(*   inprec[i] says the original leaf has no more fraction digits than declared, norm[i] that the path is a   *)
(*   documented normalisation (see the evidence assumptions).                                                 *)
(* Monitor-shaped: one step per conversion stage, `viol` accumulates <<stage, clause>>.                       *)
EXTENDS Documents, Json, IOUtils

T == ndJsonDeserialize(IOEnv.TRACE_FILE)

VARIABLES tid, i, viol
vars == <<tid, i, viol>>

Stages == <<"ToYang", "ToLegacy", "Again", "OtherYangFiles", "Load">>

HasDoc(x) == x.extra # <<"~no-document">>
Core(x)   == [x EXCEPT !.extra = <<>>]
Set(s)    == {s[k] : k \in 1..Len(s)}
Failed(tr, stage) == \E k \in 1..Len(tr.exc) : tr.exc[k].stage = stage

AbstractClauses(tr, stage) ==
  LET d == tr.doc IN
  \* a document the YANG models cannot express and that the loaders refuse (tr.accepted: load_gnpy_json took the legacy
  \* file) is outside "every document accepted by the loaders": nothing to judge
  IF OutsideYangModel(d) /\ ~tr.accepted THEN {} ELSE
  CASE stage = "ToYang" ->
         \* ja = the caller's document object looked at again after legacy_to_yang returned: still the same document
         (IF ~HasDoc(tr.ja) \/ tr.ja.extra # <<>> \/ Core(tr.ja) # d THEN {"InputDocumentUntouched"} ELSE {})
         \cup
         (IF Failed(tr, "l2y") \/ ~HasDoc(tr.y) THEN {"ConvertsToYang"} ELSE
            (IF tr.y.extra # <<>> THEN {"NoForeignKeysInYang"} ELSE {})
            \cup (IF Core(tr.y) # L2Y(d) THEN {"YangFormAsSpecified"} ELSE {})
            \cup (IF Shape(tr.y) # Shape(d) THEN {"StructurePreserved"} ELSE {}))
    [] stage = "ToLegacy" ->
         (IF Failed(tr, "l2y") THEN {} ELSE
          IF Failed(tr, "y2l") \/ ~HasDoc(tr.l) THEN {"ConvertsBack"} ELSE
            (IF tr.l.extra # <<>> THEN {"NoForeignKeysInLegacy"} ELSE {})
            \cup (IF Core(tr.l) # d THEN {"RoundTrip"} ELSE {})
            \cup (IF Shape(tr.l) # Shape(d) THEN {"StructurePreserved"} ELSE {}))
    [] stage = "Again" ->
         (IF Failed(tr, "l2y") \/ Failed(tr, "y2l") THEN {} ELSE
          IF Failed(tr, "l2y2") \/ ~HasDoc(tr.y2) THEN {"ConvertsAgain"} ELSE
            (IF tr.y2 # tr.y THEN {"Idempotent"} ELSE {}))
    [] stage = "OtherYangFiles" ->
         \* two other YANG files of the same document: yr = the converter's output with its keyed lists listed in
         \* another order (as someone writing YANG by hand may do), yq = the same with every identityref leaf written
         \* with its module name ("gnpy-network-topology:Roadm"; both spellings are valid YANG JSON), yw = the file the converter's WRITER (dump_data,
         \* the convert_legacy_yang command) produces.  lr / lw are what yang_to_legacy makes of them.
         \* Both must mean what the converter's in-memory output means (which RoundTrip compares with the document).
         IF Failed(tr, "l2y") \/ Failed(tr, "y2l") \/ ~HasDoc(tr.l) THEN {} ELSE
           (IF Failed(tr, "reordered") \/ ~HasDoc(tr.lr) THEN {"ConvertsReorderedYang"}
            ELSE IF tr.lr # tr.l THEN {"KeyedListOrderIrrelevant"} ELSE {})
           \* yv = the converter's output with the entries of g0_per_frequency / loss_coef_per_frequency listed in
           \* another order: the legacy vectors may come in that order, each value must stay with its key
           \cup (IF Failed(tr, "revectors") \/ ~HasDoc(tr.lv) THEN {"ConvertsReorderedYang"}
                 ELSE IF ~SameUpToVectorOrder(tr.lv, tr.l) THEN {"KeyedPairsStayTogether"} ELSE {})
           \cup (IF Failed(tr, "qualified") \/ ~HasDoc(tr.lq) THEN {"ConvertsQualifiedYang"}
                 ELSE IF tr.lq # tr.l THEN {"IdentitySpellingIrrelevant"} ELSE {})
           \cup (IF Failed(tr, "written") \/ ~HasDoc(tr.lw) THEN {"WritesYangFile"}
                 ELSE IF tr.lw # tr.l THEN {"WrittenFileMeansTheSame"} ELSE {})
    [] stage = "Load" ->
         UNION {LET ld == tr.loads[k] IN
                  (IF ld.ea # ld.eb \/ ld.a # ld.b THEN {"SameLoaded_" \o ld.role} ELSE {})
                : k \in 1..Len(tr.loads)}
         \cup (IF d.kind = "equipment" /\ tr.libok /\ ~AliasClause(d, Set(tr.lib)) THEN {"AliasesReportTheirName"} ELSE {})

\* shipped files: vectors are aligned, 0 = no such leaf
Idx(tr) == 1..Len(tr.o)
FileClauses(tr, stage) ==
  CASE stage = "ToYang" -> IF tr.st = "ok" THEN {} ELSE {}
    [] stage = "ToLegacy" ->
         IF tr.st # "ok" THEN {} ELSE
           (IF \E k \in Idx(tr) : tr.inprec[k] /\ ~tr.norm[k] /\ tr.o[k] # 0 /\ tr.same[k] # tr.o[k]
              THEN {"PreservesValues"} ELSE {})
           \cup (IF \E k \in Idx(tr) : ~tr.norm[k] /\ tr.o[k] = 0 /\ tr.same[k] # 0 THEN {"InventsNothing"} ELSE {})
    [] stage = "OtherYangFiles" -> {}
    [] stage = "Again" ->
         IF tr.st # "ok" THEN {} ELSE
           (IF tr.l2 # tr.l1 THEN {"IdempotentLegacy"} ELSE {}) \cup (IF tr.y2 # tr.y1 THEN {"IdempotentYang"} ELSE {})
    [] stage = "Load" ->
         IF tr.st # "ok" THEN {} ELSE
         UNION {LET ld == tr.loads[k] IN
                  (IF ld.ea # ld.eb \/ ld.a # ld.b THEN {"SameLoaded_" \o ld.role} ELSE {})
                : k \in 1..Len(tr.loads)}

Clauses(tr, stage) == IF tr.kind = "abstract" THEN AbstractClauses(tr, stage) ELSE FileClauses(tr, stage)

Init == /\ tid \in 1..Len(T)
        /\ i = 0
        /\ viol = {}
Next == /\ i < Len(Stages)
        /\ i' = i + 1
        /\ tid' = tid
        /\ viol' = viol \cup {<<Stages[i + 1], c>> : c \in Clauses(T[tid], Stages[i + 1])}

Done == i < Len(Stages) \/ PrintT("@@" \o ToJson([name |-> T[tid].name, n |-> i, viol |-> viol]))
==============================================================================
