CONSTANTS
  Cases <- MCCases
  MaxLib = 2
  WidePairs = FALSE
  EmitStride = 1
INIT MCInit
NEXT Next
INVARIANT TypeOK
INVARIANT ChosenPermitted
INVARIANT CoversBand
INVARIANT RamanOnlyIfAllowed
INVARIANT CapableIfPossible
INVARIANT QuietestCapable
INVARIANT NeverRefusesWhenCapable
INVARIANT RestrictIsPermitted
INVARIANT CanAlwaysConclude
INVARIANT SketchRefinesProperty
