--------------------------- MODULE MC_NetworkLoad ---------------------------
(* Bounded instance of NetworkLoad.tla.  Function-shaped: every initial state is ONE topology document loaded against    *)
(* the library below; `o` is the outcome of the load.  The lemmas are invariants; Emit prints                            *)
(* [c |-> document, e |-> expected outcome] for the replay into the real gnpy.tools.json_io.network_from_json            *)
(* (harness/netload_util.py).  The library is printed once (Header) so that the harness builds the equipment document    *)
(* from the specification and not from a copy of it.                                                                     *)
(* Families of cases:  one element of every type x variety x written-parameter pattern (no connection);  a fixed set of  *)
(* elements x every connection list of up to 3 entries over 8 connections, and the same elements with two uids used      *)
(* twice x the lists that matter there;  pairs of elements that cannot be loaded for different reasons (which refusal is  *)
(* reported, before or after a connection to nowhere).                                                                   *)
EXTENDS NetworkLoad, Json

\* --- the library: the __dict__ of the loaded entries, in the specification's units
FibreEntry(name, disp, area, pmd) ==
    Leaf([type_variety |-> name, dispersion |-> disp, effective_area |-> area, pmd_coef |-> pmd])
EdfaEntry(name, def, gmax, gmin, pmax, auto, design) ==
    Leaf([type_variety |-> name, type_def |-> def, f_min |-> 191275, f_max |-> 196125, gain_flatmax |-> gmax,
          gain_min |-> gmin, p_max |-> pmax, out_voa_auto |-> auto, allowed_for_design |-> design])
RoadmEntry(name, eqkey, eqval, osnr, pmd, pdl, pre, boo) ==
    Dict((eqkey :> eqval) @@ ("roadm-path-impairments" :> << >>)
             @@ [type_variety |-> name, add_drop_osnr |-> osnr, pmd |-> pmd, pdl |-> pdl],
         [restrictions |-> Leaf([preamp_variety_list |-> pre, booster_variety_list |-> boo])])
\* SSMF has a pmd_coef and an area; NZDF has neither (the equipment loader then says pmd_coef 0, effective_area None)
SSMF == FibreEntry("SSMF", 1670, 830, 1265)
Lib == [Fiber       |-> [SSMF |-> SSMF, NZDF |-> FibreEntry("NZDF", 500, NONE, 0)],
        RamanFiber  |-> [SSMF |-> SSMF],
        Edfa        |-> [ampA |-> EdfaEntry("ampA", "variable_gain", 26000, 15000, 23000, 0, 1),
                         ampB |-> EdfaEntry("ampB", "fixed_gain", 21000, 20000, 21000, 1, 0)],
        \* the ROADM without type_variety is filed under "default" by the equipment loader: power equalisation;
        \* "psd" equalises power spectral density and has other impairments and no amplifier restriction
        Roadm       |-> [default |-> RoadmEntry("default", "target_pch_out_db", 0 - 20000, 38000, 0, 0, <<"ampA">>, <<"ampB">>),
                         psd     |-> RoadmEntry("psd", "target_psd_out_mWperGHz", 250, 35000, 3000, 500, << >>, << >>)],
        \* the transceivers of example-data/eqpt_config.json, untouched (only their names matter to the loader)
        Transceiver |-> ("vendorA_trx-type1" :> Leaf([type_variety |-> "vendorA_trx-type1"]))
                            @@ [Voyager |-> Leaf([type_variety |-> "Voyager"])]]
Header == PrintT("@@" \o ToJson([lib |-> Lib, edfa_default |-> EdfaDefaultValues]))
ASSUME Header

-----------------------------------------------------------------------------
(* the vocabulary *)
ABSENT == 0 - 9998                                     \* MC only: "do not write this key"
Opt(k, x) == IF x = ABSENT THEN NoKeys ELSE (k :> x)
El(uid, type, variety, hasParams, params, hasOper, oper) ==
    [uid |-> uid, type |-> type, variety |-> variety, hasParams |-> hasParams, params |-> params,
     hasOper |-> hasOper, oper |-> oper]
WithParams(type, variety, params) == El("e1", type, variety, TRUE, params, FALSE, EmptyDict)
Bare(type, variety)               == El("e1", type, variety, FALSE, EmptyDict, FALSE, EmptyDict)
Single(fam, el) == [fam |-> fam, elements |-> << el >>, connections |-> << >>]

\* --- fibres.  80 km of 0.25 dB/km; every optional key absent / a value / 0 / null
FibreMandatory == [length |-> 80, length_units |-> UnitKm, loss_coef |-> 250]
FibreOptional ==
    {Opt("dispersion", d) @@ Opt("effective_area", a) @@ Opt("pmd_coef", m) @@ Opt("att_in", t)
        @@ Opt("con_in", cc[1]) @@ Opt("con_out", cc[2]) :
        d \in {ABSENT, 2000, 0, NONE}, a \in {ABSENT, 700, NONE}, m \in {ABSENT, 2000, 0, NONE},
        t \in {ABSENT, 1500, 0, NONE}, cc \in {<<ABSENT, ABSENT>>, <<500, 250>>, <<NONE, NONE>>, <<0, ABSENT>>}}
FibreFull == {Single("Fiber", WithParams("Fiber", v, Leaf(opt @@ FibreMandatory))) :
                  v \in {"SSMF", "NZDF"}, opt \in FibreOptional}
\* the mandatory keys and the unit, with nothing / everything optional written; the order of the refusals
PerFreq == Dict([length |-> 80, length_units |-> UnitKm],
                [loss_coef |-> Leaf([value |-> <<250, 500>>, frequency |-> <<191000, 196000>>])])
FibreMandatoryVariants ==
    {Leaf([length |-> 500, length_units |-> UnitM, loss_coef |-> 125]),            \* metres
     Leaf([length |-> 80, length_units |-> 914, loss_coef |-> 250]),               \* "yards"
     Leaf([length_units |-> UnitKm, loss_coef |-> 250]),                           \* no length
     Leaf([length |-> 80, loss_coef |-> 250]),                                     \* no unit
     Leaf([length |-> 80, length_units |-> UnitKm]),                               \* no loss
     Leaf([length_units |-> 914, loss_coef |-> 250]),                              \* no length AND a bad unit
     Leaf([length |-> 80, length_units |-> 914]),                                  \* a bad unit AND no loss
     Leaf([loss_coef |-> 250]), EmptyDict,
     PerFreq,
     Dict([pmd_coef |-> 2000, con_out |-> 500] @@ PerFreq.val, PerFreq.sub)}
FibreThin == {Single("Fiber", WithParams(t, v, p)) : t \in {"Fiber"}, v \in {"SSMF", "NZDF"}, p \in FibreMandatoryVariants}
                \cup {Single("Fiber", Bare("Fiber", v)) : v \in {"SSMF", NoName}}
\* the variety: absent, unknown, empty, a name another section of the library knows
FibreVariety == {Single("Fiber", WithParams("Fiber", v, Leaf(opt @@ FibreMandatory))) :
                     v \in {NoName, "LOF", "", "ampA", "default"}, opt \in {NoKeys, [pmd_coef |-> 2000, dispersion |-> 0]}}

\* --- Raman fibres: the operational block and the output connector
Pumps(temperature, n) == Leaf(Opt("temperature", temperature) @@ Opt("raman_pumps", n))
RamanCases ==
    {Single("RamanFiber", El("e1", "RamanFiber", v, TRUE, Leaf(Opt("con_out", co) @@ mand), op[1], op[2])) :
         v \in {"SSMF", "NZDF", NoName}, co \in {ABSENT, 500, 0, NONE},
         mand \in {FibreMandatory, [length |-> 80, length_units |-> UnitKm]},
         op \in {<<FALSE, EmptyDict>>, <<TRUE, EmptyDict>>, <<TRUE, Pumps(283, 2)>>, <<TRUE, Pumps(283, 0)>>,
                 <<TRUE, Pumps(ABSENT, 1)>>, <<TRUE, Pumps(283, ABSENT)>>}}

\* --- amplifiers
EdfaWritten == {Opt("gain_flatmax", g) @@ Opt("gain_min", m) @@ Opt("p_max", p) @@ Opt("allowed_for_design", ao[1])
                    @@ Opt("out_voa_auto", ao[2]) :
                    g \in {ABSENT, 30000, NONE}, m \in {ABSENT, 0, NONE}, p \in {ABSENT, 25000},
                    ao \in {<<ABSENT, ABSENT>>, <<0, 1>>, <<1, ABSENT>>}}
EdfaOper == {<<FALSE, EmptyDict>>, <<TRUE, EmptyDict>>,
             <<TRUE, Leaf([gain_target |-> 20000, tilt_target |-> 0, out_voa |-> 1000])>>,
             <<TRUE, Leaf([gain_target |-> 18500, delta_p |-> 0 - 1000, in_voa |-> 500, tilt_target |-> 0 - 500, out_voa |-> 0])>>,
             <<TRUE, Leaf([gain_target |-> NONE, delta_p |-> NONE, in_voa |-> NONE, tilt_target |-> NONE, out_voa |-> NONE])>>}
\* no variety and the two known ones under everything; the other spellings under a few patterns
EdfaCases == {Single("Edfa", El("e1", "Edfa", v, TRUE, Leaf(w), op[1], op[2])) :
                  v \in {NoName, "ampA", "ampB"}, w \in EdfaWritten, op \in EdfaOper}
             \cup {Single("Edfa", El("e1", "Edfa", v, TRUE, Leaf(w), op[1], op[2])) :
                       v \in {"ampX", "", "default", "SSMF"},
                       w \in {NoKeys, [gain_flatmax |-> 30000], [gain_min |-> 0, p_max |-> NONE, allowed_for_design |-> 1]},
                       op \in {x \in EdfaOper : ~x[1] \/ "delta_p" \in DOMAIN x[2].val}}
             \cup {Single("Edfa", Bare("Edfa", v)) : v \in {NoName, "ampA", "ampX", ""}}

\* --- ROADMs: each equalisation key absent / a value / null; other parameters; a partial restrictions object;
\*     per-degree targets of one and of two kinds
Restrictions == {<<FALSE, EmptyDict>>, <<TRUE, Leaf([preamp_variety_list |-> <<"ampB">>])>>,
                 <<TRUE, Leaf([preamp_variety_list |-> << >>, booster_variety_list |-> <<"ampA", "ampB">>])>>}
PerDegrees == {NoKeys,
               [per_degree_pch_out_db |-> Leaf([d1 |-> 0 - 19000])],
               [per_degree_pch_out_db |-> Leaf([d1 |-> 0 - 19000, d2 |-> 0 - 21500]),
                per_degree_psd_out_mWperGHz |-> Leaf([d3 |-> 300])]}
EqChoices == {<<pch, psd, psw>> : pch \in {ABSENT, 0 - 18000, NONE}, psd \in {ABSENT, 300, NONE}, psw \in {ABSENT, 200, NONE}}
KeysWritten(eq) == Cardinality({i \in 1..3 : eq[i] # ABSENT})
RoadmDict(eq, ao, re, pd) ==
    Dict(Opt("target_pch_out_db", eq[1]) @@ Opt("target_psd_out_mWperGHz", eq[2]) @@ Opt("target_out_mWperSlotWidth", eq[3])
             @@ Opt("add_drop_osnr", ao[1]) @@ Opt("pdl", ao[2]),
         (IF re[1] THEN [restrictions |-> re[2]] ELSE NoKeys) @@ pd)
\* at most one equalisation key under every other pattern; two and three keys (20 combinations) under two patterns
RoadmWritten ==
    {RoadmDict(eq, ao, re, pd) :
         eq \in {x \in EqChoices : KeysWritten(x) <= 1},
         ao \in {<<ABSENT, ABSENT>>, <<30000, ABSENT>>, <<ABSENT, 0>>, <<NONE, 250>>}, re \in Restrictions, pd \in PerDegrees}
    \cup {RoadmDict(eq, ao, <<FALSE, EmptyDict>>, pd) :
              eq \in {x \in EqChoices : KeysWritten(x) >= 2}, ao \in {<<ABSENT, ABSENT>>, <<30000, ABSENT>>},
              pd \in {x \in PerDegrees : Cardinality(DOMAIN x) # 1}}
RoadmCases == {Single("Roadm", WithParams("Roadm", v, w)) : v \in {NoName, "psd"}, w \in RoadmWritten}
              \cup {Single("Roadm", WithParams("Roadm", v, Leaf(Opt("target_pch_out_db", pch) @@ Opt("target_psd_out_mWperGHz", psd)))) :
                        v \in {"roadmX", "", "default", "ampA"}, pch \in {ABSENT, 0 - 18000}, psd \in {ABSENT, 300}}
              \cup {Single("Roadm", Bare("Roadm", v)) : v \in {NoName, "psd", "roadmX"}}

\* --- transceivers, fused, types the loader does not know
OtherCases ==
    {Single("Transceiver", El("e1", "Transceiver", v, hp, EmptyDict, FALSE, EmptyDict)) :
         v \in {NoName, "Voyager", "vendorA_trx-type1", "trxX", "", "default"}, hp \in BOOLEAN}
    \cup {Single("Fused", El("e1", "Fused", v, lo[1], lo[2], FALSE, EmptyDict)) :
              v \in {NoName, "fusedX", "SSMF"},
              lo \in {<<FALSE, EmptyDict>>, <<TRUE, EmptyDict>>} \cup {<<TRUE, Leaf([loss |-> x])>> : x \in {0, 500, NONE}}}
    \cup {Single("UnknownType", Bare(t, v)) : t \in {"Amplifier", "", "fiber"}, v \in {NoName, "SSMF"}}

\* --- graphs.  t1 r1 f1(80 km) a1 f2(500 m) t2, then the same with uid f1 taken again by a 40 km fibre and uid f2 by a
\*     transceiver.  Connections: the chain, a self-loop, an unknown source, an unknown destination.
Fib(uid, len, unit) == El(uid, "Fiber", "SSMF", TRUE, Leaf([length |-> len, length_units |-> unit, loss_coef |-> 250]), FALSE, EmptyDict)
Plain(uid, type)    == El(uid, type, NoName, FALSE, EmptyDict, FALSE, EmptyDict)
Elements1 == << Plain("t1", "Transceiver"), Plain("r1", "Roadm"), Fib("f1", 80, UnitKm), Plain("a1", "Edfa"),
                Fib("f2", 500, UnitM), Plain("t2", "Transceiver") >>
Elements2 == Elements1 \o << Fib("f1", 40, UnitKm), Plain("f2", "Transceiver") >>
Cx(a, b) == [from |-> a, to |-> b]
CxVocab == {Cx("t1", "r1"), Cx("r1", "f1"), Cx("f1", "a1"), Cx("a1", "f2"), Cx("f2", "t2"), Cx("f1", "f1"),
            Cx("zz", "f1"), Cx("a1", "zz")}
CxLists == {<< >>} \cup {<<a>> : a \in CxVocab} \cup {<<a, b>> : a, b \in CxVocab} \cup {<<a, b, d>> : a, b, d \in CxVocab}
\* with the uids taken twice: up to two connections, and every triple over the connections that touch f1 or f2
CxTwice == {cx \in CxLists : Len(cx) <= 2}
               \cup {<<a, b, d>> : a, b, d \in {x \in CxVocab : {x.from, x.to} \cap {"f1", "f2"} # {} /\ "zz" \notin {x.from, x.to}}}
GraphCases == {[fam |-> "graph", elements |-> Elements1, connections |-> cx] : cx \in CxLists}
                  \cup {[fam |-> "graph", elements |-> Elements2, connections |-> cx] : cx \in CxTwice}

\* --- which refusal is reported: two elements, each loadable or refused for its own reason, and a connection to nowhere
Rep(uid) == {Fib(uid, 80, UnitKm),
             El(uid, "Fiber", "LOF", TRUE, Leaf(FibreMandatory), FALSE, EmptyDict),                          \* CE UnknownVariety
             El(uid, "RamanFiber", "SSMF", TRUE, Leaf([con_out |-> 500] @@ FibreMandatory), FALSE, EmptyDict), \* NTE
             El(uid, "Fiber", "SSMF", TRUE, Leaf([length |-> 80, length_units |-> UnitKm]), FALSE, EmptyDict),  \* PE
             El(uid, "Roadm", NoName, TRUE, Leaf([target_pch_out_db |-> 0 - 18000, target_psd_out_mWperGHz |-> 300]),
                FALSE, EmptyDict)}                                                                              \* CE TwoEqualisations
OrderCases == {[fam |-> "order", elements |-> <<a, b>>, connections |-> cx] :
                   a \in Rep("u1"), b \in Rep("u2"), cx \in {<< >>, <<Cx("u1", "u2")>>, <<Cx("u2", "zz")>>}}

Cases == FibreFull \cup FibreThin \cup FibreVariety \cup RamanCases \cup EdfaCases \cup RoadmCases \cup OtherCases
             \cup GraphCases \cup OrderCases

VARIABLES c, o
Init == /\ c \in Cases
        /\ o = Load(Lib, c)
Next == UNCHANGED <<c, o>>

-----------------------------------------------------------------------------
(* the lemmas of NetworkLoad.tla on this case *)
EachElement(P(_)) == \A i \in 1..Len(c.elements) : P(c.elements[i])
LMergeLaws                 == EachElement(LAMBDA el : KnownVariety(Lib, el) => MergeLaws(Params(el), Lib[el.type][Variety(el)]))
LMergeable                 == EachElement(LAMBDA el : KnownVariety(Lib, el) => Mergeable(Params(el), Lib[el.type][Variety(el)]))
LElementWins               == EachElement(LAMBDA el : ElementWins(Lib, el))
LLibraryFillsGaps          == EachElement(LAMBDA el : LibraryFillsGaps(Lib, el))
LNothingInvented           == EachElement(LAMBDA el : NothingInvented(Lib, el))
LUnknownVarietyRejected    == EachElement(LAMBDA el : UnknownVarietyRejected(Lib, el))
LVarietyForgotten          == EachElement(LAMBDA el : VarietyForgotten(Lib, el))
LVarietyKept               == EachElement(LAMBDA el : VarietyKept(Lib, el))
LPlaceholderEdfaHasNoVariety == EachElement(LAMBDA el : PlaceholderEdfaHasNoVariety(Lib, el))
LEdfaParamsMerged          == EachElement(LAMBDA el : EdfaParamsMerged(Lib, el))
LDefaultsOnlyWhenAbsent    == EachElement(LAMBDA el : DefaultsOnlyWhenAbsent(Lib, el))
LOnePolicyAfterLoad        == EachElement(LAMBDA el : OnePolicyAfterLoad(Lib, el))
LTwoPoliciesRejected       == EachElement(LAMBDA el : TwoPoliciesRejected(Lib, el))
LRoadmParamsNeverSeesTwo   == EachElement(LAMBDA el : RoadmParamsNeverSeesTwo(Lib, el))
LPerDegreeAsWritten        == EachElement(LAMBDA el : PerDegreeAsWritten(Lib, el))
LPmdCoefRemembered         == EachElement(LAMBDA el : PmdCoefRemembered(Lib, el))
LFibreGeometry             == EachElement(LAMBDA el : FibreGeometry(Lib, el))
LRamanComplete             == EachElement(LAMBDA el : RamanComplete(Lib, el))
LElementErrorsClassified   == EachElement(LAMBDA el : ElementErrorsClassified(Lib, el))
LLoadedIff                 == LoadedIff(Lib, c, o)
LFirstErrorWins            == FirstErrorWins(Lib, c, o)
LEveryElementIsANode       == EveryElementIsANode(Lib, c, o)
LEveryConnectionEndpointExists == EveryConnectionEndpointExists(c, o)
LNoEdgeInvented            == NoEdgeInvented(c, o)
LFibreEdgesWeighLength     == FibreEdgesWeighLength(o)
LRepeatedConnectionIsOneEdge == RepeatedConnectionIsOneEdge(c, o)
LShadowedNodeIsIsolated    == ShadowedNodeIsIsolated(o)
LLoadErrorsClassified      == LoadErrorsClassified(o)

Emit == PrintT("@@" \o ToJson([c |-> c, e |-> o]))

-----------------------------------------------------------------------------
(* Checked once, before the search: every refusal has a witness, no lemma is vacuous, and the SURPRISES recorded in        *)
(* NetworkLoad.tla are real on this instance.                                                                            *)
Singles  == {x \in Cases : Len(x.elements) = 1}
ResolvedSingles == {[x |-> x.elements[1], r |-> ResolveElement(Lib, x.elements[1])] : x \in Singles}
LoadedGraphs == {[x |-> x, r |-> Load(Lib, x)] : x \in GraphCases \cup OrderCases}
Written(w, k) == k \in DOMAIN Params(w.x).val
EveryRuleFires(Resolved, Graphs) ==
    /\ \A rule \in ElementRules : \E w \in Resolved : ~IsOk(w.r) /\ <<w.r.kind, w.r.rule>> = rule
    /\ \E g \in Graphs : g.r = Err(NTE, "UnknownEndpoint")
    \* every refusal of an element is also seen as the outcome of a whole load, after a loadable element
    /\ \A kind \in {CE, NTE, PE} : \E g \in Graphs : /\ ~IsOk(g.r) /\ g.r.kind = kind /\ g.x.fam = "order"
                                                      /\ IsOk(ResolveElement(Lib, g.x.elements[1]))
NonVacuous(Resolved, Graphs) ==
    \* ElementWins: a value, a 0, a null and a nested key written over a different library value, element loaded
    /\ \E w \in Resolved : IsOk(w.r) /\ w.x.type = "Fiber" /\ Written(w, "dispersion") /\ w.r.p.dispersion = 0
    /\ \E w \in Resolved : IsOk(w.r) /\ w.x.type = "Fiber" /\ Written(w, "dispersion") /\ w.r.p.dispersion = NONE
    /\ \E w \in Resolved : IsOk(w.r) /\ w.x.type = "Edfa" /\ w.r.variety = "ampA" /\ w.r.p.gain_min = 0 /\ w.r.p.gain_flatmax = 30000
    /\ \E w \in Resolved : IsOk(w.r) /\ w.x.type = "Roadm" /\ w.r.p.preamp_variety_list = <<"ampB">>
                               /\ w.r.p.booster_variety_list = <<"ampB">>              \* nested: one list written, one filled
    \* LibraryFillsGaps
    /\ \E w \in Resolved : IsOk(w.r) /\ w.x.type = "Fiber" /\ ~Written(w, "dispersion") /\ w.r.p.dispersion = 500
    /\ \E w \in Resolved : IsOk(w.r) /\ w.x.type = "Fiber" /\ w.r.variety = "NZDF" /\ w.r.p.effective_area = DefaultEffectiveArea
    /\ \E w \in Resolved : IsOk(w.r) /\ w.x.type = "Roadm" /\ w.r.variety = "psd" /\ w.r.p.add_drop_osnr = 35000
    \* varieties
    /\ \E w \in Resolved : IsOk(w.r) /\ w.x.type = "Roadm" /\ w.x.variety = NoName /\ w.r.variety = "default"
    /\ \E w \in Resolved : IsOk(w.r) /\ w.x.type = "Transceiver" /\ w.r.variety = "Voyager"
    /\ \E w \in Resolved : IsPlaceholder(Lib, w.x) /\ w.x.variety = ""
    /\ \E w \in Resolved : IsPlaceholder(Lib, w.x) /\ w.x.variety = NoName /\ w.r.p.operational.gain_target = 20000
    \* equalisation
    /\ \E w \in Resolved : IsOk(w.r) /\ w.r.variety = "psd" /\ w.r.p.target_pch_out_db = 0 - 18000
                               /\ w.r.p.target_psd_out_mWperGHz = NONE                 \* another kind than the library's
    /\ \E w \in Resolved : IsOk(w.r) /\ w.r.variety = "psd" /\ w.r.p.target_psd_out_mWperGHz = 300   \* the same kind, another value
    /\ \E w \in Resolved : IsOk(w.r) /\ w.x.type = "Roadm" /\ w.r.p.target_out_mWperSlotWidth = 200
    /\ \E w \in Resolved : IsOk(w.r) /\ w.x.type = "Roadm" /\ DOMAIN w.r.p.per_degree_pch_psd # {}
                               /\ w.r.p.target_pch_out_db # NONE
    \* fibres
    /\ \E w \in Resolved : IsOk(w.r) /\ w.x.type = "Fiber" /\ w.r.p.pmd_coef_defined = 1 /\ w.r.p.pmd_coef = 2000
    /\ \E w \in Resolved : IsOk(w.r) /\ w.x.type = "Fiber" /\ w.r.p.length = 500
    /\ \E w \in Resolved : IsOk(w.r) /\ w.x.type = "Fiber" /\ w.r.p.loss_per_freq /\ Len(w.r.p.loss_coef) = 2
    /\ \E w \in Resolved : IsOk(w.r) /\ w.x.type = "RamanFiber" /\ w.r.p.npumps = 2 /\ w.r.p.con_out = 0
    \* graphs
    /\ \E g \in Graphs : IsOk(g.r) /\ Cardinality(g.r.edges) = 3 /\ \E e \in g.r.edges : e.w = 8000000
    /\ \E g \in Graphs : IsOk(g.r) /\ \E e \in g.r.edges : e.w = 50000
    /\ \E g \in Graphs : IsOk(g.r) /\ Len(g.x.connections) = 3 /\ Cardinality(g.r.edges) = 1       \* one connection three times
    /\ \E g \in Graphs : IsOk(g.r) /\ \E e \in g.r.edges : e.from = e.to                             \* a self-loop is loaded
    \* FirstErrorWins: two refusals of different kinds, the first is reported; a refusal of the SECOND element is reported
    \* although a connection (read later) names an unknown uid
    /\ \E g \in Graphs : LET r1 == ResolveElement(Lib, g.x.elements[1])
                              r2 == ResolveElement(Lib, g.x.elements[2])
                          IN g.x.fam = "order" /\ ~IsOk(r1) /\ ~IsOk(r2) /\ r1.kind # r2.kind /\ g.r = r1
    /\ \E g \in Graphs : LET r1 == ResolveElement(Lib, g.x.elements[1])
                              r2 == ResolveElement(Lib, g.x.elements[2])
                          IN g.x.fam = "order" /\ IsOk(r1) /\ ~IsOk(r2) /\ ~AllEndpointsKnown(g.x) /\ g.r = r2
Surprises(Resolved, Graphs) ==
    \* the placeholder Edfa drops the params its element wrote
    /\ \E w \in Resolved : IsPlaceholder(Lib, w.x) /\ Written(w, "gain_flatmax") /\ Params(w.x).val["gain_flatmax"] = 30000
                               /\ w.r.p.gain_flatmax = NONE
    \* pmd_coef 0 written on a fibre whose type has another value: the library's is used
    /\ \E w \in Resolved : IsOk(w.r) /\ Written(w, "pmd_coef") /\ Params(w.x).val["pmd_coef"] = 0 /\ w.r.p.pmd_coef = 1265
    \* one equalisation key written with null: a ROADM without any policy
    /\ \E w \in Resolved : IsOk(w.r) /\ w.x.type = "Roadm" /\ Policies(w.r.p) = {}
    \* two equalisation keys, only one of them with a value: refused all the same
    /\ \E w \in Resolved : w.r = Err(CE, "TwoEqualisations") /\ Cardinality({k \in EqWritten(Params(w.x)) : Params(w.x).val[k] # NONE}) = 1
    \* a RamanFiber with pumps and temperature but no con_out: TypeError; the same params make a loadable Fiber
    /\ \E w \in Resolved : w.r = Err(TE, "RamanNeedsConOut") /\ ~Written(w, "con_out")
                               /\ IsOk(ResolveElement(Lib, [w.x EXCEPT !.type = "Fiber"]))
    \* null is kept where a default exists
    /\ \E w \in Resolved : IsOk(w.r) /\ w.x.type = "Fiber" /\ w.r.p.att_in = NONE
    /\ \E w \in Resolved : IsOk(w.r) /\ w.x.type = "Edfa" /\ w.r.p.operational.in_voa = NONE
    /\ \E w \in Resolved : IsOk(w.r) /\ w.x.type = "Fused" /\ w.r.p.loss = NONE
    \* a fibre without type_variety is refused, an unknown transceiver variety is forgotten
    /\ \E w \in Resolved : w.x.type = "Fiber" /\ w.x.variety = NoName /\ w.r = Err(CE, "UnknownVariety")
    /\ \E w \in Resolved : IsOk(w.r) /\ w.x.type = "Transceiver" /\ w.x.variety = "trxX" /\ w.r.variety = NoName
    \* a uid used twice: both nodes, the edges go to the later one (here: the 40 km fibre, and a transceiver named f2)
    /\ \E g \in Graphs : IsOk(g.r) /\ Len(g.r.nodes) = 8 /\ \E e \in g.r.edges : e.from = 7 /\ e.w = 4000000
    /\ \E g \in Graphs : IsOk(g.r) /\ Len(g.r.nodes) = 8 /\ \E e \in g.r.edges : e.from = 8 /\ e.w = 1
\* (one ASSUME, the two sets bound once: TLC re-evaluates a definition at every use inside an ASSUME)
ASSUME LET R == ResolvedSingles
           G == LoadedGraphs
       IN EveryRuleFires(R, G) /\ NonVacuous(R, G) /\ Surprises(R, G)
==============================================================================
