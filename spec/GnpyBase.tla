------------------------------- MODULE GnpyBase -------------------------------
(* Shared arithmetic for the GNPy specification.                                                             *)
(* All physical quantities are integers in a domain where GNPy's bookkeeping is linear:                      *)
(*   micro-dB for powers/gains/losses/SNR, ppb for power shares, 1e-9 for reciprocal linear SNR, ...        *)
(* +/- infinity are the integer sentinels +/-Inf (TLC cannot compare integers with strings).                 *)
EXTENDS Integers, Sequences, FiniteSets

Inf  == 2000000000
NONE == -9999                       \* "absent" for N / M values and optional integers

MinI(a, b) == IF a <= b THEN a ELSE b
MaxI(a, b) == IF a >= b THEN a ELSE b
AbsI(a)    == IF a >= 0 THEN a ELSE -a
Within(a, b, tol) == AbsI(a - b) <= tol
IsInf(a)   == a >= Inf \/ a <= -Inf
\* saturating addition: anything plus an infinity stays that infinity
Plus(a, b) == IF a >= Inf \/ b >= Inf THEN Inf ELSE IF a <= -Inf \/ b <= -Inf THEN -Inf ELSE a + b

SetMin(S) == CHOOSE x \in S : \A y \in S : x <= y
SetMax(S) == CHOOSE x \in S : \A y \in S : x >= y

RECURSIVE SumSeq(_)
SumSeq(s) == IF s = <<>> THEN 0 ELSE Head(s) + SumSeq(Tail(s))

RECURSIVE SumFun(_, _)
SumFun(f, D) == IF D = {} THEN 0 ELSE LET x == CHOOSE y \in D : TRUE IN f[x] + SumFun(f, D \ {x})

SeqRange(s) == {s[i] : i \in 1..Len(s)}
IsStrictlyIncreasing(s) == \A i \in 1..(Len(s) - 1) : s[i] < s[i + 1]
==============================================================================
