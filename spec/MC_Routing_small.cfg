CONSTANTS
  Graphs <- MCGraphs
  BatchesOf <- MCBatchesOf
  NSites = 3
  UseSample = FALSE
  OneSrcDst = FALSE
  Thin = 1
  LinePer = 6
  TwinPer = 3
  PairPer = 8
  TriplePer = 6
  OverlapPer = 6
  Doubling = FALSE
  PairsFirstAll = TRUE
  GridCols = 0
  GroupsExhaustive = TRUE
  Salt = 0
INIT Init
NEXT Next
INVARIANT PathsAreReal
INVARIANT PathsAreLoopFree
INVARIANT StrictHopsAreCrossed
INVARIANT IncludesAreInOrder
INVARIANT ShortestAmongFeasible
INVARIANT LooseDropped
INVARIANT BlockedExactlyWhenNoRoute
INVARIANT BlockingReasonNamesCause
INVARIANT ReverseVisitsSameSites
INVARIANT DisjointGroupsShareNoLink
INVARIANT GroupedRequestsAreRouted
INVARIANT ErrorOnlyWithGroups
INVARIANT PairIsComplete
INVARIANT ErrorWhenNothingFits
INVARIANT JudgeAcceptsModel
INVARIANT SubsequenceFormsAgree
INVARIANT DeviationsAreRejected
INVARIANT PairDeviationsAreRejected
INVARIANT RelaxableDeviationsAreRejected
