CONSTANTS
  Req <- MCReq
  MaxSlots = 2
  Redesign = FALSE
INIT Init
NEXT Next
INVARIANT TypeOK
INVARIANT OnlyDesignChangesSettings
INVARIANT OnlyAssignChangesOccupancy
INVARIANT OccupancyMonotone
INVARIANT SimParamsUntouched
INVARIANT BlockedHoldsNothing
INVARIANT OccupancyIsSumOfHoldings
INVARIANT NoPathNeverPropagated
INVARIANT BlockedBeforeAssignNeverAssigned
INVARIANT ServedHoldsSomething
