----------------------------- MODULE Trace_Design -----------------------------
(* B2 / B3 for C08 and C17: what the real gnpy did is judged here.  One trace per line of TRACE_FILE:           *)
(*   [name, s (Span settings), inp (topology given to designed_network, as DesignGraph elements),               *)
(*    ev: sequence of events]                                                                                  *)
(* Events (op):                                                                                                 *)
(*   "Design"    g    = the graph observed after designed_network()           -> the C08 clauses of DesignGraph  *)
(*               inp  (optional) = the topology this design was given when it is not the trace's: the same network   *)
(*                      object, extended in memory after an earlier design, is designed again                      *)
(*   "Export"    x    = projected network_to_json of a designed network; every Export after the first one is    *)
(*                      the export of  design(load(previous export))          -> Fixpoint* clauses               *)
(*   "Twin"      x    = export of a second, independent design of the same input as the last Export (in the same   *)
(*                      process after "Elsewhere" designs, or in a process with another history)                  *)
(*                                                                            -> Deterministic                   *)
(*   "Elsewhere" = another designed_network() call (other options: an explicit design power) was made with the   *)
(*                      same equipment library between the design just exported and its Twin                     *)
(*   "Reexport"  x    = export of the same in-memory network after the reference propagation ran on it             *)
(*                                                                            -> ExportUnaffectedByPropagation   *)
(*   "Propagate" r, slack = result vector of the reference propagation on the network just exported; slack is    *)
(*                      the export-rounding allowance for the comparison with the previous one                   *)
(*                                                                            -> PropagationReproduced           *)
(*   "Sim"       before, after = SimParams snapshots around one designed_network() call -> SimParamsUnchanged    *)
(* Monitor-shaped: every event is consumed, `viol` collects <<step, clause>>, `diff` the <<element, path>> pairs *)
(* on which two exports disagree.  One verdict line per trace.                                                  *)
EXTENDS DesignGraph, Json, IOUtils, TLC

T == ndJsonDeserialize(IOEnv.TRACE_FILE)

VARIABLES tid, i, lastX, lastR, viol, diff
vars == <<tid, i, lastX, lastR, viol, diff>>

\* JSON arrays arrive as sequences: adjacency and the library become sets
NormEl(e) == [e EXCEPT !.succ = SeqRange(e.succ), !.pred = SeqRange(e.pred)]
NormG(q)  == [k \in 1..Len(q) |-> NormEl(q[k])]
NormS(s)  == [s EXCEPT !.lib = SeqRange(s.lib)]
NormX(x)  == [el |-> x.el, cx |-> SeqRange(x.cx)]

Check(name, ok) == IF ok THEN {} ELSE {name}

\* C08 quantifies over well-formed topologies: an input that is not a set of one-in/one-out chains itself is reported
\* as unjudged (marker "~InputNotWellFormed", not a violation)
DesignClauses(In, G, S) ==
    LET shape == ChainsOneInOneOut(G)          \* the remaining clauses walk the chains: judged only on chain-shaped graphs
    IN  IF ~ChainsOneInOneOut(In) THEN {"~InputNotWellFormed"} ELSE
        Check("ChainsOneInOneOut", shape)
        \cup Check("UniqueNames", UniqueNames(G))
        \cup (IF ~shape THEN {} ELSE
              Check("RoadmReachabilityUnchanged", RoadmReachabilityUnchanged(In, G))
              \cup Check("NothingLostNothingInvented", NothingLostNothingInvented(In, G))
              \cup Check("NoInsertionWhenNotAsked", NoInsertionWhenNotAsked(In, G, S))
              \cup Check("VoaIsAttenuation", VoaIsAttenuation(G))
              \cup Check("EveryJunctionAmplified", ~S.insert \/ EveryJunctionAmplified(G))
              \cup Check("AmplifiersOnlyAtJunctions", AmplifiersOnlyAtJunctions(In, G))
              \cup Check("SplitIsEqualAndConservative", ~S.insert \/ SplitIsEqualAndConservative(In, G, S))
              \cup Check("EveryAmpConfigured", EveryAmpConfigured(G, S))
              \cup Check("EveryFiberHasConnectors", EveryFiberHasConnectors(G))
              \cup Check("DefaultConnectorsApplied", DefaultConnectorsApplied(In, G, S))
              \cup Check("SpanAtLeastPadding", SpanAtLeastPadding(G, S))
              \cup Check("UserAttenuatorKept", UserAttenuatorKept(In, G)))

ExportClauses(prev, x, prefix) ==
    Check(prefix \o "Elements", ElementsSame(prev, x))
    \cup Check(prefix \o "Settings", SettingsDiff(prev, x) = {})
    \cup Check(prefix \o "Connections", ConnectionsSame(prev, x))

Init == /\ tid \in 1..Len(T)
        /\ i = 0 /\ lastX = 0 /\ lastR = 0
        /\ viol = {} /\ diff = {}

Next ==
    /\ i < Len(T[tid].ev)
    /\ i' = i + 1 /\ tid' = tid
    /\ LET e == T[tid].ev[i + 1]
       IN CASE e.op = "Design" ->
                 /\ LET given == IF "inp" \in DOMAIN e THEN e.inp ELSE T[tid].inp
                    IN viol' = viol \cup {<<i + 1, c>> : c \in DesignClauses(NormG(given), NormG(e.g), NormS(T[tid].s))}
                 /\ UNCHANGED <<lastX, lastR, diff>>
            [] e.op = "Export" ->
                 /\ lastX' = i + 1
                 /\ IF lastX = 0 THEN UNCHANGED <<viol, diff>>
                    ELSE LET p == NormX(T[tid].ev[lastX].x)  x == NormX(e.x)
                         IN /\ viol' = viol \cup {<<i + 1, c>> : c \in ExportClauses(p, x, "Fixpoint")}
                            /\ diff' = diff \cup SettingsDiff(p, x)
                 /\ UNCHANGED lastR
            [] e.op = "Twin" ->
                 /\ LET p == NormX(T[tid].ev[lastX].x)  x == NormX(e.x)
                    IN /\ viol' = viol \cup {<<i + 1, c>> : c \in Check("Deterministic", p = x)}
                       /\ diff' = diff \cup (IF p = x THEN {} ELSE SettingsDiff(p, x))
                 /\ UNCHANGED <<lastX, lastR>>
            [] e.op = "Propagate" ->
                 /\ lastR' = i + 1
                 /\ viol' = viol \cup (IF lastR = 0 THEN {}
                                       ELSE {<<i + 1, c>> : c \in Check("PropagationReproduced",
                                                  VectorsAgree(T[tid].ev[lastR].r, e.r, Tol + e.slack))})
                 /\ UNCHANGED <<lastX, diff>>
            [] e.op = "Sim" ->
                 /\ viol' = viol \cup {<<i + 1, c>> : c \in Check("SimParamsUnchanged", e.before = e.after)}
                 /\ UNCHANGED <<lastX, lastR, diff>>
            [] e.op = "Reexport" ->       \* the network just exported is exported again after it carried a propagation
                 /\ LET p == NormX(T[tid].ev[lastX].x)  x == NormX(e.x)
                    IN /\ viol' = viol \cup {<<i + 1, c>> : c \in Check("ExportUnaffectedByPropagation", p = x)}
                       /\ diff' = diff \cup (IF p = x THEN {} ELSE SettingsDiff(p, x))
                 /\ UNCHANGED <<lastX, lastR>>
            [] e.op = "Elsewhere" ->      \* the same library was used for another design (explicit power): nothing to judge
                 UNCHANGED <<lastX, lastR, viol, diff>>
            [] OTHER ->
                 /\ viol' = viol \cup {<<i + 1, "UnknownEvent">>}
                 /\ UNCHANGED <<lastX, lastR, diff>>

Done == i < Len(T[tid].ev)
        \/ PrintT("@@" \o ToJson([name |-> T[tid].name, n |-> i, viol |-> viol, diff |-> diff]))
==============================================================================
