CONSTANTS
  Candidates <- MCCandidates
  MaxLaunch = 3
  Paths <- MCPaths
  DefaultBand <- MCDefaultBand
INIT Init
NEXT Next
INVARIANT TypeOK
INVARIANT Survives
INVARIANT FilterKeepsExactlyCommon
INVARIANT InFrequencyOrder
INVARIANT OwnAttributes
INVARIANT OrderIrrelevant
INVARIANT RejectOverlap
INVARIANT RejectBaudWiderThanSlot
INVARIANT AcceptValid
