---------------------------- MODULE MC_Transmission ----------------------------
(* Bounded instance of Transmission: lines of 1..3 spans over three span losses (below, inside and above the     *)
(* band where the power rule is flat), every sweep over {-2, 0, 2, 4} without repetition of up to four steps in   *)
(* any order (ascending, descending, starting or not at 0, saturating at +4), single steps, both modes, amplifier  *)
(* models with and without the automatic output VOA (three-span lines: sweeps of up to three steps).             *)
EXTENDS Transmission

Losses == {14, 20, 28}
MCLines == UNION {[1..n -> Losses] : n \in 1..3}
Offsets == {-2, 0, 2, 4}
Inj(n) == {s \in [1..n -> Offsets] : \A i, j \in 1..n : i # j => s[i] # s[j]}
MCRanges == UNION {Inj(n) : n \in 1..4}
MCModes == BOOLEAN
MCAutoVoas == BOOLEAN
MCInit == Init /\ (Len(line) = 3 => Len(range) <= 3)
==============================================================================
