INIT Init
NEXT Next
INVARIANT Done
