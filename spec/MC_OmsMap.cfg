CONSTANTS
  Ids <- MCIds
  Extents <- MCExtents
  MaxOcc = 2
INIT Init
NEXT Next
INVARIANT AxesOk
INVARIANT SameExtentAfter
INVARIANT CoversAll
INVARIANT OccupancyKept
INVARIANT AddedNotFree
INVARIANT PostLandsAtItsIndex
