---------------------------- MODULE MC_Documents ----------------------------
(* Bounded model for C18: every abstract legacy document of the vocabulary below is one initial state; the    *)
(* actions are the conversions at the grain of the code (legacy_to_yang, yang_to_legacy, legacy_to_yang      *)
(* again, load).  The enumeration varies one element / entry kind at a time around a base document, with the  *)
(* full product inside each kind.  `Emit` prints every document for the spec -> code replay (B2).             *)
EXTENDS Documents, Json

VARIABLES doc, y, back, y2, lib, pc
vars == <<doc, y, back, y2, lib, pc>>

N0 == Num(0, 0)
RECURSIVE Cat(_)
Cat(ss) == IF ss = <<>> THEN <<>> ELSE Head(ss) \o Cat(Tail(ss))

-----------------------------------------------------------------------------
\* ---- topology
PV(ty, i) == CASE ty = "pch" -> <<Num(-2, -1), Num(-205, 1), Num(-1875, 2)>>[i]
               [] ty = "psd" -> <<Num(25, 6), Num(3125, 10), Num(4, 4)>>[i]
               [] ty = "psw" -> <<Num(2, 4), Num(15, 5), Num(123456789, 10)>>[i]
PdSeq(ty, as) == Cat([i \in 1..3 |-> IF as[i] = ty THEN <<[deg |-> DegSeq[i], v |-> PV(ty, i)]>> ELSE <<>>])
PerDeg(as) == [pch |-> PdSeq("pch", as), psd |-> PdSeq("psd", as), psw |-> PdSeq("psw", as)]
PdChoices == {"none", "pch", "psd", "psw"}
Band(lo, hi, sp) == [f_min |-> lo, f_max |-> hi, spacing |-> sp]
CBand == Band(Num(1913, -11), Num(19595, -10), Absent)
LBand == Band(Num(18605, -10), Num(190555, -9), Absent)
\* bands that carry their own design spacing (different from the library default of 50 GHz)
CBand75 == Band(Num(1913, -11), Num(19595, -10), Num(75, -9))
LBand100 == Band(Num(18605, -10), Num(190555, -9), Num(1, -11))
BandChoices == {<<>>, <<[deg |-> "d1", bands |-> <<CBand>>]>>,
                <<[deg |-> "d1", bands |-> <<CBand, LBand>>], [deg |-> "d3", bands |-> <<LBand>>]>>,
                <<[deg |-> "d1", bands |-> <<CBand75, LBand>>], [deg |-> "d2", bands |-> <<LBand100>>]>>}
EqChoices == {[t |-> "none", v |-> Absent], [t |-> "pch", v |-> Num(-185, 1)], [t |-> "psd", v |-> Num(35, 6)],
              [t |-> "psw", v |-> Num(123, 7)]}
BaseRoadm == [eqtype |-> "pch", eq |-> Num(-2, -1), perdeg |-> PerDeg(<<"none", "none", "none">>), degbands |-> <<>>]
RoadmCfgs == {[BaseRoadm EXCEPT !.perdeg = PerDeg(<<a, b, c>>), !.degbands = db] :
                 a \in PdChoices, b \in PdChoices, c \in PdChoices, db \in BandChoices}
        \cup {[BaseRoadm EXCEPT !.eqtype = e.t, !.eq = e.v, !.perdeg = PerDeg(<<"psd", "none", "pch">>)] : e \in EqChoices}

Scalar(v) == [form |-> "scalar", v |-> v, freqs |-> <<>>, vals |-> <<>>]
PerFreq(fs, vs) == [form |-> "perfreq", v |-> Absent, freqs |-> fs, vals |-> vs]
LossChoices == {Scalar(Num(2, 1)), Scalar(Num(212345, 6)),
                PerFreq(<<Num(1935, -11)>>, <<Num(2, 1)>>),
                PerFreq(<<Num(1863, -11), Num(194, -12), Num(19712345, -7)>>, <<Num(29, 2), Num(19, 2), Num(2212345, 7)>>)}
LumpedChoices == {<<>>, <<[position |-> Num(2, -1), loss |-> Num(1, 0)]>>,
                  <<[position |-> Num(10123456, 6), loss |-> Num(15, 1)], [position |-> Num(4, -1), loss |-> Num(25, 2)]>>}
NoRaman == [present |-> FALSE, ref |-> Absent, g0 |-> <<>>, offsets |-> <<>>]
RamanChoices == {NoRaman,
                 [present |-> TRUE, ref |-> Num(206184634, -6), g0 |-> <<N0, Num(977218716, 14)>>, offsets |-> <<N0, Num(5, -11)>>],
                 [present |-> TRUE, ref |-> Num(206, -12), g0 |-> <<N0, Num(12, 5), Num(3, 4)>>,
                  offsets |-> <<N0, Num(5, -11), Num(132512345, -5)>>]}
ConChoices == {<<Num(5, 1), Num(25, 2)>>, <<Null, Null>>, <<Absent, N0>>}
BaseFiber == [length |-> Num(8, -1), loss |-> Scalar(Num(2, 1)), att_in |-> N0, con_in |-> Num(5, 1), con_out |-> Num(5, 1),
              pmd_coef |-> Absent, lumped |-> <<>>, raman |-> NoRaman]
FiberCfgs == {[BaseFiber EXCEPT !.loss = l, !.lumped = lu, !.raman = r, !.con_in = c[1], !.con_out = c[2], !.att_in = a,
                                !.length = lp[1], !.pmd_coef = lp[2]] :
                 l \in LossChoices, lu \in LumpedChoices, r \in RamanChoices, c \in ConChoices,
                 a \in {N0, Num(15, 1)}, lp \in {<<Num(8, -1), Absent>>, <<Num(75123456, 6), Num(1265, 18)>>}}

Pump(p, f, d) == [power |-> p, frequency |-> f, dir |-> d]
BaseRFiber == [temperature |-> Num(283, 0), pumps |-> <<Pump(Num(224403, 6), Num(205, -12), "counterprop")>>]
RFiberCfgs == {[temperature |-> t, pumps |-> p] : t \in {Num(283, 0), Num(28315, 2)},
                 \* (an empty pump list is not in the vocabulary: YANG cannot tell an empty list from an absent one)
                 p \in {<<Pump(Num(224403, 6), Num(205, -12), "counterprop")>>,
                        <<Pump(Num(231135123, 9), Num(2010005, -8), "coprop"), Pump(Num(2, 1), Num(2025, -11), "counterprop")>>}}

Oper(g, dp, tt, ov, iv) == [gain_target |-> g, delta_p |-> dp, tilt_target |-> tt, out_voa |-> ov, in_voa |-> iv]
BaseOper == Oper(Num(2, -1), N0, N0, N0, N0)
OperCfgs == {Oper(g, dp, tt, ov, iv) : g \in {Num(2, -1), Num(17123456, 6), Null}, dp \in {Num(-25, 1), Null, Absent},
               tt \in {N0, Num(-15, 1), Null}, ov \in {N0, Num(125, 2), Null, Absent}, iv \in {N0, Null, Absent}}
BaseMb == <<[variety |-> "std_medium_gain_C", oper |-> Oper(Num(2255, 2), Num(9, 1), N0, Num(3, 0), Absent)],
            [variety |-> "std_medium_gain_L", oper |-> Oper(Num(21, 0), Num(3, 0), N0, Num(3, 0), Absent)]>>
MbCfgs == {BaseMb,
           <<[variety |-> "std_medium_gain_C", oper |-> Oper(Null, Null, N0, Null, Absent)],
             [variety |-> "std_medium_gain_L", oper |-> Oper(Num(21123456, 6), Num(-35, 1), Num(-5, 1), Null, N0)]>>,
           <<>>}
FusedChoices == {Num(1, 0), Num(25, 2), Null, Absent}

BaseTopo == [kind |-> "topology", form |-> "legacy", extra |-> <<>>, roadm |-> BaseRoadm, fiber |-> BaseFiber,
             rfiber |-> BaseRFiber, edfa |-> BaseOper, mb |-> BaseMb, fused |-> Num(1, 0)]
TopoDocs == {[BaseTopo EXCEPT !.roadm = r] : r \in RoadmCfgs} \cup {[BaseTopo EXCEPT !.fiber = f] : f \in FiberCfgs}
       \cup {[BaseTopo EXCEPT !.rfiber = f] : f \in RFiberCfgs} \cup {[BaseTopo EXCEPT !.edfa = o] : o \in OperCfgs}
       \cup {[BaseTopo EXCEPT !.mb = m] : m \in MbCfgs} \cup {[BaseTopo EXCEPT !.fused = l] : l \in FusedChoices}

-----------------------------------------------------------------------------
\* ---- equipment
\* the third range sweeps downwards: the first bound is the START of the sweep, not the smaller value
RangeChoices == {<<N0, N0, Num(5, 1)>>, <<Num(-6, 0), Num(3, 0), Num(25, 2)>>, <<Num(1, 0), Num(-1, 0), Num(1, 0)>>}
BaseSpan == [range |-> <<N0, N0, Num(5, 1)>>, max_loss |-> Num(28, 0)]
SpanCfgs == {[range |-> r, max_loss |-> m] : r \in RangeChoices, m \in {Num(28, 0), Num(2875, 2), Absent}}
Si(n, r, p) == [name |-> n, range |-> r, tx_power_dbm |-> p]
TxChoices == {Absent, Num(-105, 1), Num(3, 0)}
BaseSi == <<Si("default", <<N0, N0, Num(5, 1)>>, Absent)>>
SiCfgs == {<<Si("default", r, p)>> : r \in RangeChoices, p \in TxChoices}
     \cup {<<Si("default", r1, p), Si("lband", r2, p)>> : r1 \in RangeChoices, r2 \in RangeChoices, p \in TxChoices}
OtherChoices(a, b) == {<<>>, <<a>>, <<a, b>>}
NfChoices == {<<Num(-8104, 8), Num(-6221, 6), Num(-5889, 4), Num(3741, 2)>>,
              <<N0, Num(1234567891, 10), Num(-5, 1), Num(55, 1)>>}
BaseEdfa == [name |-> "E", others |-> <<>>, nf_coef |-> <<Num(-8104, 8), Num(-6221, 6), Num(-5889, 4), Num(3741, 2)>>]
Pen(i, u, p) == [imp |-> i, up_to |-> u, penalty_value |-> p]
PenChoices == {<<>>, <<Pen("chromatic_dispersion", Num(4, -3), N0), Pen("chromatic_dispersion", Num(18, -3), Num(5, 1))>>,
               <<Pen("chromatic_dispersion", Num(-1, -3), Num(25, 2)), Pen("chromatic_dispersion", Num(4, -3), N0),
                 Pen("pmd", Num(1, 11), N0), Pen("pmd", Num(3, 11), Num(5, 1)), Pen("pdl", Num(1, 0), Num(5, 1)),
                 Pen("pdl", Num(25, 1), Num(155, 2))>>}
Mode(n, o, p, e) == [name |-> n, others |-> o, penalties |-> p, equalization_offset_db |-> e]
BaseModes == <<Mode("m1", <<>>, <<>>, Absent), Mode("m2", <<>>, <<>>, Absent)>>
BaseTrx == [name |-> "T", others |-> <<>>, modes |-> BaseModes]
NoReff == [present |-> FALSE, cr |-> <<>>, offsets |-> <<>>]
ReffChoices == {NoReff, [present |-> TRUE, cr |-> <<N0, Num(1, 5)>>, offsets |-> <<N0, Num(1, -12)>>],
                [present |-> TRUE, cr |-> <<N0, Num(123456, 9), Num(25, 5)>>, offsets |-> <<N0, Num(5, -11), Num(132512345, -5)>>]}
BaseEqpt == [kind |-> "equipment", form |-> "legacy", extra |-> <<>>, span |-> BaseSpan, si |-> BaseSi, edfa |-> BaseEdfa,
             trx |-> BaseTrx, reff |-> NoReff]
EqptDocs == {[BaseEqpt EXCEPT !.span = s] : s \in SpanCfgs} \cup {[BaseEqpt EXCEPT !.si = s] : s \in SiCfgs}
       \cup {[BaseEqpt EXCEPT !.edfa = [name |-> "E", others |-> eo, nf_coef |-> nf],
                              !.trx = [name |-> "T", others |-> to,
                                       modes |-> <<Mode("m1", mo, <<>>, Absent), Mode("m2", <<>>, <<>>, Absent)>>]] :
               eo \in OtherChoices("E-a", "E-b"), nf \in NfChoices, to \in OtherChoices("T-a", "T-b"),
               mo \in OtherChoices("m1-a", "m1-b")}
       \cup {[BaseEqpt EXCEPT !.trx = [name |-> "T", others |-> <<"T-a">>,
                                       modes |-> <<Mode("m1", mo, p, e), Mode("m2", <<"m2-a">>, <<>>, Num(12345, 4))>>]] :
               mo \in OtherChoices("m1-a", "m1-b"), p \in PenChoices, e \in {Absent, Num(-15, 1), Num(12345, 4)}}
       \cup {[BaseEqpt EXCEPT !.reff = r] : r \in ReffChoices}

-----------------------------------------------------------------------------
\* ---- services
Hop(n, h) == [node |-> n, hop |-> h]
IncludeChoices == {<<>>, <<Hop("roadm B", "STRICT")>>, <<Hop("roadm C", "LOOSE"), Hop("roadm B", "STRICT")>>}
Slot(n, m) == [N |-> n, M |-> m]
SlotChoices == {<<FALSE, <<>>>>, <<TRUE, <<Slot(Null, Null)>>>>, <<TRUE, <<Slot(Num(-284, 0), Null)>>>>,
                <<TRUE, <<Slot(Null, Num(8, 0))>>>>, <<TRUE, <<Slot(Num(-284, 0), Num(8, 0))>>>>,
                <<TRUE, <<Slot(Num(-284, 0), Num(4, 0)), Slot(Num(12, 0), Num(4, 0))>>>>,
                <<TRUE, <<Slot(Num(-284, 0), Num(4, 0)), Slot(Null, Null)>>>>,
                \* two slots that both leave N free: OutsideYangModel
                <<TRUE, <<Slot(Null, Num(4, 0)), Slot(Null, Num(4, 0))>>>>, <<TRUE, <<Slot(Null, Null), Slot(Null, Num(8, 0))>>>>}
Req(id, inc, sl, mx, pw, md, bw, sp) ==
  [id |-> id, include |-> inc, hasslots |-> sl[1], slots |-> sl[2], max_nb |-> mx, power |-> pw, mode |-> md,
   bandwidth |-> bw, spacing |-> sp]
BaseReq(id) == Req(id, <<>>, <<TRUE, <<Slot(Null, Null)>>>>, Null, Num(1, 3), "mode 1", Num(1, -11), Num(5, -10))
BaseServ == [kind |-> "service", form |-> "legacy", extra |-> <<>>, reqs |-> <<BaseReq("0")>>, sync |-> <<>>]
ServDocs == {[BaseServ EXCEPT !.reqs = <<Req("0", inc, sl, mx, pw, md, bs[1], bs[2])>>] :
                inc \in IncludeChoices, sl \in SlotChoices, mx \in {Null, Absent, Num(8, -1)},
                pw \in {Null, Absent, Num(125893, 8)}, md \in {"mode 1", "~null", "~absent"},
                bs \in {<<Num(1, -11), Num(5, -10)>>, <<Num(2, -11), Num(375, -8)>>}}
       \cup {[BaseServ EXCEPT !.reqs = <<BaseReq("0"), Req("1", inc, sl, Null, Num(1, 3), "mode 1", Num(1, -11), Num(5, -10))>>,
                              !.sync = sy] :
                inc \in IncludeChoices, sl \in SlotChoices, sy \in {<<>>, <<[id |-> "0", ids |-> <<"0", "1">>, relaxable |-> FALSE]>>,
                                                                <<[id |-> "0", ids |-> <<"0", "1">>, relaxable |-> TRUE]>>}}

-----------------------------------------------------------------------------
\* ---- spectrum, sim-params
Part(fa, fb, br, sw, dp, os, tp, lb) ==
  [f_min |-> fa, f_max |-> fb, baud_rate |-> br, slot_width |-> sw, roll_off |-> Num(15, 2), delta_pdb |-> dp,
   tx_osnr |-> os, tx_power_dbm |-> tp, label |-> lb]
Part1(dp, os, tp, lb) == Part(Num(1914, -11), Num(1931, -11), Num(32, -9), Num(5, -10), dp, os, tp, lb)
Part2(dp, os, tp, lb) == Part(Num(1931625, -8), Num(195, -12), Num(64, -9), Num(75, -9), dp, os, tp, lb)
SpecDocs == {[kind |-> "spectrum", form |-> "legacy", extra |-> <<>>, parts |-> <<Part1(dp, os, tp, lb)>>] :
                dp \in {Absent, N0, Num(-15, 1)}, os \in {Absent, Num(4, -1)}, tp \in {Absent, Num(-75, 1)}, lb \in {"", "lbl"}}
       \cup {[kind |-> "spectrum", form |-> "legacy", extra |-> <<>>, parts |-> <<Part1(dp, Num(3725, 2), Absent, lb), Part2(Absent, os, tp, "m2")>>] :
                dp \in {Absent, Num(1, 0)}, os \in {Absent, Num(4, -1)}, tp \in {Absent, Num(-75, 1)}, lb \in {"", "m1"}}
SimDocs == {[kind |-> "simparams", form |-> "legacy", extra |-> <<>>, flag |-> fl, method |-> me, rsr |-> rs, ssr |-> Num(5, -1),
             dtol |-> Num(1, 0), ptol |-> Num(1, 1), channels |-> cn[1], nchan |-> cn[2]] :
               fl \in BOOLEAN, me \in {"ggn_spectrally_separated", "gn_model_analytic"},
               rs \in {Num(1, -4), Num(12345678, 3)},
               \* explicit channel list and channel count are the two cases of a YANG choice
               \* (the fourth choice gives both: OutsideYangModel)
               cn \in {<<<<>>, Absent>>, <<<<Num(1, 0), Num(18, 0), Num(37, 0)>>, Absent>>, <<<<>>, Num(5, 0)>>,
                       <<<<Num(1, 0), Num(18, 0), Num(37, 0)>>, Num(5, 0)>>}}

Docs == TopoDocs \cup EqptDocs \cup ServDocs \cup SpecDocs \cup SimDocs

-----------------------------------------------------------------------------
Init == /\ doc \in Docs
        /\ y = <<>> /\ back = <<>> /\ y2 = <<>> /\ lib = {}
        /\ pc = "legacy"
ToYang   == pc = "legacy" /\ y' = L2Y(doc) /\ pc' = "yang" /\ UNCHANGED <<doc, back, y2, lib>>
ToLegacy == pc = "yang" /\ back' = Y2L(y) /\ pc' = "back" /\ UNCHANGED <<doc, y, y2, lib>>
Again    == pc = "back" /\ y2' = L2Y(back) /\ pc' = "again" /\ UNCHANGED <<doc, y, back, lib>>
Load     == pc = "again" /\ lib' = (IF doc.kind = "equipment" THEN ModelLib(back) ELSE {}) /\ pc' = "done"
            /\ UNCHANGED <<doc, y, back, y2>>
Next == ToYang \/ ToLegacy \/ Again \/ Load

\* the domain: normal-form numbers within the declared precision (checked on the rendered values by the harness
\* as well), one equalisation type per degree
OneTypePerDegree == doc.kind = "topology" =>
   \A i \in 1..3 : Cardinality({ty \in {"pch", "psd", "psw"} :
                      \E n \in 1..Len(doc.roadm.perdeg[ty]) : doc.roadm.perdeg[ty][n].deg = DegSeq[i]}) <= 1
RoundTripInv   == pc \in {"back", "again", "done"} => back = doc
IdempotentInv  == pc \in {"again", "done"} => y2 = y
StructureInv   == /\ pc # "legacy" => Shape(y) = Shape(doc)
                  /\ pc \in {"back", "again", "done"} => Shape(back) = Shape(doc)
AliasInv       == (pc = "done" /\ doc.kind = "equipment") => AliasClause(doc, lib)
KeyedOrderInv  == KeyedListOrderIrrelevant(doc)
\* L2Y really changes the form: a document with numbers is never its own YANG form
FormsDiffer    == pc # "legacy" => y # doc

\* the declared precisions, printed once for the harness' domain self-check of the rendered documents
ASSUME PrintT("@@" \o ToJson([prec |-> Prec]))

Emit == pc # "legacy" \/ PrintT("@@" \o ToJson(doc))
==============================================================================
