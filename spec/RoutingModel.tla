----------------------------- MODULE RoutingModel -----------------------------
(* C11 / C12 - the router as a state machine at the grain of compute_path_dsjctn / compute_constrained_path.  *)
(* Init picks a graph and a batch (one input per initial state), Route answers it.  The answer is written     *)
(* operationally - candidates in length order, combinations of a group built and filtered as the code does -  *)
(* while the clauses of Routing.tla state the property declaratively.  TLC checks (MC_Routing) that every     *)
(* answer of the model satisfies every clause, i.e. that the algorithm's design implies C11 / C12, and that   *)
(* the judgement applied to observed routes (Trace_Routing) accepts every answer of the model.                *)
EXTENDS Routing


\* a request outside any group: candidates in length order, the first that crosses the include list; if none
\* does, all-LOOSE lists are dropped, a list with a STRICT hop blocks the request
RouteOne(G, r, P) ==
  LET F == Feasible(P, r.inc)
  IN  IF P = {} THEN {Blocked("NO_PATH")}
      ELSE IF F # {} THEN {Found(p) : p \in Shortest(G, F)}
      ELSE IF ~HasStrict(r) THEN {Found(p) : p \in Shortest(G, P)}
      ELSE {Blocked("NO_PATH_WITH_CONSTRAINT")}

\* grouped requests: steps 2, 4, 5 of compute_path_dsjctn - all pairwise disjoint combinations; those where every
\* list is crossed are preferred; else those where only all-LOOSE lists are missed; else DisjunctionError.
\* With several groups the code prunes candidates per group (step 3) and may give up although a solution
\* exists: the model then allows the error as well.  Between two parallel link pairs the code pairs the directions
\* by its own convention: combinations that are not surely overlapping may be taken, and the error is allowed when no
\* combination is surely disjoint.  The code does not read `relaxable`: every vector is honoured, a relaxable one like
\* the others (what the clauses demand for the vectors that are not relaxable then holds a fortiori).
GroupChoices(G, b, fx) ==
  LET all  == Solutions(G, b, fx, "any", FALSE)
      good == {a \in all : \A i \in DOMAIN a : Crosses(a[i], b.reqs[i].inc)}
      alt  == {a \in all : \A i \in DOMAIN a : HasStrict(b.reqs[i]) => Crosses(a[i], b.reqs[i].inc)}
  IN  IF OneGroup(b) /\ good # {} THEN good ELSE alt

ErrOutcome == [err |-> 1, res |-> <<>>]
ModelOutcomes(G, b0, fx) ==
  LET b       == CleanBatch(b0)                   \* correct_json_route_list: unknown LOOSE hops are skipped first
      idx     == 1..Len(b.reqs)
      free    == idx \ Grouped(b)
      one     == [i \in free |-> RouteOne(G, b.reqs[i], fx[i].P)]
      frees   == {f \in [free -> UNION {one[i] : i \in free}] : \A i \in free : f[i] \in one[i]}
      choices == GroupChoices(G, b, fx)
      build(a, f) == [err |-> 0, res |-> [i \in idx |-> IF i \in free THEN f[i] ELSE Found(a[i])]]
  IN  IF b.groups = <<>> THEN {build(<<>>, f) : f \in frees}
      ELSE (IF choices = {} \/ ~OneGroup(b) \/ Solutions(G, b, fx, "strong", TRUE) = {} THEN {ErrOutcome} ELSE {})
           \cup {build(a, f) : a \in choices, f \in frees}

CONSTANTS Graphs,          \* set of graphs [n, arcs, len]
          BatchesOf(_)     \* the batches explored on a graph
VARIABLES g, batch, fx, out, phase
vars == <<g, batch, fx, out, phase>>

Init == /\ g \in Graphs
        /\ batch \in BatchesOf(g)
        /\ fx = FactsOf(g, batch)
        /\ out = ErrOutcome
        /\ phase = "request"

Route == /\ phase = "request"
         /\ out' \in ModelOutcomes(g, batch, fx)
         /\ phase' = "answered"
         /\ UNCHANGED <<g, batch, fx>>

Next == Route
Spec == Init /\ [][Next]_vars

Answered == phase = "answered"
Req(i)   == Clean(batch.reqs[i])
Idx      == 1..Len(batch.reqs)
Free     == Idx \ Grouped(batch)

\* ---- the clauses of C11 as invariants of the model
PathsAreReal          == Answered /\ out.err = 0 => \A i \in Idx : RealRoute(g, Req(i), out.res[i])
PathsAreLoopFree      == Answered /\ out.err = 0 => \A i \in Idx : LoopFree(out.res[i])
StrictHopsAreCrossed  == Answered /\ out.err = 0 => \A i \in Idx : StrictHopsCrossed(Req(i), out.res[i])
IncludesAreInOrder    == Answered /\ out.err = 0 => \A i \in Free : IncludesInOrder(Req(i), fx[i], out.res[i])
ShortestAmongFeasible == Answered /\ out.err = 0 => \A i \in Free : ShortestFeasible(g, Req(i), fx[i], out.res[i], 0)
LooseDropped          == Answered /\ out.err = 0 => \A i \in Free : LooseDroppedShortest(g, Req(i), fx[i], out.res[i], 0)
BlockedExactlyWhenNoRoute == Answered /\ out.err = 0 => \A i \in Free : BlockedExactly(fx[i], out.res[i])
BlockingReasonNamesCause  == Answered /\ out.err = 0 => \A i \in Free : BlockingReason(fx[i], out.res[i])
ReverseVisitsSameSites    == Answered /\ out.err = 0 => \A i \in Idx : ReverseMirrors(out.res[i])
\* ---- the clauses of C12
DisjointGroupsShareNoLink == Answered => GroupsLinkDisjoint(g, batch, out)
GroupedRequestsAreRouted  == Answered => GroupedAreRouted(batch, out)
ErrorOnlyWithGroups       == Answered => ErrorOnlyForGroups(batch, out)
PairIsComplete            == Answered => PairComplete(g, batch, fx, out)
ErrorWhenNothingFits      == Answered => ErrorWhenNoSolution(g, batch, fx, out)
\* ---- the judgement used on observed routes accepts every outcome of the model
JudgeAcceptsModel         == Answered => Judge(g, batch, fx, out, 0) = {}
==============================================================================
