INIT Init
NEXT Next
INVARIANT EveryElementInExactlyOneOms
INVARIANT PairingIsMutual
INVARIANT OppositeEndPoints
INVARIANT ReverseIsInvolution
INVARIANT ParallelRoutesArePaired
INVARIANT OneOmsPerDirectedLink
