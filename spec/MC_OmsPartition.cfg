INIT Init
NEXT Next
INVARIANT EveryElementInExactlyOneOms
INVARIANT ReverseIsInvolution
INVARIANT OneOmsPerDirectedLink
