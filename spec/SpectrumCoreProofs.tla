------------------------- MODULE SpectrumCoreProofs -------------------------
(* TLAPS proof that Inv (TypeOK /\ Exact /\ NoDouble) is an inductive invariant of SpectrumCore - for any set of OMS, *)
(* the unbounded integer slot axis and histories of any length.  `tlapm SpectrumCoreProofs.tla`.                       *)
EXTENDS SpectrumCore, TLAPS

LEMMA InitInv == Init => Inv
  BY DEF Init, Inv, TypeOK, Exact, NoDouble

LEMMA StepInv == Inv /\ [Next]_vars => Inv'
<1> SUFFICES ASSUME Inv, [Next]_vars PROVE Inv'
  OBVIOUS
<1>1. CASE UNCHANGED vars
  BY <1>1 DEF Inv, TypeOK, Exact, NoDouble, vars
<1>2. ASSUME NEW p \in SUBSET OMS, NEW r \in SUBSET Int, Accept(p, r) PROVE Inv'
  <2> DEFINE new == [path |-> p, rng |-> r]
  <2>0. new \in Grant /\ new.path = p /\ new.rng = r
    BY DEF Grant
  <2>1. TypeOK'
    BY <1>2, <2>0 DEF Inv, TypeOK, Accept
  <2>2. Exact'
    <3> SUFFICES ASSUME NEW o \in OMS, NEW k \in Int
                 PROVE k \in occ'[o] <=> \E g \in served' : o \in g.path /\ k \in g.rng
      BY DEF Exact
    <3>1. occ'[o] = IF o \in p THEN occ[o] \cup r ELSE occ[o]
      BY <1>2 DEF Accept
    <3>2. served' = served \cup {new}
      BY <1>2 DEF Accept
    <3>3. k \in occ[o] <=> \E g \in served : o \in g.path /\ k \in g.rng
      BY DEF Inv, Exact
    <3> QED
      BY <3>1, <3>2, <3>3, <2>0
  <2>3. NoDouble'
    <3> SUFFICES ASSUME NEW g \in served', NEW h \in served', g # h, g.path \cap h.path # {}
                 PROVE g.rng \cap h.rng = {}
      BY DEF NoDouble
    <3>0. served' = served \cup {new}
      BY <1>2 DEF Accept
    <3>1. \A x \in served : x.path \cap p # {} => x.rng \cap r = {}
      <4> SUFFICES ASSUME NEW x \in served, x.path \cap p # {} PROVE x.rng \cap r = {}
        OBVIOUS
      <4>1. PICK o \in OMS : o \in x.path /\ o \in p
        OBVIOUS
      <4>2. \A k \in Int : k \in x.rng => k \in occ[o]
        BY <4>1 DEF Inv, Exact
      <4>3. x.rng \subseteq Int
        BY DEF Inv, TypeOK, Grant
      <4>4. r \cap occ[o] = {}
        BY <1>2, <4>1 DEF Accept
      <4> QED
        BY <4>2, <4>3, <4>4
    <3>2. CASE g \in served /\ h \in served
      BY <3>2 DEF Inv, NoDouble
    <3>3. CASE g = new /\ h \in served
      BY <3>3, <3>1, <2>0
    <3>4. CASE h = new /\ g \in served
      BY <3>4, <3>1, <2>0
    <3> QED
      BY <3>0, <3>2, <3>3, <3>4
  <2> QED
    BY <2>1, <2>2, <2>3 DEF Inv
<1> QED
  BY <1>1, <1>2 DEF Next

THEOREM Safety == Spec => []Inv
  BY InitInv, StepInv, PTL DEF Spec
==============================================================================
