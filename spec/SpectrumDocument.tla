--------------------------- MODULE SpectrumDocument ---------------------------
(* THE SPECTRUM TO PROPAGATE: how a user spectrum document (--spectrum, a list of partitions) or a resolved request   *)
(* becomes the list of carriers handed to the SpectralInformation constructor - or is refused, and by which stage.     *)
(*   gnpy.tools.json_io._spectrum_from_json / load_initial_spectrum (+ the gnpy-spectrum YANG model a FILE goes through)*)
(*   gnpy.core.info.Carrier / carriers_to_spectral_information / create_input_spectral_information /                   *)
(*   create_arbitrary_spectral_information / SpectralInformation.__init__,  gnpy.core.utils.automatic_nch,             *)
(*   gnpy.topology.request.propagate (which of the two is launched, and with what power).                              *)
(* Function-shaped: DocumentOutcome(via, parts, power) and CombOutcome(req) are EITHER an error record naming the        *)
(* STAGE that refused (schema -> document -> launch) OR the launched carriers.  What happens next (filter_si, the        *)
(* elements of the path) is ChannelSet.tla's Filter / Cross; a launched carrier here is a channel of ChannelOps.tla      *)
(* ([f, w, b, label]) with the transmitter's attributes written out.                                                    *)
(*                                                                                                                    *)
(* Units (all integers, all exact):  frequencies  MHz counted from 193.1 THz      slot widths, spacings, baud rates  MHz *)
(*   powers  micro-dBm      power offsets (delta_pdb), tx_osnr  micro-dB      roll-off  1/1000                           *)
(*   NONE (GnpyBase) = an optional key that the document leaves out;   NoLabel = no "label" key.                         *)
(*                                                                                                                    *)
(* Hand-off: transmission_main_example reads --spectrum with load_initial_spectrum (a FILE: schema stage first) and       *)
(* designed_network stores the dict in req.initial_spectrum (nb_channel := its length, which propagate never reads); the   *)
(* tests and API callers hand a list to _spectrum_from_json directly (no schema stage).  Both entries are modelled.        *)
(* Not modelled: the empty list (accepted, launched as 0 channels), a missing mandatory key (KeyError - the YANG model      *)
(* makes only f_min, f_max, slot_width mandatory), an optional key holding null, a slot width <= 0.                         *)
(*                                                                                                                    *)
(* partition  p : [fmin, fmax, w, b, ro, dp, osnr, txp, label]     one entry of the "spectrum" list                      *)
(*                 f_min f_max slot_width baud_rate roll_off (mandatory)   delta_pdb tx_osnr tx_power_dbm label (optional)*)
(* carrier    c : [f, w, b, ro, dp, osnr, txp, label]              one Carrier of the dict, keyed by its frequency f      *)
(* channel    x : carrier + pch                                   one column of the SpectralInformation arrays           *)
(* request    r : [fmin, fmax, spacing, b, ro, txosnr, power, txpower, offset, nch]      the PathRequest attributes       *)
EXTENDS ChannelOps, GnpyBase, TLC

NoLabel == ""
dB(x)   == x * 1000000                       \* dB -> micro-dB,  dBm -> micro-dBm
ZeroHz  == 0 - 193100000                     \* the absolute frequency 0.0 Hz on this axis (previous_part_max_freq = 0.0)

DefaultDeltaPdb == 0
DefaultTxOsnr   == dB(40)
DefaultTxPower  == 0                         \* 0 dBm

\* one outcome shape for every stage:  carriers = what the document stage produced (<<>> when it did not run or refused),
\* spec = what was launched (<<>> when refused)
Err(stage, kind, rules, carriers) == [status |-> "error", stage |-> stage, kind |-> kind, rules |-> rules,
                                      carriers |-> carriers, spec |-> <<>>]
Accepted(carriers)                == [status |-> "ok", stage |-> "document", kind |-> "-", rules |-> {},
                                      carriers |-> carriers, spec |-> <<>>]
Launched(carriers, spec)          == [status |-> "ok", stage |-> "launched", kind |-> "-", rules |-> {},
                                      carriers |-> carriers, spec |-> spec]
Ok(o) == o.status = "ok"

-----------------------------------------------------------------------------
(* ONE PARTITION -> ITS CARRIERS.                                                                                      *)
(*   max_range = ((f_max - f_min) // slot_width + 1) * slot_width;  arange(f_min, f_min + max_range, slot_width)         *)
(* The first carrier sits AT f_min, the following ones one slot width apart, the last one at or below f_max.            *)
(* `//` is a floor division: for f_max < f_min the bracket is <= 0 and arange yields nothing (no refusal HERE).          *)
Count(p) == LET n == (p.fmax - p.fmin) \div p.w + 1 IN IF n > 0 THEN n ELSE 0
Partition(p) == [k \in 1..Count(p) |-> [f |-> p.fmin + (k - 1) * p.w, w |-> p.w, b |-> p.b, ro |-> p.ro,
                                        dp |-> p.dp, osnr |-> p.osnr, txp |-> p.txp, label |-> p.label]]
IsEmpty(p) == p.fmax < p.fmin

(* the label a partition without one is given: f'{index}-{baud_rate * 1e-9:.2f}G', index counted from 0 AFTER sorting.   *)
(* (baud rates are whole multiples of 10 MHz in every instance, so that the two decimals are exact)                      *)
TwoDigits(n)            == IF n < 10 THEN "0" \o ToString(n) ELSE ToString(n)
BaudText(b)             == ToString(b \div 1000) \o "." \o TwoDigits((b % 1000) \div 10) \o "G"
DefaultLabel(index, b)  == ToString(index) \o "-" \o BaudText(b)

-----------------------------------------------------------------------------
(* THE DOCUMENT STAGE: _spectrum_from_json(parts).                                                                      *)
(*   1. sorted(key=f_min) - stable: partitions with the same f_min stay in document order                               *)
(*   2. per partition, in that order: setdefault delta_pdb 0, label, tx_osnr 40, tx_power_dbm 0                           *)
(*   3. REFUSAL (ValueError): previous_part_max_freq > f_min - slot_width / 2, where previous_part_max_freq starts as      *)
(*      0.0 Hz and becomes, after each partition,  current_freq + slot_width / 2  with current_freq the LOOP VARIABLE of  *)
(*      the carrier loop - i.e. the last carrier written so far, by THIS partition or, when this one is empty, by an      *)
(*      EARLIER one - and slot_width this partition's.                                                                   *)
(*   4. nothing else is looked at: not the baud rate against the slot, not f_max against f_min.                           *)
BeforeInDoc(parts, i, j) == parts[i].fmin < parts[j].fmin \/ (parts[i].fmin = parts[j].fmin /\ i < j)
RankInDoc(parts, i)      == Cardinality({j \in 1..Len(parts) : BeforeInDoc(parts, j, i)}) + 1
SortByFmin(parts)        == [k \in 1..Len(parts) |-> parts[CHOOSE i \in 1..Len(parts) : RankInDoc(parts, i) = k]]

Fill(p, index) == [p EXCEPT !.dp    = IF @ = NONE THEN DefaultDeltaPdb ELSE @,
                            !.label = IF @ = NoLabel THEN DefaultLabel(index, p.b) ELSE @,
                            !.osnr  = IF @ = NONE THEN DefaultTxOsnr ELSE @,
                            !.txp   = IF @ = NONE THEN DefaultTxPower ELSE @]
Prepared(parts) == LET s == SortByFmin(parts) IN [k \in 1..Len(s) |-> Fill(s[k], k - 1)]

\* st = [prev |-> previous_part_max_freq, bound |-> has the loop variable current_freq a value, cur |-> its value, out |-> carriers]
RECURSIVE Walk(_, _, _)
Walk(ps, k, st) ==
    IF k > Len(ps) THEN Accepted(st.out)
    ELSE LET p == ps[k] IN
         IF st.prev > p.fmin - p.w \div 2 THEN Err("document", "ValueError", {"PartitionsOverlap"}, <<>>)
         ELSE LET cs    == Partition(p)
                  bound == st.bound \/ Len(cs) > 0
                  cur   == IF Len(cs) > 0 THEN cs[Len(cs)].f ELSE st.cur
              IN \* SURPRISE: no carrier written yet and this partition is empty (f_max < f_min): the loop variable is unbound
                 IF ~bound THEN Err("document", "UnboundLocalError", {"NoCarrierYet"}, <<>>)
                 ELSE Walk(ps, k + 1, [prev |-> cur + p.w \div 2, bound |-> TRUE, cur |-> cur, out |-> st.out \o cs])
\* the dict is keyed by frequency: a second carrier at the same frequency would REPLACE the first.  That never happens in
\* an accepted document (lemma FrequenciesStrictlyIncreasing), so the dict in insertion order IS the sequence `out`.
FromDocument(parts) == Walk(Prepared(parts), 1, [prev |-> ZeroHz, bound |-> FALSE, cur |-> 0, out |-> <<>>])

(* THE SCHEMA STAGE, only when the document is a FILE (load_initial_spectrum -> load_gnpy_json -> yang_to_legacy validates  *)
(* against gnpy-spectrum.yang before _spectrum_from_json sees anything):  leaf f_max  must ". >= ./../f_min",              *)
(* list spectrum  key f_min.  libyang reports every broken rule at once (oopt_gnpy_libyang.Error).                         *)
SchemaRules(parts) ==
    (IF \E i \in 1..Len(parts) : IsEmpty(parts[i]) THEN {"FmaxBelowFmin"} ELSE {})
    \cup (IF \E i, j \in 1..Len(parts) : i # j /\ parts[i].fmin = parts[j].fmin THEN {"DuplicateFmin"} ELSE {})
FromFile(parts) == IF SchemaRules(parts) # {} THEN Err("schema", "Error", SchemaRules(parts), <<>>) ELSE FromDocument(parts)

-----------------------------------------------------------------------------
(* THE LAUNCH STAGE: what is handed to the SpectralInformation constructor and what it refuses.                          *)
(*   argsort(frequency); SpectrumError when two NEIGHBOURS of the sorted list overlap (upper edge of the left one above     *)
(*   the lower edge of the right one), THEN SpectrumError when a baud rate exceeds its slot width.  ChannelOps: Lo, Hi,      *)
(*   NeighbourOverlap, BaudExceeds.                                                                                         *)
BeforeInF(s, i, j) == s[i].f < s[j].f \/ (s[i].f = s[j].f /\ i < j)     \* (equal frequencies always end in SlotsOverlap)
SortByF(s)         == [k \in 1..Len(s) |-> s[CHOOSE i \in 1..Len(s) : Cardinality({j \in 1..Len(s) : BeforeInF(s, j, i)}) + 1 = k]]
Construct(carriers, chans) ==
    LET s == SortByF(chans) IN
    IF NeighbourOverlap(s)  THEN Err("launch", "SpectrumError", {"SlotsOverlap"}, carriers)
    ELSE IF BaudExceeds(s)  THEN Err("launch", "SpectrumError", {"BaudWiderThanSlot"}, carriers)
    ELSE Launched(carriers, s)

Channel(c, pch) == [f |-> c.f, w |-> c.w, b |-> c.b, ro |-> c.ro, dp |-> c.dp, osnr |-> c.osnr, txp |-> c.txp,
                    pch |-> pch, label |-> c.label]

(* propagate, req.initial_spectrum is not None:  carriers_to_spectral_information(initial_spectrum, power=req.power).        *)
(* Every carrier is launched with ITS OWN tx_power; `power` (the request's) is accepted and NOT USED.                         *)
Launch(carriers, power) == Construct(carriers, [i \in 1..Len(carriers) |-> Channel(carriers[i], carriers[i].txp)])

DocumentOutcome(via, parts, power) ==
    LET d == IF via = "file" THEN FromFile(parts) ELSE FromDocument(parts)
    IN IF Ok(d) THEN Launch(d.carriers, power) ELSE d

(* propagate, req.initial_spectrum is None:  create_input_spectral_information(req.f_min, req.f_max, req.roll_off,            *)
(*   req.baud_rate, req.spacing, req.tx_osnr, req.tx_power, delta_pdb=req.offset_db).                                         *)
(* nb = automatic_nch = int((f_max - f_min) // spacing), carriers at f_min + spacing * i for i = 1..nb: the uniform comb       *)
(* starts ONE SPACING ABOVE f_min (a partition starts AT f_min).  Slot = spacing, launch power = tx_power, power offset =      *)
(* the mode's equalisation offset, label f'{baud_rate * 1e-9:.2f}G'.  req.nb_channel and req.power are NOT USED.               *)
(* (same operator as RequestResolution!AutomaticNch)                                                                           *)
AutomaticNch(fmin, fmax, spacing) == (fmax - fmin) \div spacing
UniformComb(r) == [k \in 1..AutomaticNch(r.fmin, r.fmax, r.spacing) |->
                      [f |-> r.fmin + k * r.spacing, w |-> r.spacing, b |-> r.b, ro |-> r.ro, dp |-> r.offset,
                       osnr |-> r.txosnr, txp |-> r.txpower, pch |-> r.txpower, label |-> BaudText(r.b)]]
CombOutcome(r) ==
    \* SURPRISE: f_max < f_min is not refused by name: `delta_pdb * ones(nb)` with nb < 0 raises numpy's ValueError
    IF AutomaticNch(r.fmin, r.fmax, r.spacing) < 0 THEN Err("launch", "ValueError", {"NegativeChannelCount"}, <<>>)
    ELSE Construct(<<>>, UniformComb(r))

-----------------------------------------------------------------------------
(* LEMMAS - what a user of the stage may rely on.  TLC checks them on every case of MC_SpectrumDocument; where the code's  *)
(* rule is narrower than one would expect the lemma carries the guard and a SURPRISE comment, and the MC holds a witness.    *)

(* ---- one partition p (any partition, also an empty one) ---- *)
\* every carrier lies between f_min and f_max (centres; the SLOTS stick out by half a slot width on both sides)
CarriersInsidePartition(p) == \A k \in 1..Count(p) : p.fmin <= Partition(p)[k].f /\ Partition(p)[k].f <= p.fmax
\* the first carrier is AT f_min and neighbours are exactly one slot width apart: the slots of a partition tile
OneSlotApart(p) == LET cs == Partition(p) IN
                   /\ (Len(cs) > 0 => cs[1].f = p.fmin)
                   /\ \A k \in 1..(Len(cs) - 1) : cs[k + 1].f = cs[k].f + p.w /\ Hi(cs[k]) = Lo(cs[k + 1])
\* as many carriers as fit: the last one at or below f_max, the next one would be above; none when f_max < f_min
PartitionCount(p) == /\ (~IsEmpty(p) => /\ Count(p) = (p.fmax - p.fmin) \div p.w + 1 /\ Count(p) >= 1
                                        /\ LET last == p.fmin + (Count(p) - 1) * p.w IN last <= p.fmax /\ p.fmax < last + p.w)
                     /\ (IsEmpty(p) => Count(p) = 0)
\* all carriers of a partition carry the partition's attributes
OwnAttributesOfPartition(p) == \A k \in 1..Count(p) : LET c == Partition(p)[k] IN
                               c.w = p.w /\ c.b = p.b /\ c.ro = p.ro /\ c.dp = p.dp /\ c.osnr = p.osnr /\ c.txp = p.txp /\ c.label = p.label

(* ---- one document `parts`,  o == FromDocument(parts) ---- *)
NoEmpty(parts)      == \A i \in 1..Len(parts) : ~IsEmpty(parts[i])
DistinctFmin(parts) == \A i, j \in 1..Len(parts) : i # j => parts[i].fmin # parts[j].fmin
Pairwise(s)         == \E i, j \in 1..Len(s) : i # j /\ Hi(s[i]) > Lo(s[j]) /\ Hi(s[j]) > Lo(s[i])      \* two open slots intersect
RECURSIVE Concat(_, _)
Concat(ps, k)       == IF k > Len(ps) THEN <<>> ELSE Partition(ps[k]) \o Concat(ps, k + 1)
AllCarriers(parts)  == Concat(Prepared(parts), 1)        \* every partition's carriers, whatever the others are

\* the document stage refuses in two ways only
DocumentErrorsClassified(o) == ~Ok(o) => /\ o.stage = "document" /\ o.carriers = <<>> /\ o.spec = <<>>
                                         /\ <<o.kind, o.rules>> \in {<<"ValueError", {"PartitionsOverlap"}>>,
                                                                   <<"UnboundLocalError", {"NoCarrierYet"}>>}
\* an accepted document yields every carrier of every partition, in increasing frequency (so that no dict key repeats)
AcceptedKeepsEveryCarrier(parts, o)  == Ok(o) => o.carriers = AllCarriers(parts)
FrequenciesStrictlyIncreasing(o)     == Ok(o) => \A i \in 1..(Len(o.carriers) - 1) : o.carriers[i].f < o.carriers[i + 1].f
\* ... and, when no partition is empty, slots that do not overlap.
\* SURPRISE: an EMPTY partition (f_max < f_min) between two others replaces the left one's slot width by its own in the
\* test, so that with a narrower one overlapping carriers are accepted here (and refused by the launch stage).
SortedAndDisjoint(parts, o) == (Ok(o) /\ NoEmpty(parts)) => /\ \A i \in 1..(Len(o.carriers) - 1) : Hi(o.carriers[i]) <= Lo(o.carriers[i + 1])
                                                            /\ ~Pairwise(o.carriers)
\* WHAT THE RULE COMPARES: for two partitions that follow each other in f_min order, the upper slot edge of the LAST
\* CARRIER of the first (not its f_max) with the lower slot edge of the FIRST carrier of the second (its f_min - w/2).
EdgeSlotsOverlap(p, q) == Hi(Partition(p)[Count(p)]) > q.fmin - q.w \div 2
RefusalIsExactlyOverlap(parts, o) ==
    NoEmpty(parts) => LET s == Prepared(parts) IN
                      (~Ok(o)) <=> \E k \in 1..(Len(s) - 1) : EdgeSlotsOverlap(s[k], s[k + 1])
\* ... which finds exactly the documents in which ANY two carriers overlap, consecutive partitions or not
RefusalIsPairwiseOverlap(parts, o) == NoEmpty(parts) => ((~Ok(o)) <=> Pairwise(AllCarriers(parts)))
\* SURPRISE: a document whose lowest partition is empty is not refused by name: it dies with an UnboundLocalError
UnboundIsEmptyFirst(parts, o) == (~Ok(o) /\ o.kind = "UnboundLocalError") <=> IsEmpty(SortByFmin(parts)[1])

\* every optional attribute is filled: the partition's own value when it gives one, else the default - never a neighbour's
OwnerOf(parts, c) == {i \in 1..Len(parts) : /\ parts[i].fmin <= c.f /\ c.f <= parts[i].fmax
                                            /\ (c.f - parts[i].fmin) % parts[i].w = 0 /\ c.w = parts[i].w}
OrDefault(given, default, value) == value = (IF given = NONE THEN default ELSE given)
DefaultsFilled(parts, o) ==
    Ok(o) => \A k \in 1..Len(o.carriers) : LET c == o.carriers[k] IN
             /\ c.dp # NONE /\ c.osnr # NONE /\ c.txp # NONE /\ c.label # NoLabel
             /\ \E i \in OwnerOf(parts, c) : /\ OrDefault(parts[i].dp, DefaultDeltaPdb, c.dp)
                                            /\ OrDefault(parts[i].osnr, DefaultTxOsnr, c.osnr)
                                            /\ OrDefault(parts[i].txp, DefaultTxPower, c.txp)
                                            /\ c.b = parts[i].b /\ c.ro = parts[i].ro
                                            /\ (parts[i].label # NoLabel => c.label = parts[i].label)
             /\ Cardinality(OwnerOf(parts, c)) = 1
\* a label that the code makes up names the partition by its rank in FREQUENCY order (from 0) and its baud rate: the
\* made-up labels of different partitions differ, the carriers of one partition share theirs.
\* SURPRISE: labels GIVEN by the document are not compared: two partitions may carry the same one.
LabelsDistinctPerPartition(parts, o) ==
    Ok(o) => LET s == SortByFmin(parts)
                 ps == Prepared(parts)
             IN /\ \A k, m \in 1..Len(s) :
                      /\ (s[k].label = NoLabel => ps[k].label = DefaultLabel(k - 1, s[k].b))
                      /\ (k # m /\ s[k].label = NoLabel /\ s[m].label = NoLabel => ps[k].label # ps[m].label)
                /\ \A i \in 1..Len(o.carriers) : \E k \in 1..Len(ps) :       \* every carrier bears the label of its partition
                      /\ ps[k].fmin <= o.carriers[i].f /\ o.carriers[i].f <= ps[k].fmax /\ o.carriers[i].label = ps[k].label
\* the order in which the document lists its partitions does not matter ...
\* SURPRISE: ... as long as no two have the same f_min (the sort is stable: with an empty one among them the outcome differs)
Perms(n) == {q \in [1..n -> 1..n] : \A i, j \in 1..n : i # j => q[i] # q[j]}
OrderOfPartitionsIrrelevant(parts) ==
    DistinctFmin(parts) => \A q \in Perms(Len(parts)) : FromDocument([i \in 1..Len(parts) |-> parts[q[i]]]) = FromDocument(parts)

(* ---- a file: the schema stage in front ---- *)
\* a FILE never reaches the document stage with an empty partition or a repeated f_min: both SURPRISES above are out of reach
FileHasNoEmptyPartition(parts)  == Ok(FromFile(parts)) => NoEmpty(parts) /\ DistinctFmin(parts)
FileAgreesWithDocument(parts)   == SchemaRules(parts) = {} => FromFile(parts) = FromDocument(parts)
FileRefusalIsOverlapOrSchema(parts) == LET o == FromFile(parts) IN
    ~Ok(o) => \/ (o.stage = "schema" /\ o.kind = "Error" /\ o.rules # {} /\ o.rules \subseteq {"FmaxBelowFmin", "DuplicateFmin"})
              \/ (o.stage = "document" /\ o.kind = "ValueError")

(* ---- the launch of a document,  d == FromDocument(parts) or FromFile(parts),  o == DocumentOutcome(via, parts, power) ---- *)
\* WHICH STAGE REFUSES WHAT: a baud rate wider than its slot passes the document stage and is refused by the constructor
\* (SpectrumError); the constructor is the only one to refuse after the document stage
OnlyConstructorRefusesAfterDocument(d, o) == (Ok(d) /\ ~Ok(o)) => /\ o.stage = "launch" /\ o.kind = "SpectrumError"
                                                                  /\ o.carriers = d.carriers /\ o.spec = <<>>
BaudWiderRefusedAtLaunchOnly(parts, d, o) ==
    (Ok(d) /\ NoEmpty(parts)) => ((\E k \in 1..Len(d.carriers) : d.carriers[k].b > d.carriers[k].w)
                                  <=> (~Ok(o) /\ o.rules = {"BaudWiderThanSlot"}))
\* the constructor's own overlap test never fires on a document that the document stage accepted - without empty partitions
LaunchFindsNoOverlapAfterDocument(parts, d, o) ==
    (Ok(d) /\ NoEmpty(parts)) => ~(~Ok(o) /\ o.rules = {"SlotsOverlap"})
\* launched = the document's carriers, one channel each, same order, each with ITS OWN tx_power as channel power
LaunchedAsWritten(d, o) ==
    Ok(o) => /\ o.carriers = d.carriers /\ Len(o.spec) = Len(d.carriers)
             /\ \A k \in 1..Len(o.spec) : o.spec[k] = Channel(d.carriers[k], d.carriers[k].txp)
\* the request's power plays no part
RequestPowerIrrelevant(d, power, otherPower) == Ok(d) => Launch(d.carriers, power) = Launch(d.carriers, otherPower)

(* ---- the uniform comb of a request r,  o == CombOutcome(r) ---- *)
\* centres in (f_min, f_max]: the first one spacing above f_min, the last at or below f_max, as many as fit.
\* SURPRISE: the last SLOT reaches up to half a spacing above f_max (when f_max - f_min is a multiple of the spacing the last
\* centre is f_max itself); an empty comb (f_max - f_min < spacing) is launched as a spectrum of 0 channels - it is filter_si
\* that refuses it afterwards ("Defined propagation band does not match amplifiers band").
UniformCombFitsBand(r, o) ==
    Ok(o) => LET n == Len(o.spec) IN
             /\ n = AutomaticNch(r.fmin, r.fmax, r.spacing)
             /\ \A k \in 1..n : o.spec[k].f = r.fmin + k * r.spacing /\ r.fmin < o.spec[k].f /\ o.spec[k].f <= r.fmax
             /\ r.fmax < r.fmin + (n + 1) * r.spacing
\* the comb of a request IS the partition [f_min + spacing, f_max] of slot width `spacing`
CombIsPartitionOneSpacingUp(r, o) ==
    Ok(o) => LET p == [fmin |-> r.fmin + r.spacing, fmax |-> r.fmax, w |-> r.spacing, b |-> r.b, ro |-> r.ro, dp |-> r.offset,
                       osnr |-> r.txosnr, txp |-> r.txpower, label |-> BaudText(r.b)]
             IN o.spec = [k \in 1..Count(p) |-> Channel(Partition(p)[k], r.txpower)]
\* every channel carries the request's attributes; launch power is tx_power (not power), offset is the mode's
CombAttributes(r, o) ==
    Ok(o) => \A k \in 1..Len(o.spec) : LET x == o.spec[k] IN
             /\ x.w = r.spacing /\ x.b = r.b /\ x.ro = r.ro /\ x.osnr = r.txosnr /\ x.txp = r.txpower /\ x.pch = r.txpower
             /\ x.dp = r.offset /\ x.label = BaudText(r.b)
\* refused iff the baud rate is wider than the spacing AND there is a channel to see it, or f_max < f_min
CombRefusals(r, o) ==
    /\ (~Ok(o) /\ o.kind = "SpectrumError") <=> (r.b > r.spacing /\ AutomaticNch(r.fmin, r.fmax, r.spacing) >= 1)
    /\ (~Ok(o) /\ o.kind = "ValueError") <=> r.fmax < r.fmin
    /\ (~Ok(o) => o.stage = "launch" /\ o.rules \in {{"BaudWiderThanSlot"}, {"NegativeChannelCount"}})
\* nb_channel and power of the request play no part
CombIgnoresCountAndPower(r) == \A n \in {NONE, 1, 7} : \A pw \in {0, dB(3)} :
                                  CombOutcome([r EXCEPT !.nch = n, !.power = pw]) = CombOutcome(r)
==============================================================================
