------------------------- MODULE Trace_SpectrumAssign -------------------------
(* B3 for C14: executions of the real planning() / pth_assign_spectrum, recorded as one event per request,   *)
(* are judged against SpectrumOps.  Monitor-shaped: every event is consumed and `viol` accumulates           *)
(* <<step, clause>> for every clause that fails, so the verdict is total and names the failing clause.        *)
(* The occupancy is carried forward from the OBSERVED results (re-synchronising after a deviation) and the    *)
(* final model occupancy is compared with the bitmaps the code ended with.                                    *)
EXTENDS TraceData, Json, IOUtils

NMin == TNMin
NMax == TNMax
IdxMin == TIdxMin
IdxMax == TIdxMax
OMS == TOMS
Unusable == TUnusable
Policy == TPolicy
INSTANCE SpectrumOps

T == ndJsonDeserialize(IOEnv.TRACE_FILE)

VARIABLES tid, i, occ, viol
vars == <<tid, i, occ, viol>>

Req(e)  == [path |-> SeqRange(e.path), slots |-> e.slots, bw |-> e.bw, rate |-> e.rate, spacing |-> e.spacing, pre |-> e.pre]
Obs(e)  == [st |-> e.st, nm |-> e.nm]
IvSet(iv) == UNION {(iv[k][1])..(iv[k][2]) : k \in 1..Len(iv)}

\* clauses evaluated on the observed outcome of one request against the occupancy before it
StepClauses(oc, e) ==
  LET t == Req(e)
      model == Outcome(oc, t)
      busy == BusyOn(oc, t.path)
      nm == e.nm
      R(j) == SlotRange(nm[j].n, nm[j].m)
      J == 1..Len(nm)
      fixedBoth == {s \in SeqRange(t.slots) : s.n # NONE /\ s.m # NONE}
      fixedN == {s \in SeqRange(t.slots) : s.n # NONE /\ s.m = NONE}
      fixedM == {s \in SeqRange(t.slots) : s.n = NONE /\ s.m # NONE}
  IN  (IF Obs(e) = model THEN {} ELSE {"ResultEqualsModel"})
      \cup (IF e.st = "served" /\ \E j \in J : R(j) \cap busy # {} THEN {"NoDoubleBooking"} ELSE {})
      \cup (IF e.st = "served" /\ \E a, b \in J : a < b /\ R(a) \cap R(b) # {} THEN {"NoDoubleBooking"} ELSE {})
      \cup (IF e.st = "served" /\ \E j \in J : \E k \in R(j) : k < IdxMin \/ k > IdxMax \/ k \notin Slots
            THEN {"InsideBandAndGuards"} ELSE {})
      \cup (IF e.st = "served" /\ SumM(nm) < NbWl(t) * Pcm(t) THEN {"EnoughSlots"} ELSE {})
      \cup (IF e.st = "served" /\ (\E j \in J : ~\E s \in SeqRange(t.slots) :
                                      (s.n = NONE \/ s.n = nm[j].n) /\ (s.m = NONE \/ s.m = nm[j].m))
            THEN {"UserFixedHonouredOrBlocked"} ELSE {})
      \cup (IF Policy = "first_fit" /\ e.st = "served" /\ t.slots = <<NoSel>> /\ (\E n \in Slots : n < nm[1].n /\ OkAt(busy, n, nm[1].m))
            THEN {"FirstFitIsLowest"} ELSE {})
      \cup (IF Policy = "last_fit" /\ e.st = "served" /\ t.slots = <<NoSel>> /\ (\E n \in Slots : n > nm[1].n /\ OkAt(busy, n, nm[1].m))
            THEN {"LastFitIsHighest"} ELSE {})
      \cup (IF e.st = "NO_SPECTRUM" /\ t.slots = <<NoSel>> /\ (\E n \in Slots : OkAt(busy, n, NbWl(t) * Pcm(t)))
            THEN {"FreeSlotServedWhenFeasible"} ELSE {})
      \cup (IF e.st \notin {"served", "preblocked", "NO_SPECTRUM", "NOT_ENOUGH_RESERVED_SPECTRUM"}
            THEN {"ServedOrBlocked"} ELSE {})

Advance(oc, e) == Write(oc, Req(e), Obs(e))

FinalClauses(oc, tr) == IF \A o \in OMS : oc[o] = IvSet(tr.final[o + 1]) THEN {} ELSE {"OccupancyIsUnionOfServed"}

Init == /\ tid \in 1..Len(T)
        /\ i = 0
        /\ occ = [o \in OMS |-> {}]
        /\ viol = {}

Next == /\ i < Len(T[tid].ev)
        /\ i' = i + 1
        /\ tid' = tid
        /\ LET e == T[tid].ev[i + 1]
               oc2 == Advance(occ, e)
           IN /\ occ' = oc2
              /\ viol' = viol \cup {<<i + 1, c>> : c \in StepClauses(occ, e)}
                              \cup (IF i + 1 = Len(T[tid].ev) THEN {<<i + 1, c>> : c \in FinalClauses(oc2, T[tid])} ELSE {})

\* verdict line: one per trace, printed when the last event has been consumed
Done == i < Len(T[tid].ev) \/ PrintT("@@" \o ToJson([name |-> T[tid].name, n |-> i, viol |-> viol]))
==============================================================================
