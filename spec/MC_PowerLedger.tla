--------------------------- MODULE MC_PowerLedger ---------------------------
(* Bounded model for C01 / C02 (B1): three channels with launch powers 1, 2, 4; gains/losses 1/4, 1/2, 2        *)
(* (uniform and tilted across the channels), ASE additions 0, 1/8, 1, NLI transfers of 0, 1/8, 1/2 of the      *)
(* channel power, every split of the three channels in two spectra (bands in either order, and the middle  *)
(* channel against the outer two, whose merge interleaves), a sub-spectrum split again (three spectra merged  *)
(* at once); every behaviour of at most MaxDepth operations.                                                   *)
(* All integers met stay below 2^31 (TLC would stop with an overflow error otherwise).                          *)
EXTENDS PowerLedger, TLC

CONSTANT MaxDepth

Q(n, d) == <<n, d>>
MCNCh == 3
MCLaunch == <<Q(1, 1), Q(2, 1), Q(4, 1)>>
MCScaleArgs == { <<Q(1, 2), Q(1, 2), Q(1, 2)>>, <<Q(2, 1), Q(2, 1), Q(2, 1)>>, <<Q(1, 4), Q(1, 2), Q(2, 1)>> }
MCAseArgs   == { <<Q(1, 8), Q(1, 8), Q(1, 8)>>, <<Q(1, 1), Q(1, 8), Q(0, 1)>> }
MCNliArgs   == { <<Q(1, 8), Q(1, 8), Q(1, 8)>>, <<Q(1, 2), Q(1, 8), Q(0, 1)>> }
MCSplits == (SUBSET (1..MCNCh)) \ {{}, 1..MCNCh}      \* every selection: lower / upper band first, middle channel out

\* at most MaxDepth operations.  The bound is an explicit counter: TLCGet("level") is not a function of the state
\* when several workers explore in parallel (measured here: 3 % of the states were missed), a counter is exact.
VARIABLE depth
mcvars == <<parts, src, last, twin, depth>>
MCInit == Init /\ depth = 0
MCNext == depth < MaxDepth /\ Next /\ depth' = depth + 1

\* the action properties of PowerLedger over the variables of this module
MCDemuxMuxKeepLedger == [][DemuxMuxKeepLedgerStep]_mcvars
MCSourceUntouched    == [][SourceUntouchedStep]_mcvars
MCTwinUntouched      == [][TwinUntouchedStep]_mcvars
MCKeepsOsnr          == [][KeepsOsnrStep]_mcvars
MCKeepsNli           == [][KeepsNliStep]_mcvars
MCLowersOsnr         == [][LowersOsnrStep]_mcvars
MCLowersNli          == [][LowersNliStep]_mcvars
MCNeverImprovesGsnr  == [][NeverImprovesGsnrStep]_mcvars
MCOthersUntouched    == [][OthersUntouchedStep]_mcvars

\* vacuity witnesses (each must be VIOLATED when listed as an invariant)
WitnessMuxAfterOps == ~(last.op = "Mux" /\ \E ch \in All(parts) : ch.A # RZero /\ ch.N # RZero)
WitnessNoiseInBand == ~(Len(parts) >= 2 /\ \E ch \in All(parts) : ch.A # RZero /\ ch.N # RZero)
\* three spectra at once (merged by the next Mux), noise already added to one of them
WitnessThreeParts == ~(Len(parts) = 3 /\ \E ch \in All(parts) : ch.A # RZero)
\* a merge that interleaves two spectra with different noise histories
WitnessInterleavedMux == ~(last.op = "Mux" /\ Led(parts, 2).N # RZero /\ Led(parts, 1).N = RZero /\ Led(parts, 3).A # RZero)
==============================================================================
