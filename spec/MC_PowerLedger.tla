--------------------------- MODULE MC_PowerLedger ---------------------------
(* Bounded model for C01 / C02: three channels with launch powers 1, 2, 4; gains/losses 1/4, 1/2, 2 (uniform  *)
(* and tilted across the channels), ASE additions 0, 1/8, 1, NLI transfers of 0, 1/8, 1/2 of the channel     *)
(* power, a band boundary after channel 1 or 2.  `hist` records the behaviour so that TLC can emit every     *)
(* behaviour of MaxDepth operations for the replay into the real SpectralInformation (B2).                   *)
EXTENDS PowerLedger, TLC, Json

CONSTANT MaxDepth
VARIABLE hist          \* sequence of [op, j, arg, parts, q]: parts = state after the operation,
                       \* q[c] = <<1/OSNR_ASE, 1/SNR_NLI, 1/GSNR>> of channel c after it

Q(n, d) == <<n, d>>
MCNCh == 3
MCLaunch == <<Q(1, 1), Q(2, 1), Q(4, 1)>>
MCScaleArgs == { <<Q(1, 2), Q(1, 2), Q(1, 2)>>, <<Q(2, 1), Q(2, 1), Q(2, 1)>>, <<Q(1, 4), Q(1, 2), Q(2, 1)>> }
MCAseArgs   == { <<Q(1, 8), Q(1, 8), Q(1, 8)>>, <<Q(1, 1), Q(1, 8), Q(0, 1)>> }
MCNliArgs   == { <<Q(1, 8), Q(1, 8), Q(1, 8)>>, <<Q(1, 2), Q(1, 8), Q(0, 1)>> }
MCCuts == {1, 2}

MCInit == Init /\ hist = <<>>
MCNext == /\ Len(hist) < MaxDepth
          /\ Next
          /\ hist' = Append(hist, [op |-> last'.op, j |-> last'.j, arg |-> last'.arg, parts |-> parts',
                                    q |-> [c \in Chan |-> LET ch == Led(parts', c) IN <<InvOsnr(ch), InvNli(ch), InvGsnr(ch)>>]])
mcvars == <<parts, last, hist>>

\* the same clauses over the variables of this module
MCKeepsOsnr          == [][KeepsOsnrStep]_mcvars
MCKeepsNli           == [][KeepsNliStep]_mcvars
MCLowersOsnr         == [][LowersOsnrStep]_mcvars
MCLowersNli          == [][LowersNliStep]_mcvars
MCNeverImprovesGsnr  == [][NeverImprovesGsnrStep]_mcvars
MCOthersUntouched    == [][OthersUntouchedStep]_mcvars
MCDemuxMuxKeepLedger == [][DemuxMuxKeepLedgerStep]_mcvars

\* emission for the spec -> code replay (B2): one JSON line per behaviour of MaxDepth operations
Emit == Len(hist) < MaxDepth \/ PrintT("@@" \o ToJson(hist))

\* witnesses used once to show that no clause is vacuous (each must be VIOLATED when listed as an invariant)
WitnessNoiseBoth == ~\E ch \in All(parts) : ch.A # RZero /\ ch.N # RZero /\ Len(parts) = 2
WitnessMuxAfterOps == ~(last.op = "Mux" /\ \E ch \in All(parts) : ch.A # RZero /\ ch.N # RZero)
==============================================================================
