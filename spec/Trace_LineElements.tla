--------------------------- MODULE Trace_LineElements ---------------------------
(* B3 for C04 / C05 / C06: element crossings recorded from the real code (gnpy.topology.request.propagate on the   *)
(* shipped networks, and the crossings executed while replaying TLC-generated cases) are judged against the laws   *)
(* of LineElements.  Monitor-shaped: every event is consumed, `viol` accumulates <<step, clause>> for every clause   *)
(* that fails, one verdict line per trace.                                                                         *)
(*                                                                                                                *)
(* A trace is [name, ev |-> <<events>>]; an event is a record with a kind k:                                       *)
(*   "Roadm"  one ROADM crossing           (C06: Equalises, NeverAmplifies, NotAboveTarget, LossApplied, Reported,    *)
(*                                          SinglePolicy)                                                         *)
(*   "Edfa"   one amplifier crossing       (C04: EffLaw, PadLaw, GainLaw, NeverAbovePmax, FlatProfile, AseLaw,       *)
(*                                               NfRipple, NoMemory, PoutReported, OutOfBand)                       *)
(*   "Sweep"  NF of one amplifier type over increasing gains (C04: NfMinAtFlatMax, NfMaxAtGainMin, NonIncreasing,    *)
(*                                               NonIncreasingExtended, ClampAboveMax, DualCascade, DbForDbBelowMin)*)
(*   "Curve" / "NfCurve"  the configured NF curve of an amplifier type (uniform table) and observations of its reported   *)
(*            NF at given loads / gains (C04: NfFollowsModel - OpenROADM ILA polynomial and preamp mask read at the input  *)
(*            power per 50 GHz slot, polynomial model read at the gain deficit)                                           *)
(*   "Fiber"  one fibre crossing           (C05: LossBudget, NoMemory, ContribFromConfig, CdFromConfig + the            *)
(*                                          accumulation clauses)                                                  *)
(*   "Refused" a fibre configuration the constructor refused (C05: RefusedOnlyInvalid - `valid` is the model's        *)
(*            SpanValid of that configuration; a configuration the constructor ACCEPTS is judged as a fibre)         *)
(*   "Acc"    accumulators around a ROADM / amplifier crossing (C05: CdLinear, LatencyLinear, PmdQuadrature, ...)    *)
(*   "End"    final accumulators of one ordering of a set of elements (C05: OrderIndependent, against the first      *)
(*            "End" of the trace, carried in `ref`)                                                                  *)
(*   "LowPower" "LumpedOnce" "PumpsOnlyAddGain" "MethodsAgree"   Raman-on relational clauses of C05 (two runs of the *)
(*            same fibre under varied settings, per-channel losses a / b)                                            *)
EXTENDS LineElements, Json, IOUtils, TLC

T == ndJsonDeserialize(IOEnv.TRACE_FILE)

\* tolerances (micro-dB unless stated); measured deviations on the unchanged tree are recorded in the evidence
Tol        == 3           \* exact laws: float noise is ~1e-9 udB, integer rounding of 2-3 terms <= 1.5
TolNoAmp   == 1           \* out <= in: only the rounding of the two sides
TolTilt    == 50000       \* GainLaw with tilt or ripple on a non-flat input comb (three-point solver), 50 mdB
TolNfEnd   == 11000       \* nf(flatMax) = nfMin, nf(gainMin) = nfMax: the loader accepts 10 mdB, + 1 mdB
TolCurve   == 30          \* NF against the configured curve: table interpolation (0.02 dB grid) <= 2 udB + roundings
TolLin     == 10          \* linear NF x 1e6 (values ~5e6): 2 ppm, i.e. ~9 udB; rounding of three terms <= 1.5
TolAcc     == 3           \* 1e-3 ps/nm, ns, fs^2, mdB^2
TolPmdCfg  == 30          \* fs^2: pmd_coef^2 x length against (pmd_coef x sqrt(length))^2, relative float noise on ~1e6 fs^2
TolRamanLow  == 2000      \* LowPower / LumpedOnce / PumpsOnlyAddGain: 2 mdB (measured 6e-8 dB at -60 dBm per channel)
TolMethodsFine == 12000   \* MethodsAgree without pumps against the numerical method at a 2 m step: 12 mdB (measured 1.1 mdB)
TolMethods   == 40000     \* MethodsAgree without pumps: 40 mdB          (measured 3.0 mdB: perturbative 2 @50 m vs numerical @10 m)
TolMethodsPumped == 400000 \* MethodsAgree with counter-propagating pumps: 0.4 dB (measured 32 mdB, iterative scheme @50 m vs @10 m)

VARIABLES tid, i, ref, viol
vars == <<tid, i, ref, viol>>

NoRef == [set |-> FALSE]
Fails(name, ok) == IF ok THEN {} ELSE {name}

RoadmClauses(e) ==
        Fails("Equalises", RoadmEqualises(e, Tol))
   \cup Fails("NeverAmplifies", RoadmNeverAmplifies(e, TolNoAmp))
   \cup Fails("NotAboveTarget", RoadmNotAboveTarget(e, Tol))
   \cup Fails("LossApplied", RoadmLossApplied(e, Tol))
   \cup Fails("Reported", RoadmReported(e, Tol))
   \cup Fails("SinglePolicy", e.npol = 1)

EdfaClauses(e) ==
   \* the gain-profile solver is exact for a flat comb, and for any comb when there is neither tilt nor ripple
   LET tg == IF e.flatIn = 1 \/ (e.tilt = 0 /\ e.ripple = 0) THEN Tol ELSE TolTilt
   IN   Fails("EffLaw", AmpEffLaw(e, Tol))
   \cup Fails("PadLaw", AmpPadLaw(e, Tol))
   \cup Fails("GainLaw", AmpGainLaw(e, tg))
   \cup Fails("NeverAbovePmax", AmpNeverAbovePmax(e, tg))
   \cup Fails("FlatProfile", AmpFlatProfile(e, Tol))
   \cup Fails("AseLaw", AmpAseLaw(e, Tol))
   \cup Fails("NfRipple", AmpNfRippleLaw(e, Tol))
   \cup Fails("NoMemory", AmpNoMemory(e, Tol))
   \cup Fails("PoutReported", AmpPoutReported(e, Tol))
   \cup Fails("OutOfBand", e.bandDecided = 0 \/ AmpBandLaw(e.inb, e.outb, e.band))

SweepClauses(e) ==
        Fails("NfMinAtFlatMax", SweepNfMinAtFlatMax(e, e.pts, TolNfEnd))
   \cup Fails("NfMaxAtGainMin", SweepNfMaxAtGainMin(e, e.pts, TolNfEnd))
   \cup Fails("NonIncreasing", SweepNonIncreasing(e, e.pts, TolNoAmp))
   \cup Fails("NonIncreasingExtended", SweepNonIncreasingExtended(e, e.pts, TolNoAmp))
   \cup Fails("ClampAboveMax", SweepClampAboveMax(e, e.pts, Tol))
   \cup Fails("DualCascade", SweepDualCascade(e, e.pts, TolLin))
   \cup Fails("DbForDbBelowMin", SweepDbForDbBelowMin(e, e.pts, Tol))

AccClauses(e) ==
        Fails("CdLinear", AccCdLinear(e, TolAcc))
   \cup Fails("LatencyLinear", AccLatencyLinear(e, TolAcc))
   \cup Fails("PmdQuadrature", AccPmdQuadrature(e, TolAcc))
   \cup Fails("PdlQuadrature", AccPdlQuadrature(e, TolAcc))

\* C05: a span with a single-value dispersion D (no slope) adds D x its length to the CD of EVERY channel, whatever the
\* reference wavelength / frequency its parameters are given at (cdCfg = D x length from the configuration, 1e-3 ps/nm;
\* NONE: dispersion table or slope - the span's CD is then only required to accumulate linearly)
FiberCdFromConfig(x, tol) == "cdCfg" \in DOMAIN x /\ x.cdCfg # NONE => \A j \in 1..Len(x.dCd) : Within(x.dCd[j], x.cdCfg, tol)

SameSeq(a, b, tol) == Len(a) = Len(b) /\ \A j \in 1..Len(a) : Within(a[j], b[j], tol)
EndClauses(e, r) ==
   IF ~r.set THEN {}
   ELSE Fails("OrderIndependent", /\ SameSeq(e.cd, r.cd, TolAcc) /\ SameSeq(e.lat, r.lat, TolAcc)
                                  /\ SameSeq(e.pmd, r.pmd, TolAcc) /\ SameSeq(e.pdl, r.pdl, TolAcc)
                                  /\ SameSeq(e.loss, r.loss, Tol))

\* relational Raman clauses: e.ch = <<[a, b]>> per-channel losses of the two runs
RamanClauses(e) ==
   CASE e.k = "LowPower"  -> Fails("LowPower", \A j \in 1..Len(e.ch) : Within(e.ch[j].a, e.ch[j].b, TolRamanLow))
     [] e.k = "LumpedOnce" -> Fails("LumpedOnce", \A j \in 1..Len(e.ch) : Within(e.ch[j].a, e.ch[j].b + e.lumped, TolRamanLow))
     [] e.k = "PumpsOnlyAddGain" -> Fails("PumpsOnlyAddGain", \A j \in 1..Len(e.ch) : e.ch[j].a <= e.ch[j].b + TolRamanLow)
     [] e.k = "MethodsAgree" -> Fails("MethodsAgree", \A j \in 1..Len(e.ch) :
                                         Within(e.ch[j].a, e.ch[j].b, IF e.pumped = 1 THEN TolMethodsPumped
                                                                      ELSE IF e.fine = 1 THEN TolMethodsFine ELSE TolMethods))

StepClauses(e, r, first) ==
   CASE e.k = "Roadm" -> RoadmClauses(e)
     [] e.k = "Edfa"  -> EdfaClauses(e)
     [] e.k = "Sweep" -> SweepClauses(e)
     [] e.k = "Fiber" -> Fails("LossBudget", FiberLossBudget(e, Tol)) \cup Fails("NoMemory", FiberNoMemory(e, Tol))
                         \cup (IF e.acc = 1 THEN AccClauses(e) \cup Fails("ContribFromConfig", FiberContribFromConfig(e, TolAcc, TolPmdCfg))
                                                 \cup Fails("CdFromConfig", FiberCdFromConfig(e, TolAcc))
                              ELSE {})
     [] e.k = "Refused" -> Fails("RefusedOnlyInvalid", e.valid = 0)
     [] e.k = "Acc"   -> AccClauses(e) \cup Fails("ElementContribFromConfig", ElementContribFromConfig(e, TolPmdCfg))
     [] e.k = "End"   -> EndClauses(e, r)
     [] e.k = "Curve" -> {}                                  \* the configured curve of the trace's amplifier (first event)
     [] e.k = "NfCurve" -> Fails("NfFollowsModel", first.k = "Curve" /\ NfFollowsModel(e, first.tab, TolCurve))
     [] e.k \in {"LowPower", "LumpedOnce", "PumpsOnlyAddGain", "MethodsAgree"} -> RamanClauses(e)
     [] OTHER -> {"UnknownEvent"}

Init == /\ tid \in 1..Len(T)
        /\ i = 0
        /\ ref = NoRef
        /\ viol = {}

Next == /\ i < Len(T[tid].ev)
        /\ i' = i + 1
        /\ tid' = tid
        /\ LET e == T[tid].ev[i + 1]
           IN /\ viol' = viol \cup {<<i + 1, c>> : c \in StepClauses(e, ref, T[tid].ev[1])}
              /\ ref' = IF e.k = "End" /\ ~ref.set
                        THEN [set |-> TRUE, cd |-> e.cd, lat |-> e.lat, pmd |-> e.pmd, pdl |-> e.pdl, loss |-> e.loss]
                        ELSE ref

\* verdict line: one per trace, printed when the last event has been consumed
Done == i < Len(T[tid].ev) \/ PrintT("@@" \o ToJson([name |-> T[tid].name, n |-> i, viol |-> viol]))
==============================================================================
