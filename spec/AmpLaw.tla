-------------------------------- MODULE AmpLaw --------------------------------
(* C04 - an amplifier applies its set gain, reduced only as far as needed so that total output never exceeds pMax. *)
(*                                                                                                                *)
(* State machine: one amplifier (type constants gainMin, flatMax, pMax; settings gainTarget, VOAs, tilt) is        *)
(* crossed by a sequence of loads (Edfa.__call__ on successive spectral informations, as happens when several      *)
(* requests are propagated over one network).  Each crossing is a function of the SETTINGS and of that crossing's  *)
(* input power only - the amplifier has no memory.  All values micro-dB (LineElements).                            *)
EXTENDS LineElements

CONSTANTS
  Amps,          \* set of [id, typeDef, gainMin, flatMax, pMax, ripple]
  GainTargets(_),\* amplifier -> set of gain settings to explore
  Variants,      \* set of [inVoa, outVoa, nIn, nOut, ramp, edge]: VOA settings and shape of the load
                 \*   nIn / nOut channels inside / outside the amplifier band (edge = 1: just outside), ramp = 1: non-flat comb
  Tilts,         \* set of tilt settings
  PinTots,       \* set of total in-band input powers (before the input VOA)
  NGrids,        \* number of different frequency grids (same channel count) the successive loads are carried on
  MaxCross       \* crossings per history

VARIABLES amp, set, hist
vars == <<amp, set, hist>>

Settings(a) == [gainTarget : GainTargets(a), var : Variants, tilt : Tilts]

Init == /\ amp \in Amps
        /\ set \in Settings(amp)
        /\ hist = <<>>

\* one crossing with total in-band input power pinRaw
Crossing(pinRaw) ==
   LET pin == pinRaw - set.var.inVoa
       eff == AmpEff(set.gainTarget, amp.pMax, pin)
   IN [pinRaw |-> pinRaw, pin |-> pin, eff |-> eff, pad |-> AmpPad(amp.gainMin, eff),
       regime |-> AmpRegime(eff, amp.gainMin, amp.flatMax), sat |-> AmpSaturated(set.gainTarget, amp.pMax, pin),
       outTot |-> AmpOutTot(pin, eff),                       \* at the output of the gain block
       gTot |-> eff - set.var.inVoa - set.var.outVoa,        \* input -> output of the element
       nOutCh |-> set.var.nIn,                               \* out-of-band channels are not amplified: they are dropped
       grid |-> Len(hist) % NGrids]                          \* successive loads sit on different frequency grids

Cross(pinRaw) == /\ Len(hist) < MaxCross
                 /\ hist' = Append(hist, Crossing(pinRaw))
                 /\ UNCHANGED <<amp, set>>

Next == \E p \in PinTots : Cross(p)
Spec == Init /\ [][Next]_vars

(* ---------------------------------------------- the clauses of C04 ------------------------------------------ *)
H == 1..Len(hist)
\* total output (of the gain block) never exceeds the model's maximum output power
NeverAbovePmax      == \A k \in H : hist[k].outTot <= amp.pMax
\* the effective gain is the set gain ...
EffNeverAboveSet    == \A k \in H : hist[k].eff <= set.gainTarget
UnsaturatedKeepsSet == \A k \in H : ~hist[k].sat => hist[k].eff = set.gainTarget
\* ... reduced only as far as needed: when it is reduced the output sits exactly at pMax
ReducedOnlyAsNeeded == \A k \in H : hist[k].eff < set.gainTarget => hist[k].outTot = amp.pMax
\* total power rises by the effective gain (VOAs aside)
GainLaw             == \A k \in H : hist[k].pinRaw + hist[k].gTot + set.var.outVoa = hist[k].outTot
\* padding below the minimum gain, dB for dB; none otherwise
PaddingBelowMin     == \A k \in H : /\ hist[k].pad >= 0
                                    /\ hist[k].eff <  amp.gainMin => (hist[k].pad = amp.gainMin - hist[k].eff /\ hist[k].regime = "padded")
                                    /\ hist[k].eff >= amp.gainMin => (hist[k].pad = 0 /\ hist[k].regime # "padded")
RegimePartition     == \A k \in H : /\ hist[k].regime \in {"padded", "inrange", "extended"}
                                    /\ hist[k].regime = "extended" <=> hist[k].eff > amp.flatMax
\* no memory: a crossing depends on its own load only (whatever was crossed before, on whatever frequency grid);
\* more load never means more gain
Law(h) == [eff |-> h.eff, pad |-> h.pad, regime |-> h.regime, sat |-> h.sat, outTot |-> h.outTot, gTot |-> h.gTot,
           nOutCh |-> h.nOutCh]
NoMemory            == \A j, k \in H : hist[j].pinRaw = hist[k].pinRaw => Law(hist[j]) = Law(hist[k])
MonotoneInLoad      == \A j, k \in H : hist[j].pinRaw <= hist[k].pinRaw => hist[j].eff >= hist[k].eff
==============================================================================
