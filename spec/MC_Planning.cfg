CONSTANTS
  Classes <- MCClasses
  Amps <- MCAmps
  Oms <- MCOms
  Design <- MCDesign
  Req <- MCReq
  ModeTable <- MCModes
  NSlots = 8
  Leaky = FALSE
INIT Init
NEXT Next
INVARIANT TypeOK
INVARIANT Independent
INVARIANT SettingsAreTheDesign
INVARIANT OnlySlotsDependOnHistory
INVARIANT CarriesFirstReason
INVARIANT BlockedHoldsNoSpectrum
INVARIANT ReportIsOneEntryPerRequest
INVARIANT ReportStatesWhatWasComputed
INVARIANT ReportedCsvIsConsistent
PROPERTY NetworkFrozen
PROPERTY SimParamsFrozen
