CONSTANTS
  Classes <- MCClasses
  Amps <- MCAmps
  Oms <- MCOms
  Design <- MCDesign
  Req <- MCReq
  ModeTable <- MCModes
  Rcvs <- MCRcvs
  NSlots = 8
  Leaky = FALSE
  Redesign = FALSE
INIT Init
NEXT Next
INVARIANT TypeOK
INVARIANT Independent
INVARIANT SettingsAreTheDesign
INVARIANT OnlySlotsDependOnHistory
INVARIANT CarriesFirstReason
INVARIANT BlockedHoldsNoSpectrum
INVARIANT ReportIsOneEntryPerRequest
INVARIANT ReportStatesWhatWasComputed
INVARIANT ReportedCsvIsConsistent
INVARIANT ReportedViewsIndependent
PROPERTY NetworkFrozen
PROPERTY SimParamsFrozen
