---------------------------- MODULE MC_AmpSelection ----------------------------
(* Bounded instance for C10.  Every initial state is one selection case: a library of 1..MaxLib fixed-gain models  *)
(* drawn from a catalogue spanning two gain ranges, p_max below / above the required power, two noise figures,       *)
(* plain / Raman / narrow-band / exactly-design-band models and the list memberships (own variety list, ROADM restriction, allowed for     *)
(* design); a context = position (booster / inline / preamp / between two ROADMs), fibre below / above / partly above the Raman limit, own list and      *)
(* ROADM list present or not, the configured extended-gain allowance (3 dB, or 1 dB: not the fixed 3 dB allowance     *)
(* below the minimum gain), and a required gain half a dB off every capability boundary of the library; the required   *)
(* power lies a tenth of a dB above / below the p_max of the catalogue (closer than the 0.3 dB window the code uses     *)
(* when it has to fall back on the most powerful models).                                                             *)
(* For fixed-gain models the noise figure at the required gain is nf0 + max(0, gmin - g) (input padding): exact.     *)
(*                                                                                                                  *)
(* (B1) TLC checks the clauses on every outcome and that the code's algorithm AS READ (CodeSketch below: filters,     *)
(* the 0.3 dB power window, NF ranking) only ever produces admissible outcomes.  (B2) every case is emitted with its   *)
(* admissible set; the harness builds equipment JSON + a two-ROADM line and lets the real auto-design choose.          *)
EXTENDS AmpSelection, Json, TLC

CONSTANTS MaxLib,        \* largest library drawn from the core catalogue
          WidePairs,     \* TRUE: also every library {core model, any model of the wide catalogue} and every single wide model
          EmitStride     \* B2: every EmitStride-th case is emitted (all are checked)

cdB(x) == x * 10000
Ext  == cdB(300)                       \* Span.target_extended_gain: 3 dB ...
ExtSmall == cdB(100)                   \* ... or 1 dB (variant EXT): differs from the 3 dB allowance below gain_min
PReq == cdB(1000)                       \* 10 channels at 0 dBm
BandMin == 193000000                    \* design band 193.0 - 193.5 THz (MHz)
BandMax == 193500000

\* rng: 1 = gain 15..20 dB, 2 = gain 18..26 dB; pw: 0 = p_max 9.9 dBm (0.1 dB too low), 1 = 10.1 dBm (0.1 dB of head-room), 2 = 11.5 dBm;
\* nf0 in centi-dB; sp: 0 plain, 1 Raman,
\* 2 narrow band (does not cover the design band), 3 band EQUAL to the design band (covers it: edges coincide); fl: 1 = (own, rdm, alw), 2 = (rdm), 3 = (alw), 4 = (own), 5 = ()
M(rng, pw, nf0, sp, fl) ==
    [id |-> rng * 1000000 + pw * 100000 + nf0 * 100 + sp * 10 + fl,
     gmin |-> IF rng = 1 THEN cdB(1500) ELSE cdB(1800), flat |-> IF rng = 1 THEN cdB(2000) ELSE cdB(2600),
     pmax |-> IF pw = 0 THEN cdB(990) ELSE IF pw = 1 THEN cdB(1010) ELSE cdB(1150), nf0 |-> cdB(nf0), nf |-> 0,
     raman |-> (sp = 1),
     fmin |-> IF sp = 2 THEN 193200000 ELSE IF sp = 3 THEN BandMin ELSE 191275000,
     fmax |-> IF sp = 3 THEN BandMax ELSE 196125000,
     own |-> fl \in {1, 4}, rdm |-> fl \in {1, 2}, alw |-> fl \in {1, 3}]

Core == {M(1, 1, 500, 0, 1), M(1, 1, 600, 0, 1), M(2, 1, 500, 0, 3), M(2, 1, 600, 0, 2), M(1, 0, 500, 0, 1),
         M(1, 1, 500, 1, 1), M(1, 1, 500, 2, 1), M(2, 0, 600, 0, 3), M(1, 1, 400, 0, 4), M(2, 1, 600, 1, 3),
         M(2, 1, 400, 0, 1), M(2, 1, 600, 2, 2), M(1, 1, 900, 0, 1),
         M(1, 1, 400, 3, 1),        \* quiet, band equal to the design band
         M(1, 0, 400, 1, 1),        \* quiet Raman model whose p_max is below the required power
         M(1, 2, 504, 0, 1),        \* 0.04 dB noisier than M(1, 1, 500, 0, 1) but with 1.4 dB more output power
         M(2, 2, 600, 0, 3)}        \* the only kind that can deliver the power required behind an operator VOA
Wide == {M(rng, pw, nf0, sp, fl) : rng \in {1, 2}, pw \in {0, 1}, nf0 \in {500, 600}, sp \in {0, 1, 2, 3}, fl \in {1, 2, 3, 5}}

Libs == {l \in SUBSET Core : Cardinality(l) \in 1..MaxLib}
          \cup (IF WidePairs THEN {{a} : a \in Wide} \cup {{a, b} : a \in Core, b \in Wide} ELSE {})

\* required gains: half a dB off every capability boundary of the library, and 19.5 dB (inside both gain ranges)
GSet(l, ext) == {cdB(1950)} \cup
           UNION {{a.gmin - MinGainAllowance - cdB(50), a.gmin - MinGainAllowance + cdB(50),
                   a.flat + ext - cdB(50), a.flat + ext + cdB(50)}
                    \cup (IF a.raman THEN {a.gmin - cdB(50), a.gmin + cdB(50)} ELSE {}) : a \in l}

BOOSTER == 0          \* ROADM -> amplifier -> fibre
INLINE  == 1          \* fibre -> amplifier -> fibre
PREAMP  == 2          \* fibre -> amplifier -> ROADM
BETWEEN == 3          \* ROADM -> amplifier -> ROADM (two ROADMs chained, no fibre)
\* where the ROADM restriction is declared (on both ROADMs of the line): 0 = booster and preamp lists, 1 = booster lists
\* only (preamp lists empty), 2 = preamp lists only (booster lists empty).  The booster list of the ROADM right before
\* the amplifier applies, else the preamp list of the ROADM right after it; an empty list is no restriction.
RdmApplies(pos, side) == CASE pos = BOOSTER -> side \in {0, 1}
                           [] pos = PREAMP  -> side \in {0, 2}
                           [] pos = BETWEEN -> TRUE
                           [] pos = INLINE  -> FALSE
\* fibre in front of the amplifier: 0 = loss coefficient 0.2 dB/km, 1 = 0.3 dB/km, 2 = frequency dependent, 0.24 dB/km on
\* most of the band and 0.30 dB/km at its lower end (the Raman limit is 0.25 dB/km: not below it on the whole band).
\* lossCoef is the largest coefficient over the band, lossCoefRef the one at the reference frequency (sets the length).
FIBRE_OK == 0
FIBRE_LOSSY == 1
FIBRE_MIXED == 2
\* variant of the amplifier's surroundings: PLAIN; FUSED = a Fused element sits directly in front of the amplifier (then
\* it does not follow a fibre: no Raman, and a ROADM before the Fused is not adjacent: its booster list does not apply);
\* VOA = the operator set a 1 dB output VOA on the amplifier (its model still auto-selected): the amplifier has to
\* deliver the design power 1 dB higher, in front of the VOA
\* LOAD = the operator declares the design band of the degree on its own 37.5 GHz grid: 13 channels instead of the 10 of
\* the SI grid, so the total power the amplifier has to deliver is 10 log10(13/10) = 1.14 dB higher
\* EXT = the operator configured Span.target_extended_gain = 1 dB instead of 3 dB: the allowance ABOVE the flat gain
\* shrinks, the 3 dB allowance BELOW the minimum gain (input padding) is not a setting and stays
PLAIN == 0
FUSED == 1
VOA   == 2
LOAD  == 3
EXT   == 4
ExtOf(var) == IF var = EXT THEN ExtSmall ELSE Ext
UVoa  == cdB(100)
DLoad == 1139434
Ctx(l, g, pos, fibre, useOwn, useRdm, side, var) ==
    [g |-> g, p |-> IF var = VOA THEN PReq + UVoa ELSE IF var = LOAD THEN PReq + DLoad ELSE PReq, variant |-> var, ext |-> ExtOf(var), pos |-> pos, useOwn |-> useOwn, useRdm |-> useRdm, rdmSide |-> side, fibre |-> fibre,
     hasOwn |-> useOwn /\ \E a \in l : a.own,
     hasRdm |-> useRdm /\ \E a \in l : a.rdm /\
                (IF var = FUSED /\ pos \in {BOOSTER, BETWEEN} THEN pos = BETWEEN /\ side \in {0, 2}     \* preamp list of the next ROADM only
                 ELSE RdmApplies(pos, side)),
     bfmin |-> BandMin, bfmax |-> BandMax,
     prevFiber |-> pos \in {INLINE, PREAMP} /\ var # FUSED, lossCoef |-> IF fibre = FIBRE_OK THEN 200000 ELSE 300000,
     lossCoefRef |-> IF fibre = FIBRE_OK THEN 200000 ELSE IF fibre = FIBRE_LOSSY THEN 300000 ELSE 240000,
     ramanLimit |-> 250000]

AtGain(l, g) == {[a EXCEPT !.nf = a.nf0 + MaxI(0, a.gmin - g)] : a \in l}

Positions == {<<BETWEEN, 0>>, <<BOOSTER, 0>>, <<INLINE, 0>>, <<INLINE, 1>>, <<INLINE, 2>>, <<PREAMP, 0>>, <<PREAMP, 1>>, <<PREAMP, 2>>}
\* initial states are enumerated by nested quantification (a set of all cases would be normalised at great cost)
MCInit == /\ \E l \in Libs : \E pf \in Positions : \E uo \in BOOLEAN : \E ur \in BOOLEAN :
             \E side \in (IF ~ur \/ pf[1] = INLINE THEN {0} ELSE IF pf[1] = BOOSTER THEN {0, 2}
                          ELSE IF pf[1] = PREAMP THEN {0, 1} ELSE {0, 1, 2}) :
             \E var \in (IF pf[2] = FIBRE_OK THEN {PLAIN, FUSED, VOA, LOAD} \cup (IF pf[1] \in {BOOSTER, INLINE} THEN {EXT} ELSE {})
                         ELSE {PLAIN}) :
             \E g \in GSet(l, ExtOf(var)) :
                case = [lib |-> AtGain(l, g), c |-> Ctx(l, g, pf[1], pf[2], uo, ur, side, var)]
          /\ stage = "start"
          /\ permitted = {}
          /\ outcome = [kind |-> "none", x |-> NoModel]
MCCases == {}          \* unused: INIT is MCInit

-----------------------------------------------------------------------------
(* The algorithm of gnpy.core.network.select_edfa / filter_edfa_list_based_on_targets AS READ, written down only    *)
(* to let TLC show that it refines the property on this instance.  It never judges the implementation.             *)
SketchOutcomes(lib, c) ==
    LET P      == Permitted(lib, c)
        cand   == {a \in P : ~a.raman \/ RamanOK(c)}
        edfa   == {a \in P : ~a.raman}
        pwr(a) == MinI(c.p - c.g + a.flat + c.ext, a.pmax) - c.p
        gOK(a) == IF a.raman THEN c.g - a.gmin > 0 ELSE c.g + MinGainAllowance - a.gmin > 0
        l1     == {a \in cand : gOK(a)}
        l1b    == IF l1 # {} THEN l1 ELSE edfa
        l2     == {a \in l1b : pwr(a) > 0}
        best   == SetMax({pwr(a) : a \in l1b})
        l2b    == IF l2 # {} THEN l2 ELSE {a \in l1b : pwr(a) - best > 0 - 300000}
    IN IF P = {} \/ l1b = {} THEN {[kind |-> "refused", x |-> NoModel]}
       ELSE {[kind |-> "chosen", x |-> a] : a \in {a \in l2b : \A b \in l2b : a.nf <= b.nf}}

SketchRefinesProperty ==
    \A o \in SketchOutcomes(case.lib, case.c) :
        IF o.kind = "refused" THEN CapableSet(case.lib, case.c, 0) = {}
        ELSE o.x \in Admissible(case.lib, case.c)

\* a model excluded only by the 3 dB minimum-gain allowance would be quieter than every admissible one: generated,
\* emitted, but left unjudged in B2 (flag `open`)
OpenCase(lib, c) == \E a \in Permitted(lib, c) : OnlyBelowMinGain(a, c, 0) /\
                        \A b \in Admissible(lib, c) : a.nf < b.nf

Spread == (case.c.g \div 500000) + case.c.pos * 3 + (IF case.c.useOwn THEN 5 ELSE 0) + (IF case.c.useRdm THEN 11 ELSE 0)
            + case.c.fibre + 13 * case.c.rdmSide + 17 * case.c.variant + SumFun([a \in case.lib |-> a.id % 9973], case.lib)
\* B2 sampling density: cases in which no permitted model is capable (membership only) are sampled four times more
\* sparsely; cases with a TEMPTING wrong choice - some model of the library that is not admissible yet quieter than every
\* admissible one (not listed, band, Raman rule, power, gain range) - or a close call in the ranking - three times more
\* densely: there a wrong filter or ranking changes the outcome
Tempting == LET adm == Admissible(case.lib, case.c)
                cap == CapableSet(case.lib, case.c, 0)
            IN \/ \E a \in case.lib : a \notin adm /\ \A b \in adm : a.nf < b.nf
               \/ \E a, b \in cap : a.nf < b.nf /\ b.nf - a.nf < 100000           \* a close call between capable models
               \/ \E a \in adm : \E b \in cap : a # b /\ case.c.g < a.gmin          \* the quietest capable model runs below its minimum gain (padded)
Stride == IF CapableSet(case.lib, case.c, 0) = {} THEN 4 * EmitStride
          ELSE IF Tempting THEN MaxI(1, EmitStride \div 3) ELSE EmitStride
Emit == stage # "start" \/ Spread % Stride # 0
          \/ PrintT("@@" \o ToJson([lib |-> case.lib, c |-> case.c,
                                    adm |-> {a.id : a \in Admissible(case.lib, case.c)},
                                    mayRefuse |-> CapableSet(case.lib, case.c, 0) = {},
                                    cap |-> {a.id : a \in CapableSet(case.lib, case.c, 0)},
                                    open |-> OpenCase(case.lib, case.c)]))
==============================================================================
