------------------------------- MODULE FiberLaw -------------------------------
(* C05 - fibre spans apply exactly their loss budget and accumulate CD and latency linearly, PMD and PDL in         *)
(* quadrature, independent of the order of the spans.                                                              *)
(*                                                                                                                *)
(* State machine: an assembly of distinct elements (2-4 different fibres, a ROADM crossing, an amplifier) is        *)
(* crossed in ANY order (Next picks any element not yet crossed - TLC explores every permutation).  A fibre         *)
(* attenuates every channel by its budget and adds its own CD / latency / PMD^2; ROADMs and amplifiers add their    *)
(* own PMD^2 / PDL^2.  PMD and PDL are carried as SQUARES so that quadrature is addition (LineElements).            *)
(* Units: loss micro-dB; loss coefficient mdB/km x length km x 1000 -> micro-dB; frequencies GHz.                   *)
EXTENDS LineElements

CONSTANTS
  Chan,         \* 1..N
  ChanF,        \* [Chan -> Int]  channel frequency (GHz)
  Kind,         \* [element id -> "fiber" | "roadm" | "amp"]
  Span,         \* [fibre id -> [attIn, conIn, conOut, lumps (sequence of [km, loss]), lenKm, alpha (table <<[f, a]>>, mdB/km),
                \*               disp (single-value dispersion without slope, 1e-3 ps/nm/km; NONE: per-frequency table, the
                \*               span's CD is then an abstract per-channel contribution), dispTab (that table, <<[f, a]>>),
                \*               ref ([kind |-> "default" | "wavelength" (v in nm) | "frequency" (v in GHz), v]: the reference
                \*               at which the fibre parameters are given - 1550 nm when the configuration writes none)]]
  DCd,          \* [element id -> [Chan -> Int]]  own contributions (abstract integers in the bounded model; in the
  DLat,         \*                                 replay they are MEASURED by crossing the element alone)
  DPmd,         \* own PMD^2
  DPdl,         \* own PDL^2
  Assemblies    \* set of sets of element ids

VARIABLES elems, done, acc
vars == <<elems, done, acc>>

N == Cardinality(Chan)
IsFiber(e) == Kind[e] = "fiber"
RECURSIVE SumLumps(_)
SumLumps(s) == IF s = <<>> THEN 0 ELSE Head(s).loss + SumLumps(Tail(s))
\* the budget of a span record s for channel c: every lumped loss of the configuration counts once
AlphaLOf(s, c)  == Interp(s.alpha, ChanF[c]) * s.lenKm * 1000
BudgetOf(s, c)  == FiberLoss([attIn |-> s.attIn, conIn |-> s.conIn, conOut |-> s.conOut, lumped |-> SumLumps(s.lumps)],
                             AlphaLOf(s, c))
\* the budget of fibre e for channel c
AlphaL(e, c)    == AlphaLOf(Span[e], c)
Budget(e, c)    == BudgetOf(Span[e], c)
\* A lumped loss sits strictly inside the span (the element documents "boundaries excluded").  A configuration with a
\* lumped loss at 0 km or at the span end is not one of the fibres the property quantifies over: the constructor may refuse
\* it.  If it ACCEPTS it, what it returns is a fibre with that lumped loss, and every clause applies to it (the loss
\* counts once in the budget, with Raman computation off and on).
LumpInside(l, lenKm) == 0 < l.km /\ l.km < lenKm
SpanValid(s)    == \A k \in 1..Len(s.lumps) : LumpInside(s.lumps[k], s.lenKm)
\* the CD a span adds to channel c.  Single-value dispersion D without slope: D x length for EVERY channel, whatever the
\* reference wavelength / frequency the fibre parameters are given at (s.ref does not appear); per-frequency table: abstract
SpanCd(s)       == s.disp * s.lenKm
OwnCd(e, c)     == IF Span[e].disp = NONE THEN DCd[e][c] ELSE SpanCd(Span[e])

Zero == [loss |-> [c \in Chan |-> 0], cd |-> [c \in Chan |-> 0], lat |-> 0, pmd |-> 0, pdl |-> 0]

Init == /\ elems \in Assemblies
        /\ done = <<>>
        /\ acc = Zero

Crossed == SeqRange(done)

\* crossing one element (Fiber.propagate / Roadm.propagate / Edfa.propagate as far as C05 is concerned)
Apply(e, a) == IF IsFiber(e)
               THEN [loss |-> [c \in Chan |-> a.loss[c] + Budget(e, c)],
                     cd   |-> [c \in Chan |-> a.cd[c] + OwnCd(e, c)],
                     lat  |-> a.lat + DLat[e],
                     pmd  |-> a.pmd + DPmd[e],
                     pdl  |-> a.pdl]
               ELSE [a EXCEPT !.pmd = @ + DPmd[e], !.pdl = @ + DPdl[e]]

Cross(e) == /\ e \in elems \ Crossed
            /\ acc' = Apply(e, acc)
            /\ done' = Append(done, e)
            /\ UNCHANGED elems

Next == \E e \in elems : Cross(e)
Spec == Init /\ [][Next]_vars

(* ---------------------------------------------- the clauses of C05 ------------------------------------------ *)
\* sums over a SET of elements (no order involved): SumFun(f, S) of GnpyBase adds f[x] for x in S
FibersIn(S)  == {e \in S : IsFiber(e)}
OthersIn(S)  == {e \in S : ~IsFiber(e)}
BudgetSum(S, c) == SumFun([e \in FibersIn(S) |-> Budget(e, c)], FibersIn(S))
CdSum(S, c)     == SumFun([e \in FibersIn(S) |-> OwnCd(e, c)], FibersIn(S))
LatSum(S)       == SumFun([e \in FibersIn(S) |-> DLat[e]], FibersIn(S))
PmdSum(S)       == SumFun([e \in S |-> DPmd[e]], S)
PdlSum(S)       == SumFun([e \in OthersIn(S) |-> DPdl[e]], OthersIn(S))

\* every channel is attenuated by exactly padding + connector + length x coefficient + lumped losses + connector
LossIsBudget  == \A c \in Chan : acc.loss[c] = BudgetSum(Crossed, c)
\* CD and latency add linearly over the spans
CdLinear      == \A c \in Chan : acc.cd[c] = CdSum(Crossed, c)
LatencyLinear == acc.lat = LatSum(Crossed)
\* ... and the CD of a path whose spans all have a single-value dispersion is sum(dispersion x length) on every channel
ScalarDisp(S) == \A e \in FibersIn(S) : Span[e].disp # NONE
CdFromConfig  == ScalarDisp(Crossed) =>
                    \A c \in Chan : acc.cd[c] = SumFun([e \in FibersIn(Crossed) |-> SpanCd(Span[e])], FibersIn(Crossed))
\* PMD / PDL add in quadrature over fibres, ROADMs and amplifiers
PmdQuadrature == acc.pmd = PmdSum(Crossed)
PdlQuadrature == acc.pdl = PdlSum(Crossed)
\* the end state does not depend on the order in which the elements were crossed
FinalOf(S) == [loss |-> [c \in Chan |-> BudgetSum(S, c)], cd |-> [c \in Chan |-> CdSum(S, c)],
               lat |-> LatSum(S), pmd |-> PmdSum(S), pdl |-> PdlSum(S)]
OrderIndependent == Len(done) = Cardinality(elems) => acc = FinalOf(elems)
\* the bounded model only uses channel frequencies at which the table interpolation is exact in integers
GridExact == \A e \in elems : IsFiber(e) /\ Len(Span[e].alpha) > 1 => \A c \in Chan : InterpExact(Span[e].alpha, ChanF[c])
==============================================================================
