------------------------------ MODULE AmpSelection ------------------------------
(* C10 - auto-selected amplifiers are allowed, capable and the quietest capable choice: the STATE MACHINE.       *)
(*                                                                                                              *)
(* One behaviour is one selection, at the grain of the code: Restrict (gnpy get_node_restrictions: precedence    *)
(* of the lists, band coverage) then Select (gnpy select_edfa) or Refuse (ConfigurationError).  Select is         *)
(* nondeterministic over the admissible models: the NF-minimal capable permitted ones when any permitted model    *)
(* is capable, otherwise ANY usable permitted model (the property then only asks for membership; the code's       *)
(* "within 0.3 dB of the best power" fallback is one such choice).  The clauses are stated on the outcome.        *)
EXTENDS AmpSelectionRule

CONSTANTS Cases          \* set of [lib, c] : the equipment library and the context of the selection

VARIABLES case, stage, permitted, outcome
vars == <<case, stage, permitted, outcome>>

NoModel == [id |-> NONE]

Init == /\ case \in Cases
        /\ stage = "start"
        /\ permitted = {}
        /\ outcome = [kind |-> "none", x |-> NoModel]

Restrict == /\ stage = "start"
            /\ permitted' = Permitted(case.lib, case.c)
            /\ stage' = "restricted"
            /\ UNCHANGED <<case, outcome>>

Select == /\ stage = "restricted"
          /\ \E x \in Admissible(case.lib, case.c) : outcome' = [kind |-> "chosen", x |-> x]
          /\ stage' = "done"
          /\ UNCHANGED <<case, permitted>>

\* the design may refuse (no amplifier found) only when no permitted model is capable
Refuse == /\ stage = "restricted"
          /\ CapableSet(case.lib, case.c, 0) = {}
          /\ outcome' = [kind |-> "refused", x |-> NoModel]
          /\ stage' = "done"
          /\ UNCHANGED <<case, permitted>>

Next == Restrict \/ Select \/ Refuse
Spec == Init /\ [][Next]_vars

-----------------------------------------------------------------------------
Chosen == outcome.kind = "chosen"

ChosenPermitted    == Chosen => ChosenPermittedAt(case.lib, case.c, outcome.x)
CoversBand         == Chosen => CoversBandAt(case.c, outcome.x)
RamanOnlyIfAllowed == Chosen => RamanOnlyIfAllowedAt(case.c, outcome.x)
CapableIfPossible  == Chosen => CapableIfPossibleAt(case.lib, case.c, outcome.x, 0)
QuietestCapable    == Chosen => QuietestCapableAt(case.lib, case.c, outcome.x, 0, 0)
NeverRefusesWhenCapable == outcome.kind = "refused" => CapableSet(case.lib, case.c, 0) = {}
\* the stage computed by Restrict is what Select works on
RestrictIsPermitted == stage # "start" => permitted = Permitted(case.lib, case.c)
\* the selection always terminates in an outcome: whenever something is permitted and usable a model can be chosen
CanAlwaysConclude == stage = "restricted" =>
                        (Admissible(case.lib, case.c) # {} \/ CapableSet(case.lib, case.c, 0) = {})

TypeOK == stage \in {"start", "restricted", "done"} /\ outcome.kind \in {"none", "chosen", "refused"}
==============================================================================
