CONSTANTS
  Chan <- MCChan
  ChanType <- MCChanType
  ChanType2 <- MCChanType2
  Stages <- MCStages
  NodeV <- MCNodeV
  DegV <- MCDegV
  LoadCases <- MCLoadCases
  DegKinds <- MCDegKinds
  EltDegKinds <- MCEltDegKindsQuick
  Crossings <- MCCrossings
  Deltas <- MCDeltas
  OffsetVecs <- MCOffsetVecsQuick
  MaxLossVecs <- MCMaxLossVecsQuick
  ProfKinds <- MCProfKinds
INIT Init
NEXT Next
INVARIANT TypeOK
INVARIANT SinglePolicy
INVARIANT InvalidRejected
INVARIANT NeverAmplifies
INVARIANT EqualisedToTarget
INVARIANT BelowTargetLossOnly
INVARIANT TargetIsDegreeElseNode
INVARIANT PathLossByListing
INVARIANT SecondCrossingOnItsOwn
INVARIANT SecondCrossingPerCarrier
INVARIANT LevelByKind
PROPERTY NeverAmplifiesStep
