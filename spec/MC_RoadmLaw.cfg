CONSTANTS
  Chan <- MCChan
  ChanType <- MCChanType
  NodeV <- MCNodeV
  DegV <- MCDegV
  LoadCases <- MCLoadCases
  DegKinds <- MCDegKinds
  Crossings <- MCCrossings
  Deltas <- MCDeltas
  OffsetVecs <- MCOffsetVecsQuick
  MaxLossVecs <- MCMaxLossVecsQuick
  ProfKinds <- MCProfKinds
INIT Init
NEXT Next
INVARIANT TypeOK
INVARIANT SinglePolicy
INVARIANT InvalidRejected
INVARIANT NeverAmplifies
INVARIANT EqualisedToTarget
INVARIANT BelowTargetLossOnly
INVARIANT TargetIsDegreeElseNode
INVARIANT PathLossByListing
INVARIANT LevelByKind
PROPERTY NeverAmplifiesStep
