CONSTANTS
  Libs <- MCLibs
  Scenarios <- MCScenarios
  LineInv <- MCLineInv
  Carriers <- MCCarriers
  RevMargins <- MCRevMargins
  MaxModes = 3
  WideModes = 1
INIT Init
NEXT Next
INVARIANT TypeOK
INVARIANT AutoSelection
INVARIANT FixedModeVerdict
INVARIANT InfPenaltyAlwaysBlocks
INVARIANT CompositionHolds
INVARIANT LineIsPristine
INVARIANT ReverseOnOwnRoute
INVARIANT DirectionAsRequested
INVARIANT ThresholdOfDefaultSI
INVARIANT RuleWellDefined
INVARIANT SelectionUniqueUpToTies
INVARIANT BlockedIffNoFeasible
