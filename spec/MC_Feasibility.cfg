CONSTANTS
  Libs <- MCLibs
  Adds <- MCAdds
  LineInv <- MCLineInv
  RevMargins <- MCRevMargins
  MaxModes = 3
INIT Init
NEXT Next
INVARIANT TypeOK
INVARIANT AutoSelection
INVARIANT FixedModeVerdict
INVARIANT InfPenaltyAlwaysBlocks
INVARIANT CompositionHolds
INVARIANT LineIsPristine
INVARIANT RuleWellDefined
INVARIANT SelectionUniqueUpToTies
INVARIANT BlockedIffNoFeasible
