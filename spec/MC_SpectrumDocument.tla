------------------------- MODULE MC_SpectrumDocument -------------------------
(* Bounded instance of SpectrumDocument.tla.  Function-shaped: every initial state is ONE input of the stage            *)
(*   kind "doc"   a spectrum document of 1-3 partitions (any order, repetitions allowed) drawn from 16 partition shapes,   *)
(*                handed to _spectrum_from_json as a list (via "mem") or - a sample - written to a file and read with      *)
(*                load_initial_spectrum (via "file"), then attached to a request as initial_spectrum and launched;         *)
(*   kind "comb"  a request without initial_spectrum, launched as the uniform comb;                                       *)
(* `o` is its outcome.  The lemmas are invariants; Emit prints [c |-> case, e |-> expected outcome] for the replay into    *)
(* the real functions (harness/spectrumdoc_util.py).                                                                       *)
(* All frequencies are whole multiples of 12.5 GHz counted from 193.1 THz (integers of Hz below 2^53: exact doubles,       *)
(* and so are their sums, differences and the products with the small counts numpy.arange forms), all widths even MHz.     *)
EXTENDS SpectrumDocument, Json

-----------------------------------------------------------------------------
(* the optional keys of a partition: left out / given.  The roll-off (mandatory) rides along to tell partitions apart.     *)
OptNone  == [ro |-> 150, dp |-> NONE,          osnr |-> NONE,   txp |-> NONE,      label |-> NoLabel]
OptAll   == [ro |-> 100, dp |-> 1500000,       osnr |-> dB(35), txp |-> 0 - dB(3), label |-> "user"]
OptDelta == [ro |-> 150, dp |-> 0 - dB(2),     osnr |-> NONE,   txp |-> NONE,      label |-> NoLabel]
OptLabel == [ro |-> 200, dp |-> NONE,          osnr |-> NONE,   txp |-> NONE,      label |-> "user"]     \* the same label as OptAll
OptOsnr  == [ro |-> 150, dp |-> NONE,          osnr |-> dB(38), txp |-> NONE,      label |-> NoLabel]
OptPower == [ro |-> 150, dp |-> NONE,          osnr |-> NONE,   txp |-> dB(1),     label |-> NoLabel]
P(fmin, fmax, w, b, opt) == [fmin |-> fmin, fmax |-> fmax, w |-> w, b |-> b, ro |-> opt.ro, dp |-> opt.dp, osnr |-> opt.osnr,
                             txp |-> opt.txp, label |-> opt.label]

(* the 16 partition shapes, MHz above 193.1 THz, in a window of 0.5 THz              carriers (GHz)        slots (GHz)         *)
Shapes == <<
  P(0,      100000, 50000, 32000, OptNone),   \*  1 A    the reference                0 50 100              -25 .. 125
  P(0,      100000, 50000, 32000, OptAll),    \*  2 A'   same extent, every key given (same f_min as A)
  P(150000, 250000, 50000, 32000, OptOsnr),   \*  3 B    TOUCHES A (125)             150 200 250           125 .. 275
  P(137500, 262500, 50000, 32000, OptNone),   \*  4 C    overlaps A by ONE raster step; f_max not on its grid: 137.5 187.5 237.5   112.5 .. 262.5
  P(50000,  50000,  37500, 32000, OptLabel),  \*  5 D    f_max = f_min, NESTED in A   50                    31.25 .. 68.75
  P(162500, 320000, 75000, 64000, OptDelta),  \*  6 E    75 GHz, f_max not on its grid, touches A: 162.5 237.5 312.5   125 .. 350
  P(300000, 425000, 37500, 37500, OptNone),   \*  7 F    baud = slot                 300 337.5 375 412.5   281.25 .. 431.25
  P(300000, 400000, 50000, 64000, OptPower),  \*  8 G    baud ABOVE slot, touches B  300 350 400           275 .. 425
  P(150000, 100000, 50000, 32000, OptNone),   \*  9 H    EMPTY (f_max one slot below f_min), same f_min as B
  P(162500, 150000, 75000, 64000, OptAll),    \* 10 I    EMPTY, 75 GHz slot, same f_min as E (its lower edge 125 touches A)
  P(375000, 362500, 37500, 32000, OptNone),   \* 11 I2   EMPTY, 37.5 GHz slot (its lower edge 356.25 clears E)
  P(375000, 450000, 75000, 64000, OptNone),   \* 12 X    overlaps E by ONE raster step, same f_min as I2: 375 450   337.5 .. 487.5
  P(450000, 500000, 50000, 32000, OptDelta),  \* 13 J    touches G (425)             450 500               425 .. 525
  P(437500, 0,      75000, 64000, OptNone),   \* 14 L    EMPTY (f_max far below f_min), sorts just below J
  P(450000, 487500, 37500, 32000, OptNone),   \* 15 M    TOUCHES F at 431.25 (same f_min as J)   450 487.5   431.25 .. 506.25
  P(387500, 462500, 75000, 75000, OptLabel)   \* 16 Q    baud = slot at 75 GHz, TOUCHES E at 350: 387.5 462.5   350 .. 500
>>
NShapes == Len(Shapes)
Doc(idx) == [i \in 1..Len(idx) |-> Shapes[idx[i]]]
IdxLists(S, n) == [1..n -> S]
AllIdx  == IdxLists(1..NShapes, 1) \cup IdxLists(1..NShapes, 2) \cup IdxLists(1..NShapes, 3)
\* the sample that also goes through a FILE (the schema validation costs 60 ms a document): every single partition, every
\* pair of a sub-vocabulary that reaches every schema and document rule, every triple of {A, B, F}
FileIdx == IdxLists(1..NShapes, 1) \cup IdxLists({1, 2, 3, 4, 6, 8, 9, 10}, 2) \cup IdxLists({1, 3, 7}, 3)

(* the request.  A document case is launched through a request too: its comb attributes are then NOT USED.                  *)
Req(fmin, fmax, spacing, b, power, txpower, rest) ==
    [fmin |-> fmin, fmax |-> fmax, spacing |-> spacing, b |-> b, ro |-> rest.ro, txosnr |-> rest.txosnr, power |-> power,
     txpower |-> txpower, offset |-> rest.offset, nch |-> rest.nch]
RestPlain == [ro |-> 150, txosnr |-> dB(40), offset |-> 0,            nch |-> NONE]
RestMode  == [ro |-> 100, txosnr |-> dB(35), offset |-> 0 - 1500000,  nch |-> 3]        \* a count that is not the comb's
DocReq    == Req(0, 200000, 50000, 32000, dB(2), 0 - dB(1), RestPlain)

Spans    == {0 - 62500, 0 - 12500, 0, 37500, 50000, 100000, 112500, 150000, 237500, 300000}      \* f_max - f_min
Spacings == {37500, 50000, 75000}
CombReqs == UNION {UNION {{Req(fmin, fmin + span, sp, b, pw, tp, rest) :
                              fmin \in {0, 50000}, b \in {32000, sp, sp + 12500}, pw \in {0, dB(2)},
                              tp \in {0 - dB(3), dB(1)}, rest \in {RestPlain, RestMode}} : sp \in Spacings} : span \in Spans}

Case(kind, via, parts, req) == [kind |-> kind, via |-> via, parts |-> parts, req |-> req]
DocCases(via, Idx) == {Case("doc", via, Doc(idx), DocReq) : idx \in Idx}
CombCases == {Case("comb", "propagate", <<>>, r) : r \in CombReqs}
Cases == DocCases("mem", AllIdx) \cup DocCases("file", FileIdx) \cup CombCases

Outcome(x) == IF x.kind = "doc" THEN DocumentOutcome(x.via, x.parts, x.req.power) ELSE CombOutcome(x.req)

\* c the case, o its outcome; m and d only keep what the lemmas look at again and again:
\* m = the document stage on the list in memory, d = the document stage as this case enters it (after the schema for a file)
VARIABLES c, m, d, o
Init == /\ c \in Cases
        /\ m = FromDocument(c.parts)
        /\ d = (IF c.via = "file" THEN FromFile(c.parts) ELSE FromDocument(c.parts))
        /\ o = Outcome(c)
Next == UNCHANGED <<c, m, d, o>>

-----------------------------------------------------------------------------
(* the lemmas of SpectrumDocument.tla on this case *)
IsDoc  == c.kind = "doc"
IsComb == c.kind = "comb"
DocStage == d
InMem    == m
EveryPartition(L(_)) == IsDoc => LET ps == Prepared(c.parts) IN \A i \in 1..Len(ps) : L(ps[i])      \* sorted, defaults filled

LCarriersInsidePartition      == EveryPartition(CarriersInsidePartition)
LOneSlotApart                 == EveryPartition(OneSlotApart)
LPartitionCount               == EveryPartition(PartitionCount)
LOwnAttributesOfPartition     == EveryPartition(OwnAttributesOfPartition)
LDocumentErrorsClassified     == IsDoc => DocumentErrorsClassified(InMem)
LAcceptedKeepsEveryCarrier    == IsDoc => AcceptedKeepsEveryCarrier(c.parts, InMem)
LFrequenciesStrictlyIncreasing == IsDoc => FrequenciesStrictlyIncreasing(InMem)
LSortedAndDisjoint            == IsDoc => SortedAndDisjoint(c.parts, InMem)
LRefusalIsExactlyOverlap      == IsDoc => RefusalIsExactlyOverlap(c.parts, InMem)
LRefusalIsPairwiseOverlap     == IsDoc => RefusalIsPairwiseOverlap(c.parts, InMem)
LUnboundIsEmptyFirst          == IsDoc => UnboundIsEmptyFirst(c.parts, InMem)
LDefaultsFilled               == IsDoc => DefaultsFilled(c.parts, InMem)
LLabelsDistinctPerPartition   == IsDoc => LabelsDistinctPerPartition(c.parts, InMem)
LOrderOfPartitionsIrrelevant  == IsDoc => OrderOfPartitionsIrrelevant(c.parts)
LFileHasNoEmptyPartition      == IsDoc => FileHasNoEmptyPartition(c.parts)
LFileAgreesWithDocument       == IsDoc => FileAgreesWithDocument(c.parts)
LFileRefusalIsOverlapOrSchema == IsDoc => FileRefusalIsOverlapOrSchema(c.parts)
LOnlyConstructorRefusesAfterDocument == IsDoc => OnlyConstructorRefusesAfterDocument(DocStage, o)
LBaudWiderRefusedAtLaunchOnly == IsDoc => BaudWiderRefusedAtLaunchOnly(c.parts, DocStage, o)
LLaunchFindsNoOverlapAfterDocument == IsDoc => LaunchFindsNoOverlapAfterDocument(c.parts, DocStage, o)
LLaunchedAsWritten            == IsDoc => LaunchedAsWritten(DocStage, o)
LRequestPowerIrrelevant       == IsDoc => RequestPowerIrrelevant(DocStage, c.req.power, 0 - dB(7))
LUniformCombFitsBand          == IsComb => UniformCombFitsBand(c.req, o)
LCombIsPartitionOneSpacingUp  == IsComb => CombIsPartitionOneSpacingUp(c.req, o)
LCombAttributes               == IsComb => CombAttributes(c.req, o)
LCombRefusals                 == IsComb => CombRefusals(c.req, o)
LCombIgnoresCountAndPower     == IsComb => CombIgnoresCountAndPower(c.req)

Emit == PrintT("@@" \o ToJson([c |-> c, e |-> o]))

-----------------------------------------------------------------------------
(* Checked once, before the search: every refusal rule fires, every lemma's antecedent is met (no vacuous clause), and the  *)
(* SURPRISES recorded in SpectrumDocument.tla are real on this instance.                                                   *)
\* (the witnesses are looked for among the file cases, the documents of one or two partitions, three named triples, the combs)
Solve(X)  == {[x |-> x, r |-> Outcome(x)] : x \in X}
D(i, j, k) == <<Shapes[i], Shapes[j], Shapes[k]>>
Triples   == {Case("doc", "mem", t, DocReq) : t \in {D(7, 3, 1), D(1, 10, 6), D(6, 11, 12)}}
DocsFile  == Solve(DocCases("file", FileIdx))
DocsMem   == Solve(DocCases("mem", IdxLists(1..NShapes, 1) \cup IdxLists(1..NShapes, 2)) \cup Triples)
Combs     == Solve(CombCases)
Resolved  == DocsFile \cup DocsMem \cup Combs
Rules == {"FmaxBelowFmin", "DuplicateFmin", "PartitionsOverlap", "NoCarrierYet", "SlotsOverlap", "BaudWiderThanSlot",
          "NegativeChannelCount"}
EveryRuleFires ==
    /\ \A rule \in Rules : \E w \in Resolved : ~Ok(w.r) /\ rule \in w.r.rules
    /\ \E w \in DocsFile : w.r.rules = {"FmaxBelowFmin", "DuplicateFmin"}          \* both schema rules at once
    /\ \E w \in DocsFile : ~Ok(w.r) /\ w.r.stage = "document"                       \* a file refused by the document stage
    /\ \E w \in DocsFile : ~Ok(w.r) /\ w.r.stage = "launch"

Out(parts) == DocumentOutcome("mem", parts, dB(2))
NonVacuous ==
    \* three partitions written out of frequency order, accepted and launched; partitions that merely TOUCH are accepted
    /\ Ok(Out(D(7, 3, 1))) /\ Len(Out(D(7, 3, 1)).spec) = 10
    /\ Ok(Out(<<Shapes[3], Shapes[1]>>)) /\ Hi(Partition(Shapes[1])[3]) = Lo(Partition(Shapes[3])[1])
    /\ Ok(Out(<<Shapes[15], Shapes[7]>>)) /\ Hi(Partition(Shapes[7])[4]) = Lo(Partition(Shapes[15])[1])
    \* overlap by one raster step / nested / same extent: refused by the document stage
    /\ \A pair \in {<<1, 4>>, <<1, 5>>, <<5, 1>>, <<1, 2>>, <<6, 3>>} :
          Out(<<Shapes[pair[1]], Shapes[pair[2]]>>).rules = {"PartitionsOverlap"}
    \* f_max not on the partition's grid: the last carrier is below f_max; f_max = f_min: one carrier
    /\ Count(Shapes[6]) = 3 /\ Partition(Shapes[6])[3].f = 312500 /\ Count(Shapes[5]) = 1 /\ Count(Shapes[14]) = 0
    \* a launched document mixing given keys and defaults, with two made-up labels; baud = slot is launched
    /\ \E w \in DocsMem : Ok(w.r) /\ \E i, j \in 1..Len(w.r.spec) : /\ w.r.spec[i].osnr = DefaultTxOsnr /\ w.r.spec[j].osnr # DefaultTxOsnr
                                                                       /\ w.r.spec[i].label = "0-32.00G" /\ w.r.spec[j].label = "1-32.00G"
    /\ \E w \in DocsMem : Ok(w.r) /\ \E i \in 1..Len(w.r.spec) : w.r.spec[i].b = w.r.spec[i].w
    \* the same document is accepted from a file
    /\ \E w \in DocsFile : Ok(w.r) /\ Len(w.x.parts) = 3
    \* combs: exact fit (last centre = f_max), with a rest, empty, refused both ways
    /\ \E w \in Combs : Ok(w.r) /\ Len(w.r.spec) >= 2 /\ w.r.spec[Len(w.r.spec)].f = w.x.req.fmax
    /\ \E w \in Combs : Ok(w.r) /\ Len(w.r.spec) >= 2 /\ w.r.spec[Len(w.r.spec)].f < w.x.req.fmax
    /\ \E w \in Combs : Ok(w.r) /\ Len(w.r.spec) >= 2 /\ w.x.req.b = w.x.req.spacing
    /\ Triples \subseteq Cases /\ Cardinality(Cases) = Cardinality(AllIdx) + Cardinality(FileIdx) + Cardinality(CombReqs)

Surprises ==
    \* S1  the lowest partition is empty: UnboundLocalError instead of a refusal by name (in memory only; a file is refused by the schema)
    /\ Out(<<Shapes[9]>>).kind = "UnboundLocalError" /\ Out(<<Shapes[13], Shapes[14]>>).kind = "UnboundLocalError"
    /\ DocumentOutcome("file", <<Shapes[9]>>, dB(2)).rules = {"FmaxBelowFmin"}
    \* S2  an empty partition elsewhere is silently accepted and yields no carrier ...
    /\ Ok(Out(<<Shapes[1], Shapes[9]>>)) /\ Len(Out(<<Shapes[1], Shapes[9]>>).spec) = 3
    \*     ... but its slot width replaces the one of the partition before it in the overlap test: A and E only touch and are
    \*     accepted, with the empty I (75 GHz instead of A's 50) between them the document is refused ...
    /\ Ok(Out(<<Shapes[1], Shapes[6]>>)) /\ Out(D(1, 10, 6)).rules = {"PartitionsOverlap"}
    \* S3  ... and with the empty I2 (37.5 GHz instead of E's 75) between E and X, which overlap by 12.5 GHz, the document stage
    \*     accepts what it refuses without it; the constructor then refuses the launch
    /\ Out(<<Shapes[6], Shapes[12]>>).rules = {"PartitionsOverlap"}
    /\ Ok(FromDocument(D(6, 11, 12))) /\ Out(D(6, 11, 12)).rules = {"SlotsOverlap"} /\ Out(D(6, 11, 12)).stage = "launch"
    \* S4  a baud rate wider than the slot is not the document stage's business
    /\ Ok(FromDocument(<<Shapes[8]>>)) /\ Out(<<Shapes[8]>>).rules = {"BaudWiderThanSlot"}
    \* S5  two partitions given the same label are launched
    /\ Ok(Out(<<Shapes[5], Shapes[16]>>)) /\ \A i \in 1..3 : Out(<<Shapes[5], Shapes[16]>>).spec[i].label = "user"
    \* S6  equal f_min and an empty partition: the order in the document decides HOW it fails
    /\ Out(<<Shapes[9], Shapes[3]>>).kind = "UnboundLocalError" /\ Out(<<Shapes[3], Shapes[9]>>).kind = "ValueError"
    \* S7  the comb: the last slot sticks out above f_max; an empty comb is launched; f_max < f_min is numpy's ValueError
    /\ \E w \in Combs : Ok(w.r) /\ Len(w.r.spec) > 0 /\ Hi(w.r.spec[Len(w.r.spec)]) > w.x.req.fmax
    /\ \E w \in Combs : Ok(w.r) /\ w.r.spec = <<>> /\ w.x.req.b > w.x.req.spacing
    /\ \E w \in Combs : ~Ok(w.r) /\ w.r.kind = "ValueError"
    \* S8  the request's own comb and power play no part when it carries a document: no carrier's power is the request's
    /\ DocReq.power # DefaultTxPower /\ \A i \in 1..NShapes : Shapes[i].txp # DocReq.power
ASSUME EveryRuleFires
ASSUME NonVacuous
ASSUME Surprises
==============================================================================
