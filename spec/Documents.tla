------------------------------ MODULE Documents ------------------------------
(* C18 - input documents mean the same thing in legacy and YANG form.                                        *)
(*                                                                                                           *)
(* A document is an abstract record over a small vocabulary per document kind (topology, equipment,         *)
(* service, spectrum, sim-params).  The legacy form and the YANG form of a document are two different       *)
(* record shapes; L2Y and Y2L are THIS SPECIFICATION's definition of the correspondence (derived from the   *)
(* YANG models: decimal64 leaves are strings, keyed lists replace dictionaries and parallel vectors, an     *)
(* explicit null is the YANG `empty` type [null]).  The clauses of C18 are the named operators at the end.  *)
(*                                                                                                           *)
(* Values.  A number is the decimal m * 10^(-s) in normal form (m has no trailing zero; 0 is (0,0)); s may   *)
(* be negative (191.35e12 = (19135,-10)).  The claimed domain is s <= Prec[key]: no rounding is in play.     *)
(*   t = "num"  a JSON number of the legacy form         t = "null"   an explicit JSON null (legacy)         *)
(*   t = "str"  a YANG decimal64 encoded as a string     t = "empty"  the YANG empty type [null]             *)
(*   t = "int"  a YANG (u)int < 64 encoded as a number   t = "absent" the key is not there (both forms)      *)
(* Names are strings and are only ever compared with strings.                                                *)
EXTENDS Integers, Sequences, FiniteSets, TLC

Num(m, s) == [t |-> "num", m |-> m, s |-> s]
Null      == [t |-> "null", m |-> 0, s |-> 0]
Absent    == [t |-> "absent", m |-> 0, s |-> 0]

IsNormal(v) == IF v.t \in {"num", "str", "int"}
               THEN IF v.m = 0 THEN v.s = 0 ELSE v.m % 10 # 0
               ELSE v.m = 0 /\ v.s = 0

\* fraction digits declared by the YANG models for the keys of the vocabulary (0 = integer leaf)
Prec == [length |-> 6, loss_coef |-> 6, loss_coef_value |-> 16, frequency |-> 1, att_in |-> 2, con_in |-> 2,
         con_out |-> 2, pmd_coef |-> 18, position |-> 6, loss |-> 2, reference_frequency |-> 1, g0 |-> 14,
         frequency_offset |-> 2, temperature |-> 2, power |-> 9, gain_target |-> 6, delta_p |-> 6,
         tilt_target |-> 6, out_voa |-> 2, in_voa |-> 2, f_min |-> 1, f_max |-> 1,
         pch |-> 2, psd |-> 10, psw |-> 10,
         range |-> 2, max_loss |-> 2, tx_power_dbm |-> 2, nf_coef |-> 10, cr |-> 9, coef_order |-> 0,
         chromatic_dispersion |-> 2, pmd |-> 15, pdl |-> 2, penalty_value |-> 2, equalization_offset_db |-> 4,
         N |-> 0, M |-> 0, max_nb_of_channel |-> 0, output_power |-> 8, path_bandwidth |-> 1, spacing |-> 2,
         index |-> 0,
         baud_rate |-> 2, slot_width |-> 2, roll_off |-> 2, delta_pdb |-> 2, tx_osnr |-> 2,
         result_spatial_resolution |-> 3, solver_spatial_resolution |-> 3, computed_channels |-> 0,
         computed_number_of_channels |-> 0, dispersion_tolerance |-> 1, phase_shift_tolerance |-> 1]

InPrec(k, v) == v.t \in {"num", "str", "int"} => v.s <= Prec[k]

\* value-level correspondence
YV(k, v) == CASE v.t = "num"  -> [v EXCEPT !.t = IF Prec[k] = 0 THEN "int" ELSE "str"]
              [] v.t = "null" -> [v EXCEPT !.t = "empty"]
              [] OTHER        -> v
LV(v)    == CASE v.t \in {"str", "int"} -> [v EXCEPT !.t = "num"]
              [] v.t = "empty"          -> [v EXCEPT !.t = "null"]
              [] OTHER                  -> v
YS(k, vs) == [i \in 1..Len(vs) |-> YV(k, vs[i])]
LS(vs)    == [i \in 1..Len(vs) |-> LV(vs[i])]

RECURSIVE Concat(_)
Concat(ss) == IF ss = <<>> THEN <<>> ELSE Head(ss) \o Concat(Tail(ss))

-----------------------------------------------------------------------------
(* TOPOLOGY.  One ROADM with three degrees, one Fiber, one RamanFiber, one Edfa, one Multiband_amplifier and *)
(* one Fused element inside a fixed frame of transceivers and connections.                                   *)
DegSeq  == <<"d1", "d2", "d3">>
EqTypes == <<"pch", "psd", "psw">>

\* legacy: three dictionaries degree -> value, one per equalisation type (abstractly: sequences in degree order
\* of [deg, v]);  YANG: ONE list keyed by degree_uid whose entries carry the type as a choice
TargetsL2Y(pd) ==
  Concat([i \in 1..3 |->
     LET d == DegSeq[i]
         of(ty) == SelectSeq(pd[ty], LAMBDA e : e.deg = d)
     IN Concat([j \in 1..3 |-> [n \in 1..Len(of(EqTypes[j])) |->
                   [deg |-> d, type |-> EqTypes[j], v |-> YV(EqTypes[j], of(EqTypes[j])[n].v)]]])])
TargetsY2L(ts) ==
  LET of(ty) == LET mine == SelectSeq(ts, LAMBDA e : e.type = ty)
                IN [n \in 1..Len(mine) |-> [deg |-> mine[n].deg, v |-> LV(mine[n].v)]]
  IN [pch |-> of("pch"), psd |-> of("psd"), psw |-> of("psw")]

\* a design band: its edges and, optionally, the channel spacing the design must assume in it
BandsL2Y(bs) == [i \in 1..Len(bs) |-> [f_min |-> YV("f_min", bs[i].f_min), f_max |-> YV("f_max", bs[i].f_max),
                                       spacing |-> YV("spacing", bs[i].spacing)]]
BandsY2L(bs) == [i \in 1..Len(bs) |-> [f_min |-> LV(bs[i].f_min), f_max |-> LV(bs[i].f_max), spacing |-> LV(bs[i].spacing)]]
\* per_degree_design_bands {deg: [bands]}  <->  per_degree_design_bands_targets [{degree_uid, design_bands}]
DegBandsL2Y(db) == [i \in 1..Len(db) |-> [deg |-> db[i].deg, bands |-> BandsL2Y(db[i].bands)]]
DegBandsY2L(db) == [i \in 1..Len(db) |-> [deg |-> db[i].deg, bands |-> BandsY2L(db[i].bands)]]

RoadmL2Y(r) == [eqtype |-> r.eqtype, eq |-> IF r.eqtype = "none" THEN r.eq ELSE YV(r.eqtype, r.eq),
                targets |-> TargetsL2Y(r.perdeg), bandtargets |-> DegBandsL2Y(r.degbands)]
RoadmY2L(y) == [eqtype |-> y.eqtype, eq |-> LV(y.eq),
                perdeg |-> TargetsY2L(y.targets), degbands |-> DegBandsY2L(y.bandtargets)]

\* loss_coef: a scalar, or {value: [...], frequency: [...]}  <->  loss_coef scalar | loss_coef_per_frequency list
LossL2Y(l) == IF l.form = "scalar" THEN [form |-> "scalar", v |-> YV("loss_coef", l.v), pf |-> <<>>]
              ELSE [form |-> "perfreq", v |-> Absent,
                    pf |-> [i \in 1..Len(l.freqs) |-> [frequency |-> YV("frequency", l.freqs[i]),
                                                       loss_coef_value |-> YV("loss_coef_value", l.vals[i])]]]
LossY2L(y) == IF y.form = "scalar" THEN [form |-> "scalar", v |-> LV(y.v), freqs |-> <<>>, vals |-> <<>>]
              ELSE [form |-> "perfreq", v |-> Absent,
                    freqs |-> [i \in 1..Len(y.pf) |-> LV(y.pf[i].frequency)],
                    vals  |-> [i \in 1..Len(y.pf) |-> LV(y.pf[i].loss_coef_value)]]

\* raman_coefficient {reference_frequency, g0: [...], frequency_offset: [...]} <-> {reference_frequency, g0_per_frequency}
RamanL2Y(c) == IF ~c.present THEN [present |-> FALSE, ref |-> Absent, per |-> <<>>]
               ELSE [present |-> TRUE, ref |-> YV("reference_frequency", c.ref),
                     per |-> [i \in 1..Len(c.g0) |-> [frequency_offset |-> YV("frequency_offset", c.offsets[i]),
                                                      g0 |-> YV("g0", c.g0[i])]]]
RamanY2L(y) == IF ~y.present THEN [present |-> FALSE, ref |-> Absent, g0 |-> <<>>, offsets |-> <<>>]
               ELSE [present |-> TRUE, ref |-> LV(y.ref),
                     g0 |-> [i \in 1..Len(y.per) |-> LV(y.per[i].g0)],
                     offsets |-> [i \in 1..Len(y.per) |-> LV(y.per[i].frequency_offset)]]

LumpedL2Y(ls) == [i \in 1..Len(ls) |-> [position |-> YV("position", ls[i].position), loss |-> YV("loss", ls[i].loss)]]
LumpedY2L(ls) == [i \in 1..Len(ls) |-> [position |-> LV(ls[i].position), loss |-> LV(ls[i].loss)]]

FiberL2Y(f) == [length |-> YV("length", f.length), loss |-> LossL2Y(f.loss), att_in |-> YV("att_in", f.att_in),
                con_in |-> YV("con_in", f.con_in), con_out |-> YV("con_out", f.con_out),
                pmd_coef |-> YV("pmd_coef", f.pmd_coef), lumped |-> LumpedL2Y(f.lumped), raman |-> RamanL2Y(f.raman)]
FiberY2L(y) == [length |-> LV(y.length), loss |-> LossY2L(y.loss), att_in |-> LV(y.att_in), con_in |-> LV(y.con_in),
                con_out |-> LV(y.con_out), pmd_coef |-> LV(y.pmd_coef), lumped |-> LumpedY2L(y.lumped),
                raman |-> RamanY2L(y.raman)]

PumpsL2Y(ps) == [i \in 1..Len(ps) |-> [power |-> YV("power", ps[i].power), frequency |-> YV("frequency", ps[i].frequency),
                                       dir |-> ps[i].dir]]
PumpsY2L(ps) == [i \in 1..Len(ps) |-> [power |-> LV(ps[i].power), frequency |-> LV(ps[i].frequency), dir |-> ps[i].dir]]
RFiberL2Y(f) == [temperature |-> YV("temperature", f.temperature), pumps |-> PumpsL2Y(f.pumps)]
RFiberY2L(y) == [temperature |-> LV(y.temperature), pumps |-> PumpsY2L(y.pumps)]

OperL2Y(o) == [gain_target |-> YV("gain_target", o.gain_target), delta_p |-> YV("delta_p", o.delta_p),
               tilt_target |-> YV("tilt_target", o.tilt_target), out_voa |-> YV("out_voa", o.out_voa),
               in_voa |-> YV("in_voa", o.in_voa)]
OperY2L(y) == [gain_target |-> LV(y.gain_target), delta_p |-> LV(y.delta_p), tilt_target |-> LV(y.tilt_target),
               out_voa |-> LV(y.out_voa), in_voa |-> LV(y.in_voa)]
MbL2Y(as) == [i \in 1..Len(as) |-> [variety |-> as[i].variety, oper |-> OperL2Y(as[i].oper)]]
MbY2L(as) == [i \in 1..Len(as) |-> [variety |-> as[i].variety, oper |-> OperY2L(as[i].oper)]]

TopoL2Y(d) == [kind |-> "topology", form |-> "yang", extra |-> <<>>, roadm |-> RoadmL2Y(d.roadm), fiber |-> FiberL2Y(d.fiber),
               rfiber |-> RFiberL2Y(d.rfiber), edfa |-> OperL2Y(d.edfa), mb |-> MbL2Y(d.mb),
               fused |-> YV("loss", d.fused)]
TopoY2L(y) == [kind |-> "topology", form |-> "legacy", extra |-> <<>>, roadm |-> RoadmY2L(y.roadm), fiber |-> FiberY2L(y.fiber),
               rfiber |-> RFiberY2L(y.rfiber), edfa |-> OperY2L(y.edfa), mb |-> MbY2L(y.mb), fused |-> LV(y.fused)]

-----------------------------------------------------------------------------
(* EQUIPMENT.  Span (one entry), SI (one or two entries), one openroadm Edfa with nf_coef and other names,   *)
(* one Transceiver with other names and modes with other names and penalties, one RamanFiber entry with the  *)
(* deprecated raman_efficiency, one Roadm entry with or without type_variety.                                *)
RangeL2Y(r) == [min_value |-> YV("range", r[1]), max_value |-> YV("range", r[2]), step |-> YV("range", r[3])]
RangeY2L(r) == <<LV(r.min_value), LV(r.max_value), LV(r.step)>>

SpanL2Y(s) == [range |-> RangeL2Y(s.range), max_loss |-> YV("max_loss", s.max_loss)]
SpanY2L(y) == [range |-> RangeY2L(y.range), max_loss |-> LV(y.max_loss)]
SiL2Y(ss) == [i \in 1..Len(ss) |-> [name |-> ss[i].name, range |-> RangeL2Y(ss[i].range),
                                    tx_power_dbm |-> YV("tx_power_dbm", ss[i].tx_power_dbm)]]
SiY2L(ys) == [i \in 1..Len(ys) |-> [name |-> ys[i].name, range |-> RangeY2L(ys[i].range),
                                    tx_power_dbm |-> LV(ys[i].tx_power_dbm)]]
\* nf_coef [c0, c1, c2, c3] <-> [{coef_order, nf_coef}] keyed by the order
NfL2Y(cs) == [i \in 1..Len(cs) |-> [coef_order |-> i - 1, nf_coef |-> YV("nf_coef", cs[i])]]
NfY2L(ys) == [i \in 1..Len(ys) |-> LV((CHOOSE e \in {ys[j] : j \in 1..Len(ys)} : e.coef_order = i - 1).nf_coef)]
EdfaL2Y(e) == [name |-> e.name, others |-> e.others, nf_coef |-> NfL2Y(e.nf_coef)]
EdfaY2L(y) == [name |-> y.name, others |-> y.others, nf_coef |-> NfY2L(y.nf_coef)]
PenL2Y(ps) == [i \in 1..Len(ps) |-> [imp |-> ps[i].imp, up_to |-> YV(ps[i].imp, ps[i].up_to),
                                     penalty_value |-> YV("penalty_value", ps[i].penalty_value)]]
PenY2L(ps) == [i \in 1..Len(ps) |-> [imp |-> ps[i].imp, up_to |-> LV(ps[i].up_to), penalty_value |-> LV(ps[i].penalty_value)]]
ModesL2Y(ms) == [i \in 1..Len(ms) |-> [name |-> ms[i].name, others |-> ms[i].others, penalties |-> PenL2Y(ms[i].penalties),
                                       equalization_offset_db |-> YV("equalization_offset_db", ms[i].equalization_offset_db)]]
ModesY2L(ms) == [i \in 1..Len(ms) |-> [name |-> ms[i].name, others |-> ms[i].others, penalties |-> PenY2L(ms[i].penalties),
                                       equalization_offset_db |-> LV(ms[i].equalization_offset_db)]]
TrxL2Y(t) == [name |-> t.name, others |-> t.others, modes |-> ModesL2Y(t.modes)]
TrxY2L(y) == [name |-> y.name, others |-> y.others, modes |-> ModesY2L(y.modes)]
\* raman_efficiency {cr: [...], frequency_offset: [...]} <-> [{frequency_offset, cr}]
ReffL2Y(r) == IF ~r.present THEN [present |-> FALSE, per |-> <<>>]
              ELSE [present |-> TRUE, per |-> [i \in 1..Len(r.cr) |-> [frequency_offset |-> YV("frequency_offset", r.offsets[i]),
                                                                      cr |-> YV("cr", r.cr[i])]]]
ReffY2L(y) == IF ~y.present THEN [present |-> FALSE, cr |-> <<>>, offsets |-> <<>>]
              ELSE [present |-> TRUE, cr |-> [i \in 1..Len(y.per) |-> LV(y.per[i].cr)],
                    offsets |-> [i \in 1..Len(y.per) |-> LV(y.per[i].frequency_offset)]]

EqptL2Y(d) == [kind |-> "equipment", form |-> "yang", extra |-> <<>>, span |-> SpanL2Y(d.span), si |-> SiL2Y(d.si),
               edfa |-> EdfaL2Y(d.edfa), trx |-> TrxL2Y(d.trx), reff |-> ReffL2Y(d.reff)]
EqptY2L(y) == [kind |-> "equipment", form |-> "legacy", extra |-> <<>>, span |-> SpanY2L(y.span), si |-> SiY2L(y.si),
               edfa |-> EdfaY2L(y.edfa), trx |-> TrxY2L(y.trx), reff |-> ReffY2L(y.reff)]

\* every name an entry is declared under: type_variety (format for a mode) and its other_name list
AllNames(e) == {e.name} \cup {e.others[i] : i \in 1..Len(e.others)}

-----------------------------------------------------------------------------
(* SERVICES.  One or two requests; include list; effective-freq-slot absent, empty, or slots whose N / M are *)
(* numbers, null or absent; optional leaves; synchronisation vectors.                                        *)
SlotsL2Y(ss) == [i \in 1..Len(ss) |-> [N |-> YV("N", ss[i].N), M |-> YV("M", ss[i].M)]]
SlotsY2L(ss) == [i \in 1..Len(ss) |-> [N |-> LV(ss[i].N), M |-> LV(ss[i].M)]]
\* trx_mode is a string, an explicit null ("~null" / "~empty" in the YANG form) or absent ("~absent")
ModeL2Y(m) == IF m = "~null" THEN "~empty" ELSE m
ModeY2L(m) == IF m = "~empty" THEN "~null" ELSE m
ReqL2Y(r) == [id |-> r.id, include |-> r.include, hasslots |-> r.hasslots, slots |-> SlotsL2Y(r.slots),
              max_nb |-> YV("max_nb_of_channel", r.max_nb), power |-> YV("output_power", r.power), mode |-> ModeL2Y(r.mode),
              bandwidth |-> YV("path_bandwidth", r.bandwidth), spacing |-> YV("spacing", r.spacing)]
ReqY2L(y) == [id |-> y.id, include |-> y.include, hasslots |-> y.hasslots, slots |-> SlotsY2L(y.slots),
              max_nb |-> LV(y.max_nb), power |-> LV(y.power), mode |-> ModeY2L(y.mode),
              bandwidth |-> LV(y.bandwidth), spacing |-> LV(y.spacing)]
ServL2Y(d) == [kind |-> "service", form |-> "yang", extra |-> <<>>, reqs |-> [i \in 1..Len(d.reqs) |-> ReqL2Y(d.reqs[i])], sync |-> d.sync]
ServY2L(y) == [kind |-> "service", form |-> "legacy", extra |-> <<>>, reqs |-> [i \in 1..Len(y.reqs) |-> ReqY2L(y.reqs[i])], sync |-> y.sync]

-----------------------------------------------------------------------------
(* SPECTRUM and SIM-PARAMS: same structure in both forms, values re-encoded.                                 *)
PartL2Y(p) == [f_min |-> YV("f_min", p.f_min), f_max |-> YV("f_max", p.f_max), baud_rate |-> YV("baud_rate", p.baud_rate),
               slot_width |-> YV("slot_width", p.slot_width), roll_off |-> YV("roll_off", p.roll_off),
               delta_pdb |-> YV("delta_pdb", p.delta_pdb), tx_osnr |-> YV("tx_osnr", p.tx_osnr),
               tx_power_dbm |-> YV("tx_power_dbm", p.tx_power_dbm), label |-> p.label]
PartY2L(p) == [f_min |-> LV(p.f_min), f_max |-> LV(p.f_max), baud_rate |-> LV(p.baud_rate), slot_width |-> LV(p.slot_width),
               roll_off |-> LV(p.roll_off), delta_pdb |-> LV(p.delta_pdb), tx_osnr |-> LV(p.tx_osnr),
               tx_power_dbm |-> LV(p.tx_power_dbm), label |-> p.label]
SpecL2Y(d) == [kind |-> "spectrum", form |-> "yang", extra |-> <<>>, parts |-> [i \in 1..Len(d.parts) |-> PartL2Y(d.parts[i])]]
SpecY2L(y) == [kind |-> "spectrum", form |-> "legacy", extra |-> <<>>, parts |-> [i \in 1..Len(y.parts) |-> PartY2L(y.parts[i])]]

SimL2Y(d) == [kind |-> "simparams", form |-> "yang", extra |-> <<>>, flag |-> d.flag, method |-> d.method,
              rsr |-> YV("result_spatial_resolution", d.rsr), ssr |-> YV("solver_spatial_resolution", d.ssr),
              dtol |-> YV("dispersion_tolerance", d.dtol), ptol |-> YV("phase_shift_tolerance", d.ptol),
              channels |-> YS("computed_channels", d.channels), nchan |-> YV("computed_number_of_channels", d.nchan)]
SimY2L(y) == [kind |-> "simparams", form |-> "legacy", extra |-> <<>>, flag |-> y.flag, method |-> y.method,
              rsr |-> LV(y.rsr), ssr |-> LV(y.ssr), dtol |-> LV(y.dtol), ptol |-> LV(y.ptol),
              channels |-> LS(y.channels), nchan |-> LV(y.nchan)]

-----------------------------------------------------------------------------
L2Y(d) == CASE d.kind = "topology"  -> TopoL2Y(d)
            [] d.kind = "equipment" -> EqptL2Y(d)
            [] d.kind = "service"   -> ServL2Y(d)
            [] d.kind = "spectrum"  -> SpecL2Y(d)
            [] d.kind = "simparams" -> SimL2Y(d)
Y2L(y) == CASE y.kind = "topology"  -> TopoY2L(y)
            [] y.kind = "equipment" -> EqptY2L(y)
            [] y.kind = "service"   -> ServY2L(y)
            [] y.kind = "spectrum"  -> SpecY2L(y)
            [] y.kind = "simparams" -> SimY2L(y)

\* structure of a document: the lengths of every list / degree / band / vector it contains (form independent)
Shape(x) ==
  CASE x.kind = "topology" ->
         LET npd == IF x.form = "legacy" THEN Len(x.roadm.perdeg.pch) + Len(x.roadm.perdeg.psd) + Len(x.roadm.perdeg.psw)
                    ELSE Len(x.roadm.targets)
             db  == IF x.form = "legacy" THEN x.roadm.degbands ELSE x.roadm.bandtargets
             npf == IF x.fiber.loss.form = "scalar" THEN 0
                    ELSE IF x.form = "legacy" THEN Len(x.fiber.loss.freqs) ELSE Len(x.fiber.loss.pf)
             nrc == IF x.form = "legacy" THEN Len(x.fiber.raman.g0) ELSE Len(x.fiber.raman.per)
         IN <<npd, [i \in 1..Len(db) |-> <<db[i].deg, Len(db[i].bands)>>], npf, nrc, Len(x.fiber.lumped),
              Len(x.rfiber.pumps), Len(x.mb)>>
    [] x.kind = "equipment" ->
         <<Len(x.si), Len(x.edfa.nf_coef), Len(x.edfa.others), Len(x.trx.others),
           [i \in 1..Len(x.trx.modes) |-> <<Len(x.trx.modes[i].others), Len(x.trx.modes[i].penalties)>>],
           IF x.form = "legacy" THEN Len(x.reff.cr) ELSE Len(x.reff.per)>>
    [] x.kind = "service" ->
         <<[i \in 1..Len(x.reqs) |-> <<Len(x.reqs[i].include), x.reqs[i].hasslots, Len(x.reqs[i].slots)>>], Len(x.sync)>>
    [] x.kind = "spectrum" -> <<Len(x.parts)>>
    [] x.kind = "simparams" -> <<Len(x.channels)>>

-----------------------------------------------------------------------------
(* the clauses of C18 as predicates of a legacy document d *)
RoundTrip(d)          == Y2L(L2Y(d)) = d
Idempotent(d)         == L2Y(Y2L(L2Y(d))) = L2Y(d)
StructurePreserved(d) == Shape(L2Y(d)) = Shape(d) /\ Shape(Y2L(L2Y(d))) = Shape(d)
\* A YANG list keyed by a leaf is unordered: whoever writes the YANG form by hand may list the entries in any order.
\* Y2L is defined through the key (NfY2L picks each coefficient by its coef_order), so it gives the same legacy
\* document for every order; Reordered(y) is the reversal of the keyed lists of the vocabulary.
RECURSIVE Rev(_)
Rev(s) == IF s = <<>> THEN <<>> ELSE Append(Rev(Tail(s)), Head(s))
Reordered(y) == IF y.kind = "equipment" THEN [y EXCEPT !.edfa.nf_coef = Rev(@)] ELSE y
KeyedListOrderIrrelevant(d) == Y2L(Reordered(L2Y(d))) = d
\* Two keyed lists become PARALLEL VECTORS in the legacy form (raman_coefficient g0 / frequency_offset, per-frequency
\* loss value / frequency).  Listing their entries in another order lists both vectors in that order: what must be
\* kept is the pairing - each g0 with its offset, each loss with its frequency - and everything else unchanged.
Pairs(xs, ys) == {<<xs[i], ys[i]>> : i \in 1..(IF Len(xs) <= Len(ys) THEN Len(xs) ELSE Len(ys))}
NoVectors(x) == [x EXCEPT !.fiber.raman.g0 = <<>>, !.fiber.raman.offsets = <<>>, !.fiber.loss.freqs = <<>>, !.fiber.loss.vals = <<>>]
SameUpToVectorOrder(a, b) ==
  IF a.kind # "topology" THEN a = b ELSE
    /\ NoVectors(a) = NoVectors(b)
    /\ Len(a.fiber.raman.g0) = Len(b.fiber.raman.g0) /\ Len(a.fiber.raman.offsets) = Len(b.fiber.raman.offsets)
    /\ Len(a.fiber.raman.g0) = Len(a.fiber.raman.offsets)
    /\ Pairs(a.fiber.raman.offsets, a.fiber.raman.g0) = Pairs(b.fiber.raman.offsets, b.fiber.raman.g0)
    /\ Len(a.fiber.loss.freqs) = Len(b.fiber.loss.freqs) /\ Len(a.fiber.loss.vals) = Len(b.fiber.loss.vals)
    /\ Len(a.fiber.loss.freqs) = Len(a.fiber.loss.vals)
    /\ Pairs(a.fiber.loss.freqs, a.fiber.loss.vals) = Pairs(b.fiber.loss.freqs, b.fiber.loss.vals)
\* Documents the YANG models cannot express although the legacy vocabulary can write them: two effective-freq-slots
\* that both leave N free (N is the key of that list), an explicit channel list AND a channel count (the two cases of
\* a choice).  The loaders validate every document against the models, so they may refuse such a document in either
\* form; the clauses apply as soon as they accept it ("a document that either form accepts means the same in both").
OutsideYangModel(d) ==
  \/ d.kind = "service" /\ \E i \in 1..Len(d.reqs) :
        Cardinality({k \in 1..Len(d.reqs[i].slots) : d.reqs[i].slots[k].N.t = "null"}) > 1
  \/ d.kind = "simparams" /\ d.channels # <<>> /\ d.nchan.t = "num"

\* alias clause, stated on an OBSERVED library `lib` (a set of [cat, key, reports, pid]: the entry found under
\* `key` reports the name `reports` and carries the parameter set number `pid`): every name of a declared entry is
\* a key, the entry under it reports that very name, and all names of one declared entry share one parameter set
Declared(d) == {[cat |-> "Edfa", names |-> AllNames(d.edfa)], [cat |-> "Transceiver", names |-> AllNames(d.trx)]}
               \cup {[cat |-> "Mode", names |-> AllNames(d.trx.modes[i])] : i \in 1..Len(d.trx.modes)}
AliasClause(d, lib) ==
  \A e \in Declared(d) :
     /\ \A n \in e.names : \E o \in lib : o.cat = e.cat /\ o.key = n
     /\ \A o \in lib : (o.cat = e.cat /\ o.key \in e.names) => o.reports = o.key
     /\ \A o1, o2 \in lib : (o1.cat = e.cat /\ o2.cat = e.cat /\ o1.key \in e.names /\ o2.key \in e.names) => o1.pid = o2.pid
\* the library the specification says a document denotes
ModelLib(d) == {[cat |-> "Edfa", key |-> n, reports |-> n, pid |-> 1] : n \in AllNames(d.edfa)}
          \cup {[cat |-> "Transceiver", key |-> n, reports |-> n, pid |-> 2] : n \in AllNames(d.trx)}
          \cup UNION {{[cat |-> "Mode", key |-> n, reports |-> n, pid |-> 10 + i] : n \in AllNames(d.trx.modes[i])}
                      : i \in 1..Len(d.trx.modes)}
==============================================================================
