------------------------------ MODULE DesignGraph ------------------------------
(* C08 / C17 - the line-system graph and what "a complete line system" means.                                 *)
(*                                                                                                            *)
(* A network is a sequence G of element records (index = node identity inside one graph):                      *)
(*   name    uid (string)                   type  "Transceiver" | "Roadm" | "Fiber" | "RamanFiber" | "Fused"   *)
(*   succ, pred   sets of indices                   | "Edfa" | "Multiband_amplifier"                           *)
(*   len     fibre length (integer length unit, the same unit as S.maxLen; 0 for non fibres)                   *)
(*   coef    loss coefficient (integer, NONE when frequency dependent)       variety   type_variety ("" unset) *)
(*   coefTab loss coefficient table <<<<frequency, value>>, ...>> of a fibre whose loss is given per frequency  *)
(*           (<<>> otherwise)                                                                                  *)
(*   conIn, conOut, attIn    connector / padding attenuator, micro-dB, NONE = absent                           *)
(*   loss    total loss of a passive element at the reference frequency, micro-dB (0 for others)               *)
(*   sub     amplifier settings: sequence of [variety, gain, voa, dp] (one entry for an Edfa, one per band for  *)
(*           a multiband amplifier; <<>> for other elements); NONE = not set                                   *)
(*   origin  "" or the uid of the input fibre this span was cut from                                           *)
(*   phys    further physical parameters of a fibre as a sequence of integers (PMD coefficient and whether the user  *)
(*           defined it, dispersion values and their reference frequencies, gamma, effective area, lumped losses) *)
(*   opt     "" or a tag of further user parameters the generator put on the element (carried, not judged)     *)
(* Settings S: [padding, eol, conIn, conOut (micro-dB), maxLen (length unit), powerMode (BOOLEAN), lib (set of  *)
(* amplifier type varieties of the equipment library), insert (BOOLEAN: amplifier insertion / splitting on)].                                                        *)
(* Every clause of C08 is an operator over (In, G, S): the topology given to auto-design, the designed graph,   *)
(* the Span settings.  DesignStructure applies them to the state of the rewriting system, Trace_Design to the   *)
(* graph observed after the real designed_network().                                                           *)
EXTENDS GnpyBase

Tol == 10          \* micro-dB: "equal" for dB quantities.  Measured on the unchanged tree: float noise < 1e-6 micro-dB,
                   \* export rounding (gains are written with 6 decimals) 1 micro-dB; a real defect moves >= 1000 micro-dB

Nodes(G)   == 1..Len(G)
IsTerm(e)  == e.type \in {"Roadm", "Transceiver"}
IsAmp(e)   == e.type \in {"Edfa", "Multiband_amplifier"}
IsFib(e)   == e.type \in {"Fiber", "RamanFiber"}
IsLine(e)  == IsFib(e) \/ e.type = "Fused"          \* passive line elements: what an amplifier-to-amplifier span is made of
Fibres(G)  == {i \in Nodes(G) : IsFib(G[i])}
Amps(G)    == {i \in Nodes(G) : IsAmp(G[i])}
Terms(G)   == {i \in Nodes(G) : IsTerm(G[i])}
NamesOf(G) == {G[i].name : i \in Nodes(G)}
TheOne(S)  == CHOOSE x \in S : TRUE
Next1(G, i) == TheOne(G[i].succ)                    \* only used where |succ| = 1 has been established
Prev1(G, i) == TheOne(G[i].pred)

-----------------------------------------------------------------------------
(* Chains.  Every element that is not a ROADM or a transceiver has exactly one way in and one way out, a       *)
(* transceiver at most one each, and following the way out always ends at a ROADM / transceiver (no loops).    *)
OneInOneOut(G) ==
    \A i \in Nodes(G) :
       /\ G[i].succ \subseteq Nodes(G) /\ G[i].pred \subseteq Nodes(G)
       /\ ~IsTerm(G[i]) => Cardinality(G[i].succ) = 1 /\ Cardinality(G[i].pred) = 1
       /\ G[i].type = "Transceiver" => Cardinality(G[i].succ) <= 1 /\ Cardinality(G[i].pred) <= 1

RECURSIVE EndFrom(_, _, _)
\* the ROADM / transceiver index reached from i by following the unique way out; 0 when none within `fuel` hops
EndFrom(G, i, fuel) == IF IsTerm(G[i]) THEN i
                       ELSE IF fuel = 0 \/ Cardinality(G[i].succ) # 1 THEN 0
                       ELSE EndFrom(G, Next1(G, i), fuel - 1)

ChainsOneInOneOut(G) == /\ OneInOneOut(G)
                        /\ \A i \in Nodes(G) : EndFrom(G, i, Len(G)) # 0

UniqueNames(G) == Cardinality(NamesOf(G)) = Len(G)

\* which ROADM / transceiver is reached from which, by name, and the degree of every ROADM / transceiver
Links(G) == UNION {{<<G[t].name, G[EndFrom(G, j, Len(G))].name>> : j \in G[t].succ} : t \in Terms(G)}
TermSig(G) == {<<G[t].name, G[t].type, Cardinality(G[t].succ), Cardinality(G[t].pred)>> : t \in Terms(G)}
RoadmReachabilityUnchanged(In, G) ==
    /\ TermSig(G) = TermSig(In)
    /\ \A t \in Terms(G) : \A j \in G[t].succ : EndFrom(G, j, Len(G)) # 0
    /\ Links(G) = Links(In)

-----------------------------------------------------------------------------
(* Junctions.  After design no fibre is joined directly to a fibre or to a ROADM: such a junction has received  *)
(* an amplifier.  Fused junctions and transceiver ports are not amplified, and design adds amplifiers nowhere   *)
(* else: an added amplifier (one that is not in the input) sits between fibres / ROADMs only.                   *)
BareJunction(a, b) == \/ IsFib(a) /\ IsFib(b)
                      \/ a.type = "Roadm" /\ IsFib(b)
                      \/ IsFib(a) /\ b.type = "Roadm"
EveryJunctionAmplified(G) == \A i \in Nodes(G) : \A j \in G[i].succ : ~BareJunction(G[i], G[j])

Added(In, G) == {i \in Nodes(G) : G[i].name \notin NamesOf(In)}
AmplifiersOnlyAtJunctions(In, G) ==
    \A i \in Added(In, G) : IsAmp(G[i]) =>
        \A j \in G[i].succ \cup G[i].pred : G[j].type \notin {"Fused", "Transceiver", "Edfa", "Multiband_amplifier"}
\* design only ever adds amplifiers and fibre spans; everything else of the input is still there
NothingLostNothingInvented(In, G) ==
    /\ \A i \in Added(In, G) : IsAmp(G[i]) \/ (IsFib(G[i]) /\ G[i].origin \in NamesOf(In))
    /\ \A i \in Nodes(In) : In[i].name \in NamesOf(G) \/ (IsFib(In[i]) /\ \E j \in Nodes(G) : G[j].origin = In[i].name)
    /\ \A i \in Nodes(In), j \in Nodes(G) : In[i].name = G[j].name => In[i].type = G[j].type

-----------------------------------------------------------------------------
(* Splitting.  A fibre longer than the maximum span length is replaced by k >= 2 equal spans of the same fibre   *)
(* that together have the original length (hence loss), none above the maximum, laid end to end (only           *)
(* amplifiers between them); a fibre below the maximum is left alone.  Exactly at the maximum both are allowed. *)
RECURSIVE NextFibre(_, _, _)
\* the next fibre down the line from i, skipping amplifiers only; 0 if something else comes first
NextFibre(G, i, fuel) == IF fuel = 0 \/ Cardinality(G[i].succ) # 1 THEN 0
                         ELSE LET n == Next1(G, i)
                              IN IF IsFib(G[n]) THEN n ELSE IF IsAmp(G[n]) THEN NextFibre(G, n, fuel - 1) ELSE 0

SplitOk(f, G, S) ==
    LET same  == {i \in Nodes(G) : G[i].name = f.name}
        parts == {i \in Nodes(G) : G[i].origin = f.name}
        k     == Cardinality(parts)
    IN \/ /\ parts = {} /\ same # {}
          /\ f.len <= S.maxLen
          /\ \A i \in same : G[i].len = f.len /\ G[i].coef = f.coef /\ G[i].coefTab = f.coefTab /\ G[i].variety = f.variety
       \/ /\ same = {} /\ k >= 2
          /\ f.len >= S.maxLen
          /\ \A i \in parts : /\ G[i].type = f.type /\ G[i].coef = f.coef /\ G[i].coefTab = f.coefTab /\ G[i].variety = f.variety
                              /\ G[i].phys = f.phys
                              /\ G[i].len <= S.maxLen
                              /\ \A j \in parts : G[j].len = G[i].len
                              /\ AbsI(k * G[i].len - f.len) <= k
          /\ Cardinality({i \in parts : NextFibre(G, i, Len(G)) \in parts}) = k - 1

SplitIsEqualAndConservative(In, G, S) == \A i \in Fibres(In) : SplitOk(In[i], G, S)

-----------------------------------------------------------------------------
(* Settings.                                                                                                   *)
EveryAmpConfigured(G, S) ==
    \A i \in Amps(G) :
       /\ G[i].variety \in S.lib
       /\ Len(G[i].sub) >= 1
       /\ \A b \in 1..Len(G[i].sub) : LET s == G[i].sub[b]
                                      IN /\ s.variety \in S.lib
                                         /\ s.gain # NONE
                                         /\ s.voa # NONE
                                         /\ S.powerMode => s.dp # NONE

\* an output VOA is an attenuator: never negative
VoaIsAttenuation(G) == \A i \in Amps(G) : \A b \in 1..Len(G[i].sub) : G[i].sub[b].voa # NONE => G[i].sub[b].voa >= 0 - Tol
\* with amplifier insertion switched off (no_insert_edfas) the design completes settings and adds no element
NoInsertionWhenNotAsked(In, G, S) == ~S.insert => NamesOf(G) = NamesOf(In)

EveryFiberHasConnectors(G) == \A i \in Fibres(G) : G[i].conIn # NONE /\ G[i].conOut # NONE /\ G[i].attIn # NONE

\* where the topology gave no connector loss the Span defaults are used; the ageing margin EOL goes on the output
\* connector of a fibre that is not spliced (Fused) to the next one
InputOf(In, g) == IF g.origin # "" THEN {i \in Nodes(In) : In[i].name = g.origin} ELSE {i \in Nodes(In) : In[i].name = g.name}
DefaultConnectorsApplied(In, G, S) ==
    \A i \in Fibres(G) : \A o \in InputOf(In, G[i]) :
       /\ In[o].conIn = NONE  => G[i].conIn = S.conIn
       /\ In[o].conOut = NONE /\ Cardinality(G[i].succ) = 1 =>
             G[i].conOut = S.conOut + (IF G[Next1(G, i)].type = "Fused" THEN 0 ELSE S.eol)

\* padding completes, never replaces, a padding attenuator set by the user (docs/json.rst, Span.padding)
UserAttenuatorKept(In, G) ==
    \A i \in Fibres(G) : \A o \in InputOf(In, G[i]) : In[o].attIn # NONE => G[i].attIn # NONE /\ G[i].attIn >= In[o].attIn - Tol

(* Padding.  A span is a maximal run of fibres / fused splices.  Judged are the amplifier-to-amplifier spans    *)
(* that contain a fibre and no Raman fibre: their total loss is at least the configured padding.  (A run that   *)
(* starts at a ROADM - the documented "Fused after the ROADM = no booster" idiom - or at a transceiver is not    *)
(* amplifier-to-amplifier and is not judged.)                                                                  *)
RECURSIVE RunBack(_, _, _)
\* indices of the run ending at i, walking against the direction of propagation
RunBack(G, i, fuel) == IF fuel = 0 \/ Cardinality(G[i].pred) # 1 \/ ~IsLine(G[Prev1(G, i)]) THEN {i}
                       ELSE {i} \cup RunBack(G, Prev1(G, i), fuel - 1)
SpanEnds(G)  == {i \in Nodes(G) : IsLine(G[i]) /\ Cardinality(G[i].succ) = 1 /\ ~IsLine(G[Next1(G, i)])}
SpanOf(G, e) == RunBack(G, e, Len(G))
SpanHead(G, e) == TheOne({i \in SpanOf(G, e) : Cardinality(G[i].pred) # 1 \/ ~IsLine(G[Prev1(G, i)])})
SpanLoss(G, e) == SumFun([i \in SpanOf(G, e) |-> G[i].loss], SpanOf(G, e))
Judged(G, e) == /\ IsAmp(G[Next1(G, e)])
                /\ Cardinality(G[SpanHead(G, e)].pred) = 1 /\ IsAmp(G[Prev1(G, SpanHead(G, e))])
                /\ \E i \in SpanOf(G, e) : IsFib(G[i])
                /\ \A i \in SpanOf(G, e) : G[i].type # "RamanFiber"
SpanAtLeastPadding(G, S) == \A e \in SpanEnds(G) : Judged(G, e) => SpanLoss(G, e) >= S.padding - Tol

-----------------------------------------------------------------------------
(* C17 - exported documents.  An export is projected to a sequence of element records                           *)
(*   [name, type, strs: <<<<path, string>>, ...>>, nums: <<<<path, integer>>, ...>>]  (sorted by name / path)   *)
(* plus the set of connections <<from, to>>.  Two exports are "the same to the export's rounding" when they     *)
(* have the same elements, the same string leaves, the same numeric leaves within Tol, the same connections.    *)
Paths(s)  == [k \in 1..Len(s) |-> s[k][1]]
ElementsSame(a, b) == /\ Len(a.el) = Len(b.el)
                      /\ \A i \in 1..Len(a.el) : a.el[i].name = b.el[i].name /\ a.el[i].type = b.el[i].type
SettingsDiff(a, b) ==    \* {<<element name, path>>} where the two exports disagree (elements matched by position)
    UNION {LET x == a.el[i]  y == b.el[i]
           IN IF Paths(x.strs) # Paths(y.strs) \/ Paths(x.nums) # Paths(y.nums) THEN {<<x.name, "(structure)">>}
              ELSE {<<x.name, x.strs[k][1]>> : k \in {k \in 1..Len(x.strs) : x.strs[k][2] # y.strs[k][2]}}
                   \cup {<<x.name, x.nums[k][1]>> : k \in {k \in 1..Len(x.nums) : ~Within(x.nums[k][2], y.nums[k][2], Tol)}}
           : i \in 1..MinI(Len(a.el), Len(b.el))}
ConnectionsSame(a, b) == a.cx = b.cx
VectorsAgree(u, v, tol) == Len(u) = Len(v) /\ \A k \in 1..Len(u) : Within(u[k], v[k], tol)
==============================================================================
