------------------------------ MODULE MC_FlexGrid ------------------------------
(* The grid arithmetic of FlexGrid.tla checked on a window around the anchor, and one case per point of the window   *)
(* emitted for the replay into gnpy.topology.spectrum_assignment (frequency_to_n, nvalue_to_frequency,              *)
(* mvalue_to_slots, slots_to_m, m_to_freq, Bitmap.n_min / n_max / freq_index / freq_index_min / freq_index_max /       *)
(* getn / geti).  Function-shaped: every initial state is one input, the expectation is computed by the operators.     *)
EXTENDS FlexGrid, TLC, Json

NS == -9..9
MS == 1..4
Offs == {0, 1250, 3125, 5000, 6249}                         \* MHz off the grid point, towards +
FS == {FreqOfN(n) + d : n \in NS, d \in Offs} \cup {FreqOfN(n) - d : n \in NS, d \in Offs}
Guards == {0, 6250, 15000}                                    \* 0, one index, the default 15 GHz... in MHz
BM == {<<lo, hi, g>> \in FS \X FS \X Guards : hi - lo >= 50000 /\ lo % 1250 = 0 /\ hi % 1250 = 0 /\ (lo + hi) % 3 = 0}

VARIABLE c
Cases == [k : {"nm"}, n : NS, m : MS] \cup [k : {"f"}, f : FS] \cup [k : {"bm"}, lo : {x[1] : x \in BM}, hi : {x[2] : x \in BM}, g : Guards]
Init == c \in {x \in Cases : x.k = "bm" => <<x.lo, x.hi, x.g>> \in BM}
Next == UNCHANGED c

Expect(x) ==
    CASE x.k = "nm" -> [start |-> StartN(x.n, x.m), stop |-> StopN(x.n, x.m), flo |-> SlotEdges(x.n, x.m)[1],
                         fhi |-> SlotEdges(x.n, x.m)[2], backN |-> CentreOf(StartN(x.n, x.m), StopN(x.n, x.m)),
                         backM |-> HalfOf(StartN(x.n, x.m), StopN(x.n, x.m)), f |-> FreqOfN(x.n)]
      [] x.k = "f"  -> [n |-> NOfFreq(x.f)]
      [] x.k = "bm" -> [nmin |-> NOfFreq(x.lo), nmax |-> NOfFreq(x.hi), len |-> Cardinality(AxisOf(x.lo, x.hi)),
                         imin |-> GuardLo(x.lo, x.g), imax |-> GuardHi(x.hi, x.g)]

Lemmas == /\ RoundTrip /\ GridInverse(NS) /\ WidthLaw(NS, MS) /\ CentreLaw(NS, MS) /\ OverlapLaw(NS, MS)
          /\ IndexIsFrequency(NS, MS) /\ AdjacentLaw(NS, MS) /\ TruncLaw(FS)
\* the axis of a map is contiguous and holds both ends; the guard indices lie inside it
AxisLaw == c.k = "bm" => LET e == Expect(c) IN /\ e.len = e.nmax - e.nmin + 1
                                               /\ e.nmin <= e.imin /\ e.imax <= e.nmax
Emit == PrintT("@@" \o ToJson([c |-> c, e |-> Expect(c)]))
==============================================================================
