------------------------------ MODULE MC_FiberLaw ------------------------------
(* Bounded instance for C05: four DIFFERENT fibres (scalar and per-frequency loss coefficient - tables listed by        *)
(* increasing frequency and by increasing wavelength -, lumped losses,                                                *)
(* connectors, padding att_in), one ROADM crossing "R" and one amplifier "A"; every assembly of 2-4 of the fibres      *)
(* with R and A, crossed in every order.  Own contributions are abstract pairwise-distinct integers here.             *)
EXTENDS FiberLaw, Json, TLC

dB == 1000000
MCChan  == 1..4
MCChanF == <<191500, 192750, 193500, 194750>>
Ids == {"F1", "F2", "F3", "F4", "R", "A"}
MCKind == [e \in Ids |-> IF e = "R" THEN "roadm" ELSE IF e = "A" THEN "amp" ELSE "fiber"]
Fib == {"F1", "F2", "F3", "F4"}
L(km, loss) == [km |-> km, loss |-> loss]
P(f, a) == [f |-> f, a |-> a]
Ref(kind, v) == [kind |-> kind, v |-> v]
S(attIn, conIn, conOut, lumps, lenKm, alpha, disp, dispTab, ref) ==
   [attIn |-> attIn, conIn |-> conIn, conOut |-> conOut, lumps |-> lumps, lenKm |-> lenKm, alpha |-> alpha,
    disp |-> disp, dispTab |-> dispTab, ref |-> ref]
\* dispersion (1e-3 ps/nm/km): F1 the library's figure for its type at the default reference (1550 nm); F2 written in the
\* element, the fibre parameters being given at a reference WAVELENGTH of 1590 nm; F3 a per-frequency table (no single value:
\* its CD contribution is abstract); F4 written in the element, parameters given at a reference FREQUENCY of 192 THz
MCSpan == [e \in Fib |->
   CASE e = "F1" -> S(0,        500000, 500000, <<>>,                                 80,  <<P(0, 200)>>,
                      16700, <<>>, Ref("default", 0))
     [] e = "F2" -> S(1500000,  200000, 700000, <<L(10, 1 * dB), L(30, 500000)>>,     50,  <<P(0, 220)>>,
                      19500, <<>>, Ref("wavelength", 1590))
     \* F3: per-frequency table listed by increasing WAVELENGTH (decreasing frequency); F4: listed by increasing frequency
     [] e = "F3" -> S(0,        0,      300000, <<L(50, 2 * dB)>>,                    100, <<P(196000, 210), P(193500, 200), P(191000, 220)>>,
                      NONE, <<P(196500, 23000), P(193500, 22000), P(190500, 20500)>>, Ref("default", 0))
     [] e = "F4" -> S(3 * dB,   100000, 100000, <<>>,                                 25,  <<P(191000, 190), P(196000, 210)>>,
                      17000, <<>>, Ref("frequency", 192000))]
Idx(e) == CASE e = "F1" -> 1 [] e = "F2" -> 2 [] e = "F3" -> 3 [] e = "F4" -> 4 [] e = "R" -> 5 [] e = "A" -> 6
MCDCd  == [e \in Ids |-> [c \in MCChan |-> IF e \in Fib THEN 1000 * Idx(e) * Idx(e) + 10 * c ELSE 0]]
MCDLat == [e \in Ids |-> IF e \in Fib THEN 7 * Idx(e) * Idx(e) + 1 ELSE 0]
MCDPmd == [e \in Ids |-> 3 * Idx(e) * Idx(e) + Idx(e)]
MCDPdl == [e \in Ids |-> IF e \in Fib THEN 0 ELSE 11 * Idx(e)]

MCAssemblies      == {F \cup {"R", "A"} : F \in {X \in SUBSET Fib : Cardinality(X) >= 2}}
MCAssembliesQuick == {F \cup {"R", "A"} : F \in {X \in SUBSET Fib : Cardinality(X) \in {2, 4}}} \cup {{"F1", "F2", "F3", "R", "A"}}

Emit == Len(done) < Cardinality(elems) \/
   PrintT("@@" \o ToJson([order |-> done,
                          budget |-> [k \in 1..Len(done) |-> IF IsFiber(done[k]) THEN [c \in 1..N |-> Budget(done[k], c)] ELSE <<>>],
                          \* CD each span adds, from its configuration (single-value dispersion; <<>>: not decided by the model)
                          cdAdd |-> [k \in 1..Len(done) |-> IF IsFiber(done[k]) /\ Span[done[k]].disp # NONE
                                                            THEN [c \in 1..N |-> OwnCd(done[k], c)] ELSE <<>>],
                          total |-> [c \in 1..N |-> acc.loss[c]]]))
\* the configuration of the fibres, emitted once (the harness builds the real Fiber elements from it)
\* LowPower (Raman on, -60 dBm per channel, loss = budget) is explored over the grid (fibre length) x (solver spatial resolution,
\* m): fine, the 10 km default, one that divides no length, and one longer than the shortest fibre (lengths 25 / 50 / 80 / 100 km)
LowPowerSteps == <<500, 7000, 10000, 30000>>
FirstAssembly == CHOOSE a \in Assemblies : TRUE
\* Lumped-loss positions (Raman on, low power: LowPower and LumpedOnce in the quick tier).  A short fibre with one lumped loss,
\* to which ONE MORE lumped loss of 1.5 dB is added at every position of a grid: span start, inside off / on a point of the
\* solver's grid, 1 km before the end, the span end.  `valid` = SpanValid (boundaries excluded): an invalid configuration may be
\* refused; when the constructor accepts it the emitted budget (every lumped loss once) is what the fibre must apply.
ProbeBase     == S(0, 300000, 200000, <<L(5, 700000)>>, 20, <<P(0, 200)>>, 16700, <<>>, Ref("default", 0))
ProbeKm       == {0, 7, 10, 19, 20}
ProbeLoss     == 1500000
ProbeSpan(km) == [ProbeBase EXCEPT !.lumps = Append(@, L(km, ProbeLoss))]
BudgetSeq(s)  == [c \in 1..N |-> BudgetOf(s, c)]
Probes        == [base |-> [span |-> ProbeBase, budget |-> BudgetSeq(ProbeBase)],
                  extra |-> ProbeLoss,
                  at |-> {[km |-> km, span |-> ProbeSpan(km), valid |-> SpanValid(ProbeSpan(km)), budget |-> BudgetSeq(ProbeSpan(km))]
                          : km \in ProbeKm},
                  \* solver settings: perturbative on a 2.5 km grid (10 km on a grid point, 7 / 19 km off), numerical at 50 m
                  \* (exact = FALSE: Euler discretisation error, only the relational LumpedOnce is judged)
                  settings |-> {[method |-> "perturbative", order |-> 2, step |-> 2500, exact |-> TRUE],
                                [method |-> "numerical", order |-> 2, step |-> 50, exact |-> FALSE]}]
\* the fibres of the assemblies are valid configurations; the probe grid holds valid positions and both boundaries
ASSUME /\ \A e \in Fib : SpanValid(MCSpan[e])
       /\ SpanValid(ProbeBase)
       /\ {km \in ProbeKm : ~SpanValid(ProbeSpan(km))} = {0, ProbeBase.lenKm}
       /\ {km \in ProbeKm : SpanValid(ProbeSpan(km))} # {}
EmitConfig == done # <<>> \/ elems # FirstAssembly \/
   PrintT("@@" \o ToJson([chanF |-> ChanF, span |-> [e \in Fib |-> Span[e]], lowPowerSteps |-> LowPowerSteps, probes |-> Probes]))
\* Raman-on relational clauses (thorough tier): the solver settings under which the shipped Raman fibre configurations
\* are exercised.  `exact`: the method reproduces plain attenuation exactly in the low-power limit (the numerical
\* Euler scheme has a discretisation error proportional to its step, so LowPower is not judged for it).
RamanSettings == {[method |-> "perturbative", order |-> o, step |-> st, exact |-> TRUE] : o \in 1..4, st \in {50, 200}}
            \cup {[method |-> "numerical", order |-> 2, step |-> st, exact |-> FALSE] : st \in {10, 50}}
EmitRamanSettings == done # <<>> \/ elems # FirstAssembly \/ \A s \in RamanSettings : PrintT("@@" \o ToJson(s))
==============================================================================
