------------------------------ MODULE MC_FiberLaw ------------------------------
(* Bounded instance for C05: four DIFFERENT fibres (scalar and per-frequency loss coefficient - tables listed by        *)
(* increasing frequency and by increasing wavelength -, lumped losses,                                                *)
(* connectors, padding att_in), one ROADM crossing "R" and one amplifier "A"; every assembly of 2-4 of the fibres      *)
(* with R and A, crossed in every order.  Own contributions are abstract pairwise-distinct integers here.             *)
EXTENDS FiberLaw, Json, TLC

dB == 1000000
MCChan  == 1..4
MCChanF == <<191500, 192750, 193500, 194750>>
Ids == {"F1", "F2", "F3", "F4", "R", "A"}
MCKind == [e \in Ids |-> IF e = "R" THEN "roadm" ELSE IF e = "A" THEN "amp" ELSE "fiber"]
Fib == {"F1", "F2", "F3", "F4"}
L(km, loss) == [km |-> km, loss |-> loss]
P(f, a) == [f |-> f, a |-> a]
S(attIn, conIn, conOut, lumps, lenKm, alpha) ==
   [attIn |-> attIn, conIn |-> conIn, conOut |-> conOut, lumps |-> lumps, lenKm |-> lenKm, alpha |-> alpha]
MCSpan == [e \in Fib |->
   CASE e = "F1" -> S(0,        500000, 500000, <<>>,                                 80,  <<P(0, 200)>>)
     [] e = "F2" -> S(1500000,  200000, 700000, <<L(10, 1 * dB), L(30, 500000)>>,     50,  <<P(0, 220)>>)
     \* F3: per-frequency table listed by increasing WAVELENGTH (decreasing frequency); F4: listed by increasing frequency
     [] e = "F3" -> S(0,        0,      300000, <<L(50, 2 * dB)>>,                    100, <<P(196000, 210), P(193500, 200), P(191000, 220)>>)
     [] e = "F4" -> S(3 * dB,   100000, 100000, <<>>,                                 25,  <<P(191000, 190), P(196000, 210)>>)]
Idx(e) == CASE e = "F1" -> 1 [] e = "F2" -> 2 [] e = "F3" -> 3 [] e = "F4" -> 4 [] e = "R" -> 5 [] e = "A" -> 6
MCDCd  == [e \in Ids |-> [c \in MCChan |-> IF e \in Fib THEN 1000 * Idx(e) * Idx(e) + 10 * c ELSE 0]]
MCDLat == [e \in Ids |-> IF e \in Fib THEN 7 * Idx(e) * Idx(e) + 1 ELSE 0]
MCDPmd == [e \in Ids |-> 3 * Idx(e) * Idx(e) + Idx(e)]
MCDPdl == [e \in Ids |-> IF e \in Fib THEN 0 ELSE 11 * Idx(e)]

MCAssemblies      == {F \cup {"R", "A"} : F \in {X \in SUBSET Fib : Cardinality(X) >= 2}}
MCAssembliesQuick == {F \cup {"R", "A"} : F \in {X \in SUBSET Fib : Cardinality(X) \in {2, 4}}} \cup {{"F1", "F2", "F3", "R", "A"}}

Emit == Len(done) < Cardinality(elems) \/
   PrintT("@@" \o ToJson([order |-> done,
                          budget |-> [k \in 1..Len(done) |-> IF IsFiber(done[k]) THEN [c \in 1..N |-> Budget(done[k], c)] ELSE <<>>],
                          total |-> [c \in 1..N |-> acc.loss[c]]]))
\* the configuration of the fibres, emitted once (the harness builds the real Fiber elements from it)
\* LowPower (Raman on, -60 dBm per channel, loss = budget) is explored over the grid (fibre length) x (solver spatial resolution,
\* m): fine, the 10 km default, one that divides no length, and one longer than the shortest fibre (lengths 25 / 50 / 80 / 100 km)
LowPowerSteps == <<500, 7000, 10000, 30000>>
FirstAssembly == CHOOSE a \in Assemblies : TRUE
EmitConfig == done # <<>> \/ elems # FirstAssembly \/
   PrintT("@@" \o ToJson([chanF |-> ChanF, span |-> [e \in Fib |-> Span[e]], lowPowerSteps |-> LowPowerSteps]))
\* Raman-on relational clauses (thorough tier): the solver settings under which the shipped Raman fibre configurations
\* are exercised.  `exact`: the method reproduces plain attenuation exactly in the low-power limit (the numerical
\* Euler scheme has a discretisation error proportional to its step, so LowPower is not judged for it).
RamanSettings == {[method |-> "perturbative", order |-> o, step |-> st, exact |-> TRUE] : o \in 1..4, st \in {50, 200}}
            \cup {[method |-> "numerical", order |-> 2, step |-> st, exact |-> FALSE] : st \in {10, 50}}
EmitRamanSettings == done # <<>> \/ elems # FirstAssembly \/ \A s \in RamanSettings : PrintT("@@" \o ToJson(s))
==============================================================================
