--------------------------- MODULE RequestResolution ---------------------------
(* REQUEST RESOLUTION: how one service request of a service document, together with the equipment library, becomes   *)
(* the resolved PathRequest the rest of the pipeline computes with - or is refused.                                  *)
(*   gnpy.tools.json_io.requests_from_json / _check_one_request, gnpy.core.equipment.trx_mode_params,                 *)
(*   gnpy.core.utils.automatic_nch / automatic_fmax, gnpy.topology.request.PathRequest /                              *)
(*   compute_spectrum_slot_vs_bandwidth.                                                                              *)
(* Function-shaped: Outcome(lib, si, req) is EITHER [status |-> "error", kind, rule] OR [status |-> "ok", ...].       *)
(*                                                                                                                    *)
(* Units (all integers, all exact):  frequencies, spacings, baud rates  MHz      bit rates, bandwidth  Gbit/s          *)
(*   powers  micro-dBm      OSNR, tx_osnr, equalization offset  micro-dB      roll-off  1/1000      N, M  grid units    *)
(*   NONE (GnpyBase) = absent / null / Python's None;   NoName = a type or mode that the document does not name.       *)
(*                                                                                                                    *)
(* lib : function  type name -> [fmin, fmax, modes],  modes : function  mode name ->                                   *)
(*          [baud, minsp, bitrate, osnr, cost, txosnr, rolloff, offset]           (equipment['Transceiver'])           *)
(* si  : [power, txpower]        power_dbm and the optional tx_power_dbm of equipment['SI']['default']                 *)
(* req : [type, mode, spacing, nch, power, txpower, bw, sk, slots]                 (one entry of "path-request")       *)
(*          nch      max-nb-of-channel or NONE          power    output-power or NONE       txpower  tx_power or NONE  *)
(*          bw       path_bandwidth                                                                                    *)
(*          sk       "absent": no effective-freq-slot key;  "null": the key holds null;  "list": slots is its value,   *)
(*          slots    a sequence of [N, M], each possibly NONE, in document order                                       *)
EXTENDS FlexGrid

NoName   == "-"
SlotMHz  == 12500                          \* width of one M unit (slot_width = 0.0125e12 Hz)
ECE      == "EquipmentConfigError"
SE       == "ServiceError"
Err(kind, rule) == [status |-> "error", kind |-> kind, rule |-> rule]

CeilDiv(a, b) == (a + b - 1) \div b        \* math.ceil(a / b) for a >= 0, b > 0

\* gnpy.core.utils: int((f_max - f_min) // spacing)  and  f_min + spacing * nch
AutomaticNch(fmin, fmax, spacing)  == (fmax - fmin) \div spacing
AutomaticFmax(fmin, spacing, nch)  == fmin + spacing * nch

-----------------------------------------------------------------------------
(* trx_mode_params(equipment, type, mode, error_message=True).  The tests are made in the code's order: the mode is   *)
(* looked up first, "no mode named" second, and only then the two "could not find" errors.  The frequency range is      *)
(* ALWAYS the transceiver type's, never the SI's (the SI range is only the fallback of error_message=False).            *)
ModeParams(lib, type, mode) ==
    IF type \notin DOMAIN lib THEN Err(ECE, "UnknownType")
    ELSE LET t == lib[type] IN
         IF mode \in DOMAIN t.modes THEN
             LET m == t.modes[mode] IN
             IF m.baud > m.minsp THEN Err(ECE, "BaudAboveMinSpacing")          \* library sanity, found at USE of the mode
             ELSE [status |-> "ok", format |-> mode, baud |-> m.baud, minsp |-> m.minsp, bitrate |-> m.bitrate,
                   osnr |-> m.osnr, cost |-> m.cost, txosnr |-> m.txosnr, rolloff |-> m.rolloff, offset |-> m.offset,
                   fmin |-> t.fmin, fmax |-> t.fmax]
         ELSE IF mode = NoName THEN
             \* "undetermined": the mode is left to the automatic selection; nothing but the range and a 0 offset is known
             [status |-> "ok", format |-> "undetermined", baud |-> NONE, minsp |-> NONE, bitrate |-> NONE,
              osnr |-> NONE, cost |-> NONE, txosnr |-> NONE, rolloff |-> NONE, offset |-> 0,
              fmin |-> t.fmin, fmax |-> t.fmax]
         ELSE Err(ECE, "UnknownMode")

-----------------------------------------------------------------------------
(* requests_from_json, the part between trx_mode_params and _check_one_request: defaults and the channel comb.          *)
(*   power     the request's output-power, else the SI's power_dbm                                                     *)
(*   tx_power  the request's tx_power, else the SI's tx_power_dbm WHEN THE SI DEFINES ONE, else the power just resolved  *)
(*             (so an SI tx_power_dbm overrides an explicit output-power of the request - the code's rule)              *)
(*   nb_channel given  -> kept, and f_max is RECOMPUTED as f_min + spacing * nb_channel (it may exceed the range: Check)  *)
(*              absent -> automatic_nch over the type's range, f_max stays the range's                                  *)
(*   effective-freq-slot absent -> the single undetermined slot [{N: None, M: None}];  null -> no slot list at all       *)
DefaultSlots == << [N |-> NONE, M |-> NONE] >>

Resolve(lib, si, req) ==
    LET mp == ModeParams(lib, req.type, req.mode) IN
    IF mp.status = "error" THEN mp
    ELSE LET power == IF req.power # NONE THEN req.power ELSE si.power
             given == req.nch # NONE
             slots == IF req.sk = "absent" THEN DefaultSlots ELSE IF req.sk = "null" THEN <<>> ELSE req.slots
         IN [status |-> "ok", type |-> req.type, mode |-> req.mode, format |-> mp.format,
             baud |-> mp.baud, minsp |-> mp.minsp, bitrate |-> mp.bitrate, osnr |-> mp.osnr, cost |-> mp.cost,
             txosnr |-> mp.txosnr, rolloff |-> mp.rolloff, offset |-> mp.offset,
             spacing |-> req.spacing, fmin |-> mp.fmin,
             fmax |-> IF given THEN AutomaticFmax(mp.fmin, req.spacing, req.nch) ELSE mp.fmax,
             nch  |-> IF given THEN req.nch ELSE AutomaticNch(mp.fmin, mp.fmax, req.spacing),
             power |-> power,
             txpower |-> IF req.txpower # NONE THEN req.txpower ELSE IF si.txpower # NONE THEN si.txpower ELSE power,
             bw |-> req.bw, hasSlots |-> req.sk # "null",
             N |-> [i \in 1..Len(slots) |-> slots[i].N], M |-> [i \in 1..Len(slots) |-> slots[i].M]]

-----------------------------------------------------------------------------
(* _check_one_request(params, f_max_from_si): the ordered rejection rules.                                              *)
PerChannelM(spacing)          == CeilDiv(spacing, SlotMHz)       \* compute_spectrum_slot_vs_bandwidth(bit_rate, spacing, bit_rate)[1]
RequiredChannels(bw, bitrate) == CeilDiv(bw, bitrate)            \* compute_spectrum_slot_vs_bandwidth(bw, spacing, bit_rate)[0]
AllMGiven(M)                  == \A i \in 1..Len(M) : M[i] # NONE
\* nb_of_channels: each slot carries floor(M / per-channel M) channels; None as soon as ONE M is absent
SupportedChannels(M, pcm)     == SumSeq([i \in 1..Len(M) |-> M[i] \div pcm])

\* the slots whose N is given, in the order of sorted(key=N) (stable: document order among equal N)
FixedIdx(N)        == {i \in 1..Len(N) : N[i] # NONE}
Before(N, i, j)    == N[i] < N[j] \/ (N[i] = N[j] /\ i < j)
Rank(N, i)         == Cardinality({j \in FixedIdx(N) : Before(N, j, i)}) + 1
SortedFixed(N)     == [k \in 1..Cardinality(FixedIdx(N)) |-> CHOOSE i \in FixedIdx(N) : Rank(N, i) = k]
\* the code's test: each slot of the sorted list starts at or below the stop index of the one before it
OverlapCode(N, M)  == LET s == SortedFixed(N) IN
                      \E k \in 2..Len(s) : StartN(N[s[k]], M[s[k]]) <= StopN(N[s[k - 1]], M[s[k - 1]])
\* what a user means: two slots with a given centre share an index of the 6.25 GHz axis
OverlapPairwise(N, M) == \E i, j \in FixedIdx(N) : i # j /\ Overlap(N[i], M[i], N[j], M[j])

Accepted(p) == p
Check(p, fmaxRange) ==
    \* (1), (2) only "if params['baud_rate'] is not None", i.e. only when a mode was named
    IF p.baud # NONE /\ p.minsp > p.spacing THEN Err(SE, "SpacingBelowMin")
    ELSE IF p.baud # NONE /\ p.fmax > fmaxRange THEN Err(SE, "TooManyChannels")
    \* (3), (4) only "if params['trx_mode'] is not None and params['effective_freq_slot'] is not None"
    ELSE IF p.mode # NoName /\ p.hasSlots THEN
         LET all == AllMGiven(p.M) IN
         IF all /\ SupportedChannels(p.M, PerChannelM(p.spacing)) < RequiredChannels(p.bw, p.bitrate)
             THEN Err(SE, "NotEnoughSlots")
         \* an M below the per-channel M is only logged (critical), it is rejected through the count above or not at all
         ELSE IF all /\ OverlapCode(p.N, p.M) THEN Err(SE, "Overlap")
         ELSE Accepted(p)
    ELSE Accepted(p)

Outcome(lib, si, req) ==
    IF req.type = NoName THEN Err(SE, "NoType")
    ELSE LET p == Resolve(lib, si, req) IN
         IF p.status = "error" THEN p ELSE Check(p, lib[req.type].fmax)

-----------------------------------------------------------------------------
(* LEMMAS about one resolution  o == Outcome(lib, si, req)  - what a user of the stage may rely on.  TLC checks them    *)
(* on every case of the bounded instance (MC_RequestResolution).  Where the code's rule is narrower than one would        *)
(* expect the lemma carries the code's guard and a SURPRISE comment; MC_RequestResolution holds a witness for each.       *)
Ok(o)    == o.status = "ok"
Named(o) == o.mode # NoName

\* an error is one of the eight classified refusals
ErrorsClassified(o) == ~Ok(o) => /\ o.kind \in {ECE, SE}
                                 /\ o.rule \in {"NoType", "UnknownType", "UnknownMode", "BaudAboveMinSpacing", "SpacingBelowMin",
                                                "TooManyChannels", "NotEnoughSlots", "Overlap"}
                                 /\ (o.kind = ECE <=> o.rule \in {"UnknownType", "UnknownMode", "BaudAboveMinSpacing"})
\* library errors depend on (type, mode) only
LibraryErrorsFirst(lib, req, o) ==
    (req.type # NoName /\ ModeParams(lib, req.type, req.mode).status = "error") => o = ModeParams(lib, req.type, req.mode)

\* the band is the transceiver type's
RangeIsTheTypes(lib, req, o) == Ok(o) => o.fmin = lib[req.type].fmin /\ o.fmax >= o.fmin

\* the comb of a resolved request with a NAMED MODE lies inside the transceiver's range.
\* SURPRISE: without a mode (automatic mode selection) a channel count that overflows the range is accepted - rule (2)
\* is guarded by baud_rate, which an undetermined mode does not have.
NbChannelFitsBand(lib, req, o) ==
    (Ok(o) /\ Named(o)) => /\ o.fmin + o.nch * o.spacing <= lib[req.type].fmax
                           /\ o.fmax <= lib[req.type].fmax
NbChannelFitsBandWhenAutomatic(lib, req, o) ==
    (Ok(o) /\ req.nch = NONE) => o.fmin + o.nch * o.spacing <= lib[req.type].fmax
\* without a channel count the comb is the largest that fits, and f_max stays the range's upper edge
AutomaticFillsBand(lib, req, o) ==
    (Ok(o) /\ req.nch = NONE) => LET w == lib[req.type].fmax - lib[req.type].fmin IN
                                 /\ o.nch * o.spacing <= w /\ w < (o.nch + 1) * o.spacing
                                 /\ o.fmax = lib[req.type].fmax
\* with a channel count the band is exactly the comb
GivenCountSetsFmax(req, o) == (Ok(o) /\ req.nch # NONE) => o.nch = req.nch /\ o.fmax = o.fmin + o.nch * o.spacing

\* the physical parameters of the mode are all there when a mode was named, all absent otherwise
ModeGivesAllOrNothing(o) ==
    Ok(o) => /\ \A x \in {o.baud, o.minsp, o.bitrate, o.osnr, o.cost, o.txosnr, o.rolloff} : (x # NONE) <=> Named(o)
             /\ (o.format = "undetermined") <=> ~Named(o)
             /\ Named(o) => o.format = o.mode
             /\ o.offset # NONE
\* an accepted named mode is used at a spacing it supports, and the library entry is sane
SpacingRespectsMode(o) == (Ok(o) /\ Named(o)) => o.baud <= o.minsp /\ o.minsp <= o.spacing

PowerAlwaysDefined(o) == Ok(o) => o.power # NONE /\ o.txpower # NONE
\* explicit values win; SURPRISE: tx_power falls back to the SI's tx_power_dbm BEFORE the request's own output-power
PowerPrecedence(si, req, o) ==
    Ok(o) => /\ (req.power # NONE => o.power = req.power) /\ (req.power = NONE => o.power = si.power)
             /\ (req.txpower # NONE => o.txpower = req.txpower)
             /\ (req.txpower = NONE /\ si.txpower # NONE => o.txpower = si.txpower)
             /\ (req.txpower = NONE /\ si.txpower = NONE => o.txpower = o.power)

\* the slot lists keep the document's order; no key -> one undetermined slot; null -> no lists (PathRequest has no N, M)
SlotsAsWritten(req, o) ==
    Ok(o) => /\ (req.sk = "absent" => o.N = <<NONE>> /\ o.M = <<NONE>>)
             /\ (req.sk = "list" => /\ Len(o.N) = Len(req.slots) /\ Len(o.M) = Len(req.slots)
                                    /\ \A i \in 1..Len(req.slots) : o.N[i] = req.slots[i].N /\ o.M[i] = req.slots[i].M)
             /\ (o.hasSlots <=> req.sk # "null")

\* an accepted request with a named mode whose M values are ALL given can carry its bandwidth in them.
\* SURPRISE: one slot without M switches the capacity test AND the overlap test off for all the others.
FixedSlotsCanCarryBandwidth(o) ==
    (Ok(o) /\ Named(o) /\ o.hasSlots /\ AllMGiven(o.M)) =>
        SupportedChannels(o.M, PerChannelM(o.spacing)) * o.bitrate >= o.bw
\* ... and its slots with a given centre are pairwise disjoint
AcceptedFixedSlotsDisjoint(o) ==
    (Ok(o) /\ Named(o) /\ o.hasSlots /\ AllMGiven(o.M)) => ~OverlapPairwise(o.N, o.M)
\* the consecutive test on the sorted list finds every overlap (needs M >= 1: a slot is not empty)
ConsecutiveTestIsPairwise(o) ==
    (Ok(o) /\ AllMGiven(o.M) /\ \A i \in 1..Len(o.M) : o.M[i] >= 1) => (OverlapCode(o.N, o.M) <=> OverlapPairwise(o.N, o.M))
==============================================================================
