----------------------------- MODULE ChannelSet -----------------------------
(* C07 - the launched channel set along a path.                                                               *)
(*                                                                                                          *)
(* A channel is a record [f, w, b, label]: centre frequency (MHz offset from 193.1 THz), slot width and      *)
(* baud rate (MHz) and a label standing for everything the transmitter attached to it (label, tx power, tx  *)
(* OSNR, roll-off, power offset).  A path is a sequence of elements: passive ones (ROADM, fibre, fused),      *)
(* single-band amplifiers and multi-band amplifiers, each amplifier with its band(s) [lo, hi].                *)
(*                                                                                                          *)
(* Actions, at the grain of gnpy.topology.request.propagate:                                                 *)
(*   Launch(list)     SpectralInformation construction (create_arbitrary_spectral_information,               *)
(*                    carriers_to_spectral_information): sort by frequency; reject when two neighbouring     *)
(*                    slots overlap or a baud rate exceeds its slot (the path plays no part in it)           *)
(*   Filter(p)        filter_si, the first step that looks at the path: keep the channels whose slot lies     *)
(*                    inside a band of EVERY amplifier of the path (utils.find_common_range + demux per       *)
(*                    common band + mux of as many parts as the common band has) - once, before the path     *)
(*   Cross            the next element: passive = nothing; Edfa = demux on its band (Edfa.__call__);         *)
(*                    Multiband_amplifier = demux per band in configuration order, amplify, mux               *)
(* Clauses: Survives, InFrequencyOrder, OwnAttributes, OrderIrrelevant, RejectOverlap,                       *)
(*          RejectBaudWiderThanSlot, AcceptValid.                                                             *)
EXTENDS ChannelOps

CONSTANTS Candidates,    \* set of channel records the launch list is drawn from
          MaxLaunch,     \* longest launch list
          Paths,         \* sequence of paths; element = [kind |-> "passive" | "amp" | "multi", bands |-> <<[lo, hi], ..>>]
          DefaultBand    \* [lo, hi] used when the path has no amplifier (SI f_min / f_max)

VARIABLES input,    \* the launch list exactly as the user gave it
          pid,      \* index of the path in Paths
          pos,      \* number of elements crossed
          spec,     \* the current channel sequence
          kept,     \* the channel sequence right after Filter
          status    \* "idle" | "launched" | "filtered" | "SpectrumError" | "NoChannel"
vars == <<input, pid, pos, spec, kept, status>>

-----------------------------------------------------------------------------
RECURSIVE Lists(_)
Lists(n) == IF n = 0 THEN {<<>>}
            ELSE Lists(n - 1) \cup {Append(l, c) : l \in {x \in Lists(n - 1) : Len(x) = n - 1}, c \in Candidates}
LaunchLists == {l \in Lists(MaxLaunch) : Len(l) > 0 /\ \A i, j \in 1..Len(l) : i # j => l[i] # l[j]}

AmpBands(p) == LET idx == SelectSeq([i \in 1..Len(p) |-> i], LAMBDA i : p[i].kind \in {"amp", "multi"})
               IN [n \in 1..Len(idx) |-> p[idx[n]].bands]
InCommon(c, p) == InCommonBand(c, AmpBands(p), DefaultBand)

CrossElement(s, e) == CASE e.kind = "passive" -> s
                        [] e.kind = "amp"     -> SelectSeq(s, LAMBDA c : InBand(c, e.bands[1]))
                        [] e.kind = "multi"   -> Sorted(SeqSet(PerBand(s, e.bands, 1)))

-----------------------------------------------------------------------------
Init == /\ input = <<>> /\ pid = 1 /\ pos = 0 /\ spec = <<>> /\ kept = <<>> /\ status = "idle"

Launch(l) == /\ status = "idle"
             /\ input' = l /\ pos' = 0 /\ kept' = <<>>
             /\ LET out == LaunchOutcome(l) IN status' = out.status /\ spec' = out.spec
             /\ UNCHANGED pid

Filter(p) == /\ status = "launched"
             /\ pid' = p
             /\ LET s == SelectSeq(spec, LAMBDA c : InCommon(c, Paths[p]))
                IN /\ spec' = s /\ kept' = s
                   /\ status' = IF s = <<>> THEN "NoChannel" ELSE "filtered"   \* nothing to propagate: refused (ValueError)
             /\ UNCHANGED <<input, pos>>

Cross == /\ status = "filtered" /\ pos < Len(Paths[pid])
         /\ spec' = CrossElement(spec, Paths[pid][pos + 1])
         /\ pos' = pos + 1
         /\ UNCHANGED <<input, pid, kept, status>>

Next == \/ (status = "idle" /\ \E l \in LaunchLists : Launch(l))
        \/ (\E p \in 1..Len(Paths) : Filter(p))
        \/ Cross
Spec == Init /\ [][Next]_vars

-----------------------------------------------------------------------------
(* C07 *)
Survives ==               \* after the filter nothing is lost, duplicated or re-ordered, at any point of the path
    status = "filtered" => spec = kept

FilterKeepsExactlyCommon ==    \* removed once, before propagation: exactly the channels outside the common band
    status = "filtered" => SeqSet(kept) = {c \in SeqSet(input) : InCommon(c, Paths[pid])}

InFrequencyOrder ==       \* exactly once, in frequency order
    \A i \in 1..(Len(spec) - 1) : spec[i].f < spec[i + 1].f

OwnAttributes ==          \* each channel keeps its own slot width, baud rate, label / transmitter data
    SeqSet(spec) \subseteq SeqSet(input)

RECURSIVE Perms(_)
Perms(S) == IF S = {} THEN {<<>>} ELSE UNION {{<<c>> \o q : q \in Perms(S \ {c})} : c \in S}
OrderIrrelevant ==        \* the same channels given in any other order are launched identically
    \* (judged on the state right after Launch; the launch list never changes afterwards)
    status \in {"launched", "SpectrumError"} => \A q \in Perms(SeqSet(input)) : LaunchOutcome(q) = LaunchOutcome(input)

RejectOverlap ==          \* ANY two overlapping channels (not only neighbours) are rejected
    (status # "idle" /\ AnyOverlap(SeqSet(input))) => status = "SpectrumError"
RejectBaudWiderThanSlot ==
    (status # "idle" /\ AnyBaudWider(SeqSet(input))) => status = "SpectrumError"
AcceptValid ==            \* and nothing else is rejected
    (status = "SpectrumError") => \/ AnyOverlap(SeqSet(input))
                                  \/ AnyBaudWider(SeqSet(input))

TypeOK == /\ status \in {"idle", "launched", "filtered", "SpectrumError", "NoChannel"}
          /\ pid \in 1..Len(Paths) /\ pos \in 0..Len(Paths[pid])
          /\ SeqSet(input) \subseteq Candidates
==============================================================================
