---------------------------- MODULE MC_Workbook ----------------------------
(* Bounded model for C20: workbooks on <= 4 sites / <= 4 links / <= 3 Eqpt rows / <= 3 services.              *)
(* Eight link shapes x every admissible site-type assignment x link-value / Eqpt-row patterns, plus one       *)
(* mutation per documented violation kind on three base workbooks, plus Service sheets on ROADM-only bases.   *)
(* Every workbook is one initial state; Convert computes Expected(wb) and the documented-name Model(wb).      *)
EXTENDS Workbook, Json

VARIABLES wb, result, topo, pc
vars == <<wb, result, topo, pc>>

B == Absent
Shapes == << <<<<"a", "b">>>>,
             <<<<"a", "b">>, <<"b", "c">>>>,
             <<<<"a", "b">>, <<"b", "c">>, <<"c", "d">>>>,
             <<<<"a", "b">>, <<"b", "c">>, <<"c", "a">>>>,
             <<<<"a", "b">>, <<"a", "c">>, <<"a", "d">>>>,
             <<<<"a", "b">>, <<"b", "c">>, <<"c", "d">>, <<"d", "a">>>>,
             <<<<"a", "b">>, <<"b", "c">>, <<"a", "c">>, <<"c", "d">>>>,
             <<<<"b", "a">>, <<"c", "b">>>> >>
SitesOf(sh) == {sh[i][1] : i \in 1..Len(sh)} \cup {sh[i][2] : i \in 1..Len(sh)}
SiteSeq(sh) == SelectSeq(<<"a", "b", "c", "d">>, LAMBDA c : c \in SitesOf(sh))
Deg(sh, c) == Cardinality({i \in 1..Len(sh) : sh[i][1] = c \/ sh[i][2] = c})

\* link values: variant 0 = east filled, west blank; 1 = east partly blank (defaults), west filled and different;
\* 2 = east filled, west partly filled
LV(d, f, l, ci, co, cb) == [dist |-> d, fiber |-> f, lineic |-> l, con_in |-> ci, con_out |-> co, cable |-> cb]
BlankLV == LV(B, "", B, B, B, "")
Dist(i) == <<Num(505, 1), Num(8, -1), Num(6125, 2), Num(101, 0)>>[i]
EastV(v, i) == IF v = 1 THEN LV(B, "", B, Num(5, 1), B, "")
               ELSE LV(Dist(i), "SSMF", Num(21, 2), Num(5, 1), IF i = 2 THEN Num(0, 0) ELSE Num(4, 1), IF i = 1 THEN "c1" ELSE "c2")
WestV(v, i) == CASE v = 0 -> BlankLV
                 [] v = 1 -> LV(Dist(((i + 1) % 4) + 1), "NZDF", Num(23, 2), Num(3, 1), B, "w1")
                 [] v = 2 -> LV(B, "", Num(19, 2), Num(25, 2), B, "")
LinksOf(sh, v) == [i \in 1..Len(sh) |-> [a |-> sh[i][1], z |-> sh[i][2], east |-> EastV(v, i), west |-> WestV(v, i)]]

AV(ty, g, dp, ti, ao, ai) == [type |-> ty, gain |-> g, dp |-> dp, tilt |-> ti, att_out |-> ao, att_in |-> ai]
AmpA == AV("std_medium_gain", Num(185, 1), Num(-15, 1), Num(-5, 1), Num(1, 0), Num(5, 1))
AmpF == AV("fused", B, B, B, B, B)
AmpN == AV("", B, B, B, B, B)
AmpC == AV("std_low_gain", B, Num(1, 0), B, Num(25, 2), B)
\* settings that are exactly 0 are settings, not blanks (the design would choose other values on its own)
AmpZ == AV("std_medium_gain", Num(21, 0), Num(0, 0), Num(0, 0), Num(0, 0), Num(0, 0))
Row(a, z, e, w) == [a |-> a, z |-> z, east |-> e, west |-> w]
NeighSeq(sh, c) == Cat([i \in 1..Len(sh) |-> IF sh[i][1] = c THEN <<sh[i][2]>> ELSE IF sh[i][2] = c THEN <<sh[i][1]>> ELSE <<>>])
EqptOf(sh, p) ==
  LET n == Len(sh)
      first == sh[1]
      last == sh[n]
      amps == <<AmpA, AmpF, AmpC>>
      wamps == <<AmpZ, AmpC, AmpA>>
      na == NeighSeq(sh, "a")
  IN CASE p = 0 -> <<>>
       [] p = 1 -> <<Row(first[1], first[2], AmpA, AmpN)>>
       [] p = 2 -> [k \in 1..Len(na) |-> Row("a", na[k], amps[k], wamps[k])]
       [] p = 3 -> <<Row(last[2], last[1], AmpF, AmpC)>>
       [] p = 4 -> <<Row(first[2], first[1], AmpC, AmpF), Row(last[1], last[2], AmpZ, AmpA)>>
\* (link-value variant, Eqpt pattern, Roadms row?) combinations
Combos == {<<0, 0, FALSE>>, <<1, 1, TRUE>>, <<2, 2, TRUE>>, <<0, 3, FALSE>>, <<1, 4, FALSE>>, <<2, 0, FALSE>>, <<0, 2, FALSE>>}
TypeChoices(sh, c) == IF Deg(sh, c) = 2 THEN {"ROADM", "ILA", "FUSED", "other"} ELSE {"ROADM", "ILA", "other"}
Assignments(sh) == {f \in [SitesOf(sh) -> {"ROADM", "ILA", "FUSED", "other"}] : \A c \in SitesOf(sh) : f[c] \in TypeChoices(sh, c)}
NoSvc == <<>>
\* layouts: no empty line anywhere / empty lines between (and in front of) the rows of every sheet
NoGaps == [nodes |-> <<>>, links |-> <<>>, eqpt |-> <<>>, roadms |-> <<>>, services |-> <<>>]
Gappy  == [nodes |-> <<0, 1, 0, 2>>, links |-> <<0, 2, 1, 1>>, eqpt |-> <<1, 1, 2>>, roadms |-> <<1>>, services |-> <<0, 1, 2>>]
Mk(sh, f, combo, svc) ==
  LET nodes == [i \in 1..Len(SiteSeq(sh)) |-> [city |-> SiteSeq(sh)[i], type |-> f[SiteSeq(sh)[i]]]]
      rows0 == EqptOf(sh, combo[2])
      rows == SelectSeq(rows0, LAMBDA r : f[r.a] # "FUSED")        \* vocabulary: no Eqpt row on a FUSED site
      w0 == [nodes |-> nodes, links |-> LinksOf(sh, combo[1]), eqpt |-> rows, roadms |-> <<>>, services |-> svc,
             blanks |-> IF combo[1] = 1 THEN Gappy ELSE NoGaps]
      r1 == IF combo[3] /\ rows # <<>> /\ EffType(w0, rows[1].a) = "ROADM"
            THEN <<[a |-> rows[1].a, z |-> rows[1].z, target |-> Num(-195, 1)]>> ELSE <<>>
  IN [w0 EXCEPT !.roadms = r1]
ValidWorkbooks == UNION {{Mk(Shapes[s], f, combo, NoSvc) : f \in Assignments(Shapes[s]), combo \in Combos} : s \in 1..Len(Shapes)}

\* one mutation per violation kind
Bases == {Mk(Shapes[2], [a |-> "ROADM", b |-> "ILA", c |-> "ROADM"], <<0, 1, FALSE>>, NoSvc),
          Mk(Shapes[4], [a |-> "ROADM", b |-> "ROADM", c |-> "FUSED"], <<2, 1, FALSE>>, NoSvc),
          Mk(Shapes[6], [a |-> "ROADM", b |-> "ILA", c |-> "other", d |-> "ROADM"], <<1, 1, FALSE>>, NoSvc)}
IlaOf(w) == CHOOSE c \in Cities(w) : DeclType(w, c) = "ILA" /\ Degree(w, c) = 2
Mutations(w) ==
  LET l1 == w.links[1]
      e1 == w.eqpt[1]
      ila == IF \E c \in Cities(w) : DeclType(w, c) = "ILA" /\ Degree(w, c) = 2 THEN IlaOf(w) ELSE "b"
      io == Others(w, ila)
  IN {[w EXCEPT !.nodes = Append(w.nodes, [city |-> "a", type |-> "ROADM"])],
      [w EXCEPT !.links = Append(w.links, [l1 EXCEPT !.z = "x"])],
      [w EXCEPT !.links = Append(w.links, l1)],
      [w EXCEPT !.links = Append(w.links, [l1 EXCEPT !.a = l1.z, !.z = l1.a])],
      \* the same pair of sites joined twice is a duplicate whatever the other cells of the second row say
      [w EXCEPT !.links = Append(w.links, [l1 EXCEPT !.east.cable = "c9"])],
      [w EXCEPT !.links = Append(w.links, [l1 EXCEPT !.a = l1.z, !.z = l1.a, !.east.cable = "c9", !.west.cable = "w9"])],
      [w EXCEPT !.links = Append(w.links, [l1 EXCEPT !.east.dist = Num(33, 0), !.east.cable = "", !.west = BlankLV])],
      [w EXCEPT !.links = <<[l1 EXCEPT !.a = l1.z, !.z = l1.a, !.east.fiber = "NZDF", !.east.cable = "first"]>> \o w.links],
      [w EXCEPT !.nodes = Append(w.nodes, [city |-> "e", type |-> "ROADM"])],
      [w EXCEPT !.eqpt = Append(w.eqpt, Row("x", "a", AmpA, AmpN))],
      [w EXCEPT !.eqpt = Append(w.eqpt, Row("a", "x", AmpA, AmpN))],
      \* a row whose Node A and Node Z are the same site names no link either
      [w EXCEPT !.eqpt = Append(w.eqpt, Row(w.nodes[1].city, w.nodes[1].city, AmpA, AmpC))],
      [w EXCEPT !.eqpt = Append(w.eqpt, Row(w.nodes[1].city, w.nodes[Len(w.nodes)].city, AmpA, AmpN)),
                !.links = SelectSeq(w.links, LAMBDA l : ~Joins(l, w.nodes[1].city, w.nodes[Len(w.nodes)].city))],
      [w EXCEPT !.eqpt = Append(w.eqpt, e1)]}
     \cup (IF \E c \in Cities(w) : DeclType(w, c) = "ILA" /\ Degree(w, c) = 2
           THEN {[w EXCEPT !.eqpt = <<Row(ila, io[1], AmpA, AmpN), Row(ila, io[2], AmpC, AmpN)>>]} ELSE {})
InvalidWorkbooks == UNION {Mutations(w) : w \in Bases}

\* Service sheets
Svc(id, s, d, md, sp, pw, nc, dj, pa, lo, bw) ==
  [id |-> id, src |-> s, dst |-> d, trx |-> "Voyager", mode |-> md, spacing |-> sp, power |-> pw, nch |-> nc,
   disjoint |-> dj, path |-> pa, loose |-> lo, bw |-> bw]
ServiceSheets(mid) ==
  {<<Svc("0", "a", "c", "mode 1", Num(5, -1), B, B, <<>>, <<>>, "", Num(1, -2))>>,
   <<Svc("r1", "a", "c", "", Num(75, 0), Num(3, 0), Num(8, -1), <<>>, <<mid>>, "no", Num(2, -2)),
     Svc("r2", "c", "a", "mode 2", Num(375, 1), Num(-15, 1), B, <<"r1">>, <<mid>>, "yes", B)>>,
   <<Svc("1", "a", "c", "mode 1", Num(5, -1), Num(125, 2), Num(76, 0), <<"2", "3">>, <<>>, "", Num(4, -2)),
     Svc("2", "c", "a", "", Num(625, 1), B, B, <<"1">>, <<>>, "Yes", Num(1, -2)),
     Svc("3", "a", mid, "mode 1", Num(5, -1), Num(0, 0), B, <<"1">>, <<>>, "no", Num(1, -2))>>,
   \* the same intermediate site b (an amplifier site in the ring base) crossed in both directions by rows of one sheet
   <<Svc("f", "a", "c", "mode 1", Num(5, -1), B, B, <<>>, <<"b", "c">>, "no", Num(1, -2)),
     Svc("g", "c", "a", "mode 1", Num(5, -1), B, B, <<"f">>, <<"b", "a">>, "no", Num(1, -2)),
     Svc("h", "a", "c", "", Num(75, 0), B, B, <<>>, <<"b", "c">>, "", Num(1, -2))>>,
   \* ids are names: a numeric cell, however long (date-based ids), is the row's id digit for digit
   <<Svc("20240901", "a", "c", "mode 1", Num(5, -1), B, B, <<>>, <<>>, "", Num(1, -2)),
     Svc("20240902", "c", "a", "mode 1", Num(5, -1), B, B, <<"20240901">>, <<>>, "", Num(1, -2)),
     Svc("1234567890", "a", mid, "", Num(75, 0), B, B, <<"20240901", "20240902">>, <<>>, "no", Num(2, -2))>>}
ServiceWorkbooks0 ==
  {Mk(Shapes[s], f, combo, svc) : s \in {2, 4}, f \in {[a |-> "ROADM", b |-> "ROADM", c |-> "ROADM"]},
                                  combo \in {<<0, 0, FALSE>>, <<1, 1, FALSE>>}, svc \in ServiceSheets("b")}
  \cup {Mk(Shapes[6], [a |-> "ROADM", b |-> "ILA", c |-> "ROADM", d |-> "ROADM"], <<0, 0, FALSE>>, svc) : svc \in ServiceSheets("d")}

\* inconsistent rows that no documented rule names: FUSED site of degree 1 / 3, Eqpt row on a FUSED site
RawMk(sh, f, rows, v) == [nodes |-> [i \in 1..Len(SiteSeq(sh)) |-> [city |-> SiteSeq(sh)[i], type |-> f[SiteSeq(sh)[i]]]],
                          links |-> LinksOf(sh, v), eqpt |-> rows, roadms |-> <<>>, services |-> <<>>, blanks |-> NoGaps]
InconsistentWorkbooks ==
  {RawMk(Shapes[1], [a |-> "ROADM", b |-> "FUSED"], <<>>, 0),
   RawMk(Shapes[3], [a |-> "FUSED", b |-> "ILA", c |-> "ROADM", d |-> "ROADM"], <<>>, 2),
   RawMk(Shapes[5], [a |-> "FUSED", b |-> "ROADM", c |-> "ROADM", d |-> "ROADM"], <<>>, 0),
   RawMk(Shapes[7], [a |-> "ROADM", b |-> "ROADM", c |-> "FUSED", d |-> "ROADM"], <<>>, 1),
   RawMk(Shapes[2], [a |-> "ROADM", b |-> "FUSED", c |-> "ROADM"], <<Row("b", "c", AmpA, AmpN)>>, 0),
   \* the FUSED site's own line says what the Nodes sheet says (no amplifier: 'fused' on both sides), or nothing at all
   RawMk(Shapes[8], [a |-> "ROADM", b |-> "FUSED", c |-> "ROADM"], <<Row("a", "b", AmpC, AmpN), Row("b", "a", AmpF, AmpF)>>, 1),
   RawMk(Shapes[4], [a |-> "ROADM", b |-> "ROADM", c |-> "FUSED"], <<Row("c", "a", AmpN, AmpN)>>, 2),
   RawMk(Shapes[6], [a |-> "ROADM", b |-> "FUSED", c |-> "FUSED", d |-> "ROADM"], <<Row("b", "a", AmpC, AmpA), Row("a", "b", AmpA, AmpN)>>, 2)}
\* every Service sheet in three layouts: contiguous rows, empty lines between blocks of rows, empty first line
ServiceWorkbooks == {[w EXCEPT !.blanks.services = g] : w \in ServiceWorkbooks0, g \in {<<>>, <<0, 1, 2>>, <<2, 0, 1>>}}
\* The Type cell takes exactly "ROADM", "ILA" or "FUSED"; any other string - other spellings of these words included -
\* counts as not filled (an in-line amplifier site unless the degree says ROADM).  Every assignment of such spellings
\* on the 3-site line and on the triangle, with Eqpt rows on one site, on all neighbours of a site, on two sites.
Spellings == {"ROADM", "ila", "Ila", "Roadm", "fused"}
SpellingWorkbooks == UNION {{Mk(Shapes[s], f, combo, NoSvc) : f \in [SitesOf(Shapes[s]) -> Spellings],
                                                             combo \in {<<0, 2, FALSE>>, <<1, 4, FALSE>>, <<2, 1, TRUE>>}} : s \in {2, 4}}
Workbooks == SpellingWorkbooks \cup ValidWorkbooks \cup InvalidWorkbooks \cup ServiceWorkbooks \cup InconsistentWorkbooks

-----------------------------------------------------------------------------
Init == wb \in Workbooks /\ result = <<>> /\ topo = <<>> /\ pc = "sheets"
Convert == /\ pc = "sheets"
           /\ result' = Expected(wb)
           /\ topo' = IF ErrorKinds(wb) = {} /\ ~Inconsistent(wb) THEN Model(wb) ELSE <<>>
           /\ pc' = "done"
           /\ UNCHANGED wb
Next == Convert

\* the vocabulary: FUSED sites have degree 2 and no Eqpt row, link ends differ
Vocabulary == (ErrorKinds(wb) = {} /\ wb \notin InconsistentWorkbooks) => \A c \in Cities(wb) : DeclType(wb, c) = "FUSED" => (Degree(wb, c) \in {0, 2} /\ RowsFrom(wb, c) = {})
\* the documented-name topology satisfies every clause of the property (clauses are satisfiable, none vacuous)
Ok == pc = "done" /\ result.status = "ok"
ModelUniqueNames    == Ok => UniqueNames(topo)
ModelEndpointsExist == Ok => EndpointsExist(topo)
ModelSiteInventory  == Ok => SiteInventory(wb, topo, Index(topo))
ModelFibres         == Ok => FibrePerDirection(wb, topo, Index(topo))
ModelContinuity     == Ok => Continuity(wb, topo, Index(topo))
ModelCrossed        == Ok => CrossedThroughOwnElement(wb, topo, Index(topo))
ModelAmpFaces       == Ok => AmpFacesNeighbour(wb, topo, Index(topo))
ModelBlankAmps      == Ok => UndescribedAmpsAreBlank(wb, topo, Index(topo))
ModelPerDegree      == Ok => PerDegreeTargets(wb, topo, Index(topo))
\* the request list the documentation describes for the Service sheet satisfies the service clauses
ModelRequests(w) ==
  [reqs |-> [k \in 1..Len(w.services) |->
               LET r == w.services[k] IN
               [id |-> r.id, source |-> "trx " \o r.src, destination |-> "trx " \o r.dst, bidir |-> FALSE, trx |-> r.trx,
                mode |-> IF r.mode = "" THEN "~null" ELSE r.mode, spacing |-> Times1e9(r.spacing),
                bandwidth |-> IF r.bw.t = "absent" THEN Num(0, 0) ELSE Times1e9(r.bw), nch |-> Dflt(r.nch, Null),
                power_udbm |-> IF r.power.t = "absent" THEN -9999 ELSE r.power.m * (10 ^ (6 - r.power.s)),
                include |-> [j \in 1..Len(r.path) |->
                               IF EffType(w, r.path[j]) = "ROADM" THEN "roadm " \o r.path[j]
                               ELSE LET os == Others(w, r.path[j])      \* amplifier site: the element of this direction
                                    IN LineName(w, r.path[j], IF r.path[j + 1] = os[2] THEN "west" ELSE "east", os[1])],
                hops |-> [j \in 1..Len(r.path) |-> IF r.loose \in {"", "yes", "Yes", "YES"} THEN "LOOSE" ELSE "STRICT"]]],
   sync |-> LET ws == SelectSeq(w.services, LAMBDA r : r.disjoint # <<>>) IN
            [k \in 1..Len(ws) |-> [id |-> ws[k].id, ids |-> <<ws[k].id>> \o ws[k].disjoint]]]
ModelServices       == (Ok /\ wb.services # <<>>) => ServiceFailing(wb, topo, ModelRequests(wb), FALSE, 0) = {}
\* a rejected workbook names at least one violated rule, and the mutations produce exactly one
ErrorsAreExplained  == pc = "done" => (result.status = "error") = (ErrorKinds(wb) # {})
MutationsAreSingle  == wb \in InvalidWorkbooks => Cardinality(ErrorKinds(wb)) = 1

InconsistentAreSo   == (wb \in InconsistentWorkbooks) = Inconsistent(wb)
Emit == pc # "sheets" \/ PrintT("@@" \o ToJson([wb |-> wb, kinds |-> ErrorKinds(wb), undecided |-> Undecided(wb),
                                                  inconsistent |-> Inconsistent(wb)]))
==============================================================================
