----------------------------- MODULE DesignPowerRule -----------------------------
(* C09 - designed gains close the power budget and follow the documented power rule: the RULE and the CLAUSES. *)
(* (pure operators; DesignPower.tla is the state machine, Trace_DesignPower.tla judges recorded designs)       *)
(*                                                                                                            *)
(* One optical multiplex section (OMS): an ingress ROADM / transceiver whose reference channel leaves at      *)
(* pref + t0, then amplifiers a_1 .. a_n, amplifier a_k being preceded by a passive span of loss L_k          *)
(* (fibre + fused + connectors + EOL, raised to the padding; 0 for a booster) and followed by a span, or by    *)
(* the egress ROADM.  Auto-design walks the OMS once, one amplifier per step (gnpy: set_egress_amplifier ->    *)
(* set_one_amplifier); the step has the grain of the code: targets -> saturation reduction -> output VOA.      *)
(*                                                                                                            *)
(* All quantities are integers in micro-dB.  `dp` is the power offset of the reference channel at the          *)
(* amplifier output BEFORE its output VOA (gnpy: Edfa._delta_p), `voa` the output VOA, so the channel enters   *)
(* the next span at pref + dp - voa (the "net offset").  PrefTot is the total design power of the reference    *)
(* comb at offset 0 (pref + 10 log10(nch)).                                                                    *)
(*                                                                                                            *)
(* The module states the PROPERTY.  Where the property leaves a choice (rounding ties of the rule, the two     *)
(* admissible reductions for an auto-selected model, the size of the automatic output VOA) the operators       *)
(* return SETS and the step of DesignPower.tla is nondeterministic.                                            *)
EXTENDS GnpyBase

ROADM == 0          \* what follows the amplifier: the egress ROADM,
SPAN  == 1          \* a passive span,
AMP   == 2          \* directly another amplifier  (outside the judged domain: the rule has no span to look at),
ENDPT == 3          \* a transceiver / anything else (idem)

POWER == 1          \* design modes (Span.power_mode)
GAIN  == 0

Max3(a, b, c) == MaxI(a, MaxI(b, c))

-----------------------------------------------------------------------------
(* The documented rule (docs/json.rst, delta_power_range_db / power_slope / span_loss_ref):                   *)
(*   offset = slope x (next span loss - reference span loss), rounded to the step, clamped to [lo, hi];        *)
(*   0 in front of a ROADM.                                                                                    *)
(* A step of 0 means the finest resolution, 0.01 dB.  RoundSet returns BOTH neighbours when the exact value    *)
(* lies within TieZone of the midpoint between two multiples of the step (the code rounds a binary float).     *)
(* Arithmetic: the loss difference is taken in 1e-4 dB so that slope(milli) x difference stays below 2^31.     *)
TieZone == 1000                                   \* micro-dB around a midpoint where either neighbour is right

EffStep(step) == IF step = 0 THEN 10000 ELSE step

RoundSet(slopeMilli, diff, step) ==
    LET s7 == EffStep(step) * 10                   \* step in 1e-7 dB
        y  == slopeMilli * (diff \div 100)         \* slope x difference in 1e-7 dB
        q  == y \div s7                            \* floor
    IN {k * EffStep(step) : k \in {c \in {q - 1, q, q + 1, q + 2} : 2 * AbsI(c * s7 - y) <= s7 + 2 * TieZone * 10 + 2000}}
       \* + 2000 (1e-7 dB = 2e-4 dB): the truncation of diff to 1e-4 dB times the largest slope

Clamp(v, lo, hi) == MaxI(lo, MinI(hi, v))

RuleSet(cfg, nxt, lossNext) ==
    IF nxt = ROADM THEN {0}
    ELSE {Clamp(v, cfg.lo, cfg.hi) : v \in RoundSet(cfg.slope, lossNext - cfg.ref, cfg.step)}

-----------------------------------------------------------------------------
(* What the operator fixed on amplifier a.                                                                    *)
VoaU(a)           == IF a.uVoa = NONE THEN 0 ELSE a.uVoa
GainKept(cfg, a)  == cfg.mode = GAIN /\ a.uGain # NONE              \* gain mode: an operator gain is used as given
OffsetKept(cfg, a) == a.uDp # NONE /\ ~GainKept(cfg, a)             \* an operator offset is used as given
RuleApplies(cfg, a) == a.uDp = NONE /\ ~GainKept(cfg, a)            \* nothing fixed: the documented rule decides
InDomain(a)       == a.nxt \in {ROADM, SPAN}

(* gnpy compute_gain_power_and_tilt_target: unreduced gain / offset targets [g0, dp0]                          *)
Targets(cfg, a, prevNet) ==
    IF GainKept(cfg, a)
      THEN {[g0 |-> a.uGain, dp0 |-> prevNet - a.L - a.inVoa + a.uGain]}
    ELSE IF OffsetKept(cfg, a)
      THEN {[g0 |-> a.L + a.inVoa + a.uDp - prevNet, dp0 |-> a.uDp]}
    ELSE {[g0 |-> a.L + a.inVoa + r + VoaU(a) - prevNet, dp0 |-> r + VoaU(a)] : r \in RuleSet(cfg, a.nxt, a.Ln)}

(* gnpy set_one_amplifier: reduction "only as needed" so that the total design power stays within p_max.       *)
(* For an auto-selected model the code also reduces down to the model's extended maximum gain; the property     *)
(* text does not mention that case, so both values are admitted there (a.flatx = gain_flatmax + extension).     *)
RhoSet(cfg, a, t) ==
    {MaxI(0, cfg.prefTot + t.dp0 - a.pmax)}
      \cup (IF a.uVar THEN {} ELSE {Max3(0, cfg.prefTot + t.dp0 - a.pmax, t.g0 - a.flatx)})

(* gnpy set_amplifier_voa: with no operator VOA, power mode and an amplifier that supports it, some of the      *)
(* remaining head-room is spent on the output VOA: the same amount is added to gain, dp and voa, so the net      *)
(* offset and every clause below are unaffected ("invisible to the law").                                      *)
AutoVoaSet(cfg, a, gR, dpR, rho, grid) ==
    IF a.uVoa = NONE /\ a.autoVoa /\ cfg.mode = POWER /\ rho = 0
      THEN {v \in grid \cup {0} : cfg.prefTot + dpR + v <= a.pmax /\ gR + v <= a.flatx}
      ELSE {0}

-----------------------------------------------------------------------------
(* The clauses of C09 for ONE amplifier: a = what the design faced (span losses, operator settings, limits of   *)
(* the amplifier model in place), o = [gain, dp, voa] what it produced, prev = net offset of the channel when    *)
(* it enters the span in front of the amplifier.  tol = 0 in the model; the trace specification passes the       *)
(* projection tolerance.                                                                                        *)
NetOf(o) == o.dp - o.voa

\* gain = loss since the previous amplifier + change of target
ClosureAt(a, o, prev, tol) == Within(o.gain, a.L + a.inVoa + o.dp - prev, tol)

\* the amplifier sits exactly on one of its limits: total design power = p_max, or (auto-selected model only)
\* gain = extended maximum gain
AtLimitAt(cfg, a, o, tol) == \/ Within(cfg.prefTot + o.dp, a.pmax, tol)
                             \/ (~a.uVar /\ Within(o.gain, a.flatx, tol))

\* where the operator set no offset, the net offset is the documented rule - or lower, the amplifier then sitting
\* exactly on its limit ...
PowerRuleAt(cfg, a, o, tol) == (RuleApplies(cfg, a) /\ a.nxt = SPAN) =>
    \/ \E r \in RuleSet(cfg, a.nxt, a.Ln) : Within(NetOf(o), r, tol)
    \/ (AtLimitAt(cfg, a, o, tol) /\ \E r \in RuleSet(cfg, a.nxt, a.Ln) : NetOf(o) < r)
\* ... and 0 before a ROADM (same proviso)
ZeroBeforeRoadmAt(cfg, a, o, tol) == (RuleApplies(cfg, a) /\ a.nxt = ROADM) =>
    (Within(NetOf(o), 0, tol) \/ (AtLimitAt(cfg, a, o, tol) /\ NetOf(o) < 0))
\* reduced only as needed: whatever is below the rule / below what the operator set sits exactly on a limit
ReductionOnlyAsNeededAt(cfg, a, o, tol) ==
    /\ (RuleApplies(cfg, a) /\ InDomain(a) /\ \A r \in RuleSet(cfg, a.nxt, a.Ln) : NetOf(o) < r - tol)
           => AtLimitAt(cfg, a, o, tol)
    /\ (OffsetKept(cfg, a) /\ NetOf(o) + VoaU(a) < a.uDp - tol) => AtLimitAt(cfg, a, o, tol)
    /\ (GainKept(cfg, a) /\ o.gain < a.uGain - tol) => AtLimitAt(cfg, a, o, tol)

\* operator-set offsets and (gain mode) gains are kept unless they would saturate (then: lower, never higher)
OperatorOffsetKeptAt(cfg, a, o, tol) == OffsetKept(cfg, a) => NetOf(o) + VoaU(a) <= a.uDp + tol
OperatorGainKeptAt(cfg, a, o, tol)   == GainKept(cfg, a)   => o.gain <= a.uGain + tol
\* an operator VOA is never changed; an automatic one is never negative
VoaKeptAt(a, o, tol) == IF a.uVoa # NONE THEN Within(o.voa, a.uVoa, tol) ELSE o.voa >= 0 - tol

\* total design power never exceeds the amplifier's maximum output
NeverAboveMaxOutputAt(cfg, a, o, tol) == cfg.prefTot + o.dp <= a.pmax + tol

ClauseNames == {"Closure", "PowerRule", "ZeroBeforeRoadm", "ReductionOnlyAsNeeded", "OperatorOffsetKept",
                "OperatorGainKept", "VoaKept", "NeverAboveMaxOutput"}
FailedAt(cfg, a, o, prev, tol) ==
    {c \in ClauseNames :
        \/ c = "Closure" /\ ~ClosureAt(a, o, prev, tol)
        \/ c = "PowerRule" /\ ~PowerRuleAt(cfg, a, o, tol)
        \/ c = "ZeroBeforeRoadm" /\ ~ZeroBeforeRoadmAt(cfg, a, o, tol)
        \/ c = "ReductionOnlyAsNeeded" /\ ~ReductionOnlyAsNeededAt(cfg, a, o, tol)
        \/ c = "OperatorOffsetKept" /\ ~OperatorOffsetKeptAt(cfg, a, o, tol)
        \/ c = "OperatorGainKept" /\ ~OperatorGainKeptAt(cfg, a, o, tol)
        \/ c = "VoaKept" /\ ~VoaKeptAt(a, o, tol)
        \/ c = "NeverAboveMaxOutput" /\ ~NeverAboveMaxOutputAt(cfg, a, o, tol)}
==============================================================================
