--------------------------- MODULE Trace_AmpSelection ---------------------------
(* B3 (and the second verdict of B2) for C10: selections made by the real auto-design, recorded call by call, are  *)
(* judged against the clauses of AmpSelectionRule.  One trace = one selection (ndjson line), integers only:          *)
(*   kind 0  single-band selection (select_edfa for an Edfa element):           every clause                        *)
(*   kind 1  selection for one band of a multiband amplifier:  CoversBand, RamanOnlyIfAllowed, MemberOfAdmittedGroup *)
(*           (NF-minimality per band is not decided by the property once the group must fit all bands)              *)
(*   kind 2  a completed multiband amplifier:       OneGroup, NamedGroupAdmitted, EveryMemberCoversItsBand,         *)
(*                                                    GroupCapableIfPossible, NotDominatedByCapableGroup               *)
(*   c       context  [g, p, ext, hasOwn, hasRdm, bfmin, bfmax, prevFiber, lossCoef, ramanLimit]   (0/1 flags)       *)
(*   lib     the whole single-band library, each model with its limits, band (MHz), list memberships as the          *)
(*           harness reads them from the element / ROADM / library, and nf = the implementation's own edfa_nf at g    *)
(*           (nfok = 0 when that model has no computable NF: it is then not used as a comparison)                    *)
(*   chosen  id of the selected model (index in lib), refused = 1 when the design raised "no amplifier"              *)
(*   jp      0 when two ROADM lists compete for the same amplifier (precedence between them is not in the property)   *)
(*   groups / hasList / ptype (operator's multiband type or NONE) for kinds 1, 2; members / named (final type) for 2  *)
EXTENDS AmpSelectionRule, Json, IOUtils, TLC

T == ndJsonDeserialize(IOEnv.TRACE_FILE)

Margin == 10          \* micro-dB: a target this close to a capability boundary is left undecided
TolNF  == 10          \* micro-dB

VARIABLES tid, i, viol
vars == <<tid, i, viol>>

B(x) == x = 1
Model(r) == [id |-> r.id, gmin |-> r.gmin, flat |-> r.flat, pmax |-> r.pmax, nf |-> r.nf, nfok |-> B(r.nfok),
             raman |-> B(r.raman), fmin |-> r.fmin, fmax |-> r.fmax, own |-> B(r.own), rdm |-> B(r.rdm), alw |-> B(r.alw)]
Lib(t) == {Model(t.lib[k]) : k \in 1..Len(t.lib)}
Ctx(t) == [g |-> t.c.g, p |-> t.c.p, ext |-> t.c.ext, hasOwn |-> B(t.c.hasOwn), hasRdm |-> B(t.c.hasRdm),
           bfmin |-> t.c.bfmin, bfmax |-> t.c.bfmax, prevFiber |-> B(t.c.prevFiber), lossCoef |-> t.c.lossCoef,
           ramanLimit |-> t.c.ramanLimit]

SelectionClauses(t) ==
    LET lib == Lib(t)
        c   == Ctx(t)
        cap == CapableSet(lib, c, Margin)
    IN IF t.refused = 1
         THEN (IF t.kind = 0 /\ cap # {} THEN {"NeverRefusesWhenCapable"} ELSE {})
       ELSE LET x == CHOOSE a \in lib : a.id = t.chosen
                failed == FailedAt(lib, c, x, Margin, TolNF)
            IN {n \in failed :
                   /\ (t.kind = 1 => n \in {"CoversBand", "RamanOnlyIfAllowed"})
                   /\ (n = "ChosenPermitted" => t.jp = 1)
                   /\ (n \in {"CapableIfPossible", "QuietestCapable"} => t.jp = 1)
                   /\ (n = "QuietestCapable" => (x.nfok /\ \A a \in cap : a.nfok))}

Groups(t) == {[idx |-> t.groups[k].idx, alw |-> B(t.groups[k].alw), listed |-> B(t.groups[k].listed),
               members |-> {t.groups[k].members[j] : j \in 1..Len(t.groups[k].members)}] : k \in 1..Len(t.groups)}

\* the per-band selections of a completed multiband amplifier (empty when not every band model was auto-selected)
SelCtx(c) == [g |-> c.g, p |-> c.p, ext |-> c.ext, hasOwn |-> B(c.hasOwn), hasRdm |-> B(c.hasRdm), bfmin |-> c.bfmin,
              bfmax |-> c.bfmax, prevFiber |-> B(c.prevFiber), lossCoef |-> c.lossCoef, ramanLimit |-> c.ramanLimit]
Sels(t) == {LET lib == {Model(t.sels[k].lib[j]) : j \in 1..Len(t.sels[k].lib)}
            IN [c |-> SelCtx(t.sels[k].c), lib |-> lib, x |-> CHOOSE a \in lib : a.id = t.sels[k].chosen] :
               k \in 1..Len(t.sels)}

GroupClauses(t) ==
    LET chosen == {t.members[k] : k \in 1..Len(t.members)}
    IN (IF OneGroupAt(Groups(t), B(t.hasList), t.ptype, chosen) THEN {} ELSE {"OneGroup"})
         \cup (IF Len(t.sels) = 0 \/ GroupCapableIfPossibleAt(Groups(t), B(t.hasList), t.ptype, Sels(t), Margin)
               THEN {} ELSE {"GroupCapableIfPossible"})
         \cup (IF Len(t.sels) = 0 \/ NotDominatedByCapableGroupAt(Groups(t), B(t.hasList), t.ptype, Sels(t), Margin, TolNF)
               THEN {} ELSE {"NotDominatedByCapableGroup"})
         \cup (IF NamedGroupAdmittedAt(Groups(t), B(t.hasList), t.ptype, t.named, chosen) THEN {} ELSE {"NamedGroupAdmitted"})
         \cup (IF EveryMemberCoversItsBandAt(chosen) THEN {} ELSE {"EveryMemberCoversItsBand"})

\* one band of a multiband amplifier: the model must belong to an admitted group (besides band and Raman clauses)
MemberClauses(t) ==
    IF t.refused = 1 \/ MemberOfAdmittedGroupAt(Groups(t), B(t.hasList), t.ptype, t.chosen) THEN {}
    ELSE {"MemberOfAdmittedGroup"}

Clauses(t) == IF t.kind = 2 THEN GroupClauses(t)
              ELSE IF t.kind = 1 THEN SelectionClauses(t) \cup MemberClauses(t) ELSE SelectionClauses(t)

\* how the case relates to the undecided region (reported, never a violation)
Open(t) == IF t.kind # 0 \/ t.refused = 1 THEN 0
           ELSE IF \E a \in Permitted(Lib(t), Ctx(t)) : OnlyBelowMinGain(a, Ctx(t), Margin) /\ a.nfok /\
                        \A b \in {y \in Lib(t) : y.id = t.chosen} : a.nf < b.nf THEN 1 ELSE 0

Init == tid \in 1..Len(T) /\ i = 0 /\ viol = {}
Next == /\ i = 0
        /\ i' = 1
        /\ tid' = tid
        /\ viol' = {<<1, n>> : n \in Clauses(T[tid])}

Done == i = 0 \/ PrintT("@@" \o ToJson([name |-> T[tid].name, n |-> i, viol |-> viol, open |-> Open(T[tid]),
                                         ncap |-> IF T[tid].kind = 2 THEN 0
                                                  ELSE Cardinality(CapableSet(Lib(T[tid]), Ctx(T[tid]), Margin))]))
==============================================================================
