-------------------------- MODULE MC_DesignLifecycle --------------------------
(* Bounded instance for C17.  Family "docs": every combination of given / missing settings (connector loss,      *)
(* user padding attenuator, per amplifier gain / delta_p / output VOA), short and long span, Raman or not,       *)
(* under every Span setting (EOL 0/1, padding 0/10, power / gain mode) with the default simulation parameters.   *)
(* Family "sims": the Raman documents under every simulation-parameter setting                                   *)
(*   raman flag x method x order x two resolution pairs x NLI method / computed channels (48 settings),          *)
(* which the harness also replays (B2) around the real designed_network().                                       *)
EXTENDS DesignLifecycle, Json

CONSTANT Family                       \* "docs" | "docsq" (quick tier: a sample of the documents) | "sims"

AmpSlots == {[gain |-> gv, dp |-> d, voa |-> v] : gv \in {NONE, 18}, d \in {NONE, 1}, v \in {NONE, 2}}
MCDocsAll == {[base |-> b, conOut |-> c, attIn |-> a, aged |-> FALSE, raman |-> r, amps |-> <<a1, a2>>] :
                b \in {4, 16}, c \in {NONE, 0, 1}, a \in {0, 3}, r \in BOOLEAN, a1 \in AmpSlots, a2 \in AmpSlots}
MCDocsRaman == {d \in MCDocsAll : d.raman /\ d.base = 16 /\ d.conOut = 1 /\ d.attIn = 0
                                  /\ d.amps[1] \in {[gain |-> NONE, dp |-> NONE, voa |-> NONE], [gain |-> 18, dp |-> 1, voa |-> 2]}
                                  /\ d.amps[2].dp = NONE /\ d.amps[2].voa = NONE}
\* quick-tier sample: the second amplifier either fully designed by the user or left entirely to the design
MCDocsQuick == {d \in MCDocsAll : d.conOut # 0 /\ (d.amps[2].gain = NONE) = (d.amps[2].dp = NONE)
                                   /\ (d.amps[2].gain = NONE) = (d.amps[2].voa = NONE)}
MCDocs == IF Family = "docs" THEN MCDocsAll ELSE IF Family = "docsq" THEN MCDocsQuick ELSE MCDocsRaman

MCCfgsAll == {[eol |-> e, padding |-> p, powerMode |-> m] : e \in {0, 1}, p \in {0, 10}, m \in BOOLEAN}
MCCfgs == IF Family \in {"docs", "docsq"} THEN MCCfgsAll ELSE {[eol |-> 0, padding |-> 10, powerMode |-> m] : m \in BOOLEAN}

Default == [flag |-> FALSE, method |-> "perturbative", order |-> 2, resultRes |-> 10000, solverRes |-> 10000,
            nli |-> "gn_model_analytic", cc |-> <<NONE>>, ncc |-> NONE]
Nli == {[nli |-> "gn_model_analytic", cc |-> <<NONE>>, ncc |-> NONE],
        [nli |-> "ggn_spectrally_separated", cc |-> <<1, 18, 37, 56, 75>>, ncc |-> NONE],
        [nli |-> "gn_model_analytic", cc |-> <<NONE>>, ncc |-> 5]}
MCSimsAll == {[flag |-> f, method |-> m, order |-> o, resultRes |-> r[1], solverRes |-> r[2],
               nli |-> n.nli, cc |-> n.cc, ncc |-> n.ncc] :
                 f \in BOOLEAN, m \in {"perturbative", "numerical"}, o \in {1, 2},
                 r \in {<<10000, 10000>>, <<20000, 2000>>}, n \in Nli}
MCSims == IF Family \in {"docs", "docsq"} THEN {Default} ELSE MCSimsAll

\* B2: the simulation-parameter settings, one line each (initial states of the "sims" family)
EmitDoc == CHOOSE d \in MCDocs : TRUE
Emit == ~(pc = "fibre" /\ round = 0 /\ doc0 = EmitDoc /\ cfg.powerMode)
        \/ PrintT("@@" \o ToJson(simParams))
==============================================================================
