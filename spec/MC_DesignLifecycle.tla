-------------------------- MODULE MC_DesignLifecycle --------------------------
(* Bounded instance for C17.  Family "docs": every combination of given / missing settings (connector loss,      *)
(* user padding attenuator, per amplifier gain / delta_p / output VOA), short and long span, Raman or not,       *)
(* under every Span setting (EOL 0/1, padding 0/10, power / gain mode) with the default simulation parameters.   *)
(* Family "sims": the Raman documents under every simulation-parameter setting                                   *)
(*   raman flag x method x order x two resolution pairs x NLI method / computed channels (48 settings),          *)
(* which the harness also replays (B2) around the real designed_network().                                       *)
(* The "replay" documents (part of the families "docs" / "docsq"): an 80 km line whose two amplifiers carry every   *)
(* pattern of given / missing gain, delta_p, output VOA and amplifier model, the ingress ROADM every pair of        *)
(* default / per-degree equalisation flavour, and ROADMs that restrict the models the design may select.  They are  *)
(* emitted (B2) and go through the real life cycle as  trx A - roadm A - amp 1 - fibre - amp 2 - roadm B - trx B    *)
(* (roadm A has a second degree towards a third site).                                                             *)
EXTENDS DesignLifecycle, Json

CONSTANT Family                       \* "docs" | "docsq" (quick tier: a sample of the documents) | "sims"

AmpSlots == {[gain |-> gv, dp |-> d, voa |-> v, known |-> FALSE] : gv \in {NONE, 18}, d \in {NONE, 1}, v \in {NONE, 2}}
\* power equalisation, no per-degree target, no restriction on the amplifier models (the library default)
DefaultRoadm == [def |-> "power", deg |-> NoTarget, other |-> NoTarget, restrict |-> FALSE]
MCDocsAll == {[base |-> b, conOut |-> c, attIn |-> a, aged |-> FALSE, raman |-> r, roadm |-> DefaultRoadm, amps |-> <<a1, a2>>] :
                b \in {4, 16}, c \in {NONE, 0, 1}, a \in {0, 3}, r \in BOOLEAN, a1 \in AmpSlots, a2 \in AmpSlots}
MCDocsRaman == {d \in MCDocsAll : d.raman /\ d.base = 16 /\ d.conOut = 1 /\ d.attIn = 0
                                  /\ d.amps[1] \in {[gain |-> NONE, dp |-> NONE, voa |-> NONE, known |-> FALSE],
                                                     [gain |-> 18, dp |-> 1, voa |-> 2, known |-> FALSE]}
                                  /\ d.amps[2].dp = NONE /\ d.amps[2].voa = NONE}
\* quick-tier sample: the second amplifier either fully designed by the user or left entirely to the design
MCDocsQuick == {d \in MCDocsAll : d.conOut # 0 /\ (d.amps[2].gain = NONE) = (d.amps[2].dp = NONE)
                                   /\ (d.amps[2].gain = NONE) = (d.amps[2].voa = NONE)}
\* ---- replay documents.  SlotOf(0..15): bit 3 gain given, bit 2 delta_p given, bit 1 output VOA given, bit 0 model given
SlotOf(i) == [gain |-> IF (i \div 8) % 2 = 1 THEN 18 ELSE NONE, dp |-> IF (i \div 4) % 2 = 1 THEN 1 ELSE NONE,
              voa |-> IF (i \div 2) % 2 = 1 THEN 2 ELSE NONE, known |-> i % 2 = 1]
Line(r, a1, a2) == [base |-> 16, conOut |-> NONE, attIn |-> 0, aged |-> FALSE, raman |-> FALSE, roadm |-> r, amps |-> <<a1, a2>>]
Equalised == {[DefaultRoadm EXCEPT !.def = f, !.deg = g] : f \in Flavours, g \in Flavours \cup {NoTarget}}
Restricted == [DefaultRoadm EXCEPT !.restrict = TRUE]
\* quick: every slot pattern once at either amplifier (the other one 5 resp. 6 patterns further); every flavour pair with
\* automatic amplifiers; every pattern without a model under the restriction
MCReplayQuick == {Line(DefaultRoadm, SlotOf(i), SlotOf((i + 5) % 16)) : i \in 0..15}
                 \cup {Line(r, SlotOf(0), SlotOf(0)) : r \in Equalised}
                 \cup {Line(Restricted, SlotOf(2 * i), SlotOf((2 * i + 6) % 16)) : i \in 0..7}
\* thorough: every pair of patterns; flavour pairs also with a user delta_p on the booster; every pair without a model
\* under the restriction
MCReplayAll == {Line(DefaultRoadm, SlotOf(i), SlotOf(j)) : i \in 0..15, j \in 0..15}
               \cup {Line(r, SlotOf(i), SlotOf(0)) : r \in Equalised, i \in {0, 4, 5}}
               \cup {Line(Restricted, SlotOf(2 * i), SlotOf(2 * j)) : i \in 0..7, j \in 0..7}
MCReplay == IF Family = "docs" THEN MCReplayAll ELSE IF Family = "docsq" THEN MCReplayQuick ELSE {}
MCDocs == (IF Family = "docs" THEN MCDocsAll ELSE IF Family = "docsq" THEN MCDocsQuick ELSE MCDocsRaman) \cup MCReplay

MCCfgsAll == {[eol |-> e, padding |-> p, powerMode |-> m] : e \in {0, 1}, p \in {0, 10}, m \in BOOLEAN}
MCCfgs == IF Family \in {"docs", "docsq"} THEN MCCfgsAll ELSE {[eol |-> 0, padding |-> 10, powerMode |-> m] : m \in BOOLEAN}

Default == [flag |-> FALSE, method |-> "perturbative", order |-> 2, resultRes |-> 10000, solverRes |-> 10000,
            nli |-> "gn_model_analytic", cc |-> <<NONE>>, ncc |-> NONE]
Nli == {[nli |-> "gn_model_analytic", cc |-> <<NONE>>, ncc |-> NONE],
        [nli |-> "ggn_spectrally_separated", cc |-> <<1, 18, 37, 56, 75>>, ncc |-> NONE],
        [nli |-> "gn_model_analytic", cc |-> <<NONE>>, ncc |-> 5]}
MCSimsAll == {[flag |-> f, method |-> m, order |-> o, resultRes |-> r[1], solverRes |-> r[2],
               nli |-> n.nli, cc |-> n.cc, ncc |-> n.ncc] :
                 f \in BOOLEAN, m \in {"perturbative", "numerical"}, o \in {1, 2},
                 r \in {<<10000, 10000>>, <<20000, 2000>>}, n \in Nli}
MCSims == IF Family \in {"docs", "docsq"} THEN {Default} ELSE MCSimsAll

\* B2: the simulation-parameter settings, one line each (initial states of the "sims" family); the replay documents
\* under padding 10 / EOL 0 in both design modes (initial states of the "docs" / "docsq" families)
EmitDoc == CHOOSE d \in MCDocs : TRUE
Emit == IF Family = "sims"
        THEN ~(pc = "roadm" /\ round = 0 /\ doc0 = EmitDoc /\ cfg.powerMode)
             \/ PrintT("@@" \o ToJson(simParams))
        ELSE ~(pc = "roadm" /\ round = 0 /\ proc = "fresh" /\ doc0 \in MCReplay /\ cfg.eol = 0 /\ cfg.padding = 10)
             \/ PrintT("@@" \o ToJson([doc |-> doc0, cfg |-> cfg]))
==============================================================================
