-------------------------------- MODULE OmsMap --------------------------------
(* C15 - OMS partition of a designed network and the per-OMS spectrum map                                    *)
(* (gnpy.topology.spectrum_assignment: build_oms_list, create_oms_bitmap, Bitmap, align_grids, reversed_oms). *)
(*                                                                                                          *)
(* Three parts, all on the 6.25 GHz index axis (FlexGrid):                                                    *)
(*  A. Partition : the OMS list of a typed graph - maximal chains between ROADMs, reverse pairing.            *)
(*  B. Map       : index set = network extent, FREE exactly inside the band(s) common to the OMS's amplifiers.*)
(*  C. Alignment : a small state machine Build -> Occupy* -> Align over maps of different extents.            *)
EXTENDS FlexGrid, TLC

-----------------------------------------------------------------------------
(* B. bands are index intervals <<lo, hi>>, an amplifier is a set of bands, an OMS a set of amplifiers.       *)
Covers(amp, k)      == \E b \in amp : b[1] <= k /\ k <= b[2]
CommonAt(amps, k)   == \A a \in amps : Covers(a, k)            \* k lies in a band of every amplifier
Hull(allAmps)       == LET B == UNION allAmps IN <<SetMin({b[1] : b \in B}), SetMax({b[2] : b \in B})>>
\* pairwise interval intersection (find_common_range), as a set of intervals
Meet(A, B)          == {<<MaxI(a[1], b[1]), MinI(a[2], b[2])>> : a \in A, b \in B} \ {x \in {<<MaxI(a[1], b[1]), MinI(a[2], b[2])>> : a \in A, b \in B} : x[1] >= x[2]}
RECURSIVE MeetAll(_)
MeetAll(amps)       == IF Cardinality(amps) = 1 THEN CHOOSE a \in amps : TRUE
                       ELSE LET a == CHOOSE x \in amps : TRUE IN Meet(a, MeetAll(amps \ {a}))
\* the expected map of one OMS: value at every index of the network extent
ExpectedMap(amps, ext) == [k \in ext[1]..ext[2] |-> IF CommonAt(amps, k) THEN "F" ELSE "U"]
\* both formulations of "usable" agree when no two bands merely touch (single common index)
MeetAgreesWithPointwise(amps, ext) ==
    \A k \in ext[1]..ext[2] : CommonAt(amps, k) <=> Covers(MeetAll(amps), k)

-----------------------------------------------------------------------------
(* C. maps as the code stores them: an index sequence and a value sequence.                                   *)
IsMap(m)        == Len(m.idx) = Len(m.val) /\ Len(m.idx) > 0
AxisOk(m)       == /\ \A i \in 1..Len(m.idx) : m.idx[i] = m.idx[1] + i - 1          \* unique, contiguous, increasing
                   /\ m.nmin = m.idx[1] /\ m.nmax = m.idx[Len(m.idx)]
ValAt(m, k)     == m.val[k - m.idx[1] + 1]
MkMap(lo, hi, f) == [idx |-> [i \in 1..(hi - lo + 1) |-> lo + i - 1], val |-> [i \in 1..(hi - lo + 1) |-> f[lo + i - 1]],
                     nmin |-> lo, nmax |-> hi]
\* align_grids: every map is widened to the common extent; added indices are not assignable ("O")
Widen(m, lo, hi) == MkMap(lo, hi, [k \in lo..hi |-> IF k >= m.nmin /\ k <= m.nmax THEN ValAt(m, k) ELSE "O"])

CONSTANTS Ids,            \* map identifiers
          Extents,        \* set of <<lo, hi>> a map may start with
          MaxOcc          \* bound on the number of Occupy steps
VARIABLES maps, before, phase, nocc, post
vars == <<maps, before, phase, nocc, post>>

Init  == /\ maps \in [Ids -> {MkMap(e[1], e[2], [k \in e[1]..e[2] |-> "F"]) : e \in Extents}]
         /\ before = maps /\ phase = "built" /\ nocc = 0 /\ post = [o \in Ids |-> <<>>]
Occupy(o, a, b) == /\ phase = "built" /\ nocc < MaxOcc
                   /\ a >= maps[o].nmin /\ b <= maps[o].nmax /\ a <= b
                   /\ maps' = [maps EXCEPT ![o].val = [i \in 1..Len(@) |-> IF maps[o].idx[i] \in a..b THEN "O" ELSE @[i]]]
                   /\ before' = maps' /\ nocc' = nocc + 1 /\ UNCHANGED <<phase, post>>
\* an assignment made AFTER the alignment lands at its own index on the widened axis (Bitmap.geti)
OccupyAfter(o, a, b) == /\ phase = "aligned" /\ nocc < MaxOcc
                        /\ a >= maps[o].nmin /\ b <= maps[o].nmax /\ a <= b
                        /\ maps' = [maps EXCEPT ![o].val = [i \in 1..Len(@) |-> IF maps[o].idx[i] \in a..b THEN "O" ELSE @[i]]]
                        /\ post' = [post EXCEPT ![o] = Append(@, <<a, b>>)]
                        /\ nocc' = nocc + 1 /\ UNCHANGED <<phase, before>>
Align == /\ phase = "built"
         /\ LET lo == SetMin({maps[o].nmin : o \in Ids})
                hi == SetMax({maps[o].nmax : o \in Ids})
            IN maps' = [o \in Ids |-> Widen(maps[o], lo, hi)]
         /\ phase' = "aligned" /\ UNCHANGED <<before, nocc, post>>
Next == Align \/ \E o \in Ids : \E a, b \in SetMin({e[1] : e \in Extents})..SetMax({e[2] : e \in Extents}) :
                     Occupy(o, a, b) \/ OccupyAfter(o, a, b)

\* clauses of C15 about alignment
AxesOk            == \A o \in Ids : IsMap(maps[o]) /\ AxisOk(maps[o])
SameExtentAfter   == phase = "aligned" => \A o, p \in Ids : maps[o].nmin = maps[p].nmin /\ maps[o].nmax = maps[p].nmax
CoversAll         == phase = "aligned" => \A o, p \in Ids : maps[o].nmin <= before[p].nmin /\ maps[o].nmax >= before[p].nmax
PostSet(o)        == UNION {(post[o][j][1])..(post[o][j][2]) : j \in 1..Len(post[o])}
OccupancyKept     == phase = "aligned" => \A o \in Ids : \A k \in before[o].nmin..before[o].nmax :
                          ValAt(maps[o], k) = IF k \in PostSet(o) THEN "O" ELSE ValAt(before[o], k)
PostLandsAtItsIndex == phase = "aligned" => \A o \in Ids : \A k \in PostSet(o) : ValAt(maps[o], k) = "O"
AddedNotFree      == phase = "aligned" => \A o \in Ids : \A k \in maps[o].nmin..maps[o].nmax :
                          (k < before[o].nmin \/ k > before[o].nmax) => ValAt(maps[o], k) # "F"
==============================================================================
