---------------------------- MODULE MC_Feasibility ----------------------------
(* Bounded model for C13: every library of <= MaxModes modes over 2 baud rates x 2 bit rates x fits / does not *)
(* fit x margin (worst - threshold) in {-2, -1, 0 (inside the unjudged band), +1, +2} dB or an impairment       *)
(* outside the penalty table; every request (automatic / each fitting fixed mode, uni- and bidirectional);     *)
(* every margin the reverse direction may show.  A library is a non-decreasing sequence of mode codes          *)
(* (multisets: the rule does not depend on the order of the modes in the library).                             *)
(* For the libraries of <= WideModes modes two more dimensions are explored: the configuration of the add/drop *)
(* stages (profiles listed in any order, profile id 0 selected / nothing selected / no profile at all) and     *)
(* batches of two requests with the same ends and mode on equal or different routes, or differing only in      *)
(* their bidirectional flag; a user-defined spectrum whose carriers have different transmitter OSNR; a ROADM     *)
(* profile listing overlapping frequency ranges (what a stage contributes depends on the carrier).               *)
EXTENDS Feasibility, Json, TLC

CONSTANTS MaxModes, WideModes

PenInf == 9                                      \* margin code: an impairment outside the mode's penalty table
Margins == <<-2, -1, 0, 1, 2, PenInf>>
NCodes == 2 * 2 * 2 * 6

\* code = ((b * 2 + r) * 2 + f) * 6 + (k - 1):  b, r, f in {0, 1}, k index into Margins
Fields(c) == [b |-> c \div 24, r |-> (c \div 12) % 2, f |-> (c \div 6) % 2, d |-> Margins[(c % 6) + 1]]
ModeOf(c) == LET x == Fields(c)
             IN [br |-> IF x.b = 0 THEN 63 ELSE 66,    \* two baud rates, close to each other: only their order matters
                 rate |-> 100 * (x.r + 1), fits |-> x.f = 1,
                 worst |-> IF x.d = PenInf THEN -Inf ELSE 20000000 + x.d * 1000000,
                 thr |-> 20000000, osnr |-> 18000000,
                 tx |-> 100 + 10 * x.r + x.b, code |-> c]

LibsOver(codes) == {[i \in DOMAIN s |-> ModeOf(s[i])] :
                      s \in {t \in UNION {[1..n -> codes] : n \in 1..MaxModes} :
                               \A i \in 1..(Len(t) - 1) : t[i] <= t[i + 1]}}
MCLibs == LibsOver(0..(NCodes - 1))
\* a sub-model for the reachability witnesses: fitting modes with margins -1, 0, +1 only
WitnessCodes == {c \in 0..(NCodes - 1) : Fields(c).f = 1 /\ Fields(c).d \in {-1, 0, 1}}
MCWitnessLibs == LibsOver(WitnessCodes)
MCWitnessLibs1 == {l \in MCWitnessLibs : Len(l) = 1}       \* the libraries carrying the stage / batch dimensions
\* add/drop stage configurations: P lists add profile 3 BEFORE add profile 0 and drop profile 2 before drop profile 1
\* every profile of P covers the band with one range; Q lists OVERLAPPING ranges: add profile 3 a narrow poor range
\* (carrier 1 only) BEFORE the range covering both carriers, drop profile 2 the covering range before a narrow one
\* (shadowed: it never applies), and a range without OSNR listed first (it does not apply either)
One(inv) == <<[lo |-> 1, hi |-> 2, inv |-> inv]>>
P == <<[id |-> 3, kind |-> "add", ranges |-> One(100)], [id |-> 0, kind |-> "add", ranges |-> One(400)],
       [id |-> 2, kind |-> "drop", ranges |-> One(150)], [id |-> 1, kind |-> "drop", ranges |-> One(700)]>>
Q == <<[id |-> 3, kind |-> "add", ranges |-> <<[lo |-> 1, hi |-> 1, inv |-> 900], [lo |-> 1, hi |-> 2, inv |-> 100]>>],
       [id |-> 2, kind |-> "drop", ranges |-> <<[lo |-> 1, hi |-> 2, inv |-> NONE], [lo |-> 1, hi |-> 2, inv |-> 150],
                                                [lo |-> 2, hi |-> 2, inv |-> 800]>>]>>
St(kind, sel, profiles) == [kind |-> kind, sel |-> sel, profiles |-> profiles, dflt |-> 250]
MCDefaultStages == <<St("add", NONE, <<>>), St("drop", NONE, <<>>)>>
MCStageConfigs == {MCDefaultStages,
                   <<St("add", NONE, P), St("drop", NONE, P)>>,         \* nothing selected: first listed of the kind
                   <<St("add", 0, P), St("drop", NONE, P)>>,            \* profile 0 selected on the add degree
                   <<St("add", 3, P), St("drop", 1, P)>>,
                   <<St("add", NONE, Q), St("drop", 2, Q)>>}              \* overlapping ranges: first listed wins
MCRoutes == {1, 2}
MCCarriers == {1, 2}
MCMixed == (1 :> 30) @@ (2 :> 6000)          \* the first carrier has the better transmitter
\* SI entries as listed; the default one (margin 2 dB, baked in thr = osnr + 2 dB) is the only / the first unmarked /
\* the marked one listed last
SI(d, m) == [dflt |-> d, margin |-> m]
MCSIFile == <<SI(TRUE, 2000000)>>
MCSIConfigs == {MCSIFile, <<SI(FALSE, 2000000), SI(FALSE, 6000000)>>, <<SI(FALSE, 6000000), SI(TRUE, 2000000)>>}
Sc(s, r, f, sp) == [stages |-> s, routes |-> r, flags |-> f, spectrum |-> sp, si |-> MCSIFile]
MCScenarios(l) ==
  IF Len(l) <= WideModes
  THEN {Sc(s, <<1>>, <<>>, <<>>) : s \in MCStageConfigs}
       \cup {Sc(MCDefaultStages, <<a, b>>, <<>>, <<>>) : a, b \in MCRoutes}
       \cup {Sc(MCDefaultStages, <<1, 1>>, f, <<>>) : f \in {<<TRUE, FALSE>>, <<FALSE, TRUE>>}}
       \cup {Sc(MCDefaultStages, <<1>>, <<>>, MCMixed)}
       \cup {[Sc(MCDefaultStages, <<1>>, <<>>, <<>>) EXCEPT !.si = x] : x \in MCSIConfigs}
  ELSE {Sc(MCDefaultStages, <<1>>, <<>>, <<>>)}
MCLineInv == (63 :> 3000) @@ (66 :> 5000)
MCRevMargins == {-1000000, 0, 1000000, -Inf}

\* B2: one JSON line per library: the modes and, computed by the specification, the set of acceptable outcomes
\* of a unidirectional automatic request and of a unidirectional request fixing each fitting mode
Emit == ~OncePerLib
        \/ PrintT("@@" \o ToJson([lib   |-> [i \in DOMAIN lib |-> Fields(lib[i].code)],
                                  auto  |-> AutoAcceptableSet(lib),
                                  fixed |-> [i \in DOMAIN lib |-> FixedAcceptableSet(lib[i], lib[i], FALSE)]]))
NoNext == FALSE /\ UNCHANGED vars

\* reachability witnesses (negated: TLC must find a counterexample to each, see harness/checks/c13.py)
WitnessManyUpdates == ~(nUpdates >= 3 /\ Done)
WitnessReverseBlocks == ~(Done /\ req.auto /\ out.block = NotFeas)
WitnessProfileZero == ~(last # 0 /\ stages[1].sel = 0 /\ rx[1] = line[1] + lib[last].tx + 400 + 150)
WitnessMixedSpectrum == ~(last # 0 /\ spectrum # <<>> /\ rx[2] - line[2] # rx[1] - line[1])
WitnessMixedFlags == ~(Done /\ k = 2 /\ flags = <<TRUE, FALSE>> /\ revOf # <<>> /\ ~RevRan)
WitnessOtherRoute == ~(Done /\ k = 2 /\ routes[1] # routes[2] /\ RevRan /\ routes[1] \in DOMAIN revOf /\ rev # revOf[routes[1]])
WitnessSameRoute == ~(Done /\ k = 2 /\ routes[1] = routes[2] /\ RevRan)
\* the same five, as tags printed by ONE run over the one-mode sub-model (each tag must appear)
WitnessTags == /\ (~WitnessProfileZero => PrintT("@@" \o ToJson("ProfileZero")))
               /\ (~WitnessOtherRoute => PrintT("@@" \o ToJson("OtherRoute")))
               /\ (~WitnessSameRoute => PrintT("@@" \o ToJson("SameRoute")))
               /\ (~WitnessMixedSpectrum => PrintT("@@" \o ToJson("MixedSpectrum")))
               /\ (~WitnessMixedFlags => PrintT("@@" \o ToJson("MixedFlags")))
               /\ ((last # 0 /\ stages[1].profiles = Q /\ rx[1] = line[1] + lib[last].tx + 900 + 150
                                                          /\ rx[2] = line[2] + lib[last].tx + 100 + 150)
                     => PrintT("@@" \o ToJson("OverlappingRanges")))
               /\ ((Done /\ Len(si) = 2 /\ ~si[1].dflt /\ ~si[2].dflt) => PrintT("@@" \o ToJson("NamedSI")))
WitnessUnjudgedPick == ~(Done /\ out.block = NoBlock /\ out.sel # 0 /\ Unjudged(lib[out.sel]))
==============================================================================
