---------------------------- MODULE MC_Feasibility ----------------------------
(* Bounded model for C13: every library of <= MaxModes modes over 2 baud rates x 2 bit rates x fits / does not *)
(* fit x margin (worst - threshold) in {-2, -1, 0 (inside the unjudged band), +1, +2} dB or an impairment       *)
(* outside the penalty table; every request (automatic / each fitting fixed mode, uni- and bidirectional);     *)
(* every margin the reverse direction may show.  A library is a non-decreasing sequence of mode codes          *)
(* (multisets: the rule does not depend on the order of the modes in the library).                             *)
EXTENDS Feasibility, Json, TLC

CONSTANT MaxModes

PenInf == 9                                      \* margin code: an impairment outside the mode's penalty table
Margins == <<-2, -1, 0, 1, 2, PenInf>>
NCodes == 2 * 2 * 2 * 6

\* code = ((b * 2 + r) * 2 + f) * 6 + (k - 1):  b, r, f in {0, 1}, k index into Margins
Fields(c) == [b |-> c \div 24, r |-> (c \div 12) % 2, f |-> (c \div 6) % 2, d |-> Margins[(c % 6) + 1]]
ModeOf(c) == LET x == Fields(c)
             IN [br |-> 32 * (x.b + 1), rate |-> 100 * (x.r + 1), fits |-> x.f = 1,
                 worst |-> IF x.d = PenInf THEN -Inf ELSE 20000000 + x.d * 1000000,
                 thr |-> 20000000,
                 tx |-> 100 + 10 * x.r + x.b, code |-> c]

LibsOver(codes) == {[i \in DOMAIN s |-> ModeOf(s[i])] :
                      s \in {t \in UNION {[1..n -> codes] : n \in 1..MaxModes} :
                               \A i \in 1..(Len(t) - 1) : t[i] <= t[i + 1]}}
MCLibs == LibsOver(0..(NCodes - 1))
\* a sub-model for the reachability witnesses: fitting modes with margins -1, 0, +1 only
WitnessCodes == {c \in 0..(NCodes - 1) : Fields(c).f = 1 /\ Fields(c).d \in {-1, 0, 1}}
MCWitnessLibs == LibsOver(WitnessCodes)
MCAdds == <<250, 250>>
MCLineInv == (32 :> 3000) @@ (64 :> 5000)
MCRevMargins == {-1000000, 0, 1000000, -Inf}

\* B2: one JSON line per library: the modes and, computed by the specification, the set of acceptable outcomes
\* of a unidirectional automatic request and of a unidirectional request fixing each fitting mode
Emit == ~(pc = "start" /\ req.auto /\ ~req.bidir)
        \/ PrintT("@@" \o ToJson([lib   |-> [i \in DOMAIN lib |-> Fields(lib[i].code)],
                                  auto  |-> AutoAcceptableSet(lib),
                                  fixed |-> [i \in DOMAIN lib |-> FixedAcceptableSet(lib[i], lib[i], FALSE)]]))
NoNext == FALSE /\ UNCHANGED vars

\* reachability witnesses (negated: TLC must find a counterexample to each, see harness/checks/c13.py)
WitnessManyUpdates == ~(nUpdates >= 3 /\ Done)
WitnessReverseBlocks == ~(Done /\ req.auto /\ out.block = NotFeas)
WitnessUnjudgedPick == ~(Done /\ out.block = NoBlock /\ out.sel # 0 /\ Unjudged(lib[out.sel]))
==============================================================================
