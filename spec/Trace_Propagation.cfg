CONSTANTS
  TolUdb = 10
  TolOrderUdb = 1
  TolPpb = 3
  TolInv = 3
INIT Init
NEXT Next
INVARIANT Done
