CONSTANTS
  NCh <- MCNCh
  Launch <- MCLaunch
  ScaleArgs <- MCScaleArgs
  AseArgs <- MCAseArgs
  NliArgs <- MCNliArgs
  Splits <- MCSplits
  MaxParts = 3
  MaxDepth = 4
INIT MCInit
NEXT MCNext
INVARIANT TypeOK
INVARIANT Conservation
INVARIANT SharesInUnitInterval
INVARIANT GsnrIdentity
INVARIANT MuxDemuxLossless
INVARIANT SourceIsWhole
INVARIANT TwinAsLaunched
PROPERTY MCSourceUntouched
PROPERTY MCTwinUntouched
PROPERTY MCDemuxMuxKeepLedger
PROPERTY MCKeepsOsnr
PROPERTY MCKeepsNli
PROPERTY MCLowersOsnr
PROPERTY MCLowersNli
PROPERTY MCNeverImprovesGsnr
PROPERTY MCOthersUntouched
