----------------------------- MODULE MC_DesignPower -----------------------------
(* Bounded instance for C09.  Every initial state is one (configuration, OMS profile) pair; a behaviour designs   *)
(* the OMS amplifier by amplifier.  Configurations: power / gain mode x delta_power_range [0,0,0], [-2,3,0.5],    *)
(* [-6,0,1], [-1.3,2.2,0.5] (round first, THEN clamp: the bound itself is the offset) x slope 0.3 / 0.5, reference span 20 dB, total design power 10 dBm (0 dBm x 10 channels).              *)
(* Profiles: ROADM (t0) -> booster -> span -> (inline amplifier -> span)* -> preamp -> ROADM with 1..MaxSpans      *)
(* spans, raw span losses from LossSet (fibre + connectors + fused + lumped losses inside the fibre) raised to a   *)
(* 10 dB padding, operator settings per amplifier from UserKinds.                                                  *)
(*                                                                                                                *)
(* Two uses: (B1) TLC checks every clause on every reachable design, including profiles with rounding ties, an     *)
(* automatic VOA, a low extended maximum gain and amplifier -> amplifier (Rich = TRUE); (B2) with Rich = FALSE every complete design is    *)
(* emitted as one JSON line and replayed into the real designed_network - the grid then avoids ties (checked by    *)
(* NoTieOnGrid) and both admissible reductions coincide, so the expectation is unique up to the automatic VOA    *)
(* (rich = 1) and to which of two auto-selectable models is in place (rich = 5); rich = 6: line starting at a      *)
(* transceiver.                                                                                                    *)
EXTENDS DesignPower, Json, TLC

CONSTANTS MaxSpans,      \* 1..3
          LossSet,       \* raw span losses (micro-dB)
          MultiUser,     \* FALSE: at most one amplifier carries operator settings; TRUE: any combination
          Rich,          \* TRUE: the further profile families as well (ties, automatic VOA, low extended maximum
                         \*       gain, amp -> amp, two auto-selectable models, line starting at a transceiver)
          EmitStride1,   \* B2 emission: every EmitStride1-th one-span design, every EmitStride2-th longer one
          EmitStride2    \*              (1 = all); all designs are CHECKED in any case

cdB(x) == x * 10000                           \* centi-dB -> micro-dB

Pad     == cdB(1000)                          \* Span.padding 10 dB
PMax    == cdB(1200)                          \* p_max of the library models: 12 dBm (design power 10 dBm + offset 2)
DLoad13 == 1139434                            \* 10 log10(13 / 10): the design band declared on a 37.5 GHz grid carries 13
                                              \* channels where the SI grid (50 GHz) has 10 (profiles rich = 7)
PMax2   == cdB(1220)                          \* a second, noisier auto-selectable model with 0.2 dB more power (profiles rich = 5)
FlatX   == cdB(4300)                          \* gain_flatmax 40 dB + extension 3 dB: never binding
FlatLow == cdB(1900)                          \* B1 only: an auto-selected model whose extended maximum gain binds

MCLossesQuick    == {cdB(800), cdB(1430), cdB(2310), cdB(2770)}
MCLossesFull     == {cdB(800), cdB(1430), cdB(2000), cdB(2310), cdB(2770)}
MCLossesTie      == {cdB(2250)}               \* 0.3 x 2.5 dB = 0.75 dB: a tie for step 0.5 (B1 only)
\* Span vocabulary: the raw loss of a span = fibre attenuation + connectors (+ EOL) + fused elements + the LUMPED LOSSES
\* located inside the fibre (splices, taps: Fiber params.lumped_losses); the design must compensate all of it.  Each span
\* of the grid is a (raw loss, part of it that is lumped inside the fibre) pair:
LumpIn(raw) == IF raw = cdB(2310) THEN cdB(300) ELSE IF raw = cdB(1430) THEN cdB(150) ELSE 0

MCConfigs == {[mode |-> m, slope |-> s, ref |-> cdB(2000), lo |-> r[1], hi |-> r[2], step |-> r[3],
               prefTot |-> cdB(1000)] :
                 m \in {POWER, GAIN}, s \in {300, 500},
                 r \in {<<0, 0, 0>>, <<0 - cdB(200), cdB(300), cdB(50)>>, <<0 - cdB(600), 0, cdB(100)>>,
                        <<0 - cdB(130), cdB(220), cdB(50)>>}}       \* bounds that are NOT multiples of the step

\* operator settings of one amplifier: id, gain, offset, output VOA, input VOA, variety chosen by the operator
U(id, g, dp, voa, inVoa, var) == [id |-> id, g |-> g, dp |-> dp, voa |-> voa, inVoa |-> inVoa, var |-> var]
UserKinds == {
    U(0, NONE, NONE, NONE, 0, FALSE),                         \* nothing set: left to auto-design
    U(1, NONE, NONE, NONE, 0, TRUE),                          \* variety only
    U(2, NONE, cdB(100), NONE, 0, TRUE),                      \* offset
    U(3, cdB(1500), NONE, NONE, 0, TRUE),                     \* gain
    U(4, NONE, NONE, cdB(150), 0, TRUE),                      \* output VOA only
    U(5, NONE, cdB(200), cdB(100), 0, TRUE),                  \* offset and VOA
    U(6, cdB(1700), 0 - cdB(100), cdB(50), 0, TRUE),          \* everything
    U(7, NONE, cdB(400), NONE, 0, TRUE),                      \* offset that saturates (10 + 4 > 12 dBm)
    U(8, cdB(3400), NONE, NONE, 0, TRUE),                     \* gain that saturates in gain mode
    U(9, cdB(2100), NONE, NONE, cdB(200), TRUE),              \* gain with an input VOA
    U(10, NONE, NONE, NONE, cdB(100), FALSE),                 \* input VOA only, auto-selected model
    U(11, cdB(1800), NONE, cdB(100), 0, FALSE) }              \* gain and VOA, auto-selected model

AmpOf(raw, rawNext, last, u, rich) ==
    [L |-> IF raw = 0 THEN 0 ELSE MaxI(raw, Pad), raw |-> raw, lump |-> LumpIn(raw),              \* raw = 0: no span in front of the amplifier
     Ln |-> IF last \/ rawNext = 0 THEN 0 ELSE MaxI(rawNext, Pad),
     nxt |-> IF last THEN ROADM ELSE IF rawNext = 0 THEN AMP ELSE SPAN,
     inVoa |-> u.inVoa, uGain |-> u.g, uDp |-> u.dp, uVoa |-> u.voa, uVar |-> u.var, kind |-> u.id,
     pmax |-> PMax, pmaxSet |-> IF rich = 5 /\ ~u.var THEN {PMax, PMax2} ELSE {PMax}, flatx |-> IF rich = 2 /\ ~u.var THEN FlatLow ELSE FlatX, autoVoa |-> (rich = 1)]

ProfilesOf(n, losses, rich) ==
    {[ing |-> 0, tx |-> 0, dpref |-> 0, dload |-> IF rich = 7 THEN DLoad13 ELSE 0, t0 |-> t0, rich |-> rich,
      amps |-> [k \in 1..(n + 1) |-> AmpOf(IF k = 1 THEN 0 ELSE ls[k - 1], IF k <= n THEN ls[k] ELSE 0, k = n + 1,
                                           us[k], rich)]] :
        t0 \in {0 - cdB(2000), 0 - cdB(1750)},
        ls \in [1..n -> losses],
        us \in {f \in [1..(n + 1) -> UserKinds] :
                   MultiUser \/ Cardinality({k \in 1..(n + 1) : f[k].id # 0}) <= 1}}

\* lines that start directly at a transceiver (no ROADM, hence no booster): transmit power 0 / -2 dBm, reference power of
\* the design 0 / -1 dBm (dpref), amplifier k after span k
TrxProfilesOf(n, losses) ==
    {[ing |-> 1, tx |-> tx, dpref |-> dp, dload |-> 0, t0 |-> tx - dp, rich |-> 6,
      amps |-> [k \in 1..n |-> AmpOf(ls[k], IF k < n THEN ls[k + 1] ELSE 0, k = n, us[k], 6)]] :
        tx \in {0, 0 - cdB(200)}, dp \in {0, 0 - cdB(100)},
        ls \in [1..n -> losses],
        us \in {f \in [1..n -> UserKinds] : Cardinality({k \in 1..n : f[k].id # 0}) <= 1}}

MCProfiles ==
    UNION {ProfilesOf(n, LossSet, 0) : n \in 1..MaxSpans}
      \cup (IF Rich THEN ProfilesOf(1, LossSet, 5)       \* two auto-selectable models of nearly equal p_max
                          \cup ProfilesOf(1, LossSet, 7)    \* design band on its own channel grid (13 instead of 10 channels)
                          \cup TrxProfilesOf(1, LossSet) \cup TrxProfilesOf(2, {cdB(1430), cdB(2770)})
                          \cup ProfilesOf(1, MCLossesTie \cup {cdB(2000)}, 3)      \* rounding ties
                          \cup ProfilesOf(1, {cdB(2000), cdB(2770)}, 1)      \* automatic output VOA
                          \cup ProfilesOf(2, {cdB(2770)}, 2)                 \* low extended maximum gain
                          \cup ProfilesOf(2, {0, cdB(2000)}, 4)              \* amplifier directly after an amplifier
                 ELSE {})

MCVoaGrid == {cdB(50), cdB(150)}

\* designed lines whose life is followed further (used, designed again): the profiles with an automatic output VOA and
\* the one-span profiles, in the configurations of one slope and of the two ranges whose bounds bind
MCFollowed(c, o) == /\ Rich /\ (o.rich = 1 \/ (o.rich = 0 /\ Len(o.amps) = 2))
                    /\ c.slope = 300 /\ c.step \in {cdB(50)}
MCNoFollow(c, o) == FALSE

\* on the replayed grid the rule never ties, so the expectation emitted for B2 is unique
NoTieOnGrid == \A k \in 1..Len(oms.amps) :
                  (oms.rich \in {0, 1, 5, 6, 7} /\ RuleApplies(cfg, oms.amps[k])) =>
                      Cardinality(RuleSet(cfg, oms.amps[k].nxt, oms.amps[k].Ln)) = 1

\* emission for the spec -> code replay (B2): one JSON line per complete design of a replayable profile (rich 0, and
\* rich 1 = automatic output VOA, whose admissible designs differ only by the VOA added to gain, dp and voa alike); a
\* deterministic spread over every dimension of the grid selects the designs to replay when a stride is set
Spread == cfg.mode + cfg.slope \div 100 + cfg.lo \div 1000000 + oms.t0 \div 500000
          + SumSeq([k \in 1..Len(oms.amps) |-> oms.amps[k].L \div 10000 + 7 * k * oms.amps[k].kind])
Selected == LET st == IF oms.rich # 0 THEN 3 * EmitStride1 ELSE IF Len(oms.amps) = 2 THEN EmitStride1 ELSE EmitStride2
            IN Spread % st = 0
Emit == i < Len(oms.amps) \/ oms.rich \notin {0, 1, 5, 6, 7} \/ ~Selected \/ used \/ Again     \* once per design
          \/ PrintT("@@" \o ToJson([cfg |-> cfg, oms |-> oms, out |-> out]))
==============================================================================
