CONSTANTS
  Graphs <- MCGraphs
  BatchesOf <- MCBatchesOf
  NSites = 4
  UseSample = FALSE
  OneSrcDst = TRUE
  Thin = 1
  LinePer = 6
  TwinPer = 1
  PairPer = 8
  TriplePer = 2
  OverlapPer = 2
  Doubling = FALSE
  PairsFirstAll = TRUE
  GridCols = 0
  GroupsExhaustive = FALSE
  Salt = 0
INIT Init
NEXT Next
INVARIANT PathsAreReal
INVARIANT PathsAreLoopFree
INVARIANT StrictHopsAreCrossed
INVARIANT IncludesAreInOrder
INVARIANT ShortestAmongFeasible
INVARIANT LooseDropped
INVARIANT BlockedExactlyWhenNoRoute
INVARIANT BlockingReasonNamesCause
INVARIANT ReverseVisitsSameSites
INVARIANT DisjointGroupsShareNoLink
INVARIANT GroupedRequestsAreRouted
INVARIANT ErrorOnlyWithGroups
INVARIANT PairIsComplete
INVARIANT ErrorWhenNothingFits
INVARIANT JudgeAcceptsModel
INVARIANT SubsequenceFormsAgree
INVARIANT DeviationsAreRejected
INVARIANT PairDeviationsAreRejected
INVARIANT RelaxableDeviationsAreRejected
