INIT Init
NEXT Next
INVARIANT Vocabulary
INVARIANT ModelUniqueNames
INVARIANT ModelEndpointsExist
INVARIANT ModelSiteInventory
INVARIANT ModelFibres
INVARIANT ModelContinuity
INVARIANT ModelCrossed
INVARIANT ModelAmpFaces
INVARIANT ModelBlankAmps
INVARIANT ModelPerDegree
INVARIANT ModelServices
INVARIANT ErrorsAreExplained
INVARIANT MutationsAreSingle
INVARIANT InconsistentAreSo
