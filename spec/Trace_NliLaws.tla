----------------------------- MODULE Trace_NliLaws -----------------------------
(* B3 for C03's scaling-law clauses: families of experiments on one real Fiber + one comb.                     *)
(*  base   : NLI per channel of the comb (micro-dB, -Inf when zero)                                          *)
(*  scaled : the same comb with every power shifted by x micro-dB            -> CubeLaw: +3x                  *)
(*  grown  : one power raised / a channel added above the comb / a channel added below it (NLI on the         *)
(*           original channels; on two-band combs the new pump is up to 10 THz away)  -> Monotone             *)
(*  perm   : same channels supplied in another order (re-keyed by frequency)  -> OrderIndependent             *)
(*  lin    : full / single / pair NLI in a common linear integer unit         -> Superposition, NonNegative   *)
(*  limit  : low-dispersion experiments                                       -> LowDispersionLimit           *)
(*  kern, xs : experiments tied by the doubling / addition identities of asinh -> AsinhDoubling,              *)
(*                                                                               XpmKernelFromSpmKernel        *)
EXTENDS GnpyBase, TLC, Json, IOUtils

T == ndJsonDeserialize(IOEnv.TRACE_FILE)
VARIABLES tid, done
Tol == 5                     \* micro-dB
C(t) == 1..t.n

CubeLaw(t) == \A s \in 1..Len(t.scaled) : \A c \in C(t) :
                 IsInf(t.base[c]) \/ Within(t.scaled[s].nli[c], t.base[c] + 3 * t.scaled[s].x, Tol)
Monotone(t) == \A g \in 1..Len(t.grown) : \A c \in C(t) : t.grown[g].nli[c] >= t.base[c] - Tol
OrderIndependent(t) == \A p \in 1..Len(t.perm) : \A c \in C(t) : Within(t.perm[p][c], t.base[c], 1)
NonNegative(t) == \A c \in C(t) : t.lin.full[c] >= 0 /\ t.lin.single[c] >= 0 /\ \A d \in C(t) : t.lin.pair[c][d] >= 0
Superposition(t) == \A c \in C(t) :
    Within(t.lin.full[c],
           t.lin.single[c] + SumFun([d \in C(t) \ {c} |-> t.lin.pair[c][d] - t.lin.single[c]], C(t) \ {c}),
           t.n + 2 + t.lin.full[c] \div 1000000)        \* rounding of n terms + 1e-6 relative float noise
(* Low-dispersion limit of the closed form (asinh(z) -> z): the kernel reduces to (pi/4) B_i B_j Leff^2, so for      *)
(* equal-baud channels at the reference frequency NLI_i = (pi/4) gamma^2 Leff^2 P_i (16/27 P_i^2 + 32/27 sum P_j^2).  *)
(* Every term below is a micro-dB projection of a CONFIGURATION input made by the harness (gamma, Leff from loss and *)
(* length, launch power, span loss); the law itself is linear: it pins the SPM weight 16/27, the XPM:SPM weight      *)
(* ratio 2, and the gamma^2, Leff^2, P^3 factors.  `w` is 10 log10 of (1 + 2 * number of equal-power neighbours).     *)
LowDispersionLimit(t) == \A k \in 1..Len(t.limit) : LET x == t.limit[k] IN
    Within(x.obs, x.k + x.g2 + x.l2 + x.p3 + x.w - x.loss, 30)
(* The kernel away from that limit, through the identities that characterise asinh (kernel_family in the harness):    *)
(*   AsinhDoubling: 2 asinh(z) = asinh(2 z sqrt(1 + z^2)) - the single channel of baud rate B2 = B1 sqrt(2 sqrt(1 + z1^2)),  *)
(*     z1 = pi^2 |beta2| B1^2 / (2 alpha), carries 2 (B1/B2)^2 times the NLI of the channel of baud rate B1: `shift` is the *)
(*     micro-dB projection of that factor.  A smooth odd kernel with slope 1 at 0 (LowDispersionLimit) that doubles like *)
(*     this at every z is asinh, and the law only holds if the argument is the published one.                            *)
(*   XpmKernelFromSpmKernel: asinh(x) - asinh(y) = asinh(x sqrt(1+y^2) - y sqrt(1+x^2)) - the XPM a pump adds on a       *)
(*     channel (pair - single, linear unit) equals the whole NLI of one equivalent channel (`eq`): pins the band edges   *)
(*     D +/- B_j/2, the channel's baud rate inside the argument, the 1/B_j^2 normalisation and 32/27 = 2 x 16/27.         *)
(*     Sampled from neighbouring channels up to band-to-band pairs (L-band pump, C-band channel and the reverse: the same *)
(*     pair with the pump above and below, asinh arguments up to 10^4).                                                  *)
AsinhDoubling(t) == \A k \in 1..Len(t.kern) : Within(t.kern[k].b, t.kern[k].a + t.kern[k].shift, 30)
XpmKernelFromSpmKernel(t) == \A k \in 1..Len(t.xs) : LET x == t.xs[k] IN
    Within(x.pair - x.single, x.eq, 3 + x.pair \div 1000000)
PairAtLeastSingle(t) == \A c \in C(t) : \A d \in C(t) \ {c} : t.lin.pair[c][d] >= t.lin.single[c] - 1

Clauses(t) == (IF CubeLaw(t) THEN {} ELSE {"CubeLaw"}) \cup (IF Monotone(t) THEN {} ELSE {"Monotone"})
         \cup (IF OrderIndependent(t) THEN {} ELSE {"OrderIndependent"}) \cup (IF NonNegative(t) THEN {} ELSE {"NonNegative"})
         \cup (IF Superposition(t) THEN {} ELSE {"Superposition"}) \cup (IF PairAtLeastSingle(t) THEN {} ELSE {"PairAtLeastSingle"})
         \cup (IF LowDispersionLimit(t) THEN {} ELSE {"LowDispersionLimit"})
         \cup (IF AsinhDoubling(t) THEN {} ELSE {"AsinhDoubling"})
         \cup (IF XpmKernelFromSpmKernel(t) THEN {} ELSE {"XpmKernelFromSpmKernel"})

Init == tid \in 1..Len(T) /\ done = FALSE
Next == done = FALSE /\ done' = TRUE /\ UNCHANGED tid
Verdict == ~done \/ PrintT("@@" \o ToJson([name |-> T[tid].name, viol |-> Clauses(T[tid])]))
==============================================================================
