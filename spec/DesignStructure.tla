---------------------------- MODULE DesignStructure ----------------------------
(* C08 - auto-design as typed graph rewriting, with the phases of gnpy.core.network as actions:                *)
(*   add_missing_elements_in_network:  SplitFiber*  ->  per ROADM AddPreamp* , AddBooster*  ->  AddInline*      *)
(*   add_missing_fiber_attributes:     CompleteFiber* (connector defaults + EOL)  ->  PadSpan*                  *)
(*   set_egress_amplifier:             SetAmp* (variety, gain, output VOA, delta_p in power mode)               *)
(* The elements of one phase are taken in index order (the code iterates over a list fixed before the loop);    *)
(* the clauses of C08 are stated on the final graph and do not depend on that order.                            *)
(* A network object can be used more than once: after a design the same graph may be extended in memory (Extend: *)
(* further fibre sections put behind a fibre of the designed line) and designed again; the clauses then hold for  *)
(* the second result with respect to the topology the second design was given.                                   *)
(* Lengths are integer metres, losses micro-dB, coef is mdB/km (so coef * len is micro-dB).                     *)
EXTENDS DesignGraph, TLC

CONSTANTS Cases            \* set of [g |-> input graph, s |-> settings, x |-> extension]: the well-formed topologies x Span
                           \* settings; x = <<>> or the sections <<[at |-> uid of a fibre, el |-> new fibre], ...>> that are
                           \* put into the designed network before it is designed a second time

VARIABLES g,               \* the graph being rewritten
          inp,             \* the topology auto-design was given (changes only when the designed network is extended)
          cfg,             \* the Span settings (never change)
          phase,           \* "split" | "roadm" | "inline" | "connectors" | "padding" | "amps" | "done"
          seen,            \* indices already handled in the current phase
          ext,             \* sections still to be added to the designed network (<<>>: none)
          round            \* 1 = first design of this network object, 2 = it was extended and is designed again
vars == <<g, inp, cfg, phase, seen, ext, round>>

NoSub  == [variety |-> "", gain |-> NONE, voa |-> NONE, dp |-> NONE]
\* an inserted amplifier: an Edfa on a single-band line, a Multiband_amplifier (one amplifier per design band) otherwise
NewAmp(name) == [name |-> name, type |-> IF cfg.bands = 1 THEN "Edfa" ELSE "Multiband_amplifier",
                 succ |-> {}, pred |-> {}, len |-> 0, coef |-> 0, variety |-> "",
                 conIn |-> NONE, conOut |-> NONE, attIn |-> NONE, loss |-> 0, sub |-> [b \in 1..cfg.bands |-> NoSub],
                 origin |-> "", coefTab |-> <<>>, opt |-> "", phys |-> <<>>]

-----------------------------------------------------------------------------
(* calculate_new_length on integer metres: number of equal spans for a fibre of length L.                      *)
MinLen(S) == MaxI((S.padding * 5) \div 1000, 50000)        \* int(padding / 0.2 * 1e3) m, padding in micro-dB
Target(S) == MaxI(MinLen(S), MinI(S.maxLen, 90000))
SplitCount(L, S) ==
    IF L < S.maxLen THEN 1
    ELSE LET t  == Target(S)
             n2 == L \div t
             n1 == n2 + 1
             in1 == MinLen(S) * n1 <= L /\ L <= S.maxLen * n1           \* start <= L/n1 <= stop
             in2 == n2 > 0 /\ MinLen(S) * n2 <= L /\ L <= S.maxLen * n2
         IN IF in1 /\ ~in2 THEN n1
            ELSE IF in2 /\ ~in1 THEN n2
            ELSE IF n2 > 0 /\ L * n1 - t * n1 * n2 <= t * n1 * n2 - L * n2 /\ L <= S.maxLen * n2 THEN n2
            ELSE n1

SpanName(base, j, k) == base \o "_(" \o ToString(j) \o "/" \o ToString(k) \o ")"

\* a new element e placed on the edge a -> b
Insert(G, a, b, e) ==
    LET n == Len(G) + 1
    IN [x \in 1..n |-> IF x = n THEN [e EXCEPT !.pred = {a}, !.succ = {b}]
                       ELSE IF x = a THEN [G[a] EXCEPT !.succ = (@ \ {b}) \cup {n}]
                       ELSE IF x = b THEN [G[b] EXCEPT !.pred = (@ \ {a}) \cup {n}]
                       ELSE G[x]]

FibLoss(e) == e.coef * e.len + e.conIn + e.conOut + e.attIn

-----------------------------------------------------------------------------
Init == \E c \in Cases : /\ g = c.g /\ inp = c.g /\ cfg = c.s
                         /\ phase = "split" /\ seen = {} /\ ext = c.x /\ round = 1

(* ---- split_fiber: the fibre's slot becomes span 1, spans 2..k are new nodes --------------------------------- *)
\* add_missing_elements_in_network (split, preamp / booster, inline) only runs when insertion is on
SplitTodo == {i \in Fibres(g) : cfg.insert /\ g[i].origin = "" /\ i \notin seen /\ SplitCount(g[i].len, cfg) > 1}
SplitFiber(i) ==
    LET k  == SplitCount(g[i].len, cfg)
        n  == Len(g)
        nx == Next1(g, i)
        ix(j) == IF j = 1 THEN i ELSE n + j - 1
        span(j) == [g[i] EXCEPT !.name = SpanName(g[i].name, j, k), !.len = g[i].len \div k, !.origin = g[i].name,
                                !.pred = IF j = 1 THEN g[i].pred ELSE {ix(j - 1)},
                                !.succ = IF j = k THEN {nx} ELSE {ix(j + 1)}]
    IN /\ g' = [x \in 1..(n + k - 1) |-> IF x = i THEN span(1)
                                         ELSE IF x > n THEN span(x - n + 1)
                                         ELSE IF x = nx THEN [g[nx] EXCEPT !.pred = (@ \ {i}) \cup {ix(k)}]
                                         ELSE g[x]]
       /\ seen' = seen \cup {i}

(* ---- add_roadm_preamp / add_roadm_booster ------------------------------------------------------------------- *)
NotAmplifiable == {"Transceiver", "Fused", "Edfa", "Multiband_amplifier"}
PreampTodo  == {<<r, p>> \in Nodes(g) \X Nodes(g) : cfg.insert /\ g[r].type = "Roadm" /\ p \in g[r].pred /\ g[p].type \notin NotAmplifiable}
BoosterTodo == {<<r, n>> \in Nodes(g) \X Nodes(g) : cfg.insert /\ g[r].type = "Roadm" /\ n \in g[r].succ /\ g[n].type \notin NotAmplifiable}
FirstPair(S) == CHOOSE p \in S : \A q \in S : p[1] < q[1] \/ (p[1] = q[1] /\ p[2] <= q[2])
AddPreamp(r, p)  == g' = Insert(g, p, r, NewAmp("Edfa_preamp_" \o g[r].name \o "_from_" \o g[p].name))
AddBooster(r, n) == g' = Insert(g, r, n, NewAmp("Edfa_booster_" \o g[r].name \o "_to_" \o g[n].name))

(* ---- add_inline_amplifier ----------------------------------------------------------------------------------- *)
InlineTodo == {i \in Fibres(g) : cfg.insert /\ IsFib(g[Next1(g, i)])}
AddInline(i) == g' = Insert(g, i, Next1(g, i), NewAmp("Edfa_" \o g[i].name))

(* ---- add_connector_loss ------------------------------------------------------------------------------------- *)
ConnTodo == Fibres(g) \ seen
CompleteFiber(i) ==
    LET ci == IF g[i].conIn = NONE THEN cfg.conIn ELSE g[i].conIn
        co == (IF g[i].conOut = NONE THEN cfg.conOut ELSE g[i].conOut)
              + (IF g[Next1(g, i)].type = "Fused" THEN 0 ELSE cfg.eol)
        e  == [g[i] EXCEPT !.conIn = ci, !.conOut = co]
    IN /\ g' = [g EXCEPT ![i] = [e EXCEPT !.loss = FibLoss(e)]]
       /\ seen' = seen \cup {i}

(* ---- add_fiber_padding: the first fibre of a too short span gets the missing loss as att_in ------------------ *)
PadTodo == {e \in SpanEnds(g) \ seen : IsFib(g[e]) /\ \A i \in SpanOf(g, e) : g[i].type # "RamanFiber"}
PadSpan(e) ==
    LET h    == SpanHead(g, e)
        miss == cfg.padding - SpanLoss(g, e)
    IN /\ g' = IF miss > 0 /\ IsFib(g[h])
               THEN [g EXCEPT ![h] = [@ EXCEPT !.attIn = @ + miss, !.loss = @ + miss]]
               ELSE g
       /\ seen' = seen \cup {e}

(* ---- set_egress_amplifier / set_one_amplifier, structure only (the values are C09 / C10) --------------------- *)
AmpTodo == Amps(g) \ seen
PrevLoss(i) == LET p == Prev1(g, i) IN IF IsLine(g[p]) THEN SpanLoss(g, p) ELSE 0
SetAmp(i) ==
    LET \* a library model is eligible when its band contains the design band (edges included)
        ok == {x \in cfg.lib : cfg.ampBand[1] <= cfg.siBand[1] /\ cfg.siBand[2] <= cfg.ampBand[2]}
        any == CHOOSE x \in ok : TRUE
        \* one amplifier per band (a user Multiband_amplifier without description gets one per design band)
        old == IF Len(g[i].sub) = cfg.bands THEN g[i].sub ELSE [b \in 1..cfg.bands |-> NoSub]
        set(u) == [variety |-> IF u.variety = "" THEN any ELSE u.variety,
                   gain |-> IF u.gain = NONE \/ cfg.powerMode THEN PrevLoss(i) ELSE u.gain,
                   voa  |-> IF u.voa = NONE THEN 0 ELSE u.voa,
                   dp   |-> IF cfg.powerMode THEN (IF u.dp = NONE THEN 0 ELSE u.dp) ELSE NONE]
        new == [b \in 1..cfg.bands |-> set(old[b])]
    IN /\ g' = [g EXCEPT ![i] = [@ EXCEPT !.variety = IF @ = "" THEN (IF cfg.bands = 1 THEN new[1].variety ELSE any) ELSE @,
                                          !.sub = new]]
       /\ seen' = seen \cup {i}

(* ---- the designed network is used again: new sections are spliced into the same graph, then designed_network() ---- *)
\* the span after which a section announced "behind fibre nm" goes: nm itself, or the last of the spans it was cut into
LastSpanOf(G, nm) == CHOOSE j \in Fibres(G) : /\ G[j].name = nm \/ G[j].origin = nm
                                              /\ LET n == NextFibre(G, j, Len(G)) IN n = 0 \/ G[n].origin # nm
RECURSIVE Extended(_, _)
Extended(G, x) == IF x = <<>> THEN G
                  ELSE LET j == LastSpanOf(G, Head(x).at)
                       IN Extended(Insert(G, j, Next1(G, j), Head(x).el), Tail(x))
\* the second design is given the extended graph as it is: what the first design inserted is now part of the topology
Extend == LET G2 == Extended(g, ext)
              G3 == [k \in Nodes(G2) |-> [G2[k] EXCEPT !.origin = ""]]
          IN g' = G3 /\ inp' = G3 /\ ext' = <<>> /\ round' = 2 /\ phase' = "split" /\ seen' = {}

-----------------------------------------------------------------------------
Step(todo, Act(_), nextPhase) ==
    IF todo # {} THEN Act(SetMin(todo)) /\ phase' = phase
    ELSE g' = g /\ seen' = {} /\ phase' = nextPhase

Rewrite ==
        /\ UNCHANGED <<inp, cfg, ext, round>>
        /\ \/ phase = "split"      /\ Step(SplitTodo, SplitFiber, "roadm")
           \/ phase = "roadm"      /\ IF PreampTodo \cup BoosterTodo = {} THEN g' = g /\ seen' = {} /\ phase' = "inline"
                                      ELSE /\ phase' = phase /\ seen' = seen
                                           /\ LET r == FirstPair(PreampTodo \cup BoosterTodo)[1]
                                                  pre == {q \in PreampTodo : q[1] = r}
                                                  boo == {q \in BoosterTodo : q[1] = r}
                                              IN IF pre # {} THEN AddPreamp(r, FirstPair(pre)[2])
                                                 ELSE AddBooster(r, FirstPair(boo)[2])
           \/ phase = "inline"     /\ seen' = seen /\ IF InlineTodo # {} THEN AddInline(SetMin(InlineTodo)) /\ phase' = phase
                                                      ELSE g' = g /\ phase' = "connectors"
           \/ phase = "connectors" /\ Step(ConnTodo, CompleteFiber, "padding")
           \/ phase = "padding"    /\ Step(PadTodo, PadSpan, "amps")
           \/ phase = "amps"       /\ Step(AmpTodo, SetAmp, "done")
Next == \/ Rewrite
        \/ phase = "done" /\ ext # <<>> /\ Extend /\ UNCHANGED cfg
Spec == Init /\ [][Next]_vars

-----------------------------------------------------------------------------
(* The clauses of C08.  Graph shape holds in every state of the rewriting; the rest on the designed network.    *)
Designed == phase = "done"
ChainsOneInOneOutInv          == ChainsOneInOneOut(g)
UniqueNamesInv                == UniqueNames(g)
RoadmReachabilityUnchangedInv == RoadmReachabilityUnchanged(inp, g)
NothingLostNothingInventedInv == NothingLostNothingInvented(inp, g)
EveryJunctionAmplifiedInv     == Designed /\ cfg.insert => EveryJunctionAmplified(g) /\ AmplifiersOnlyAtJunctions(inp, g)
SplitIsEqualAndConservativeInv == phase # "split" /\ cfg.insert => SplitIsEqualAndConservative(inp, g, cfg)
EveryAmpConfiguredInv         == Designed => EveryAmpConfigured(g, cfg)
EveryFiberHasConnectorsInv    == Designed => EveryFiberHasConnectors(g) /\ DefaultConnectorsApplied(inp, g, cfg)
SpanAtLeastPaddingInv         == Designed => SpanAtLeastPadding(g, cfg)
UserAttenuatorKeptInv         == UserAttenuatorKept(inp, g)
VoaIsAttenuationInv           == Designed => VoaIsAttenuation(g)
NoInsertionWhenNotAskedInv    == NoInsertionWhenNotAsked(inp, g, cfg)
==============================================================================
