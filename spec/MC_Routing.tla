------------------------------ MODULE MC_Routing ------------------------------
(* Bounded instance of RoutingModel for C11 / C12.                                                                 *)
(*                                                                                                            *)
(* Graphs: meshes on NSites ROADMs; every unordered pair of sites is either not linked (digit 0) or linked,    *)
(* without parallel links, by one of four kinds of link pair (LinkKm): 1 a PATCH of 0 km - the two ROADMs are *)
(* connected back to back through an amplifier only, as two ROADMs of one office: an OMS without any fibre -, *)
(* 2 a 50 km span, 3 a 140 km span (one long span: fewer elements but more kilometres than 2 x 50 km through  *)
(* an intermediate ROADM), 4 a 300 km link that auto-design splits into two spans.  A mesh is the base-5      *)
(* number of its link digits, so 0..5^(NSites(NSites-1)/2)-1 enumerates ALL meshes - connected or not,        *)
(* 125 for 3 sites, 15 625 for 4 sites.  With Doubling the ids continue: id div 5^pairs = j > 0 adds a       *)
(* second, PARALLEL 50 km link pair (arcs <<a, b, 1>>) between the j-th pair of sites.                        *)
(* (How a link is written in the topology file is the concretiser's business - harness/routing_util.py writes *)
(* about half of the fibres followed by an explicit amplifier, the others bare - the graph is the same.)      *)
(*                                                                                                            *)
(* Batches explored on a mesh                                                                                 *)
(*   singles   one request, every (src, dst) of SrcDst, every include list of <= 2 distinct ROADMs, every     *)
(*             LOOSE/STRICT labelling (1 in Thin of them when thinned for the replay into the code)           *)
(*   lines     one request whose include list names line elements of existing arcs, alone or mixed with a     *)
(*             ROADM (LinePer seeded draws per mesh)                                                          *)
(*   twins     the same request twice (the pipeline aggregates them), or twice with all hops STRICT in one    *)
(*             and LOOSE in the other, in both orders (these must NOT be served alike)                        *)
(*   pairs     two requests declared disjoint (every third with a free rider request, every fifth with the    *)
(*             group stated twice, every fourth with one member all-LOOSE and the other all-STRICT, in both   *)
(*             orders of the vector); triples: one group of three; overlaps: two groups sharing one request,  *)
(*             the shared request first / last / in between in the vectors, one group nested in the other, or *)
(*             a triangle of pairs {1,2} {1,3} {2,3}, or near-twins (same request, STRICT / LOOSE) each       *)
(*             disjoint from a third request;                                                                 *)
(*             every other seeded group request gets LOOSE hops naming elements that do not exist (0..2)      *)
(*   relaxables  overlapping vectors of which ONE is written `relaxable: true` - preferably one that cannot be *)
(*             met - and the others not (OverlapPer / 2 seeded draws per mesh)                                *)
(* A second family of graphs, MCGridGraphs (cfg: Graphs <- MCGridGraphs, BatchesOf <- MCGridBatchesOf), are   *)
(* rows x GridCols lattices with single requests whose include lists of 2 or 3 ROADMs force long detours.     *)
(* With GroupsExhaustive the pairs are ALL pairs of requests with include lists of <= 1 ROADM (used with      *)
(* NSites = 3); otherwise groups are seeded draws (a small linear congruential generator written in TLA+).    *)
EXTENDS RoutingModel, Json, RoutingSample

CONSTANTS NSites,            \* number of ROADM sites
          UseSample,         \* TRUE: the meshes listed in RoutingSample (written by the harness); FALSE: all meshes
          OneSrcDst,         \* TRUE: only (1, 2) as source/destination of singles (node symmetry), FALSE: all ordered pairs
          Thin,              \* keep one single in Thin (1 = all, 0 = none)
          LinePer, TwinPer, PairPer, TriplePer, OverlapPer,   \* seeded draws per mesh
          GroupsExhaustive,  \* TRUE: all pairs of requests with <= 1 ROADM include each
          Doubling,          \* TRUE: (not UseSample) also the meshes with one doubled pair of sites
          PairsFirstAll,     \* FALSE: exhaustive pairs without the first requests whose include is their own end point
          GridCols,          \* columns of the lattice meshes (MCGridGraphs: NSites = rows x GridCols), 0 elsewhere
          Salt               \* seed of the draws

Nodes  == 1..NSites
NPairs == (NSites * (NSites - 1)) \div 2
Base   == 5
LinkKm == <<0, 50, 140, 300>>          \* digit 1..4 -> fibre kilometres of the link (0: amplifier-only patch)
RECURSIVE PowB(_)
PowB(k) == IF k = 0 THEN 1 ELSE Base * PowB(k - 1)
PairIdx(a, b) == LET lo == MinI(a, b)
                     hi == MaxI(a, b)
                 IN  ((lo - 1) * (2 * NSites - lo)) \div 2 + (hi - lo - 1)
Digit(m, k)   == (m \div PowB(k)) % Base
GraphOf(m) ==
  LET dbl  == m \div PowB(NPairs)                 \* 0: no doubled pair, j: the pair of index j - 1 is doubled
      arcs == {<<a[1], a[2], 0>> : a \in {x \in Nodes \X Nodes : x[1] # x[2] /\ Digit(m, PairIdx(x[1], x[2])) # 0}}
              \cup {<<a[1], a[2], 1>> : a \in {x \in Nodes \X Nodes : x[1] # x[2] /\ PairIdx(x[1], x[2]) = dbl - 1}}
  IN  [id |-> m, n |-> NSites, arcs |-> arcs,
       len |-> [a \in arcs |-> IF a[3] = 1 THEN 50 ELSE LinkKm[Digit(m, PairIdx(a[1], a[2]))]]]
MeshIds  == IF UseSample THEN SampleMeshIds
            ELSE 0..((IF Doubling THEN NPairs + 1 ELSE 1) * PowB(NPairs) - 1)
MCGraphs == {GraphOf(m) : m \in MeshIds}

\* ---- a small generator: x -> (4093 x + 7) mod 65521 stays below 2^31
Lcg(x) == (x * 4093 + 7) % 65521
RECURSIVE Rnd(_, _)
Rnd(seed, k) == IF k = 0 THEN seed % 65521 ELSE Lcg(Rnd(seed, k - 1))
Seed(m, k, fam) == (m % 60000) * 131 + k * 977 + fam * 7919 + Salt

Rq(s, d, inc, strict) == [s |-> s, d |-> d, inc |-> inc, strict |-> strict]
Batch(reqs, groups)   == [reqs |-> reqs, groups |-> groups, relax |-> [k \in 1..Len(groups) |-> 0]]
OrdPairs == [k \in 1..(NSites * (NSites - 1)) |->
               LET a == (k - 1) \div (NSites - 1) + 1
                   j == ((k - 1) % (NSites - 1)) + 1
               IN  <<a, (IF j < a THEN j ELSE j + 1)>>]
OrdArcs == [k \in 1..(2 * Len(OrdPairs)) |->
              LET pr == OrdPairs[((k - 1) % Len(OrdPairs)) + 1] IN <<pr[1], pr[2], (k - 1) \div Len(OrdPairs)>>]
ArcSeq(G) == SelectSeq(OrdArcs, LAMBDA a : a \in G.arcs)

\* ---- singles: exhaustive over ROADM include lists and labellings
Labels(k)  == IF k = 0 THEN {<<>>} ELSE [1..k -> {0, 1}]
RoadmLists == {<<>>} \cup {<<n>> : n \in Nodes} \cup {<<x[1], x[2]>> : x \in {y \in Nodes \X Nodes : y[1] # y[2]}}
SrcDst     == IF OneSrcDst THEN {<<1, 2>>} ELSE {x \in Nodes \X Nodes : x[1] # x[2]}
CodeOf(s)  == SumSeq([i \in 1..Len(s) |-> s[i] * (5 * i + 1)])
KeepSingle(m, r) == Thin # 0 /\ (Thin = 1 \/
  Lcg(Lcg(((m % 60000) * 131 + r.s * 17 + r.d * 29 + CodeOf(r.inc) * 7 + CodeOf(r.strict) * 3 + Len(r.inc) + Salt) % 65521)) % Thin = 0)
Singles(G) == UNION {UNION {{Batch(<<Rq(sd[1], sd[2], inc, lab)>>, <<>>) :
                            lab \in {l \in Labels(Len(inc)) : KeepSingle(G.id, Rq(sd[1], sd[2], inc, l))}} :
                           inc \in RoadmLists} : sd \in SrcDst}

\* ---- seeded requests: shape 0/1 none, 2 one ROADM, 3 one line element, 4 two ROADMs, 5 ROADM then line,
\*      6 line then ROADM, 7 two line elements, 8 the lines of a three-hop walk leaving the source (an explicit
\*      route when it ends at the destination, possibly through a site twice), 9 a fork (below); labels drawn per
\*      hop; include lists never repeat an element
OutArcs(G, a) == SelectSeq(ArcSeq(G), LAMBDA e : e[1] = a)
Walk3(G, s, x1, x2, x3) ==
  LET o1 == OutArcs(G, s)
  IN  IF Len(o1) = 0 THEN <<>>
      ELSE LET a1 == o1[(x1 % Len(o1)) + 1]
               o2 == OutArcs(G, a1[2])
               a2 == o2[(x2 % Len(o2)) + 1]
               o3 == OutArcs(G, a2[2])
               a3 == o3[(x3 % Len(o3)) + 1]
           IN  IF a3 = a1 \/ a2 = a1 THEN <<LineEl(a1), LineEl(a2)>>
               ELSE <<LineEl(a1), LineEl(a2), LineEl(a3)>>
\* shape 9: lines that look like a chain but are not one - the second arc ENTERS the ROADM the first one enters
\* (from another site) instead of leaving it; optionally a third arc that leaves that ROADM
InArcs(G, a) == SelectSeq(ArcSeq(G), LAMBDA e : e[2] = a)
Fork(G, s, x1, x2, x3) ==
  LET o1 == OutArcs(G, s)
  IN  IF Len(o1) = 0 THEN <<>>
      ELSE LET a1 == o1[(x1 % Len(o1)) + 1]
               i2 == SelectSeq(InArcs(G, a1[2]), LAMBDA e : e[1] # s)
               o3 == OutArcs(G, a1[2])
           IN  IF Len(i2) = 0 THEN <<LineEl(a1)>>
               ELSE LET a2 == i2[(x2 % Len(i2)) + 1]
                        a3 == o3[((x3 \div 2) % Len(o3)) + 1]
                    IN  IF x3 % 2 = 0 \/ a3 = Opposite(a1) \/ a3 = Opposite(a2) THEN <<LineEl(a1), LineEl(a2)>>
                        ELSE <<LineEl(a1), LineEl(a2), LineEl(a3)>>
\* shape 11: three ROADMs taken, in order, from one of the routes with the most hops between the two end points - an
\* include list that can be met, but only by a long detour (a snake on a lattice)
Snake(G, sd, x1, x2) ==
  LET P    == SimplePaths(G, sd[1], sd[2])
      most == SetMax({Len(p) : p \in P})
      cand == {p \in P : Len(p) >= most - 1}
      H(p) == (CodeOf(SitesOf(p)) * 31 + x1 * 977) % 65521
      p    == CHOOSE q \in cand : \A r \in cand : H(q) <= H(r)
      v    == SitesOf(p)
      m    == Len(v) - 2                                \* intermediate sites
  IN  IF P = {} \/ m < 3 THEN <<>>
      ELSE LET i1 == 2 + (x2 % (m \div 3))
               i2 == 2 + (m \div 3) + ((x2 \div 7) % (m \div 3))
               i3 == 2 + 2 * (m \div 3) + ((x2 \div 49) % (m \div 3))
           IN  <<v[i1], v[i2], v[i3]>>
RndInc(G, sd, shape, x1, x2, x3) ==
  LET arcs == ArcSeq(G)
      L(x) == LineEl(arcs[(x % Len(arcs)) + 1])
      n1   == (x1 % NSites) + 1
      n2   == ((n1 + (x2 % (NSites - 1))) % NSites) + 1
      sh   == IF Len(arcs) = 0 /\ shape \in {3, 5, 6, 7, 8, 9} THEN 2 ELSE IF shape = 10 /\ NSites < 3 THEN 4 ELSE shape
  IN  CASE sh \in {0, 1} -> <<>>
        [] sh = 2 -> <<n1>>
        [] sh = 3 -> <<L(x1)>>
        [] sh = 4 -> <<n1, n2>>
        [] sh = 5 -> <<n1, L(x2)>>
        [] sh = 6 -> <<L(x1), n1>>
        [] sh = 7 -> IF L(x1) = L(x2) THEN <<L(x1)>> ELSE <<L(x1), L(x2)>>
        [] sh = 8 -> Walk3(G, sd[1], x1, x2, x3)
        [] sh = 9 -> Fork(G, sd[1], x1, x2, x3)
        [] sh = 11 -> Snake(G, sd, x1, x2)
        [] sh = 10 -> LET rest == SelectSeq([v \in 1..NSites |-> v], LAMBDA v : v # n1 /\ v # n2)      \* three ROADMs
                      IN  <<n1, n2, rest[(x3 % Len(rest)) + 1]>>
\* (a walk or a fork is aimed at the site it ends in, every other time, so that it is an explicit route)
RndReq(G, seed, shapes) ==
  LET sd  == OrdPairs[(Rnd(seed, 1) % Len(OrdPairs)) + 1]
      sh  == shapes[(Rnd(seed, 2) % Len(shapes)) + 1]
      inc == RndInc(G, sd, sh, Rnd(seed, 3), Rnd(seed, 4), Rnd(seed, 8))
      end == IF inc = <<>> THEN sd[2] ELSE inc[Len(inc)] % 1000
      d   == IF sh \in {8, 9} /\ inc # <<>> /\ end # sd[1] /\ Rnd(seed, 10) % 4 # 0 THEN end ELSE sd[2]
  IN  Rq(sd[1], d, inc, [k \in 1..Len(inc) |-> Rnd(seed, 4 + k) % 2])
\* second request of a group: half of the time the same end points as the first (protection pair)
RndMate(G, r, seed, shapes) ==
  LET q == RndReq(G, seed, shapes)
  IN  IF Rnd(seed, 7) % 2 = 0 THEN Rq(r.s, r.d, q.inc, q.strict) ELSE q

LineShapes  == <<3, 3, 5, 6, 7, 8, 9, 9>>
GroupShapes == <<0, 1, 2, 2, 3, 4, 5, 6>>
Relabel(r, l) == Rq(r.s, r.d, r.inc, [k \in 1..Len(r.inc) |-> l])
IncShapes == <<2, 3, 4, 5, 6>>          \* never empty
Twins(G)  == {LET r == RndReq(G, Seed(G.id, k, 2), GroupShapes)
                  q == RndReq(G, Seed(G.id, k, 2), IncShapes)
              IN  CASE k % 3 = 1 -> Batch(<<r, r>>, <<>>)
                    [] k % 3 = 2 -> Batch(<<Relabel(q, 1), Relabel(q, 0)>>, <<>>)
                    [] OTHER     -> Batch(<<Relabel(q, 0), Relabel(q, 1)>>, <<>>) : k \in 1..TwinPer}
\* LOOSE hops naming elements that do not exist, put in front of / inside the list (x picks how many and where)
Ghosts(r, x) ==
  LET n == x % 3
      at == IF Len(r.inc) = 0 THEN 0 ELSE (x \div 3) % (Len(r.inc) + 1)       \* the ghosts follow hop number `at`
  IN  IF n = 0 THEN r
      ELSE Rq(r.s, r.d,
              [k \in 1..at |-> r.inc[k]] \o [k \in 1..n |-> 900 + k] \o [k \in 1..(Len(r.inc) - at) |-> r.inc[at + k]],
              [k \in 1..at |-> r.strict[k]] \o [k \in 1..n |-> 0] \o [k \in 1..(Len(r.inc) - at) |-> r.strict[at + k]])
Haunt(r, seed, k) == IF k % 2 = 0 THEN Ghosts(r, Rnd(seed, 9)) ELSE r
Lines(G)  == {Batch(<<Haunt(RndReq(G, Seed(G.id, k, 1), LineShapes), Seed(G.id, k, 1), k + 1)>>, <<>>) : k \in 1..LinePer}
Pairs(G)  == {LET r1 == RndReq(G, Seed(G.id, k, 3), GroupShapes)
                  r2 == RndMate(G, r1, Seed(G.id, k, 4), GroupShapes)
                  r3 == RndReq(G, Seed(G.id, k, 5), GroupShapes)
                  q1 == RndReq(G, Seed(G.id, k, 3), IncShapes)
                  q2 == RndMate(G, q1, Seed(G.id, k, 4), IncShapes)
              IN  IF k % 3 = 0 THEN Batch(<<r1, r2, r3>>, <<<<1, 2>>>>)
                  ELSE IF k % 5 = 0 THEN Batch(<<r1, r2>>, <<<<1, 2>>, <<2, 1>>>>)
                  ELSE IF k % 4 = 1 THEN Batch(<<Relabel(q1, 0), Relabel(q2, 1)>>, <<<<1, 2>>>>)
                  ELSE IF k % 4 = 2 THEN Batch(<<Relabel(q1, 1), Relabel(q2, 0)>>, <<<<1, 2>>>>)
                  ELSE Batch(<<Haunt(r1, Seed(G.id, k, 3), k), Haunt(r2, Seed(G.id, k, 4), k)>>, <<<<1, 2>>>>) : k \in 1..PairPer}
Triples(G) == {LET r1 == RndReq(G, Seed(G.id, k, 6), GroupShapes)
                   r2 == RndMate(G, r1, Seed(G.id, k, 7), GroupShapes)
                   r3 == RndMate(G, r1, Seed(G.id, k, 8), GroupShapes)
               IN  Batch(<<r1, Haunt(r2, Seed(G.id, k, 7), k), r3>>, <<<<1, 2, 3>>>>) : k \in 1..TriplePer}
\* (fam, fam + 1, fam + 2: the seed families of the three requests; v: which shape the vectors take)
OverlapBatch(G, k, fam, v) ==
                LET r1 == RndReq(G, Seed(G.id, k, fam), GroupShapes)
                    r2 == RndMate(G, r1, Seed(G.id, k, fam + 1), GroupShapes)
                    r3 == RndMate(G, r1, Seed(G.id, k, fam + 2), GroupShapes)
                    q  == RndReq(G, Seed(G.id, k, fam), IncShapes)              \* near-twins, each disjoint from a third
                    q3 == RndMate(G, q, Seed(G.id, k, fam + 2), GroupShapes)
                IN  IF v = 8 THEN Batch(<<Relabel(q, 1), Relabel(q, 0), q3>>, <<<<1, 3>>, <<2, 3>>>>)
                    ELSE IF v = 9 THEN Batch(<<Relabel(q, 0), Relabel(q, 1), q3>>, <<<<1, 3>>, <<2, 3>>>>)
                    ELSE Batch(<<r1, r2, Haunt(r3, Seed(G.id, k, fam + 2), k)>>,
                               CASE v = 0 -> <<<<1, 2>>, <<2, 3>>>>      \* shared: last, then first
                                 [] v = 1 -> <<<<1, 2>>, <<1, 3>>>>      \* shared: first in both
                                 [] v = 2 -> <<<<2, 1>>, <<3, 1>>>>      \* shared: last in both
                                 [] v = 3 -> <<<<1, 3>>, <<2, 1>>>>
                                 [] v = 4 -> <<<<1, 2, 3>>, <<2, 3>>>>   \* nested: the larger first
                                 [] v = 5 -> <<<<1, 2>>, <<3, 1, 2>>>>
                                 [] v = 6 -> <<<<1, 2>>, <<1, 3>>, <<2, 3>>>>   \* triangle of pairs: the last vector only
                                 [] OTHER -> <<<<2, 3>>, <<1, 2>>, <<3, 1>>>>)  \* holds requests the others routed
Overlaps(G) == {OverlapBatch(G, k, 9, k % 10) : k \in 1..OverlapPer}

\* ---- relaxable vectors: overlapping vectors again (own draws, every shape above), ONE of them written
\*      `relaxable: true`, the others not.  A relaxable vector only matters when it cannot be met: when some vectors of
\*      the batch have no link-disjoint combination at all (whatever the include lists), two times out of three the
\*      relaxable one is taken among those; otherwise it is drawn among all of them.
UnmetAlone(G, b) == LET f == FactsOf(G, b)
                    IN  {k \in 1..Len(b.groups) : Solutions(G, Batch(b.reqs, <<b.groups[k]>>), f, "any", FALSE) = {}}
WithRelaxable(G, b, x) ==
  LET n    == Len(b.groups)
      dead == IF x % 3 = 0 THEN {} ELSE UnmetAlone(G, b)
      from == IF dead = {} THEN 1..n ELSE dead
      j    == (x \div 3) % Cardinality(from)                                  \* the (j + 1)-th of them
      pick == CHOOSE k \in from : Cardinality({m \in from : m < k}) = j
  IN  [b EXCEPT !.relax = [k \in 1..n |-> IF k = pick THEN 1 ELSE 0]]
RelaxPer == OverlapPer \div 2
Relaxables(G) == {LET x == Rnd(Seed(G.id, k, 16), 3)
                  IN  WithRelaxable(G, OverlapBatch(G, k, 13, Rnd(Seed(G.id, k, 16), 2) % 10), x) : k \in 1..RelaxPer}

\* ---- exhaustive pairs (small NSites): all end points, include lists of <= 1 ROADM, both labels
SmallReqs == UNION {{Rq(sd[1], sd[2], <<>>, <<>>)} \cup {Rq(sd[1], sd[2], <<n>>, <<l>>) : n \in Nodes, l \in {0, 1}} :
                    sd \in {x \in Nodes \X Nodes : x[1] # x[2]}}
\* (the first request runs from site 1 to site 2: every other choice is a relabelling of the sites)
AllPairs(G) == {Batch(<<r1, r2>>, <<<<1, 2>>>>) : r1 \in {r \in SmallReqs : r.s = 1 /\ r.d = 2 /\ (PairsFirstAll \/ r.inc \notin {<<1>>, <<2>>})},
                                                    r2 \in SmallReqs}

\* ---- lattice meshes (rows x GridCols ROADMs, neighbours linked by 50 or 140 km, drawn from the mesh id): large
\*      enough for more than a hundred loop-free routes to be shorter than the best one that meets an include list
\*      of two or three ROADMs - the snake-shaped routes
GridGraph(m) ==
  LET row(a) == (a - 1) \div GridCols
      col(a) == (a - 1) % GridCols
      near(a, b) == (row(a) = row(b) /\ AbsI(col(a) - col(b)) = 1) \/ (col(a) = col(b) /\ AbsI(row(a) - row(b)) = 1)
      arcs == {<<x[1], x[2], 0>> : x \in {y \in Nodes \X Nodes : near(y[1], y[2])}}
  IN  [id |-> m, n |-> NSites, arcs |-> arcs,
       len |-> [a \in arcs |-> LinkKm[2 + (Rnd(m * 37 + MinI(a[1], a[2]) * NSites + MaxI(a[1], a[2]), 2) % 2)]]]
MCGridGraphs == {GridGraph(m) : m \in SampleMeshIds}
GridShapes == <<4, 10, 11, 11, 11>>
\* requests run between two corners of the lattice (the pairs with the most routes); all hops of a list STRICT, or
\* all LOOSE: the verdict is then always decided
GridReq(G, seed, k) ==
  LET corners == <<1, GridCols, NSites - GridCols + 1, NSites>>
      s   == corners[(Rnd(seed, 1) % 4) + 1]
      d   == SelectSeq(corners, LAMBDA v : v # s)[(Rnd(seed, 9) % 3) + 1]
      inc == RndInc(G, <<s, d>>, GridShapes[(k % Len(GridShapes)) + 1], Rnd(seed, 3), Rnd(seed, 4), Rnd(seed, 8))
  IN  Rq(s, d, inc, [j \in 1..Len(inc) |-> 0])
MCGridBatchesOf(G) == {Batch(<<Relabel(GridReq(G, Seed(G.id, k, 12), k), (k \div 5) % 2)>>, <<>>) : k \in 1..LinePer}

MCBatchesOf(G) == Singles(G) \cup Lines(G) \cup Twins(G) \cup Triples(G) \cup Overlaps(G) \cup Relaxables(G)
                  \cup (IF GroupsExhaustive THEN AllPairs(G) ELSE Pairs(G))

-----------------------------------------------------------------------------
(* model-level sanity of the judgement                                                                        *)

\* the greedy recursion used everywhere is the declarative "ordered subsequence"
SubsequenceFormsAgree ==
  \A i \in Idx : \A p \in fx[i].P : InOrder(Req(i).inc, Elements(p)) = InOrderDecl(Req(i).inc, Elements(p))

\* for one request outside any group the judgement is exact: whatever the model does not allow is rejected
\* (except in the zone the property leaves undecided)
Candidates(G, r, P) ==
  {Found(p) : p \in P}
  \cup {[st |-> "path", p |-> pq[1], rev |-> RevRoute(pq[2])] : pq \in {x \in P \X P : SitesOf(x[1]) # SitesOf(x[2])}}
  \cup {Blocked("NO_PATH"), Blocked("NO_PATH_WITH_CONSTRAINT"), Blocked("NO_SPECTRUM")}
  \cup (IF <<r.s, r.d, 0>> \in G.arcs THEN {} ELSE {Found(<<<<r.s, r.d, 0>>>>)})                 \* a link that is not there
  \cup {Found(p \o <<Opposite(p[Len(p)]), p[Len(p)]>>) : p \in P}                              \* back and forth
DeviationsAreRejected ==
  (Answered /\ batch.groups = <<>> /\ Len(batch.reqs) = 1 /\ fx[1].v # "UNDECIDED")
    => \A x \in Candidates(g, Req(1), fx[1].P) \ RouteOne(g, Req(1), fx[1].P) :
          Judge(g, batch, fx, [err |-> 0, res |-> <<x>>], 0) # {}
\* for one pair: overlapping routes and unjustified errors are rejected; and when the oracle says that not even
\* the STRICT hops can be honoured disjointly, every pair of routes fails a clause that needs no search
PairDeviationsAreRejected ==
  (Answered /\ SinglePair(batch) /\ AllHard(batch) /\ Len(batch.reqs) = 2)
    => LET strong == Solutions(g, CleanBatch(batch), fx, "strong", TRUE) # {}
           weak   == Solutions(g, CleanBatch(batch), fx, "weak", FALSE) # {}
           Two(pq) == [err |-> 0, res |-> <<Found(pq[1]), Found(pq[2])>>]
       IN  /\ \A pq \in fx[1].P \X fx[2].P :
                SurelyOverlapping(g, pq[1], pq[2]) => JudgeStructural(g, batch, Two(pq)) # {}
           /\ strong => ~PairComplete(g, CleanBatch(batch), fx, ErrOutcome)
           /\ ~weak => \A pq \in fx[1].P \X fx[2].P : JudgeStructural(g, batch, Two(pq)) # {}

\* and with a relaxable vector in the batch: whatever happens to it, routes that surely share a link between two
\* requests of a vector that is NOT relaxable are rejected by a clause that needs no search - and routes that overlap
\* only where a relaxable vector speaks are not
RelaxableDeviationsAreRejected ==
  (Answered /\ ~AllHard(batch) /\ Len(batch.reqs) = 3)
    => LET h == Hard(batch)
           Three(t) == [err |-> 0, res |-> <<Found(t[1]), Found(t[2]), Found(t[3])>>]
       IN  \A t \in fx[1].P \X fx[2].P \X fx[3].P :
             LET hardhit == \E i, j \in 1..3 : MustDiffer(h, i, j) /\ SurelyOverlapping(g, t[i], t[j])
             IN  hardhit <=> (<<0, "GroupsLinkDisjoint">> \in JudgeStructural(g, batch, Three(t)))

-----------------------------------------------------------------------------
(* generation for the replay into the code (B2): one JSON line per batch, with what the oracle says about it  *)
Info ==
  [verdict |-> [i \in Idx |-> IF i \in Free THEN fx[i].v ELSE "GROUPED"],
   npaths  |-> [i \in Idx |-> Cardinality(fx[i].P)],
   best    |-> [i \in Idx |-> fx[i].min],
   \* how many loop-free routes are shorter than the one the request must get (the candidates a search has to pass)
   shorter |-> [i \in Idx |-> IF fx[i].v = "ROUTED" THEN Cardinality({p \in fx[i].P : PathLen(g, p) < fx[i].min}) ELSE 0],
   \* how many relaxable vectors of the batch cannot be met, even alone and without the include lists
   unmet   |-> IF AllHard(batch) THEN 0
               ELSE Cardinality({k \in UnmetAlone(g, batch) : batch.relax[k] = 1}),
   strong  |-> IF batch.groups = <<>> THEN 0 ELSE IF Solutions(g, CleanBatch(batch), fx, "strong", TRUE) # {} THEN 1 ELSE 0,
   weak    |-> IF batch.groups = <<>> THEN 0 ELSE IF Solutions(g, CleanBatch(batch), fx, "weak", FALSE) # {} THEN 1 ELSE 0]
\* the diversity a synchronisation vector asks for in the service file: every kind that implies link diversity
\* (see Routing.tla) - the batch is the same, the answer must be the same
DivKinds == <<"node link", "link", "node">>
Div == [k \in 1..Len(batch.groups) |-> DivKinds[((g.id + Len(batch.reqs) + batch.reqs[1].s + 2 * k) % 3) + 1]]
Emit == phase # "request" \/
        PrintT("@@" \o ToJson([mesh |-> g.id, n |-> g.n, links |-> {<<a[1], a[2], g.len[a], a[3]>> : a \in g.arcs},
                               batch |-> batch, div |-> Div, info |-> Info]))
==============================================================================
