---------------------------- MODULE MC_OmsPartition ----------------------------
(* C15 part A, bounded: every line graph on 3 ROADM sites (each site touched by a link), every directed   *)
(* link being one of four chain kinds (the two directions may differ), at most one link one-way, and at most  *)
(* one pair of sites connected by TWO routes (parallel links on different ROADM degrees - a protection        *)
(* layout; the second route may itself be the one-way link; in a topology with parallel routes every chain is *)
(* a plain fibre or a fibre with a user amplifier, per direction: the chain kinds are varied exhaustively on   *)
(* the topologies without parallel routes).  The module builds the typed graph and its expected OMS list itself (Partition),     *)
(* states the partition clauses on it (consistency of the oracle) and hands every topology to the harness,    *)
(* which designs the real network and lets Trace_OmsMap judge build_oms_list.                                 *)
(* A directed link is <<from, to, route>>.  Pairing: the property says "opposite directions are paired"; with *)
(* parallel routes it does not say WHICH of the opposite OMS is the partner, so the oracle keeps the set of    *)
(* candidates (revs) - a singleton on both sides wherever the routes are not parallel, and then the pairing   *)
(* is an involution.                                                                                          *)
EXTENDS Integers, Sequences, FiniteSets, TLC, Json

Sites == 1..3
Pairs == {<<a, b>> \in Sites \X Sites : a < b}
Kinds == {"F", "FF", "FuF", "FAF"}       \* fibre | fibre fibre | fibre fused fibre | fibre user-amp fibre
Kinds2 == {"F", "FAF"}                   \* chain kinds in a topology with a second (parallel) route

VARIABLES links, double, oneway, dirs, kind
vars == <<links, double, oneway, dirs, kind>>
Touched == {p[1] : p \in links} \cup {p[2] : p \in links}
RoutesOf(L, D) == {<<p[1], p[2], 1>> : p \in L} \cup {<<p[1], p[2], 2>> : p \in D}
DirOf(R, O) == {<<x[1], x[2], x[3]>> : x \in R} \cup {<<x[2], x[1], x[3]>> : x \in R \ O}
Init == /\ links \in (SUBSET Pairs) \ {{}}
        /\ Touched = Sites
        /\ double \in {{}} \cup {{p} : p \in links}
        /\ oneway \in {{}} \cup {{x} : x \in RoutesOf(links, double)}
        /\ dirs = DirOf(RoutesOf(links, double), oneway)
        \* each direction has its own chain (asymmetric lines)
        /\ kind \in [dirs -> IF double = {} THEN Kinds ELSE Kinds2]
Next == FALSE /\ UNCHANGED vars

\* directed links and the chain of line elements each carries: element = <<link, position>>
Directed == dirs
KindOf(d) == kind[d]
Chain(d) == CASE KindOf(d) = "F"   -> <<"Fiber">>
              [] KindOf(d) = "FF"  -> <<"Fiber", "Fiber">>
              [] KindOf(d) = "FuF" -> <<"Fiber", "Fused", "Fiber">>
              [] KindOf(d) = "FAF" -> <<"Fiber", "Edfa", "Fiber">>
Elements == UNION {{<<d, i>> : i \in 1..Len(Chain(d))} : d \in Directed}
Opp(d) == {e \in Directed : e[1] = d[2] /\ e[2] = d[1]}          \* the OMS of the opposite direction
Par(d) == {e \in Directed : e[1] = d[1] /\ e[2] = d[2]}          \* the OMS between the same ROADMs, d included
\* expected partition: one OMS per directed link, holding exactly that link's elements; reverse = an opposite link
Partition == [d \in Directed |-> [from |-> d[1], to |-> d[2], els |-> {<<d, i>> : i \in 1..Len(Chain(d))},
                                  revs |-> Opp(d)]]

EveryElementInExactlyOneOms == \A e \in Elements : Cardinality({d \in Directed : e \in Partition[d].els}) = 1
PairingIsMutual == \A d, e \in Directed : (e \in Partition[d].revs) <=> (d \in Partition[e].revs)
OppositeEndPoints == \A d \in Directed : \A e \in Partition[d].revs :
                           Partition[e].from = Partition[d].to /\ Partition[e].to = Partition[d].from
\* without parallel routes the partner is unique and the pairing is an involution
ReverseIsInvolution == \A d \in Directed : (Cardinality(Par(d)) = 1 /\ Cardinality(Opp(d)) = 1) =>
                           \A e \in Partition[d].revs : Partition[e].revs = {d}
\* with parallel routes every one of them still has a partner as soon as one opposite OMS exists
ParallelRoutesArePaired == \A d \in Directed : \A e \in Par(d) : (Partition[d].revs = {}) <=> (Partition[e].revs = {})
OneOmsPerDirectedLink == Cardinality(DOMAIN Partition) = Cardinality(Directed)

Emit == PrintT("@@" \o ToJson([links |-> [d \in Directed |-> Chain(d)], n |-> Cardinality(Directed),
                                par |-> Cardinality(double)]))
==============================================================================
