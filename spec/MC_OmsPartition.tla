---------------------------- MODULE MC_OmsPartition ----------------------------
(* C15 part A, bounded: every line graph on 3 ROADM sites (each site touched by a link), every directed   *)
(* link being one of four chain kinds (the two directions may differ), at most one link one-way.  The module builds the typed graph and its expected    *)
(* OMS list itself (Partition), states the partition clauses on it (consistency of the oracle) and hands     *)
(* every topology to the harness, which designs the real network and lets Trace_OmsMap judge build_oms_list.  *)
EXTENDS Integers, Sequences, FiniteSets, TLC, Json

Sites == 1..3
Pairs == {<<a, b>> \in Sites \X Sites : a < b}
Kinds == {"F", "FF", "FuF", "FAF"}       \* fibre | fibre fibre | fibre fused fibre | fibre user-amp fibre

VARIABLES links, kind, oneway
vars == <<links, kind, oneway>>
Touched == {p[1] : p \in links} \cup {p[2] : p \in links}
DirOf(L, O) == {<<p[1], p[2]>> : p \in L} \cup {<<p[2], p[1]>> : p \in L \ O}
Init == /\ links \in (SUBSET Pairs) \ {{}}
        /\ Touched = Sites
        /\ oneway \in {{}} \cup {{p} : p \in links}
        /\ kind \in [DirOf(links, oneway) -> Kinds]        \* each direction has its own chain (asymmetric lines)
Next == FALSE /\ UNCHANGED vars

\* directed links and the chain of line elements each carries: element = <<a, b, position, type>>
Directed == DirOf(links, oneway)
KindOf(d) == kind[d]
Chain(d) == CASE KindOf(d) = "F"   -> <<"Fiber">>
              [] KindOf(d) = "FF"  -> <<"Fiber", "Fiber">>
              [] KindOf(d) = "FuF" -> <<"Fiber", "Fused", "Fiber">>
              [] KindOf(d) = "FAF" -> <<"Fiber", "Edfa", "Fiber">>
Elements == {<<d, i>> : d \in Directed, i \in 1..3} \cap {<<d, i>> \in Directed \X (1..3) : i <= Len(Chain(d))}
\* expected partition: one OMS per directed link, holding exactly that link's elements, reverse = the opposite link
Partition == [d \in Directed |-> [from |-> d[1], to |-> d[2], els |-> {<<d, i>> : i \in 1..Len(Chain(d))},
                                  rev |-> IF <<d[2], d[1]>> \in Directed THEN <<d[2], d[1]>> ELSE <<0, 0>>]]

EveryElementInExactlyOneOms == \A e \in Elements : Cardinality({d \in Directed : e \in Partition[d].els}) = 1
ReverseIsInvolution == \A d \in Directed : Partition[d].rev # <<0, 0>> =>
                           /\ Partition[Partition[d].rev].rev = d
                           /\ Partition[Partition[d].rev].from = Partition[d].to
                           /\ Partition[Partition[d].rev].to = Partition[d].from
OneOmsPerDirectedLink == Cardinality(DOMAIN Partition) = Cardinality(Directed)

Emit == PrintT("@@" \o ToJson([links |-> [d \in Directed |-> Chain(d)], n |-> Cardinality(Directed)]))
==============================================================================
