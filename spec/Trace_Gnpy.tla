------------------------------- MODULE Trace_Gnpy -------------------------------
(* B3 for the pipeline composition (Gnpy.tla): one trace = one real run Load -> Design -> BuildOms -> planning(),  *)
(* one event per completed stage with a snapshot:                                                             *)
(*   ev        stage name                                                                                    *)
(*   settings  integer digest of network_to_json (element settings and connections)                           *)
(*   sim       integer digest of the process-wide SimParams                                                   *)
(*   occ       number of (oms, slot) pairs marked OCCUPIED by services                                        *)
(*   omsd      integer digest of the OMS partition (element lists per OMS), 0 before it is built               *)
(*   lib       integer digest of the equipment library (transceiver modes, SI, Span and ROADM defaults)        *)
(*   req       per request [id, routed, propagated, blocked (reason or ""), holds (slots x OMS), labels]       *)
(* Monitor-shaped; the clauses are the cross-cutting invariants of Gnpy.tla evaluated on what was observed.    *)
EXTENDS GnpyBase, TLC, Json, IOUtils

T == ndJsonDeserialize(IOEnv.TRACE_FILE)
VARIABLES tid, i, viol
vars == <<tid, i, viol>>

Order == <<"Load", "Design", "BuildOms", "Aggregate", "Route", "Propagate", "Assign", "Report">>
NoPathReasons == {"NO_PATH", "NO_PATH_WITH_CONSTRAINT"}
PreAssignReasons == NoPathReasons \cup {"NO_FEASIBLE_BAUDRATE_WITH_SPACING", "NO_FEASIBLE_MODE", "MODE_NOT_FEASIBLE", "NO_COMPUTED_SNR"}

Clauses(tr, k) ==
  LET e == tr.ev[k]
      R == 1..Len(e.req)
      p == IF k > 1 THEN tr.ev[k - 1] ELSE e
  IN (IF k <= Len(Order) /\ e.ev = Order[k] THEN {} ELSE {"StagesInOrder"})
     \cup (IF k > 1 /\ e.settings # p.settings /\ e.ev # "Design" THEN {"OnlyDesignChangesSettings"} ELSE {})
     \cup (IF e.sim # tr.ev[1].sim THEN {"SimParamsUntouched"} ELSE {})
     \cup (IF k > 1 /\ e.occ # p.occ /\ e.ev # "Assign" THEN {"OnlyAssignChangesOccupancy"} ELSE {})
     \cup (IF k > 1 /\ e.occ < p.occ THEN {"OccupancyMonotone"} ELSE {})
     \cup (IF \E r \in R : e.req[r].blocked # "" /\ (e.req[r].holds # 0 \/ e.req[r].labels # 0) THEN {"BlockedHoldsNothing"} ELSE {})
     \cup (IF e.ev \in {"Assign", "Report"} /\ e.occ # SumSeq([r \in R |-> e.req[r].holds]) THEN {"OccupancyIsSumOfHoldings"} ELSE {})
     \cup (IF \E r \in R : e.req[r].blocked \in NoPathReasons /\ e.req[r].propagated THEN {"NoPathNeverPropagated"} ELSE {})
     \cup (IF \E r \in R : e.req[r].blocked \in PreAssignReasons /\ e.req[r].holds # 0 THEN {"BlockedBeforeAssignNeverAssigned"} ELSE {})
     \cup (IF e.ev \in {"Assign", "Report"} /\ (\E r \in R : e.req[r].blocked = "" /\ e.req[r].holds = 0) THEN {"ServedHoldsSomething"} ELSE {})
     \* the OMS partition is built once: no later stage may touch the element lists of the OMS (routes are built from them)
     \cup (IF k > 1 /\ p.ev # "Design" /\ p.ev # "Load" /\ e.omsd # p.omsd THEN {"OmsListFrozen"} ELSE {})
     \* the equipment library is an input of every stage
     \cup (IF e.lib # tr.ev[1].lib THEN {"LibraryUntouched"} ELSE {})
     \cup (IF e.ev = "Report" /\ (e.nres # Len(e.req) \/ \E a, b \in R : a < b /\ e.req[a].id = e.req[b].id) THEN {"ReportedOnce"} ELSE {})

Init == tid \in 1..Len(T) /\ i = 0 /\ viol = {}
Next == /\ i < Len(T[tid].ev) /\ i' = i + 1 /\ tid' = tid
        /\ viol' = viol \cup {<<i + 1, c>> : c \in Clauses(T[tid], i + 1)}
Done == i < Len(T[tid].ev) \/ PrintT("@@" \o ToJson([name |-> T[tid].name, n |-> i, viol |-> viol]))
==============================================================================
