INIT Init
NEXT Next
INVARIANT LCarriersInsidePartition
INVARIANT LOneSlotApart
INVARIANT LPartitionCount
INVARIANT LOwnAttributesOfPartition
INVARIANT LDocumentErrorsClassified
INVARIANT LAcceptedKeepsEveryCarrier
INVARIANT LFrequenciesStrictlyIncreasing
INVARIANT LSortedAndDisjoint
INVARIANT LRefusalIsExactlyOverlap
INVARIANT LRefusalIsPairwiseOverlap
INVARIANT LUnboundIsEmptyFirst
INVARIANT LDefaultsFilled
INVARIANT LLabelsDistinctPerPartition
INVARIANT LOrderOfPartitionsIrrelevant
INVARIANT LFileHasNoEmptyPartition
INVARIANT LFileAgreesWithDocument
INVARIANT LFileRefusalIsOverlapOrSchema
INVARIANT LOnlyConstructorRefusesAfterDocument
INVARIANT LBaudWiderRefusedAtLaunchOnly
INVARIANT LLaunchFindsNoOverlapAfterDocument
INVARIANT LLaunchedAsWritten
INVARIANT LRequestPowerIrrelevant
INVARIANT LUniformCombFitsBand
INVARIANT LCombIsPartitionOneSpacingUp
INVARIANT LCombAttributes
INVARIANT LCombRefusals
INVARIANT LCombIgnoresCountAndPower
INVARIANT Emit
