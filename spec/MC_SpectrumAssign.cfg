CONSTANTS
  NMin <- MCNMin
  NMax <- MCNMax
  IdxMin <- MCIdxMin
  IdxMax <- MCIdxMax
  OMS <- MCOMS
  Unusable <- MCUnusable
  Templates <- MCTemplates
  MaxHist = 4
  Policy = "first_fit"
INIT Init
NEXT Next
INVARIANT TypeOK
INVARIANT NoDoubleBooking
INVARIANT InsideBandAndGuards
INVARIANT EnoughSlots
INVARIANT OccupancyIsUnionOfServed
INVARIANT BlockedChangesNothing
INVARIANT UserFixedHonouredOrBlocked
INVARIANT FirstFitIsLowest
INVARIANT LastFitIsHighest
INVARIANT FreeSlotServedWhenFeasible
INVARIANT SameOnEveryOms
PROPERTY CoreStep
