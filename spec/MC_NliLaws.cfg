CONSTANTS
  Chan <- MCChan
  Eta <- MCEta
  MaxP = 12
  MaxSteps = 4
INIT Init
NEXT Next
INVARIANT NonNegative
INVARIANT CubeLaw
INVARIANT MonotoneInComb
INVARIANT MonotoneInPower
INVARIANT Superposition
