------------------------- MODULE MC_RequestResolution -------------------------
(* Bounded instance of RequestResolution.tla.  Function-shaped: every initial state is ONE request document entry     *)
(* resolved against one of two libraries (same transceivers, SI without / with tx_power_dbm); `o` is its outcome.       *)
(* The lemmas are invariants; Emit prints [c |-> case, e |-> expected outcome] for the replay into the real             *)
(* gnpy.tools.json_io.requests_from_json (harness/resolution_util.py).  The library itself is printed once (Header),     *)
(* so that the harness builds the equipment document from the specification and not from a copy of it.                  *)
EXTENDS RequestResolution, TLC, Json

GHz(x)  == x * 1000                  \* MHz
THz(x)  == x * 1000000               \* MHz  (x may carry decimals as a separate term: THz(191) + GHz(350))
dB(x)   == x * 1000000               \* micro-dB / micro-dBm

(* trxA: the C band 191.35 - 196.10 THz.  m100 may be used from 37.5 GHz, m200 from 75 GHz (above two of the three      *)
(*       spacings of the vocabulary) and carries an equalisation offset, mbad is a library slip (baud > min_spacing).     *)
(* trxB: a narrow 400 GHz range 191.35 - 191.75 THz (40 GHz fits exactly 10 times, 37.5 and 75 GHz leave a rest);       *)
(*       its m100 has the SAME NAME as trxA's but other values and a min_spacing of 40 GHz.                              *)
Mode(baud, minsp, bitrate, osnr, cost, txosnr, rolloff, offset) ==
    [baud |-> baud, minsp |-> minsp, bitrate |-> bitrate, osnr |-> osnr, cost |-> cost, txosnr |-> txosnr,
     rolloff |-> rolloff, offset |-> offset]
Lib == [trxA |-> [fmin |-> THz(191) + GHz(350), fmax |-> THz(196) + GHz(100),
                  modes |-> [m100 |-> Mode(GHz(32), 37500, 100, dB(11), 1, dB(40), 150, 0),
                             m200 |-> Mode(GHz(64), GHz(75), 200, dB(15), 2, dB(38), 150, 0 - dB(2)),
                             mbad |-> Mode(GHz(40), 37500, 100, dB(12), 1, dB(40), 150, 0)]],
        trxB |-> [fmin |-> THz(191) + GHz(350), fmax |-> THz(191) + GHz(750),
                  modes |-> [m100 |-> Mode(GHz(31), GHz(40), 100, dB(12), 3, dB(36), 200, dB(1)),
                             m200 |-> Mode(GHz(60), GHz(75), 200, dB(17), 4, dB(37), 100, 0)]]]
\* SI: power_dbm = 1 dBm; without / with tx_power_dbm = -1 dBm (all four power sources carry different values)
SIs == << [power |-> dB(1), txpower |-> NONE], [power |-> dB(1), txpower |-> 0 - dB(1)] >>
Header == PrintT("@@" \o ToJson([lib |-> Lib, sis |-> SIs]))
ASSUME Header

-----------------------------------------------------------------------------
(* the vocabulary *)
Spacings   == {37500, GHz(40), GHz(75)}
Powers     == {NONE, dB(2)}
TxPowers   == {NONE, dB(3)}
Bandwidths == {100, 300}
\* channel count: none, small, exactly the largest that fits, one too many
NchVocab(type, sp) == IF type \in DOMAIN Lib
                      THEN LET fit == AutomaticNch(Lib[type].fmin, Lib[type].fmax, sp) IN {NONE, 2, fit, fit + 1}
                      ELSE {NONE, 2}
S(n, m) == [N |-> n, M |-> m]
L(s)    == [sk |-> "list", slots |-> s]
\* per-channel M is 3 / 4 / 6 at 37.5 / 40 / 75 GHz
SlotVocab == {[sk |-> "absent", slots |-> <<>>], [sk |-> "null", slots |-> <<>>],
              L(<<S(0, 8)>>),                         \* one fixed slot: 2 / 2 / 1 channels
              L(<<S(0, 12)>>),                        \* 4 / 3 / 2 channels
              L(<<S(NONE, 8)>>),                      \* width without centre
              L(<<S(0, 2)>>),                         \* M below every per-channel M: no channel
              L(<<S(0, NONE)>>),                      \* centre without width
              L(<<S(8, 4), S(0, 4)>>),                \* two adjacent slots, written in descending order: -4..3 and 4..11
              L(<<S(0, 4), S(7, 4)>>),                \* two slots sharing exactly one index: -4..3 and 3..10
              L(<<S(0 - 3, 6), S(0 - 3, 6)>>),        \* the same slot twice
              L(<<S(0, 4), S(7, 4), S(40, NONE)>>),   \* overlapping fixed slots next to one slot without width
              L(<<S(NONE, 6), S(NONE, 6)>>),          \* two widths without centre
              L(<<S(20, 6), S(0, 4), S(9, 4)>>)}      \* three disjoint slots out of order: -4..3, 5..12, 14..25
Case(si, ty, mo, sp, n, p, tp, b, sl) ==
    [si |-> si, type |-> ty, mode |-> mo, spacing |-> sp, nch |-> n, power |-> p, txpower |-> tp, bw |-> b,
     sk |-> sl.sk, slots |-> sl.slots]

\* every request over the vocabulary for the (type, mode) pairs the library resolves
GoodPairs == {<<"trxA", NoName>>, <<"trxA", "m100">>, <<"trxA", "m200">>,
              <<"trxB", NoName>>, <<"trxB", "m100">>, <<"trxB", "m200">>}
FullCases == UNION {UNION {{Case(si, tm[1], tm[2], sp, n, p, tp, b, sl) :
                               si \in 1..2, n \in NchVocab(tm[1], sp), p \in Powers, tp \in TxPowers,
                               b \in Bandwidths, sl \in SlotVocab} : sp \in Spacings} : tm \in GoodPairs}
\* the pairs the library refuses (whatever else the request says) and the request without a type: a thinner vocabulary
BadPairs == {<<"trxA", "mbad">>, <<"trxA", "m400">>, <<"trxB", "mbad">>, <<"trxB", "m400">>,
             <<"trxC", NoName>>, <<"trxC", "m100">>, <<NoName, NoName>>, <<NoName, "m100">>}
ThinCases == UNION {UNION {{Case(si, tm[1], tm[2], sp, n, p, NONE, 100, sl) :
                               si \in 1..2, n \in NchVocab(tm[1], sp), p \in Powers,
                               sl \in {x \in SlotVocab : x.sk = "absent" \/ x.slots \in {<<S(0, 8)>>, <<S(0, 4), S(7, 4)>>}}} :
                            sp \in {37500, GHz(75)}} : tm \in BadPairs}
Cases == FullCases \cup ThinCases

VARIABLES c, o
Init == /\ c \in Cases
        /\ o = Outcome(Lib, SIs[c.si], c)
Next == UNCHANGED <<c, o>>

-----------------------------------------------------------------------------
(* the lemmas of RequestResolution.tla on this case *)
LErrorsClassified            == ErrorsClassified(o)
LLibraryErrorsFirst          == LibraryErrorsFirst(Lib, c, o)
LRangeIsTheTypes             == RangeIsTheTypes(Lib, c, o)
LNbChannelFitsBand           == NbChannelFitsBand(Lib, c, o)
LNbChannelFitsBandWhenAutomatic == NbChannelFitsBandWhenAutomatic(Lib, c, o)
LAutomaticFillsBand          == AutomaticFillsBand(Lib, c, o)
LGivenCountSetsFmax          == GivenCountSetsFmax(c, o)
LModeGivesAllOrNothing       == ModeGivesAllOrNothing(o)
LSpacingRespectsMode         == SpacingRespectsMode(o)
LPowerAlwaysDefined          == PowerAlwaysDefined(o)
LPowerPrecedence             == PowerPrecedence(SIs[c.si], c, o)
LSlotsAsWritten              == SlotsAsWritten(c, o)
LFixedSlotsCanCarryBandwidth == FixedSlotsCanCarryBandwidth(o)
LAcceptedFixedSlotsDisjoint  == AcceptedFixedSlotsDisjoint(o)
LConsecutiveTestIsPairwise   == ConsecutiveTestIsPairwise(o)

Emit == PrintT("@@" \o ToJson([c |-> c, e |-> o]))

-----------------------------------------------------------------------------
(* Checked once, before the search: every rule fires, every lemma's antecedent is met (no vacuous clause), and the       *)
(* SURPRISES recorded in RequestResolution.tla are real on this instance.                                               *)
\* every case with its outcome, computed once
Resolved == {[x |-> x, r |-> Outcome(Lib, SIs[x.si], x)] : x \in Cases}
Rules == {"NoType", "UnknownType", "UnknownMode", "BaudAboveMinSpacing", "SpacingBelowMin", "TooManyChannels",
          "NotEnoughSlots", "Overlap"}
EveryRuleFires == \A rule \in Rules : \E w \in Resolved : ~Ok(w.r) /\ w.r.rule = rule
CanCheckSlots(r) == Ok(r) /\ Named(r) /\ r.hasSlots /\ AllMGiven(r.M)
NonVacuous ==
    /\ \E w \in Resolved : Ok(w.r) /\ Named(w.r) /\ w.x.nch # NONE                                  \* NbChannelFitsBand
    /\ \E w \in Resolved : Ok(w.r) /\ w.x.nch = NONE                                                \* AutomaticFillsBand
    /\ \E w \in Resolved : Ok(w.r) /\ Named(w.r) /\ w.x.nch # NONE /\ w.r.fmax = Lib[w.x.type].fmax   \* exact fit accepted
    /\ \E w \in Resolved : Ok(w.r) /\ ~Named(w.r)
    /\ \E w \in Resolved : Ok(w.r) /\ Named(w.r) /\ w.r.minsp = w.r.spacing                         \* equality accepted
    /\ \E w \in Resolved : CanCheckSlots(w.r) /\ Cardinality(FixedIdx(w.r.N)) >= 2                  \* disjointness
    /\ \E w \in Resolved : CanCheckSlots(w.r) /\ SupportedChannels(w.r.M, PerChannelM(w.r.spacing))
                                                    = RequiredChannels(w.r.bw, w.r.bitrate)          \* capacity, just enough
Surprises ==
    \* no mode named: a comb that overflows the transceiver's range is accepted
    /\ \E w \in Resolved : Ok(w.r) /\ ~Named(w.r) /\ w.r.fmax > Lib[w.x.type].fmax
    \* no mode named: overlapping slots of any width are accepted
    /\ \E w \in Resolved : Ok(w.r) /\ ~Named(w.r) /\ AllMGiven(w.r.M) /\ OverlapPairwise(w.r.N, w.r.M)
    \* a named mode and two overlapping fixed slots, accepted because a third slot has no M
    /\ \E w \in Resolved : Ok(w.r) /\ Named(w.r) /\ Len(w.r.M) = 3 /\ w.r.M[3] = NONE
                               /\ OverlapPairwise(SubSeq(w.r.N, 1, 2), SubSeq(w.r.M, 1, 2))
    \* a named mode and a fixed centre without any width: accepted, nothing can be checked
    /\ \E w \in Resolved : Ok(w.r) /\ Named(w.r) /\ w.r.hasSlots /\ Len(w.r.M) = 1 /\ w.r.M[1] = NONE /\ w.r.N[1] # NONE
    \* the SI's tx_power_dbm wins over the request's own output-power
    /\ \E w \in Resolved : Ok(w.r) /\ w.x.power # NONE /\ w.x.txpower = NONE /\ w.r.txpower # w.r.power
    \* effective-freq-slot: null -> a PathRequest without slot lists, nothing checked
    /\ \E w \in Resolved : Ok(w.r) /\ Named(w.r) /\ ~w.r.hasSlots
ASSUME EveryRuleFires
ASSUME NonVacuous
ASSUME Surprises
==============================================================================
