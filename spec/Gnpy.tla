--------------------------------- MODULE Gnpy ---------------------------------
(* The GNPy planning pipeline as one state machine - the composition the per-property modules plug into:        *)
(*                                                                                                          *)
(*   Load -> Design -> BuildOms -> Aggregate -> Route(r)* -> Propagate(r)* -> Assign(r)* -> Report(r)*        *)
(*                                                                                                          *)
(* (worker_utils.designed_network, spectrum_assignment.build_oms_list, request.requests_aggregation,          *)
(*  compute_path_dsjctn, compute_path_with_disjunction, pth_assign_spectrum, ResultElement).                  *)
(* The code runs the stages batch-wise: every request is routed before any is propagated, and so on.          *)
(* Load itself is refined by three function-shaped modules (one input -> one outcome, no state):              *)
(*   NetworkLoad       topology document + library -> network graph            (json_io.network_from_json)     *)
(*   RequestResolution service entry + library     -> PathRequest / refusal    (json_io.requests_from_json)    *)
(*   SpectrumDocument  spectrum document / request -> launched carriers        (json_io._spectrum_from_json,   *)
(*                                                                               request.propagate up to filter)  *)
(* and Documents / Workbook say when two documents (legacy / YANG / workbook) are the same input.               *)
(* The state is abstract: what matters here is WHICH stage may change WHAT, and what a blocked request may    *)
(* still acquire.  Details of each stage live in DesignStructure/DesignPower (Design), OmsMap (BuildOms),     *)
(* Routing (Route), Feasibility/PowerLedger/LineElements (Propagate), SpectrumAssign (Assign), Planning       *)
(* (Report).  Cross-cutting clauses stated here:                                                              *)
(*   OnlyDesignChangesSettings, OnlyAssignChangesOccupancy, SimParamsUntouched, OccupancyMonotone,            *)
(*   StagesInOrder, BlockedNeverAdvances (a request blocked at routing is not propagated; a blocked request   *)
(*   never holds spectrum nor labels), ReportedOnce; on recorded runs also OmsListFrozen (the OMS partition   *)
(*   is built once and no later stage touches it) and LibraryUntouched (the equipment library is an input).   *)
EXTENDS GnpyBase, TLC

CONSTANTS Req,          \* request identifiers of the batch
          MaxSlots,     \* abstract spectrum budget per request
          Redesign      \* pipeline variant --redesign-per-request: the propagation stage designs the amplifiers of each
                        \* request's route again before propagating it (refined by Planning.tla, variant Redesign)

Stages == <<"init", "loaded", "designed", "oms", "aggregated", "routed", "propagated", "assigned", "reported">>
StageNo(s) == CHOOSE i \in 1..Len(Stages) : Stages[i] = s

VARIABLES stage,      \* batch stage (the last completed one)
          settings,   \* version counter of the network's element settings
          sim,        \* version counter of the process-wide SimParams
          occ,        \* total number of occupied (oms, slot) pairs
          st,         \* [Req -> per-request progress: "new","routed","propagated","assigned","reported"]
          blocked,    \* [Req -> "" or the blocking reason]
          holds,      \* [Req -> number of slots held]
          last        \* [ev, settings, sim, occ] before the last step (for action-shaped clauses)
vars == <<stage, settings, sim, occ, st, blocked, holds, last>>

NoPathReasons == {"NO_PATH", "NO_PATH_WITH_CONSTRAINT"}
PropReasons   == {"NO_FEASIBLE_BAUDRATE_WITH_SPACING", "NO_FEASIBLE_MODE", "MODE_NOT_FEASIBLE", "NO_COMPUTED_SNR"}
AssignReasons == {"NO_SPECTRUM", "NOT_ENOUGH_RESERVED_SPECTRUM"}

Init == /\ stage = "init" /\ settings = 0 /\ sim = 0 /\ occ = 0
        /\ st = [r \in Req |-> "new"] /\ blocked = [r \in Req |-> ""] /\ holds = [r \in Req |-> 0]
        /\ last = [ev |-> "init", settings |-> 0, sim |-> 0, occ |-> 0]
Mark(ev) == last' = [ev |-> ev, settings |-> settings, sim |-> sim, occ |-> occ]

Load      == stage = "init" /\ stage' = "loaded" /\ Mark("Load") /\ UNCHANGED <<settings, sim, occ, st, blocked, holds>>
\* Design rewrites the graph and sets every amplifier: the only step allowed to change settings.  It may use
\* SimParams internally (Raman gain estimate) but must leave them as found.
Design    == stage = "loaded" /\ stage' = "designed" /\ settings' = settings + 1 /\ Mark("Design")
             /\ UNCHANGED <<sim, occ, st, blocked, holds>>
BuildOms  == stage = "designed" /\ stage' = "oms" /\ Mark("BuildOms") /\ UNCHANGED <<settings, sim, occ, st, blocked, holds>>
Aggregate == stage = "oms" /\ stage' = "aggregated" /\ Mark("Aggregate") /\ UNCHANGED <<settings, sim, occ, st, blocked, holds>>

\* batch-wise stages: each takes every request one step further (or blocks it)
RouteAll == /\ stage = "aggregated" /\ stage' = "routed" /\ Mark("Route")
            /\ \E B \in SUBSET Req : \E why \in [B -> NoPathReasons] :
                   /\ blocked' = [r \in Req |-> IF r \in B THEN why[r] ELSE blocked[r]]
                   /\ st' = [r \in Req |-> "routed"]
            /\ UNCHANGED <<settings, sim, occ, holds>>
PropagateAll == /\ stage = "routed" /\ stage' = "propagated" /\ Mark("Propagate")
                /\ \E B \in SUBSET {r \in Req : blocked[r] = ""} : \E why \in [B -> PropReasons] :
                       /\ blocked' = [r \in Req |-> IF r \in B THEN why[r] ELSE blocked[r]]
                       \* a request without a path is not propagated: it stays "routed"
                       /\ st' = [r \in Req |-> IF blocked[r] \in NoPathReasons THEN st[r] ELSE "propagated"]
                \* the redesign option is the one case in which a stage other than Design touches the settings - and
                \* only when some request has a route to redesign
                /\ IF Redesign /\ \E r \in Req : blocked[r] \notin NoPathReasons
                   THEN settings' \in {settings, settings + 1} ELSE settings' = settings
                /\ UNCHANGED <<sim, occ, holds>>
AssignAll == /\ stage = "propagated" /\ stage' = "assigned" /\ Mark("Assign")
             /\ \E B \in SUBSET {r \in Req : blocked[r] = ""} : \E why \in [B -> AssignReasons] :
                \E h \in [{r \in Req : blocked[r] = ""} \ B -> 1..MaxSlots] :
                    /\ blocked' = [r \in Req |-> IF r \in B THEN why[r] ELSE blocked[r]]
                    /\ holds' = [r \in Req |-> IF r \in DOMAIN h THEN h[r] ELSE 0]
                    /\ occ' = occ + SumFun(h, DOMAIN h)
                    /\ st' = [r \in Req |-> IF blocked[r] = "" THEN "assigned" ELSE st[r]]
             /\ UNCHANGED <<settings, sim>>
ReportAll == /\ stage = "assigned" /\ stage' = "reported" /\ Mark("Report")
             /\ st' = [r \in Req |-> "reported"]
             /\ UNCHANGED <<settings, sim, occ, blocked, holds>>

Next == Load \/ Design \/ BuildOms \/ Aggregate \/ RouteAll \/ PropagateAll \/ AssignAll \/ ReportAll
Spec == Init /\ [][Next]_vars

-----------------------------------------------------------------------------
OnlyDesignChangesSettings  == settings # last.settings => (last.ev = "Design" \/ (Redesign /\ last.ev = "Propagate"))
OnlyAssignChangesOccupancy == occ # last.occ => last.ev = "Assign"
OccupancyMonotone          == occ >= last.occ
SimParamsUntouched         == sim = 0
BlockedHoldsNothing        == \A r \in Req : blocked[r] # "" => holds[r] = 0
OccupancyIsSumOfHoldings   == occ = SumFun(holds, Req)
NoPathNeverPropagated      == \A r \in Req : blocked[r] \in NoPathReasons => st[r] \in {"routed", "reported"}
BlockedBeforeAssignNeverAssigned == \A r \in Req : blocked[r] \in (NoPathReasons \cup PropReasons) => st[r] # "assigned"
ServedHoldsSomething       == \A r \in Req : (stage \in {"assigned", "reported"} /\ blocked[r] = "") => holds[r] > 0
TypeOK == stage \in SeqRange(Stages) /\ settings \in 0..2 /\ (~Redesign => settings \in 0..1) /\ occ \in Nat
==============================================================================
