------------------------------- MODULE MC_OmsMap -------------------------------
EXTENDS OmsMap, Json
MCIds == {1, 2, 3}
MCExtents == {<<-4, 3>>, <<-2, 5>>, <<-6, -1>>, <<0, 2>>}
\* emission for B2: the aligned state with what it came from
Emit == phase # "aligned" \/ PrintT("@@" \o ToJson([before |-> [o \in Ids |-> [lo |-> before[o].nmin, hi |-> before[o].nmax, val |-> before[o].val]],
                                                     after |-> [o \in Ids |-> [lo |-> maps[o].nmin, hi |-> maps[o].nmax, idx |-> maps[o].idx, val |-> maps[o].val,
                                                                                pos |-> [i \in 1..Len(maps[o].idx) |-> i - 1]]],
                                                     post |-> post]))
==============================================================================
