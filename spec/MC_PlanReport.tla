--------------------------- MODULE MC_PlanReport ---------------------------
(* Bounded model for the report part of C19 (function-shaped: every initial state is one outcome record, the single   *)
(* step Report computes the response entry and its CSV row).  Outcomes: served + every blocking reason, x uni / bi-    *)
(* directional, x single / aggregated pair, x one / two frequency slots, x lowest SNR just below / on / just above the *)
(* margin-inclusive threshold.  Each clause of PlanningOps is an invariant of the computed entry / row; the Emit line   *)
(* feeds the spec -> code replay (real ResultElement.json and jsontocsv) and carries the antecedent flags used for     *)
(* the vacuity check.                                                                                                 *)
EXTENDS PlanningOps, Json

VARIABLES o, e, row
vars == <<o, e, row>>

\* two equipment libraries that define the SAME transponder type / mode name with different figures (the shipped one
\* and an operator's): what a row states must come from the library the export was given
MI(lib) == IF lib = 1 THEN [osnr |-> 1200, margin |-> 200, baud |-> 3200, bitrate |-> 10000, cost |-> 100]
           ELSE [osnr |-> 1350, margin |-> 200, baud |-> 3200, bitrate |-> 10000, cost |-> 300]
ThrU(lib) == (MI(lib).osnr + MI(lib).margin) * 10000      \* margin-inclusive threshold in micro-dB
Route == <<"trx A", "roadm A", "booster A", "fiber A-B", "preamp B", "roadm B", "trx B">>
Rx(minsnr, shift) ==
    [snrbw |-> 19583000 + shift, snr01 |-> minsnr + 50000, osnrbw |-> 22117000 + shift, osnr01 |-> 26198000 + shift,
     snrmin |-> minsnr, snrmax |-> minsnr + 120000, pdl |-> NONE, cd |-> 312000 - (shift \div 10), pmd |-> NONE]
NoRx == [k \in MetricKeys |-> NONE]

Outcome(reason, bidir, agg, nslots, dsnr, lib, cdinf) ==
    LET path == reason \notin NoPathFamily IN
    [members |-> IF agg THEN <<[id |-> "r1", bw |-> 10000, key |-> "k", bidir |-> bidir],
                               [id |-> "r2", bw |-> 30000, key |-> "k", bidir |-> bidir]>>
                 ELSE <<[id |-> "r1", bw |-> 10000, key |-> "k", bidir |-> bidir]>>,
     reason |-> reason,
     raised |-> IF reason = "" THEN <<>>                      \* a bidirectional request blocked by the mode judgement
                ELSE IF bidir /\ reason \in NoModeFamily      \* also fails the reverse check: two reasons are raised
                     THEN <<reason, "MODE_NOT_FEASIBLE">> ELSE <<reason>>,
     route |-> IF path THEN Route ELSE <<>>, type |-> "Voyager", mode |-> "mode 1",
     nm |-> IF reason # "" THEN <<>> ELSE IF nslots = 1 THEN <<<<-284, 4>>>> ELSE <<<<-284, 4>>, <<12, 8>>>>,
     bidir |-> bidir, hasRev |-> bidir /\ path,
     \* cdinf: at least one carrier is beyond the CD tolerance of the mode - the receiver's mean penalty is infinite
     rx |-> IF path THEN [Rx(ThrU(lib) + dsnr, 0) EXCEPT !.cd = IF cdinf THEN Inf ELSE @] ELSE NoRx,
     rxRev |-> IF path /\ bidir THEN [Rx(ThrU(lib) + dsnr - 230000, -410000) EXCEPT !.cd = IF cdinf THEN Inf ELSE @]
               ELSE NoRx,
     power |-> 1258925, powerudbm |-> 1000000, mi |-> MI(lib)]

Outcomes == {Outcome(r, b, a, n, d, l, FALSE) : l \in {1, 2}, r \in {""} \cup Reasons, b \in BOOLEAN, a \in BOOLEAN, n \in {1, 2},
                                      d \in {-6000, 0, 6000}}
            \cup {Outcome(r, b, FALSE, 1, 0, 1, TRUE) : r \in NoModeFamily, b \in BOOLEAN}

Init == o \in Outcomes /\ e = <<>> /\ row = <<>>
Report == /\ e = <<>>
          /\ e' = ReportEntry(o)
          /\ row' = CsvRow(o, ReportEntry(o))
          /\ o' = o
Next == Report
Done == e # <<>>

\* one invariant per clause (PlanningOps)
IdIsJoinedIdInv               == Done => IdIsJoinedId(o, e)
BandwidthIsSumInv             == Done => BandwidthIsSum(o, e)
ServedHasPathPropertiesInv    == Done => ServedHasPathProperties(o, e)
NoPathOnlyReasonInv           == Done => NoPathOnlyReason(o, e)
BlockedCarriesReasonInv       == Done => BlockedCarriesReason(o, e)
ReasonIsFirstRaisedInv        == Done => ReasonIsFirstRaised(o, e)
RouteHopByHopInv              == Done => RouteHopByHop(o, e)
LabelsEqualNMInv              == Done => LabelsEqualNM(o, e)
NoLabelWhenBlockedInv         == Done => NoLabelWhenBlocked(o, e)
TransponderTypeAndModeInv     == Done => TransponderTypeAndMode(o, e)
ObjectOrderInv                == Done => ObjectOrder(o, e)
MetricsEqualReceiverInv       == Done => MetricsEqualReceiver(o, e)
ReverseIffBidirInv            == Done => ReverseIffBidir(o, e)
ReverseFromReverseReceiverInv == Done => ReverseFromReverseReceiver(o, e)
CsvNoPathOnlyReasonInv        == Done => CsvNoPathOnlyReason(o, e, row)
CsvStatesSameInv              == Done => CsvStatesSame(o, e, row)
CsvLibraryFiguresInv          == Done => CsvLibraryFigures(o, e, row)
CsvPassFlagInv                == Done => CsvPassFlag(o, e, row)
CsvBandwidthAndCostInv        == Done => CsvBandwidthAndCost(o, e, row)
\* the pass flag really is decided by the margin-inclusive threshold: all three verdict situations occur
PassFlagMeaning == (Done /\ IsServed(o)) => (row.passf = "True") = (Centi(o.rx.snrmin) >= Thr(o))
\* a forward figure never shows up in the reverse block (the two receivers differ in this model)
ReverseIsNotForward == (Done /\ e.hasZA) => e.za.snr01 # e.metric.snr01

Emit == ~Done \/ PrintT("@@" \o ToJson([o |-> o, e |-> e, row |-> row]))
==============================================================================
