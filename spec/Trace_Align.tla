------------------------------- MODULE Trace_Align -------------------------------
(* B3 for C15's alignment clause on maps that come out of the real build_oms_list: the OMS list of a designed       *)
(* network is built, some slots are occupied, ONE map is given another (wider or shifted) extent through             *)
(* OMS.update_spectrum, and align_grids is run on the whole list.  OmsMap.Align says what must come out:             *)
(*   every map covers the hull of the extents it was given; its index axis is that range, each index once, one       *)
(*   value per index; every value it had stays at its index; what was added is not assignable.                        *)
(* record: [name, before |-> seq of [lo, hi, runs], after |-> seq of [lo, hi, n, naxis, uniq, runs]]                  *)
(*   runs = sequence of <<first index, last index, "F" | "O" | "U">> in position order                               *)
EXTENDS GnpyBase, TLC, Json, IOUtils

T == ndJsonDeserialize(IOEnv.TRACE_FILE)
VARIABLES tid, done
vars == <<tid, done>>

ValAt(runs, k) == LET R == {r \in 1..Len(runs) : runs[r][1] <= k /\ k <= runs[r][2]}
                  IN IF R = {} THEN "?" ELSE runs[CHOOSE r \in R : TRUE][3]
Chain(m) == /\ Len(m.runs) >= 1
            /\ \A r \in 1..Len(m.runs) : m.runs[r][1] <= m.runs[r][2]
            /\ \A r \in 1..(Len(m.runs) - 1) : m.runs[r + 1][1] = m.runs[r][2] + 1
            /\ m.lo = m.runs[1][1] /\ m.hi = m.runs[Len(m.runs)][2]
M(t) == 1..Len(t.before)
HullLo(t) == SetMin({t.before[k].lo : k \in M(t)})
HullHi(t) == SetMax({t.before[k].hi : k \in M(t)})

SameNumberOfMaps(t) == Len(t.after) = Len(t.before)
CoversTheHull(t)    == \A k \in M(t) : t.after[k].lo = HullLo(t) /\ t.after[k].hi = HullHi(t)
AxisIsTheSlotRange(t) == \A k \in M(t) : LET a == t.after[k] IN
                            /\ Chain(a) /\ a.n = a.hi - a.lo + 1 /\ a.naxis = a.n /\ a.uniq = a.naxis
ContentKept(t)      == \A k \in M(t) : \A i \in (t.before[k].lo)..(t.before[k].hi) :
                            ValAt(t.after[k].runs, i) = ValAt(t.before[k].runs, i)
\* what alignment adds lies outside the band the map was built for: never assignable (the code marks it occupied)
PaddingNotFree(t)   == \A k \in M(t) : \A i \in (t.after[k].lo)..(t.after[k].hi) :
                            (i < t.before[k].lo \/ i > t.before[k].hi) => ValAt(t.after[k].runs, i) \in {"U", "O"}

Clauses(t) == (IF SameNumberOfMaps(t) THEN {} ELSE {"SameNumberOfMaps"})
   \cup (IF SameNumberOfMaps(t) /\ ~CoversTheHull(t) THEN {"CoversTheHull"} ELSE {})
   \cup (IF SameNumberOfMaps(t) /\ ~AxisIsTheSlotRange(t) THEN {"AxisIsTheSlotRange"} ELSE {})
   \cup (IF SameNumberOfMaps(t) /\ ~ContentKept(t) THEN {"ContentKept"} ELSE {})
   \cup (IF SameNumberOfMaps(t) /\ ~PaddingNotFree(t) THEN {"PaddingNotFree"} ELSE {})

Init == tid \in 1..Len(T) /\ done = FALSE
Next == ~done /\ done' = TRUE /\ UNCHANGED tid
Done == ~done \/ PrintT("@@" \o ToJson([name |-> T[tid].name, viol |-> Clauses(T[tid])]))
==============================================================================
