------------------------------ MODULE NetworkLoad ------------------------------
(* NETWORK LOADING: how a topology document plus the equipment library become the network graph that auto-design       *)
(* then completes - or the load is refused.                                                                            *)
(*   gnpy.tools.json_io.network_from_json / _cls_for / merge_equalization, gnpy.core.utils.merge_amplifier_restrictions *)
(*   / use_pmd_coef / convert_length, and the constructors the loader calls: gnpy.core.elements.{Transceiver, Fused,    *)
(*   Fiber, RamanFiber, Edfa, Roadm} with gnpy.core.parameters.{FiberParams, EdfaParams, EdfaOperational, RoadmParams,  *)
(*   FusedParams, TransceiverParams} as far as they accept, refuse or DEFAULT a parameter at construction.              *)
(* Function-shaped:  Load(lib, doc)  is EITHER [status |-> "error", kind, rule]  OR  [status |-> "ok", nodes, edges].  *)
(*                                                                                                                    *)
(* A JSON OBJECT is a Dict  [val |-> key -> scalar, sub |-> key -> Dict] : the keys holding a number, a name, a list or *)
(* null live in val, the keys holding an object live in sub (TLC cannot ask a value for its type, the split says it).   *)
(* null / Python's None is NONE (GnpyBase); a key that is not written is simply not in the DOMAIN.                      *)
(*                                                                                                                    *)
(* Units (integers, every vocabulary value exact):                                                                     *)
(*   length            the document's own number, length_units = METRES PER UNIT (1 = "m", 1000 = "km", else unknown)   *)
(*   loss_coef         milli-dB/km in the document = micro-dB/m in the loaded fibre (the same integer)                  *)
(*   att_in con_in con_out loss gain_* p_max add_drop_osnr pdl target_pch_out_db operational.*      milli-dB / milli-dBm *)
(*   dispersion 1e-8 s/m/m    effective_area 1e-13 m2    pmd_coef 1e-18 s/sqrt(m)    Roadm pmd 1e-15 s                  *)
(*   target_psd_out_mWperGHz, target_out_mWperSlotWidth  1e-6 mW    f_min f_max frequency  GHz    booleans 0 / 1         *)
(*   edge weight       centimetres (the loader's 0.01 m default is 1)                                                   *)
(*                                                                                                                    *)
(* lib : [Fiber, RamanFiber, Edfa, Roadm, Transceiver], each  variety -> Dict  = the __dict__ of the loaded library     *)
(*        entry, i.e. AFTER the equipment loader applied its own defaults (Fiber: pmd_coef 0, effective_area None).     *)
(* el  : [uid, type, variety, hasParams, params, hasOper, oper]      one entry of "elements"                            *)
(*          variety   the written type_variety ("" is a written empty string) or NoName when the key is absent          *)
(* doc : [elements |-> sequence of el, connections |-> sequence of [from, to]]                                          *)
EXTENDS GnpyBase, TLC

NoName == "-"
CE  == "ConfigurationError"
NTE == "NetworkTopologyError"
PE  == "ParametersError"
TE  == "TypeError"
Err(kind, rule) == [status |-> "error", kind |-> kind, rule |-> rule]
Ok(p)           == [status |-> "ok", p |-> p]
IsOk(r)         == r.status = "ok"

-----------------------------------------------------------------------------
(* JSON objects *)
NoKeys          == [k \in {} |-> NONE]                                         \* the object {} (<< >> is kept for the list [])
Dict(val, sub)  == [val |-> val, sub |-> sub]
Leaf(val)       == Dict(val, NoKeys)
EmptyDict       == Leaf(NoKeys)
Keys(d)         == DOMAIN d.val \cup DOMAIN d.sub
Has(d, k)       == k \in Keys(d)
Get(d, k, dflt) == IF k \in DOMAIN d.val THEN d.val[k] ELSE dflt                \* kwargs.get(k, dflt): a written null is returned
With(d, k, x)   == Dict((k :> x) @@ d.val, d.sub)                               \* d[k] = x
Without(d, K)   == Dict([k \in DOMAIN d.val \ K |-> d.val[k]], [k \in DOMAIN d.sub \ K |-> d.sub[k]])
Falsy(x)        == x = NONE \/ x = 0                                            \* Python's `not x` for a number or None

(* merge_amplifier_restrictions(dict1 = config, dict2 = library): "use config params preferably to library params, only  *)
(* use library params to fill in the missing attribute".  Key by key over the library's keys:                            *)
(*   key not in config           -> the library's value is copied                                                        *)
(*   key in config, an object    -> merged recursively with the library's object                                        *)
(*   key in config, anything else-> the config's value stays: a number, 0, a list, and also a written null               *)
(* Keys of the config the library does not know are kept.  (An object in the config facing a NUMBER in the library would  *)
(* make Python iterate over a float - TypeError; Mergeable excludes it, no vocabulary case does that.)                   *)
RECURSIVE Merge(_, _)
Merge(config, library) ==
    LET gaps == Keys(library) \ Keys(config) IN
    Dict([k \in DOMAIN config.val \cup (gaps \cap DOMAIN library.val) |->
              IF k \in DOMAIN config.val THEN config.val[k] ELSE library.val[k]],
         [k \in DOMAIN config.sub \cup (gaps \cap DOMAIN library.sub) |->
              IF k \notin DOMAIN config.sub THEN library.sub[k]
              ELSE IF k \in DOMAIN library.sub THEN Merge(config.sub[k], library.sub[k])
              ELSE config.sub[k]])
Mergeable(config, library) == DOMAIN config.sub \cap DOMAIN library.val = {}

(* use_pmd_coef(dict1 = config, dict2 = library), called for EVERY element with a known variety (it does nothing when     *)
(* neither side has a pmd_coef):  a pmd_coef written with a value that Python takes for true is kept and remembered as    *)
(* "defined"; an absent one, a null AND A WRITTEN 0 are replaced by the library's and remembered as "not defined".       *)
UsePmdCoef(config, library) ==
    IF \/ ("pmd_coef" \in DOMAIN config.val /\ Falsy(config.val["pmd_coef"]))
       \/ (~Has(config, "pmd_coef") /\ Has(library, "pmd_coef"))
        THEN With(With(config, "pmd_coef_defined", 0), "pmd_coef", library.val["pmd_coef"])
    ELSE IF "pmd_coef" \in DOMAIN config.val THEN With(config, "pmd_coef_defined", 1)
    ELSE config

(* merge_equalization(params, extra_params): the ROADM's library entry carries exactly one equalisation key (the          *)
(* equipment loader sees to that).  Counting is by KEY, a key written with null counts.                                   *)
EqKeys == {"target_pch_out_db", "target_psd_out_mWperGHz", "target_out_mWperSlotWidth"}
EqWritten(config) == EqKeys \cap Keys(config)

-----------------------------------------------------------------------------
(* network_from_json, the loop over "elements", one element: what is handed to the constructor.  In the code's order.    *)
Types        == {"Edfa", "Fused", "Roadm", "Transceiver", "Fiber", "RamanFiber"}        \* _cls_for (Multiband_amplifier: not modelled)
Variety(el)  == IF el.variety = NoName THEN "default" ELSE el.variety                   \* el_config.pop('type_variety', 'default')
Params(el)   == IF el.hasParams THEN el.params ELSE EmptyDict                           \* setdefault('params', {}) / "if not params"
Oper(el)     == IF el.hasOper THEN el.oper ELSE EmptyDict
Config(variety, params) == [status |-> "ok", variety |-> variety, params |-> params]

\* Amp.default_values = EdfaParams.default_values, the keys this specification follows
EdfaDefaultValues ==
    Leaf([type_variety |-> "", type_def |-> "", f_min |-> NONE, f_max |-> NONE, gain_flatmax |-> NONE, gain_min |-> NONE,
          p_max |-> NONE, out_voa_auto |-> 0, allowed_for_design |-> 0])

ConfigFor(lib, el) ==
    LET typ == el.type
        v   == Variety(el)
    IN
    IF typ \notin Types THEN Err(CE, "UnknownType")
    ELSE IF typ = "Fused" THEN Config(NoName, Params(el))                \* "there's no variety for the 'Fused' node type": dropped
    ELSE IF v \in DOMAIN lib[typ] THEN                                   \* ANY type with a library section, Transceiver included
        LET temp  == Params(el)
            entry == lib[typ][v]
            n     == Cardinality(EqWritten(temp))
        IN IF typ = "Roadm" /\ n > 1 THEN Err(CE, "TwoEqualisations")
           ELSE LET extra == IF typ = "Roadm" /\ n = 1 THEN Without(entry, EqKeys) ELSE entry
                IN Config(v, Merge(UsePmdCoef(temp, extra), extra))
    ELSE IF typ \in {"Fiber", "RamanFiber", "Roadm"} THEN Err(CE, "UnknownVariety")
    ELSE IF typ = "Edfa" THEN
        \* the amplifier auto-design will choose: the default values REPLACE whatever params the element wrote
        IF v \in {"default", ""} THEN Config(NoName, EdfaDefaultValues) ELSE Err(CE, "UnknownVariety")
    ELSE Config(NoName, Params(el))                                      \* a Transceiver whose variety the library does not know

-----------------------------------------------------------------------------
(* The constructors.  Each returns Err(...) or Ok(effective parameters).                                                *)
UnitM  == 1
UnitKm == 1000
DefaultDispersion    == 1670         \* 1.67e-05 s/m/m
DefaultEffectiveArea == 830          \* 83e-12 m2

\* FiberParams.__init__: a KeyError anywhere becomes ParametersError "must include <key>"; the keys are read in this order
FiberParams(p) ==
    IF ~Has(p, "length") THEN Err(PE, "Missing:length")
    ELSE IF ~Has(p, "length_units") THEN Err(PE, "Missing:length_units")
    ELSE IF p.val["length_units"] \notin {UnitM, UnitKm} THEN Err(CE, "BadLengthUnits")     \* convert_length
    ELSE IF ~Has(p, "pmd_coef") THEN Err(PE, "Missing:pmd_coef")       \* never through the loader: the library always has one
    ELSE IF ~Has(p, "loss_coef") THEN Err(PE, "Missing:loss_coef")
    ELSE LET perFreq == "loss_coef" \in DOMAIN p.sub                    \* isinstance(kwargs['loss_coef'], dict)
             area    == Get(p, "effective_area", NONE)
         IN Ok([length   |-> p.val["length"] * p.val["length_units"],   \* metres
                att_in   |-> Get(p, "att_in", 0),                       \* a written null stays None
                con_in   |-> Get(p, "con_in", NONE),                    \* None: build_network fills it from the Span defaults
                con_out  |-> Get(p, "con_out", NONE),
                \* "'dispersion' in kwargs": the library entry always brings the key, so the default is out of the loader's reach
                dispersion     |-> IF "dispersion" \in DOMAIN p.val THEN p.val["dispersion"] ELSE DefaultDispersion,
                \* no gamma in this specification: None -> the default area (and the gamma that goes with it)
                effective_area |-> IF area # NONE THEN area ELSE DefaultEffectiveArea,
                pmd_coef         |-> p.val["pmd_coef"],
                pmd_coef_defined |-> Get(p, "pmd_coef_defined", 0),
                loss_per_freq |-> perFreq,
                loss_coef |-> IF perFreq THEN p.sub["loss_coef"].val["value"] ELSE << p.val["loss_coef"] >>,
                loss_freq |-> IF perFreq THEN p.sub["loss_coef"].val["frequency"] ELSE << >>])   \* << >>: the reference frequency

\* RamanFiber.__init__ after Fiber.__init__.  The pump powers are divided by db2lin(con_out) IN THE CONSTRUCTOR, where a
\* plain Fiber may still have con_out = None: a RamanFiber without con_out dies with an unclassified TypeError.
RamanFiber(p, oper) ==
    LET f == FiberParams(p) IN
    IF ~IsOk(f) THEN f
    ELSE IF Keys(oper) = {} THEN Err(NTE, "RamanNoOperational")         \* "if not self.operational": absent, null or {}
    ELSE IF ~Has(oper, "raman_pumps") THEN Err(NTE, "RamanNoPumps")
    ELSE IF ~Has(oper, "temperature") THEN Err(NTE, "RamanNoTemperature")
    ELSE IF f.p.con_out = NONE THEN Err(TE, "RamanNeedsConOut")
    ELSE Ok([temperature |-> oper.val["temperature"], npumps |-> oper.val["raman_pumps"]] @@ f.p)

\* EdfaParams.__init__ reads every key with params[...] (KeyError -> ParametersError); EdfaOperational defaults
EdfaKeys == {"type_variety", "type_def", "f_min", "f_max", "gain_flatmax", "gain_min", "p_max", "out_voa_auto",
             "allowed_for_design"}
EdfaOperational(o) == [gain_target |-> Get(o, "gain_target", NONE), delta_p |-> Get(o, "delta_p", NONE),
                       out_voa |-> Get(o, "out_voa", NONE), in_voa |-> Get(o, "in_voa", 0),
                       tilt_target |-> Get(o, "tilt_target", NONE)]
Edfa(p, oper) ==
    IF ~(EdfaKeys \subseteq DOMAIN p.val) THEN Err(PE, "Missing:edfa")
    ELSE Ok([operational |-> EdfaOperational(oper)] @@ [k \in EdfaKeys |-> p.val[k]])

\* RoadmParams.__init__: here the count is by VALUE (is not None); the per-degree targets are the element's or {}
PerDegree(p, k) == IF k \in DOMAIN p.sub THEN p.sub[k].val ELSE NoKeys
RoadmParams(p) ==
    LET eq(k) == Get(p, k, NONE) IN
    IF Cardinality({k \in EqKeys : eq(k) # NONE}) > 1 THEN Err(PE, "TwoEqualisationValues")
    ELSE IF ~(/\ {"add_drop_osnr", "pmd", "pdl", "roadm-path-impairments"} \subseteq DOMAIN p.val
              /\ "restrictions" \in DOMAIN p.sub) THEN Err(PE, "Missing:roadm")
    ELSE Ok([target_pch_out_db |-> eq("target_pch_out_db"), target_psd_out_mWperGHz |-> eq("target_psd_out_mWperGHz"),
             target_out_mWperSlotWidth |-> eq("target_out_mWperSlotWidth"),
             per_degree_pch_out_db |-> PerDegree(p, "per_degree_pch_out_db"),
             per_degree_pch_psd    |-> PerDegree(p, "per_degree_psd_out_mWperGHz"),
             per_degree_pch_psw    |-> PerDegree(p, "per_degree_psd_out_mWperSlotWidth"),
             add_drop_osnr |-> p.val["add_drop_osnr"], pmd |-> p.val["pmd"], pdl |-> p.val["pdl"],
             preamp_variety_list  |-> Get(p.sub["restrictions"], "preamp_variety_list", << >>),
             booster_variety_list |-> Get(p.sub["restrictions"], "booster_variety_list", << >>)])

Fused(p)       == Ok([loss |-> Get(p, "loss", 1000)])          \* FusedParams: 1 dB unless written (0 and null are written)
Transceiver(p) == Ok([design_bands |-> << >>])                 \* TransceiverParams: nothing of the library is used

Construct(typ, p, oper) ==
    CASE typ = "Fiber"       -> FiberParams(p)
      [] typ = "RamanFiber"  -> RamanFiber(p, oper)
      [] typ = "Edfa"        -> Edfa(p, oper)
      [] typ = "Roadm"       -> RoadmParams(p)
      [] typ = "Fused"       -> Fused(p)
      [] typ = "Transceiver" -> Transceiver(p)

\* _Node.__init__: "if type_variety: self.type_variety = type_variety"
Attr(variety) == IF variety = "" THEN NoName ELSE variety

ResolveElement(lib, el) ==
    LET cfg == ConfigFor(lib, el) IN
    IF ~IsOk(cfg) THEN cfg
    ELSE LET made == Construct(el.type, cfg.params, Oper(el)) IN
         IF ~IsOk(made) THEN made
         ELSE [status |-> "ok", uid |-> el.uid, cls |-> el.type, variety |-> Attr(cfg.variety), p |-> made.p]

-----------------------------------------------------------------------------
(* network_from_json, the loop over "connections".  nodes = {k.uid: k for k in g.nodes()}: the graph keeps EVERY element  *)
(* as a node (elements are compared by identity), but a uid names the LAST element that carries it - an earlier element   *)
(* with the same uid stays in the graph and can never be connected.  No error, no warning.                                *)
(* g.add_edge on a DiGraph: a connection written twice is one edge; a connection from a node to itself is an edge.        *)
(* Weight: the length in metres of the element the edge LEAVES when that is a Fiber (RamanFiber is one), 0.01 otherwise.  *)
IsFibre(n)         == n.cls \in {"Fiber", "RamanFiber"}
KnownUid(nodes, u) == \E i \in 1..Len(nodes) : nodes[i].uid = u
NodeOf(nodes, u)   == SetMax({i \in 1..Len(nodes) : nodes[i].uid = u})
Weight(n)          == IF IsFibre(n) THEN n.p.length * 100 ELSE 1                       \* centimetres

LoadConnections(nodes, cx) ==
    IF \E j \in 1..Len(cx) : ~KnownUid(nodes, cx[j].from) \/ ~KnownUid(nodes, cx[j].to)
        THEN Err(NTE, "UnknownEndpoint")                \* KeyError -> NetworkTopologyError, the whole load is refused
    ELSE [status |-> "ok", nodes |-> nodes,
          edges |-> {[from |-> NodeOf(nodes, cx[j].from), to |-> NodeOf(nodes, cx[j].to),
                      w |-> Weight(nodes[NodeOf(nodes, cx[j].from)])] : j \in 1..Len(cx)}]

(* Load: the elements in document order, the first refusal ends the load; the connections only after ALL elements.       *)
Load(lib, doc) ==
    LET r   == [i \in 1..Len(doc.elements) |-> ResolveElement(lib, doc.elements[i])]
        bad == {i \in 1..Len(doc.elements) : ~IsOk(r[i])}
    IN IF bad # {} THEN r[SetMin(bad)] ELSE LoadConnections(r, doc.connections)

-----------------------------------------------------------------------------
(* LEMMAS - what a user of the stage may rely on.  TLC checks them on every case of MC_NetworkLoad.  Where the code's      *)
(* rule is narrower than one would expect the lemma carries the code's guard and a SURPRISE comment; MC_NetworkLoad holds  *)
(* a witness for each surprise.                                                                                          *)

\* --- about Merge alone
MergeLaws(config, library) ==
    /\ Merge(config, EmptyDict) = config
    /\ Merge(EmptyDict, library) = library
    /\ Merge(Merge(config, library), library) = Merge(config, library)           \* idempotent: loading an export changes nothing
    /\ Keys(Merge(config, library)) = Keys(config) \cup Keys(library)

\* --- about one element
KnownVariety(lib, el) == el.type \in DOMAIN lib /\ Variety(el) \in DOMAIN lib[el.type]
Merged(lib, el)       == ConfigFor(lib, el).params
\* the part of the library entry the merge uses: without its equalisation when the element writes one
Extra(lib, el)        == LET entry == lib[el.type][Variety(el)] IN
                         IF el.type = "Roadm" /\ EqWritten(Params(el)) # {} THEN Without(entry, EqKeys) ELSE entry

\* a parameter written in the element is never replaced by the library's, at any depth - a written 0 and a written null
\* included.  SURPRISE (the only exception): a pmd_coef written as 0 or null is taken for absent.
RECURSIVE Wins(_, _)
Wins(config, merged) ==
    /\ \A k \in DOMAIN config.val : \/ k = "pmd_coef" /\ Falsy(config.val[k])
                                    \/ k \in DOMAIN merged.val /\ merged.val[k] = config.val[k]
    /\ \A k \in DOMAIN config.sub : k \in DOMAIN merged.sub /\ Wins(config.sub[k], merged.sub[k])
ElementWins(lib, el) == (KnownVariety(lib, el) /\ IsOk(ConfigFor(lib, el))) => Wins(Params(el), Merged(lib, el))

\* what the element does not write comes from the library entry, at any depth
RECURSIVE Fills(_, _, _)
Fills(config, library, merged) ==
    /\ \A k \in DOMAIN library.val \ Keys(config) : k \in DOMAIN merged.val /\ merged.val[k] = library.val[k]
    /\ \A k \in DOMAIN library.sub \ Keys(config) : k \in DOMAIN merged.sub /\ merged.sub[k] = library.sub[k]
    /\ \A k \in DOMAIN library.sub \cap DOMAIN config.sub : Fills(config.sub[k], library.sub[k], merged.sub[k])
LibraryFillsGaps(lib, el) ==
    (KnownVariety(lib, el) /\ IsOk(ConfigFor(lib, el))) => Fills(Params(el), Extra(lib, el), Merged(lib, el))
\* ... and nothing else appears, except the memory of where the pmd_coef came from
NothingInvented(lib, el) ==
    (KnownVariety(lib, el) /\ IsOk(ConfigFor(lib, el))) =>
        Keys(Merged(lib, el)) \subseteq Keys(Params(el)) \cup Keys(Extra(lib, el)) \cup {"pmd_coef_defined"}

\* a Fiber, RamanFiber or Roadm must name a variety of the library (an absent type_variety reads "default": a Roadm finds
\* the library's default ROADM, a Fiber finds nothing); an Edfa may also leave the choice to auto-design
UnknownVarietyRejected(lib, el) ==
    /\ (el.type \in {"Fiber", "RamanFiber", "Roadm"} /\ ~KnownVariety(lib, el)) =>
           ResolveElement(lib, el) = Err(CE, "UnknownVariety")
    /\ (el.type = "Edfa" /\ ~KnownVariety(lib, el) /\ Variety(el) \notin {"default", ""}) =>
           ResolveElement(lib, el) = Err(CE, "UnknownVariety")
\* SURPRISE: a Transceiver naming a variety the library does not know is loaded and the variety forgotten;
\* a Fused never keeps one
VarietyForgotten(lib, el) ==
    /\ (el.type = "Transceiver" /\ ~KnownVariety(lib, el)) =>
           (IsOk(ResolveElement(lib, el)) /\ ResolveElement(lib, el).variety = NoName)
    /\ el.type = "Fused" => (IsOk(ResolveElement(lib, el)) /\ ResolveElement(lib, el).variety = NoName)
\* a loaded element that keeps a variety keeps the one it wrote ("default" when it wrote none), and the library knows it
VarietyKept(lib, el) ==
    LET r == ResolveElement(lib, el) IN
    (IsOk(r) /\ r.variety # NoName) => (r.variety = Variety(el) /\ KnownVariety(lib, el))

\* an Edfa without variety (absent, "default", "") is a placeholder for auto-design: no variety, no model, no gains.
\* SURPRISE: the params the element wrote are DROPPED (only its operational block is read).
IsPlaceholder(lib, el) == el.type = "Edfa" /\ ~KnownVariety(lib, el) /\ Variety(el) \in {"default", ""}
PlaceholderEdfaHasNoVariety(lib, el) ==
    IsPlaceholder(lib, el) =>
        LET r == ResolveElement(lib, el) IN
        /\ IsOk(r) /\ r.variety = NoName
        /\ \A k \in EdfaKeys : r.p[k] = EdfaDefaultValues.val[k]
        /\ r.p.operational = EdfaOperational(Oper(el))
\* an Edfa with a known variety: every followed parameter is the element's if written, else the library's
EdfaParamsMerged(lib, el) ==
    (el.type = "Edfa" /\ KnownVariety(lib, el)) =>
        LET r == ResolveElement(lib, el) IN
        IsOk(r) /\ \A k \in EdfaKeys : r.p[k] = IF k \in DOMAIN Params(el).val THEN Params(el).val[k]
                                                 ELSE lib["Edfa"][Variety(el)].val[k]
\* defaults apply to ABSENT keys only: a written null is kept (in_voa: null is None, not 0; att_in likewise)
DefaultsOnlyWhenAbsent(lib, el) ==
    LET r == ResolveElement(lib, el) IN
    /\ (IsOk(r) /\ el.type = "Edfa") =>
           r.p.operational.in_voa = IF "in_voa" \in DOMAIN Oper(el).val THEN Oper(el).val["in_voa"] ELSE 0
    /\ (IsOk(r) /\ IsFibre(r)) =>
           /\ r.p.att_in = IF "att_in" \in DOMAIN Params(el).val THEN Params(el).val["att_in"] ELSE 0
           /\ r.p.con_in = IF "con_in" \in DOMAIN Params(el).val THEN Params(el).val["con_in"] ELSE NONE
           /\ r.p.effective_area # NONE /\ r.p.pmd_coef # NONE
    /\ (IsOk(r) /\ el.type = "Fused") =>
           r.p.loss = IF "loss" \in DOMAIN Params(el).val THEN Params(el).val["loss"] ELSE 1000

\* ROADM equalisation.  After a load there is never more than one policy, the element's replaces the library's, two
\* written keys are refused.  SURPRISE: counting is by key - ONE key written with null removes the library's policy and
\* leaves the ROADM WITHOUT ANY (nothing refuses it here; to_json asserts later), two keys are refused even when null.
Policies(p) == {k \in EqKeys : p[k] # NONE}
OnePolicyAfterLoad(lib, el) ==
    LET r == ResolveElement(lib, el)
        w == EqWritten(Params(el))
    IN (IsOk(r) /\ el.type = "Roadm") =>
           /\ Cardinality(Policies(r.p)) <= 1
           /\ Cardinality(Policies(r.p)) = 1 <=> ~(\E k \in w : Params(el).val[k] = NONE)
           /\ \A k \in w : r.p[k] = Params(el).val[k] /\ \A k2 \in EqKeys \ {k} : r.p[k2] = NONE
           /\ w = {} => \A k \in EqKeys : r.p[k] = Get(lib["Roadm"][Variety(el)], k, NONE)
TwoPoliciesRejected(lib, el) ==
    (el.type = "Roadm" /\ KnownVariety(lib, el) /\ Cardinality(EqWritten(Params(el))) > 1) =>
        ResolveElement(lib, el) = Err(CE, "TwoEqualisations")
\* so RoadmParams' own "more than one equalisation" refusal cannot be reached through the loader
RoadmParamsNeverSeesTwo(lib, el) == ResolveElement(lib, el) # Err(PE, "TwoEqualisationValues")
\* per-degree targets are the element's alone and of any kind, whatever the ROADM's own policy is
PerDegreeAsWritten(lib, el) ==
    LET r == ResolveElement(lib, el) IN
    (IsOk(r) /\ el.type = "Roadm") =>
        /\ r.p.per_degree_pch_out_db = PerDegree(Params(el), "per_degree_pch_out_db")
        /\ r.p.per_degree_pch_psd = PerDegree(Params(el), "per_degree_psd_out_mWperGHz")
        /\ r.p.per_degree_pch_psw = PerDegree(Params(el), "per_degree_psd_out_mWperSlotWidth")

\* the fibre's pmd_coef is the element's when it wrote a non-zero one, and then remembered as defined (it will be exported);
\* otherwise the library's, not defined.  SURPRISE: pmd_coef = 0 cannot be set on one fibre of a type that has another value.
PmdCoefRemembered(lib, el) ==
    LET r == ResolveElement(lib, el)
        own == "pmd_coef" \in DOMAIN Params(el).val /\ ~Falsy(Params(el).val["pmd_coef"])
    IN (IsOk(r) /\ IsFibre(r)) =>
           /\ r.p.pmd_coef_defined = IF own THEN 1 ELSE 0
           /\ r.p.pmd_coef = IF own THEN Params(el).val["pmd_coef"] ELSE lib[el.type][Variety(el)].val["pmd_coef"]
\* length in metres whatever the unit written; a scalar loss is a one-point profile at the reference frequency
FibreGeometry(lib, el) ==
    LET r == ResolveElement(lib, el) IN
    (IsOk(r) /\ IsFibre(r)) =>
        /\ r.p.length = Params(el).val["length"] * Params(el).val["length_units"]
        /\ Params(el).val["length_units"] \in {UnitM, UnitKm}
        /\ Len(r.p.loss_coef) >= 1
        /\ r.p.loss_per_freq <=> Len(r.p.loss_freq) = Len(r.p.loss_coef)
        /\ ~r.p.loss_per_freq => r.p.loss_freq = << >> /\ r.p.loss_coef = << Params(el).val["loss_coef"] >>
\* a loaded RamanFiber has pumps, a temperature and - SURPRISE, unlike a Fiber - its output connector loss
RamanComplete(lib, el) ==
    LET r == ResolveElement(lib, el) IN
    (IsOk(r) /\ el.type = "RamanFiber") => r.p.con_out # NONE /\ r.p.temperature = Oper(el).val["temperature"]

\* every refusal of an element is one of these.  SURPRISE: one of them is not a GNPy error class.
ElementRules == {<<CE, "UnknownType">>, <<CE, "UnknownVariety">>, <<CE, "TwoEqualisations">>, <<CE, "BadLengthUnits">>,
                 <<PE, "Missing:length">>, <<PE, "Missing:length_units">>, <<PE, "Missing:loss_coef">>,
                 <<NTE, "RamanNoOperational">>, <<NTE, "RamanNoPumps">>, <<NTE, "RamanNoTemperature">>,
                 <<TE, "RamanNeedsConOut">>}
ElementErrorsClassified(lib, el) ==
    LET r == ResolveElement(lib, el) IN ~IsOk(r) => <<r.kind, r.rule>> \in ElementRules

\* --- about the whole load  o == Load(lib, doc)
Uids(doc) == {doc.elements[i].uid : i \in 1..Len(doc.elements)}
AllElementsResolve(lib, doc) == \A i \in 1..Len(doc.elements) : IsOk(ResolveElement(lib, doc.elements[i]))
AllEndpointsKnown(doc) == \A j \in 1..Len(doc.connections) : {doc.connections[j].from, doc.connections[j].to} \subseteq Uids(doc)

\* the load succeeds exactly when every element resolves and every connection names two elements of the document
LoadedIff(lib, doc, o) == IsOk(o) <=> (AllElementsResolve(lib, doc) /\ AllEndpointsKnown(doc))
\* the first element that cannot be loaded decides the error; connections are looked at after ALL elements
FirstErrorWins(lib, doc, o) ==
    /\ ~AllElementsResolve(lib, doc) =>
           LET i == SetMin({k \in 1..Len(doc.elements) : ~IsOk(ResolveElement(lib, doc.elements[k]))}) IN
           o = ResolveElement(lib, doc.elements[i])
    /\ (AllElementsResolve(lib, doc) /\ ~AllEndpointsKnown(doc)) => o = Err(NTE, "UnknownEndpoint")
\* every element is a node, in document order - also the ones whose uid is taken again later
EveryElementIsANode(lib, doc, o) ==
    IsOk(o) => /\ Len(o.nodes) = Len(doc.elements)
               /\ \A i \in 1..Len(o.nodes) : o.nodes[i] = ResolveElement(lib, doc.elements[i])
EveryConnectionEndpointExists(doc, o) ==
    IsOk(o) => /\ \A e \in o.edges : e.from \in 1..Len(o.nodes) /\ e.to \in 1..Len(o.nodes)
               /\ \A j \in 1..Len(doc.connections) :
                      \E e \in o.edges : /\ o.nodes[e.from].uid = doc.connections[j].from
                                         /\ o.nodes[e.to].uid = doc.connections[j].to
\* ... and every edge was written
NoEdgeInvented(doc, o) ==
    IsOk(o) => \A e \in o.edges : \E j \in 1..Len(doc.connections) :
                   o.nodes[e.from].uid = doc.connections[j].from /\ o.nodes[e.to].uid = doc.connections[j].to
\* an edge leaving a fibre weighs the fibre's length, any other edge 1 cm; so at most one weight per pair of nodes
FibreEdgesWeighLength(o) ==
    IsOk(o) => /\ \A e \in o.edges : e.w = IF IsFibre(o.nodes[e.from]) THEN 100 * o.nodes[e.from].p.length ELSE 1
               /\ \A e1, e2 \in o.edges : (e1.from = e2.from /\ e1.to = e2.to) => e1 = e2
\* a connection written twice is one edge
RepeatedConnectionIsOneEdge(doc, o) ==
    IsOk(o) => Cardinality(o.edges) <= Cardinality({<<doc.connections[j].from, doc.connections[j].to>> :
                                                        j \in 1..Len(doc.connections)})
\* SURPRISE: two elements with one uid are both loaded; the earlier one can never be connected (nothing says so)
Shadowed(o, i) == \E k \in (i + 1)..Len(o.nodes) : o.nodes[k].uid = o.nodes[i].uid
ShadowedNodeIsIsolated(o) == IsOk(o) => \A e \in o.edges : ~Shadowed(o, e.from) /\ ~Shadowed(o, e.to)
LoadErrorsClassified(o) == ~IsOk(o) => (<<o.kind, o.rule>> \in ElementRules \cup {<<NTE, "UnknownEndpoint">>})
==============================================================================
