----------------------------- MODULE LineElements -----------------------------
(* C04 / C05 / C06 - the transfer laws of the line elements (Roadm, Fiber, Edfa) in the dB domain.              *)
(*                                                                                                            *)
(* Every quantity is an integer: micro-dB (udB) for powers, gains, losses, targets and noise figures; MHz for   *)
(* frequencies and widths; 1e-3 ps/nm for chromatic dispersion; ns for latency; fs^2 and mdB^2 for PMD^2 and    *)
(* PDL^2 (the harness squares, so that "adds in quadrature" is plain addition here).  The harness only converts *)
(* units (dB <-> linear, sums of vectors, squares, 10*log10 of configuration numbers such as baud rate, slot    *)
(* width, h*f*B); every decision "is this right?" is taken by the operators of this module, either when TLC     *)
(* emits the expected outputs of a generated case (MC_RoadmLaw, MC_AmpLaw, MC_FiberLaw) or when TLC judges a    *)
(* recorded crossing (Trace_LineElements).                                                                     *)
(*                                                                                                            *)
(* The module is constant-free (pure operators); the state machines are RoadmLaw, AmpLaw and FiberLaw.         *)
EXTENDS GnpyBase

(* ============================================================================================================ *)
(*  C06  ROADM                                                                                                  *)
(* ============================================================================================================ *)
PolicyKinds == {"pch", "psd", "psw"}

\* An equalisation policy is [kind, v]:  pch: v = power (dBm);  psd: v = 10 log10(mW/GHz);  psw: v = 10 log10(mW/GHz
\* of slot width).  A channel carries baudDb = 10 log10(baud rate / 1 GHz) and slotDb = 10 log10(slot width / 1 GHz):
\* constant power, constant power spectral density (x baud rate), constant power per slot width (x slot width).
Level(p, c) == CASE p.kind = "pch" -> p.v
                 [] p.kind = "psd" -> p.v + c.baudDb
                 [] p.kind = "psw" -> p.v + c.slotDb

\* deg = [has |-> BOOLEAN, kind, v] is the setting written for the EGRESS degree (has = FALSE: none): the target is the
\* egress degree's setting if one exists, else the node's.
Target(node, deg, c) == IF deg.has THEN Level(deg, c) ELSE Level(node, c)

\* The whole law: a channel c = [baudDb, slotDb, offset, in, maxloss] leaves with
\*     min(target + per-channel offset, input power - path loss)
RoadmOut(node, deg, c) == MinI(Target(node, deg, c) + c.offset, c.in - c.maxloss)

\* --- clauses on one observed crossing x = [node, deg, ch |-> <<[baudDb, slotDb, offset, in, maxloss, out, lossRep, poutRep]>>]
RoadmEqualises(x, tol)     == \A i \in 1..Len(x.ch) : Within(x.ch[i].out, RoadmOut(x.node, x.deg, x.ch[i]), tol)
RoadmNeverAmplifies(x, tol) == \A i \in 1..Len(x.ch) : x.ch[i].out <= x.ch[i].in + tol
\* the two halves of the law, stated separately (they name what went wrong in a verdict)
RoadmNotAboveTarget(x, tol) == \A i \in 1..Len(x.ch) :
                                  x.ch[i].out <= Target(x.node, x.deg, x.ch[i]) + x.ch[i].offset + tol
RoadmLossApplied(x, tol)    == \A i \in 1..Len(x.ch) : x.ch[i].out <= x.ch[i].in - x.ch[i].maxloss + tol
\* what the element reports about the crossing (Roadm.loss_pch_db, Roadm.pch_out_dbm) is what happened
\* (rep = 1: the reported values were read before the element was crossed again)
RoadmReported(x, tol)       == x.rep = 1 => \A i \in 1..Len(x.ch) : /\ Within(x.ch[i].lossRep, x.ch[i].in - x.ch[i].out, tol)
                                                                      /\ Within(x.ch[i].poutRep, x.ch[i].out, tol)

\* --- which impairment profile gives the path loss of a crossing ---------------------------------------------------------
\* profiles: the profiles of the ROADM type AS LISTED in the library, <<[id, type, loss]>> (type = "add" | "drop" |
\* "express"); explicitId: the id written for this pair of degrees in the element (per_degree_impairments), NONE if none.
\* The explicit profile if there is one, else the FIRST LISTED profile of the crossing's type (whatever the ids).
ProfileFor(profiles, ptype, explicitId) ==
   IF explicitId # NONE THEN profiles[CHOOSE i \in 1..Len(profiles) : profiles[i].id = explicitId]
   ELSE profiles[CHOOSE i \in 1..Len(profiles) : /\ profiles[i].type = ptype
                                                  /\ \A j \in 1..(i - 1) : profiles[j].type # ptype]

\* --- exactly one node-level policy is in force ------------------------------------------------------------------
\* lib / elt: the sets of node-level policy kinds written in the equipment-library entry / in the element itself.
\* A library entry must carry exactly one; an element may carry none (library default applies) or one (it REPLACES the
\* default); anything else is a configuration error.  Per-degree settings may be of any kind.
ConfigAccepted(lib, elt) == Cardinality(lib) = 1 /\ Cardinality(elt) <= 1
PolicyInForce(lib, elt)  == IF elt # {} THEN elt ELSE lib            \* a singleton whenever ConfigAccepted

(* ============================================================================================================ *)
(*  C04  Amplifier                                                                                              *)
(* ============================================================================================================ *)
\* pinTot: total power (signal + noise of the in-band channels) at the amplifier input, after the input VOA.
\* The set gain is reduced only as far as needed so that total output never exceeds pMax:
AmpEff(gainTarget, pMax, pinTot) == MinI(gainTarget, pMax - pinTot)
\* below the minimum gain the amplifier runs at gainMin behind an attenuator ("padding") that degrades NF dB for dB
AmpPad(gainMin, eff)             == MaxI(gainMin - eff, 0)
AmpRegime(eff, gainMin, flatMax) == IF eff < gainMin THEN "padded" ELSE IF eff <= flatMax THEN "inrange" ELSE "extended"
AmpOutTot(pinTot, eff)           == pinTot + eff                       \* amplified input; own ASE is reported apart
AmpSaturated(gainTarget, pMax, pinTot) == pinTot + gainTarget > pMax

\* channel c = [f, w] (MHz) against band = [fmin, fmax] (MHz); an edge within 1 MHz of the band edge is left undecided
SurelyInBand(c, band)  == 2 * c.f - c.w >= 2 * band.fmin + 2 /\ 2 * c.f + c.w <= 2 * band.fmax - 2
SurelyOutOfBand(c, band) == 2 * c.f - c.w < 2 * band.fmin - 2 \/ 2 * c.f + c.w > 2 * band.fmax + 2

\* --- clauses on one observed crossing --------------------------------------------------------------------------
\* a = [gainSet, pMax, gainMin, flatMax, inVoa, outVoa, tilt, ripple, flatIn, dual, pinRaw, effObs, padObs, gTot,
\*      poutObs, poutTot, ch |-> <<[q, nf, ase, gain]>>]
\*   pinRaw  total in-band input power before the input VOA           effObs  Edfa.effective_gain after the call
\*   gTot    observed power-weighted total gain input -> output       padObs  Edfa.att_in
\*   poutObs Edfa.pout_db      poutTot  total output power            q       10 log10(h f B 1e3) (dBm)
\*   nf      Edfa.nf of the channel    ase  ASE added, referred to the amplifier input (dBm)   gain  per-channel gain
\*   nfRip   configured NF ripple at the channel frequency          gainFresh / nfFresh  same crossing on a fresh amplifier
AmpPin(a)    == a.pinRaw - a.inVoa
AmpEffOf(a)  == AmpEff(a.gainSet, a.pMax, AmpPin(a))
AmpEffLaw(a, tol)  == Within(a.effObs, AmpEffOf(a), tol)
AmpPadLaw(a, tol)  == a.dual = 1 \/ Within(a.padObs, AmpPad(a.gainMin, AmpEffOf(a)), tol)
\* total power rises by the effective gain (minus the two VOAs)
AmpGainLaw(a, tol) == Within(a.gTot, AmpEffOf(a) - a.inVoa - a.outVoa, tol)
\* power at the output of the gain block (before the output VOA) never exceeds pMax
AmpNeverAbovePmax(a, tol) == a.pinRaw + a.gTot + a.outVoa <= a.pMax + tol
\* without tilt and ripple every channel sees the effective gain
AmpFlatProfile(a, tol) == (a.tilt = 0 /\ a.ripple = 0) =>
                             \A i \in 1..Len(a.ch) : Within(a.ch[i].gain, AmpEffOf(a) - a.inVoa - a.outVoa, tol)
\* quantum-limited ASE h f B NF referred to the input (NF = -inf: a noiseless booster adds nothing)
AmpAseLaw(a, tol)  == \A i \in 1..Len(a.ch) : Within(a.ch[i].ase, Plus(a.ch[i].q, a.ch[i].nf), tol)
\* NF follows the configured model per channel: the channel NF is the average NF plus the configured NF ripple AT THAT
\* CHANNEL'S FREQUENCY (nfRip: the harness interpolates the configured table at the channel frequency), i.e. nf - nfRip
\* is the same for all channels of the crossing (a noiseless amplifier, NF = -inf, is left aside)
AmpNfRippleLaw(a, tol) == \A i, j \in 1..Len(a.ch) : (~IsInf(a.ch[i].nf) /\ ~IsInf(a.ch[j].nf)) =>
                             Within(a.ch[i].nf - a.ch[i].nfRip, a.ch[j].nf - a.ch[j].nfRip, tol)
\* no memory: what a crossing does to each channel (gain, NF) is what a FRESH amplifier with the same settings does to the
\* same spectral information (fresh = 1: the event carries that reference crossing)
AmpNoMemory(a, tol) == a.fresh = 1 => \A i \in 1..Len(a.ch) : /\ Within(a.ch[i].gain, a.ch[i].gainFresh, tol)
                                                               /\ Within(a.ch[i].nf, a.ch[i].nfFresh, tol)
\* the reported output power is the power that left the gain block
AmpPoutReported(a, tol) == Within(a.poutObs, a.poutTot + a.outVoa, tol)
\* out-of-band channels are not amplified: inb / outb = channels [f, w] entering / leaving, band = [fmin, fmax]
AmpBandLaw(inb, outb, band) ==
   /\ \A i \in 1..Len(inb)  : SurelyInBand(inb[i], band)    => \E j \in 1..Len(outb) : outb[j].f = inb[i].f
   /\ \A i \in 1..Len(inb)  : SurelyOutOfBand(inb[i], band) => ~\E j \in 1..Len(outb) : outb[j].f = inb[i].f
   /\ \A j \in 1..Len(outb) : \E i \in 1..Len(inb) : inb[i].f = outb[j].f

\* --- NF model curves ----------------------------------------------------------------------------------------------------
\* A configured curve (the OpenROADM OSNR polynomial, the polynomial NF of the advanced model) is handed over as a uniform
\* table t = [x0, step, v]: the harness tabulates the polynomial AS CONFIGURED (coefficients by their declared order: list
\* position in the legacy form, coef_order key in the YANG form) - the argument at which it is read is computed HERE.
InterpUniform(t, x) == LET i  == (x - t.x0) \div t.step + 1
                           xi == t.x0 + (i - 1) * t.step
                       IN t.v[i] + ((t.v[i + 1] - t.v[i]) * (x - xi)) \div t.step
InTable(t, x)       == x >= t.x0 /\ x < t.x0 + (Len(t.v) - 1) * t.step
\* OpenROADM: the noise mask is a function of the input power per channel normalised to a 50 GHz slot:
\* total input power / number of channels x (50 GHz / slot width); slotRatioDb = 10 log10(50 GHz / slot width)
OrPin50(pinTot, nchDb, slotRatioDb) == pinTot - nchDb + slotRatioDb
\* preamp mask: OSNR = min((4 P + 275) / 7, 33) dB;   ILA: OSNR = configured polynomial(P);   NF = P - OSNR + 58
OrPreampOsnr(p) == MinI((4 * p + 275000000) \div 7, 33000000)
OrNf(p, osnr)   == p - osnr + 58000000
\* polynomial (advanced) model: NF = configured polynomial(-(gain deficit below flatMax)), the deficit clamped at 0 and taken
\* at gainMin when the amplifier is padded
PolyArg(eff, gainMin, flatMax) == MinI(MaxI(eff, gainMin) - flatMax, 0)
\* one observation m = [model, eff, gainMin, flatMax, pinTot, nchDb, slotRatioDb, nfObs] against the curve tab:
\* nfObs = the average NF the amplifier reports, eff = its (unclamped) gain
NfOfModel(m, tab) == LET p == OrPin50(m.pinTot, m.nchDb, m.slotRatioDb)
                     IN CASE m.model = "orPreamp" -> OrNf(p, OrPreampOsnr(p))
                          [] m.model = "orIla"    -> OrNf(p, InterpUniform(tab, p))
                          [] m.model = "poly"     -> InterpUniform(tab, PolyArg(m.eff, m.gainMin, m.flatMax))
NfCurveDecided(m, tab) == CASE m.model = "orPreamp" -> TRUE
                            [] m.model = "orIla"    -> InTable(tab, OrPin50(m.pinTot, m.nchDb, m.slotRatioDb))
                            [] m.model = "poly"     -> InTable(tab, PolyArg(m.eff, m.gainMin, m.flatMax))
                            [] OTHER -> FALSE
NfFollowsModel(m, tab, tol) == NfCurveDecided(m, tab) =>
                                  Within(m.nfObs, NfOfModel(m, tab) + AmpPad(m.gainMin, m.eff), tol)

\* --- NF gain sweep of one amplifier type: pts = <<[g, nf]>> with strictly increasing g, s = [gainMin, flatMax,
\*     nfMin, nfMax, minmax (1 = min/max-NF model), poly (1 = polynomial model), dual (1 = dual stage),
\*     cascade (1 = the points carry the linear NF of the amplifier and of its two stages)] -----------------------------------------------------------
SweepAt(pts, g)      == CHOOSE i \in 1..Len(pts) : pts[i].g = g
SweepHas(pts, g)     == \E i \in 1..Len(pts) : pts[i].g = g
SweepNfMinAtFlatMax(s, pts, tol) == (s.minmax = 1 /\ SweepHas(pts, s.flatMax)) =>
                                       Within(pts[SweepAt(pts, s.flatMax)].nf, s.nfMin, tol)
SweepNfMaxAtGainMin(s, pts, tol) == (s.minmax = 1 /\ SweepHas(pts, s.gainMin)) =>
                                       Within(pts[SweepAt(pts, s.gainMin)].nf, s.nfMax, tol)
SweepNonIncreasing(s, pts, tol)  == s.minmax = 1 =>
                                       \A i, j \in 1..Len(pts) : pts[i].g < pts[j].g => pts[j].nf <= pts[i].nf + tol
\* every model: in the extended gain range (at and above the maximum flat gain) NF never rises with gain ...
SweepNonIncreasingExtended(s, pts, tol) ==
   \A i, j \in 1..Len(pts) : (s.flatMax <= pts[i].g /\ pts[i].g < pts[j].g) => pts[j].nf <= Plus(pts[i].nf, tol)
\* ... and the polynomial model (NF a function of the gain deficit below flatMax) stays at its flatMax value there
SweepClampAboveMax(s, pts, tol) == (s.poly = 1 /\ SweepHas(pts, s.flatMax)) =>
   \A i \in 1..Len(pts) : pts[i].g > s.flatMax => Within(pts[i].nf, pts[SweepAt(pts, s.flatMax)].nf, tol)
\* dual stage = cascade of its two stages (preamp at its maximum flat gain g1, booster at gain - g1, whatever its sign):
\* in LINEAR units (x 1e6, converted by the harness) NF = NF(preamp) + NF(booster) / g1, where the two stage NFs are those
\* of the stage amplifiers crossed alone at these gains
SweepDualCascade(s, pts, tol) == s.cascade = 1 =>
   \A i \in 1..Len(pts) : Within(pts[i].nfLin, pts[i].nf1Lin + pts[i].nf2g1Lin, tol)
\* single-stage models: below the minimum gain NF grows dB for dB (padding)
SweepDbForDbBelowMin(s, pts, tol) == (s.dual = 0 /\ SweepHas(pts, s.gainMin)) =>
                                       \A i \in 1..Len(pts) : pts[i].g < s.gainMin =>
                                          Within(pts[i].nf, Plus(pts[SweepAt(pts, s.gainMin)].nf, s.gainMin - pts[i].g), tol)

(* ============================================================================================================ *)
(*  C05  Fibre                                                                                                  *)
(* ============================================================================================================ *)
\* loss coefficient of a channel: scalar (one pair), or linear interpolation in a table of pairs <<[f, a]>>.  The table is
\* the configuration AS WRITTEN: pairs (frequency, value) in whatever listing order (by frequency, by wavelength, ...);
\* only the pairs matter, so the law is stated on the SET of pairs.
TabBelow(T, f) == CHOOSE p \in T : p.f <= f /\ \A q \in T : q.f <= f => q.f <= p.f
TabAbove(T, f) == CHOOSE p \in T : p.f >= f /\ \A q \in T : q.f >= f => q.f >= p.f
Interp(tab, f) == IF Len(tab) = 1 THEN tab[1].a
                  ELSE LET T == SeqRange(tab)
                           lo == TabBelow(T, f)
                           hi == TabAbove(T, f)
                       IN IF lo.f = hi.f THEN lo.a ELSE lo.a + ((hi.a - lo.a) * (f - lo.f)) \div (hi.f - lo.f)
InterpExact(tab, f) == LET T == SeqRange(tab)
                       IN /\ \E p \in T : p.f <= f
                          /\ \E p \in T : p.f >= f
                          /\ LET lo == TabBelow(T, f)
                                 hi == TabAbove(T, f)
                             IN lo.f = hi.f \/ ((hi.a - lo.a) * (f - lo.f)) % (hi.f - lo.f) = 0

\* The loss budget of a span s for a channel whose (loss coefficient x length) is alphaL:
\*     padding + input connector + length x loss coefficient + lumped losses + output connector
FiberLoss(s, alphaL) == s.attIn + s.conIn + alphaL + s.lumped + s.conOut

\* --- clauses on one observed fibre crossing --------------------------------------------------------------------
\* x = [attIn, conIn, conOut, lumped, raman, fresh, cfg, ch |-> <<[alphaL, in, out, outFresh]>>]
\* connectors: the figure the fibre DECLARES in the topology (0 is a declared figure), the library's Span default only when
\* the fibre declares none (decl = 1: the event carries the declared figures, NONE = not declared, and the Span defaults;
\* decl = 0: the figures are read off the element)
Connector(declared, default) == IF declared = NONE THEN default ELSE declared
FiberBudgetOf(x, alphaL) == IF x.decl = 1
                            THEN FiberLoss([attIn |-> x.attIn, conIn |-> Connector(x.conInDecl, x.conInDef),
                                            conOut |-> Connector(x.conOutDecl, x.conOutDef), lumped |-> x.lumped], alphaL)
                            ELSE FiberLoss(x, alphaL)
FiberLossBudget(x, tol) == x.raman = 0 =>
                              \A i \in 1..Len(x.ch) : Within(x.ch[i].in - x.ch[i].out, FiberBudgetOf(x, x.ch[i].alphaL), tol)
\* no memory (Raman on or off): what a fibre does to a spectral information does not depend on what crossed it before:
\* it is what a FRESH fibre with the same configuration does (fresh = 1: the event carries that reference, outFresh)
FiberNoMemory(x, tol) == x.fresh = 1 => \A i \in 1..Len(x.ch) : Within(x.ch[i].out, x.ch[i].outFresh, tol)
\* a span's own contributions follow from ITS OWN configuration (cfg = 1: the event carries them): latency is its length
\* over the group velocity (latCfg, ns), PMD^2 is pmd_coef^2 x its length (pmdCfg, fs^2) - whatever link it was cut from
FiberContribFromConfig(x, tolLat, tolPmd) == x.cfg = 1 => /\ \A i \in 1..Len(x.dLat) : Within(x.dLat[i], x.latCfg, tolLat)
                                                          /\ \A i \in 1..Len(x.dPmd) : Within(x.dPmd[i], x.pmdCfg, tolPmd)

\* --- accumulation: a = accumulators before, b = after, d = the element's own contribution (measured by
\*     propagating through that element alone from a zero state); per channel sequences of equal length -----------
AccAdds(a, b, d, tol) == \A i \in 1..Len(a) : Within(b[i], Plus(a[i], d[i]), tol)      \* Plus saturates at +/-Inf
\* x = [cd0, cd1, dCd, lat0, lat1, dLat, pmd0, pmd1, dPmd, pdl0, pdl1, dPdl]  (pmd*, pdl* are SQUARES)
AccCdLinear(x, tol)       == AccAdds(x.cd0, x.cd1, x.dCd, tol)
AccLatencyLinear(x, tol)  == AccAdds(x.lat0, x.lat1, x.dLat, tol)
AccPmdQuadrature(x, tol)  == AccAdds(x.pmd0, x.pmd1, x.dPmd, tol)
AccPdlQuadrature(x, tol)  == AccAdds(x.pdl0, x.pdl1, x.dPdl, tol)
\* a ROADM's / amplifier's own PMD^2 / PDL^2 follow from the CONFIGURATION, CHANNEL BY CHANNEL (cfg = 1: the event carries
\* pmdCfg / pdlCfg per channel).  ROADM: the value the impairment profile of the crossed path defines for the channel's
\* frequency range where it defines one, else the ROADM-level value - each of the two quantities on its own.  Amplifier: the
\* type's pmd / pdl; multiband amplifier: those of the band amplifier the channel goes through.
ElementContribFromConfig(x, tol) == x.cfg = 1 => /\ \A i \in 1..Len(x.dPmd) : Within(x.dPmd[i], x.pmdCfg[i], tol)
                                               /\ \A i \in 1..Len(x.dPdl) : Within(x.dPdl[i], x.pdlCfg[i], tol)
==============================================================================
