------------------------------- MODULE Routing -------------------------------
(* C11 / C12 - what a correct router may answer.                                                              *)
(*                                                                                                            *)
(* The network is seen at the grain the properties speak about: ROADM sites 1..n and directed ROADM-to-ROADM   *)
(* links ("arcs") with an integer fibre length; an arc and its opposite direction are the same LINK.          *)
(* A route is the sequence of sites it visits.  A request asks for a route from s to d that crosses an        *)
(* ordered include list; every include hop is LOOSE (0) or STRICT (1) and names a site (code 1..n) or "some   *)
(* line element of arc a->b" (code LineEl(a, b)).  A batch is a list of requests plus synchronisation groups  *)
(* (lists of request indices that must be pairwise link-disjoint).                                            *)
(*                                                                                                            *)
(* Three layers, all pure TLA+ and independent of networkx (1 and 2 here, 3 in RoutingModel):                *)
(*   1. the ORACLE  - simple paths by bounded recursion, include satisfaction as ordered subsequence,         *)
(*                    the LOOSE/STRICT verdict, the optimum, the set of link-disjoint solutions;              *)
(*   2. the CLAUSES - each sentence of C11 / C12 as a named predicate over (graph, batch, outcome); they      *)
(*                    state the property, not the algorithm: lengths are compared, never node lists, and      *)
(*                    cases the property text leaves open (mixed LOOSE/STRICT lists whose STRICT part alone   *)
(*                    is satisfiable, groups larger than one pair) are left unjudged;                         *)
(*   3. the MODEL   - a state machine Init -> Route at the grain of compute_path_dsjctn: the candidate        *)
(*                    combinations of a group are built incrementally and filtered as the code does           *)
(*                    ("all constraints met, else only LOOSE ones missed, else error"), ungrouped requests    *)
(*                    take the first feasible path in length order.  TLC checks that every outcome of the     *)
(*                    model satisfies every clause (MC_Routing) - and Trace_Routing applies the very same     *)
(*                    clauses to the routes observed from the real code.                                      *)
EXTENDS GnpyBase, TLC

-----------------------------------------------------------------------------
(* 1. ORACLE                                                                                                  *)

Sites(G)      == 1..G.n
LineEl(a, b)  == 1000 * a + b                          \* include code of a line element (fibre, amplifier) of a->b
LinkId(a, b)  == IF a < b THEN <<a, b>> ELSE <<b, a>>   \* a link and its opposite direction are identified

HopsOf(p)     == {<<p[i], p[i + 1]>> : i \in 1..(Len(p) - 1)}
LinksOf(p)    == {LinkId(p[i], p[i + 1]) : i \in 1..(Len(p) - 1)}
IsRoute(G, p, s, d) == Len(p) >= 1 /\ p[1] = s /\ p[Len(p)] = d /\ HopsOf(p) \subseteq G.arcs
IsSimple(p)   == \A i, j \in 1..Len(p) : i < j => p[i] # p[j]
Reverse(p)    == [i \in 1..Len(p) |-> p[Len(p) + 1 - i]]

RECURSIVE PathLen(_, _)
PathLen(G, p) == IF Len(p) <= 1 THEN 0 ELSE G.len[<<p[1], p[2]>>] + PathLen(G, Tail(p))

\* all loop-free routes from the last site of p to d, by bounded recursion (a route has at most n sites)
RECURSIVE Extend(_, _, _)
Extend(G, p, d) ==
  IF p[Len(p)] = d THEN {p}
  ELSE UNION {Extend(G, Append(p, m), d) :
              m \in {x \in Sites(G) : <<p[Len(p)], x>> \in G.arcs /\ \A i \in 1..Len(p) : p[i] # x}}
SimplePaths(G, s, d) == Extend(G, <<s>>, d)

\* the elements a route crosses, in order: site, line of the hop, site, ...
Elements(p) == [i \in 1..(2 * Len(p) - 1) |->
                  IF i % 2 = 1 THEN p[(i + 1) \div 2] ELSE LineEl(p[i \div 2], p[i \div 2 + 1])]

\* inc is an ordered subsequence of e (declarative form; InOrder below is the equivalent greedy recursion,
\* MC_Routing checks that the two agree)
InOrderDecl(inc, e) == \E f \in [1..Len(inc) -> 1..Len(e)] :
                          /\ \A i \in 1..Len(inc) : e[f[i]] = inc[i]
                          /\ \A i \in 1..(Len(inc) - 1) : f[i] < f[i + 1]
RECURSIVE InOrderFrom(_, _, _, _)
InOrderFrom(inc, i, e, j) == IF i > Len(inc) THEN TRUE
                             ELSE IF j > Len(e) THEN FALSE
                             ELSE IF inc[i] = e[j] THEN InOrderFrom(inc, i + 1, e, j + 1)
                             ELSE InOrderFrom(inc, i, e, j + 1)
InOrder(inc, e) == InOrderFrom(inc, 1, e, 1)
Crosses(p, inc) == InOrder(inc, Elements(p))

\* requests: [s, d, inc, strict] with strict[k] = 1 for a STRICT hop, 0 for a LOOSE one
RECURSIVE PickStrict(_, _, _)
PickStrict(inc, strict, k) == IF k > Len(inc) THEN <<>>
                              ELSE (IF strict[k] = 1 THEN <<inc[k]>> ELSE <<>>) \o PickStrict(inc, strict, k + 1)
StrictPart(r) == PickStrict(r.inc, r.strict, 1)
HasStrict(r)  == \E k \in 1..Len(r.inc) : r.strict[k] = 1

Feasible(P, inc) == {p \in P : Crosses(p, inc)}
MinLen(G, P)     == SetMin({PathLen(G, p) : p \in P})
Shortest(G, P)   == {p \in P : \A q \in P : PathLen(G, p) <= PathLen(G, q)}

\* what the property demands for a request outside any group; P = SimplePaths(G, r.s, r.d)
Verdict(r, P) ==
  IF P = {} THEN "NO_PATH"                                            \* the two sites are not connected
  ELSE IF Feasible(P, r.inc) # {} THEN "ROUTED"                       \* shortest route crossing the whole list
  ELSE IF ~HasStrict(r) THEN "LOOSE_DROPPED"                          \* only LOOSE hops: unconstrained shortest
  ELSE IF Feasible(P, StrictPart(r)) = {} THEN "NO_PATH_WITH_CONSTRAINT"   \* a STRICT hop cannot be met
  ELSE "UNDECIDED"          \* mixed list, the STRICT hops alone could be met: the text does not arbitrate

\* batches: [reqs |-> <<r1, ...>>, groups |-> <<<<i, j>>, ...>>]
GroupSet(b, k) == SeqRange(b.groups[k])
Grouped(b)     == UNION {GroupSet(b, k) : k \in 1..Len(b.groups)}
MustDiffer(b, i, j) == i # j /\ \E k \in 1..Len(b.groups) : i \in GroupSet(b, k) /\ j \in GroupSet(b, k)
SinglePair(b)  == /\ Len(b.groups) >= 1
                  /\ \A k \in 1..Len(b.groups) : GroupSet(b, k) = GroupSet(b, 1)
                  /\ Cardinality(GroupSet(b, 1)) = 2
\* a group stated twice (same members) is one group: deduplicate_disjunctions
OneGroup(b)    == Cardinality({GroupSet(b, k) : k \in 1..Len(b.groups)}) = 1
LinkDisjoint(p, q) == LinksOf(p) \cap LinksOf(q) = {}

\* which routes a grouped request may take:
\*   "strong": a request with a STRICT hop crosses its whole list (the code's reading: one STRICT makes the list STRICT)
\*   "weak"  : the STRICT hops only (the weakest reading of the text);  "any": no route constraint
Accept(r, p, mode) == CASE mode = "strong" -> (HasStrict(r) => Crosses(p, r.inc))
                        [] mode = "weak"   -> Crosses(p, StrictPart(r))
                        [] OTHER           -> TRUE

\* all assignments (request index -> route) of the grouped requests that are pairwise link-disjoint inside every group;
\* fx[i] are the Facts of request i (defined below), fx[i].P its simple paths
RECURSIVE Sols(_, _, _, _, _)
Sols(b, fx, mode, todo, part) ==
  IF todo = {} THEN {part}
  ELSE LET i  == SetMin(todo)
           ok == {p \in fx[i].P : /\ Accept(b.reqs[i], p, mode)
                                /\ \A j \in DOMAIN part : MustDiffer(b, i, j) => LinkDisjoint(p, part[j])}
       IN  UNION {Sols(b, fx, mode, todo \ {i}, part @@ (i :> p)) : p \in ok}
Solutions(b, fx, mode) == Sols(b, fx, mode, Grouped(b), <<>>)

\* everything the clauses need to know about one request, computed once: its simple paths P, the verdict v and
\* the optimum the verdict refers to (min)
Facts(G, r) ==
  LET P == SimplePaths(G, r.s, r.d)
      v == Verdict(r, P)
  IN  [P |-> P, v |-> v,
       min |-> IF v = "ROUTED" THEN MinLen(G, Feasible(P, r.inc)) ELSE IF v = "LOOSE_DROPPED" THEN MinLen(G, P) ELSE 0]
FactsOf(G, b) == [i \in 1..Len(b.reqs) |-> Facts(G, b.reqs[i])]

-----------------------------------------------------------------------------
(* 2. CLAUSES over an outcome o = [err |-> 0/1, res |-> <<[st, p, rev], ...>>]                                *)
(*    st = "path" with p the sites of the route and rev the sites of the reverse route, or a blocking reason  *)

Found(p)     == [st |-> "path", p |-> p, rev |-> Reverse(p)]
Blocked(why) == [st |-> why, p |-> <<>>, rev |-> <<>>]
Routed(x)    == x.st = "path"
NoPathReasons == {"NO_PATH", "NO_PATH_WITH_CONSTRAINT"}

\* --- C11, clauses that need no search (they judge the returned route itself)
RealRoute(G, r, x)       == Routed(x) => IsRoute(G, x.p, r.s, r.d)
LoopFree(x)              == Routed(x) => IsSimple(x.p)
StrictHopsCrossed(r, x)  == Routed(x) => Crosses(x.p, StrictPart(r))
ReverseMirrors(x)        == Routed(x) => x.rev = Reverse(x.p)

\* --- C11, clauses relative to the brute-force oracle; f = Facts(G, r), request outside any group
IncludesInOrder(r, f, x) == (Routed(x) /\ f.v = "ROUTED") => Crosses(x.p, r.inc)
ShortestFeasible(G, r, f, x, tol) ==          \* minimal length among the routes crossing the include list
  (Routed(x) /\ IsRoute(G, x.p, r.s, r.d) /\ f.v = "ROUTED") => PathLen(G, x.p) <= f.min + tol
LooseDroppedShortest(G, r, f, x, tol) ==      \* unsatisfiable LOOSE list dropped: the unconstrained shortest route
  (Routed(x) /\ IsRoute(G, x.p, r.s, r.d) /\ f.v = "LOOSE_DROPPED") => PathLen(G, x.p) <= f.min + tol
BlockedExactly(f, x)     == /\ f.v \in {"NO_PATH", "NO_PATH_WITH_CONSTRAINT"} => ~Routed(x)
                            /\ f.v \in {"ROUTED", "LOOSE_DROPPED"} => Routed(x)
BlockingReason(f, x)     == ~Routed(x) => /\ x.st \in NoPathReasons
                                          /\ (x.st = "NO_PATH") <=> (f.P = {})

\* --- C12
GroupsLinkDisjoint(b, o) ==
  o.err = 0 => \A i, j \in 1..Len(b.reqs) :
                  (MustDiffer(b, i, j) /\ Routed(o.res[i]) /\ Routed(o.res[j])) => LinkDisjoint(o.res[i].p, o.res[j].p)
GroupedAreRouted(b, o)   == o.err = 0 => \A i \in Grouped(b) : Routed(o.res[i])
ErrorOnlyForGroups(b, o) == o.err = 1 => b.groups # <<>>
\* completeness for one pair: an error is only allowed when no disjoint combination honours the route constraints
PairComplete(b, fx, o)   == (o.err = 1 /\ SinglePair(b)) => Solutions(b, fx, "strong") = {}
\* and an error is mandatory when not even the STRICT hops can be honoured disjointly (any group shape)
ErrorWhenNoSolution(b, fx, o) == (b.groups # <<>> /\ Solutions(b, fx, "weak") = {}) => o.err = 1

\* names of the clauses request i fails (search-free part / oracle part), and batch-level clauses
StructuralViol(G, b, o, i) ==
  LET r == b.reqs[i]
      x == o.res[i]
  IN  (IF RealRoute(G, r, x) THEN {} ELSE {"RealRoute"})
      \cup (IF LoopFree(x) THEN {} ELSE {"LoopFree"})
      \cup (IF StrictHopsCrossed(r, x) THEN {} ELSE {"StrictHopsCrossed"})
      \cup (IF ReverseMirrors(x) THEN {} ELSE {"ReverseMirrors"})
OracleViol(G, b, fx, o, i, tol) ==
  LET r == b.reqs[i]
      x == o.res[i]
      f == fx[i]
  IN  IF i \in Grouped(b) THEN {}
      ELSE (IF IncludesInOrder(r, f, x) THEN {} ELSE {"IncludesInOrder"})
           \cup (IF ShortestFeasible(G, r, f, x, tol) THEN {} ELSE {"ShortestFeasible"})
           \cup (IF LooseDroppedShortest(G, r, f, x, tol) THEN {} ELSE {"LooseDroppedShortest"})
           \cup (IF BlockedExactly(f, x) THEN {} ELSE {"BlockedExactly"})
           \cup (IF BlockingReason(f, x) THEN {} ELSE {"BlockingReason"})
BatchStructuralViol(b, o) ==
  (IF GroupsLinkDisjoint(b, o) THEN {} ELSE {"GroupsLinkDisjoint"})
  \cup (IF GroupedAreRouted(b, o) THEN {} ELSE {"GroupedAreRouted"})
  \cup (IF ErrorOnlyForGroups(b, o) THEN {} ELSE {"ErrorOnlyForGroups"})
BatchOracleViol(b, fx, o) ==
  (IF PairComplete(b, fx, o) THEN {} ELSE {"PairComplete"})
  \cup (IF ErrorWhenNoSolution(b, fx, o) THEN {} ELSE {"ErrorWhenNoSolution"})

\* the complete judgement: set of <<request index (0 = the batch), clause name>>
Judge(G, b, fx, o, tol) ==
  {<<0, c>> : c \in BatchStructuralViol(b, o) \cup BatchOracleViol(b, fx, o)}
  \cup (IF o.err = 1 THEN {}
        ELSE UNION {{<<i, c>> : c \in StructuralViol(G, b, o, i) \cup OracleViol(G, b, fx, o, i, tol)} :
                    i \in 1..Len(b.reqs)})
JudgeStructural(G, b, o) ==
  {<<0, c>> : c \in BatchStructuralViol(b, o)}
  \cup (IF o.err = 1 THEN {}
        ELSE UNION {{<<i, c>> : c \in StructuralViol(G, b, o, i)} : i \in 1..Len(b.reqs)})
==============================================================================
