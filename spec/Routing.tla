------------------------------- MODULE Routing -------------------------------
(* C11 / C12 - what a correct router may answer.                                                              *)
(*                                                                                                            *)
(* The network is seen at the grain the properties speak about: ROADM sites 1..n and directed ROADM-to-ROADM   *)
(* links ("arcs") <<a, b, k>> with an integer fibre length; k = 0 for the (first) link pair between a and b,  *)
(* k = 1 for a second, PARALLEL link pair between the same two sites.  An arc and its opposite direction are  *)
(* the same LINK.  A route is the sequence of arcs it follows.  A request asks for a route from s to d that   *)
(* crosses an ordered include list; every include hop is LOOSE (0) or STRICT (1) and names a site (code 1..n),*)
(* "some line element of arc x" (code LineEl(x)), or an element that does not exist (codes 901..999; such a   *)
(* LOOSE hop is removed by the route-list clean-up before anything else).  A batch is a list of requests plus *)
(* synchronisation groups (lists of request indices that must be pairwise link-disjoint).                     *)
(* A synchronisation vector of a service file states a diversity - 'link', 'node' or 'node link'.  All three  *)
(* are judged alike: C12 speaks of every synchronisation group, and routes that share a link share its two    *)
(* end nodes, so node diversity cannot be weaker than link diversity.  ('srlg' alone is not generated: the     *)
(* topology carries no risk groups, what it demands cannot be decided.)  In the same spirit, how a batch is    *)
(* written - route objects with indices starting at 0 or elsewhere and listed in any order, a line hop named   *)
(* by one element of its arc or element by element, a service file or PathRequest objects built through the   *)
(* API, an include list opened by the request's own source transceiver and / or closed by its own destination *)
(* transceiver (whatever their hop type: the clean-up removes the two end points silently, each with its own  *)
(* hop type), the same request objects handed to the clean-up and to the router a second time - and what was  *)
(* computed before in the same process are no part of a batch: the answer to a batch is a function of the     *)
(* graph and of the batch alone.                                                                              *)
(* A synchronisation vector may be written `relaxable: true` (relax[k] = 1).  C12 does not say what that      *)
(* allows - the documentation says that only `false` is supported, the data model that a relaxable vector may *)
(* be given up when it cannot be met - so nothing is demanded FOR such a vector: neither that its requests    *)
(* are disjoint nor that the computation stops when they cannot be.  But whatever is decided for it, every    *)
(* vector that is NOT relaxable keeps all its rights, also when it shares requests with a relaxable one.      *)
(*                                                                                                            *)
(* Three layers, all pure TLA+ and independent of networkx (1 and 2 here, 3 in RoutingModel):                *)
(*   1. the ORACLE  - simple paths by bounded recursion, include satisfaction as ordered subsequence,         *)
(*                    the LOOSE/STRICT verdict, the optimum, the set of link-disjoint solutions;              *)
(*   2. the CLAUSES - each sentence of C11 / C12 as a named predicate over (graph, batch, outcome); they      *)
(*                    state the property, not the algorithm: lengths are compared, never node lists, and      *)
(*                    cases the property text leaves open (mixed LOOSE/STRICT lists whose STRICT part alone   *)
(*                    is satisfiable, groups larger than one pair, which of two parallel links is "the        *)
(*                    opposite direction" of an arc) are left unjudged;                                       *)
(*   3. the MODEL   - a state machine Init -> Route at the grain of compute_path_dsjctn: the candidate        *)
(*                    combinations of a group are built incrementally and filtered as the code does           *)
(*                    ("all constraints met, else only LOOSE ones missed, else error"), ungrouped requests    *)
(*                    take the first feasible path in length order.  TLC checks that every outcome of the     *)
(*                    model satisfies every clause (MC_Routing) - and Trace_Routing applies the very same     *)
(*                    clauses to the routes observed from the real code.                                      *)
EXTENDS GnpyBase, TLC

-----------------------------------------------------------------------------
(* 1. ORACLE                                                                                                  *)

LineEl(x)     == 1000000 * x[3] + 1000 * x[1] + x[2]   \* include code of a line element (fibre, amplifier) of arc x
Unknown(c)    == c > 900 /\ c < 1000                    \* include code of an element that is not in the topology
Opposite(x)   == <<x[2], x[1], x[3]>>
SitePair(x)   == IF x[1] < x[2] THEN <<x[1], x[2]>> ELSE <<x[2], x[1]>>
\* two parallel link pairs between the sites of x: which b->a fibre is "the opposite direction" of which a->b fibre
\* is then a convention (the code says its reversed paths are not exact there), so nothing is claimed about it
Doubled(G, x) == \E y \in G.arcs : SitePair(y) = SitePair(x) /\ y[3] # x[3]
\* surely one link (the same fibre, or the two directions of an only link pair) / surely two different links
SameLink(G, x, y)  == x = y \/ (x[1] = y[2] /\ x[2] = y[1] /\ ~Doubled(G, x))
OtherLink(G, x, y) == SitePair(x) # SitePair(y) \/ (x[1] = y[1] /\ x[3] # y[3])
SurelyDisjoint(G, p, q)    == \A i \in 1..Len(p), j \in 1..Len(q) : OtherLink(G, p[i], q[j])
SurelyOverlapping(G, p, q) == \E i \in 1..Len(p), j \in 1..Len(q) : SameLink(G, p[i], q[j])

SitesOf(p)    == <<p[1][1]>> \o [i \in 1..Len(p) |-> p[i][2]]      \* p non-empty
IsRoute(G, p, s, d) == /\ Len(p) >= 1 /\ p[1][1] = s /\ p[Len(p)][2] = d
                       /\ \A i \in 1..(Len(p) - 1) : p[i][2] = p[i + 1][1]
                       /\ \A i \in 1..Len(p) : p[i] \in G.arcs
IsSimple(p)   == Len(p) >= 1 => LET v == SitesOf(p) IN \A i, j \in 1..Len(v) : i < j => v[i] # v[j]
Reverse(v)    == [i \in 1..Len(v) |-> v[Len(v) + 1 - i]]
RevRoute(p)   == [i \in 1..Len(p) |-> Opposite(p[Len(p) + 1 - i])]

RECURSIVE PathLen(_, _)
PathLen(G, p) == IF Len(p) = 0 THEN 0 ELSE G.len[p[1]] + PathLen(G, Tail(p))

\* all loop-free routes that continue p (now at site `at`, sites `seen`) to d, by bounded recursion
RECURSIVE Extend(_, _, _, _, _)
Extend(G, p, at, seen, d) ==
  IF at = d THEN {p}
  ELSE UNION {Extend(G, Append(p, x), x[2], seen \cup {x[2]}, d) : x \in {y \in G.arcs : y[1] = at /\ y[2] \notin seen}}
SimplePaths(G, s, d) == Extend(G, <<>>, s, {s}, d)

\* the elements a route crosses, in order: site, line of the arc, site, ...
Elements(p) == [i \in 1..(2 * Len(p) + 1) |->
                  IF i = 1 THEN p[1][1] ELSE IF i % 2 = 1 THEN p[(i - 1) \div 2][2] ELSE LineEl(p[i \div 2])]

\* inc is an ordered subsequence of e (declarative form; InOrder below is the equivalent greedy recursion,
\* MC_Routing checks that the two agree)
InOrderDecl(inc, e) == \E f \in [1..Len(inc) -> 1..Len(e)] :
                          /\ \A i \in 1..Len(inc) : e[f[i]] = inc[i]
                          /\ \A i \in 1..(Len(inc) - 1) : f[i] < f[i + 1]
RECURSIVE InOrderFrom(_, _, _, _)
InOrderFrom(inc, i, e, j) == IF i > Len(inc) THEN TRUE
                             ELSE IF j > Len(e) THEN FALSE
                             ELSE IF inc[i] = e[j] THEN InOrderFrom(inc, i + 1, e, j + 1)
                             ELSE InOrderFrom(inc, i, e, j + 1)
InOrder(inc, e) == InOrderFrom(inc, 1, e, 1)
Crosses(p, inc) == inc = <<>> \/ (Len(p) >= 1 /\ InOrder(inc, Elements(p)))

\* requests: [s, d, inc, strict] with strict[k] = 1 for a STRICT hop, 0 for a LOOSE one
RECURSIVE PickStrict(_, _, _)
PickStrict(inc, strict, k) == IF k > Len(inc) THEN <<>>
                              ELSE (IF strict[k] = 1 THEN <<inc[k]>> ELSE <<>>) \o PickStrict(inc, strict, k + 1)
StrictPart(r) == PickStrict(r.inc, r.strict, 1)
HasStrict(r)  == \E k \in 1..Len(r.inc) : r.strict[k] = 1

\* route-list clean-up (correct_json_route_list): a LOOSE hop naming an element that does not exist is skipped,
\* the other hops keep their own hop type
RECURSIVE KeepKnown(_, _)
KeepKnown(r, k) == IF k > Len(r.inc) THEN <<>>
                   ELSE (IF Unknown(r.inc[k]) /\ r.strict[k] = 0 THEN <<>> ELSE <<k>>) \o KeepKnown(r, k + 1)
Clean(r) == LET keep == KeepKnown(r, 1)
            IN  [s |-> r.s, d |-> r.d, inc |-> [j \in 1..Len(keep) |-> r.inc[keep[j]]],
                 strict |-> [j \in 1..Len(keep) |-> r.strict[keep[j]]]]
CleanBatch(b) == [reqs |-> [i \in 1..Len(b.reqs) |-> Clean(b.reqs[i])], groups |-> b.groups, relax |-> b.relax]

Feasible(P, inc) == {p \in P : Crosses(p, inc)}
MinLen(G, P)     == SetMin({PathLen(G, p) : p \in P})
Shortest(G, P)   == {p \in P : \A q \in P : PathLen(G, p) <= PathLen(G, q)}

\* what the property demands for a (cleaned) request outside any group; P = SimplePaths(G, r.s, r.d)
Verdict(r, P) ==
  IF P = {} THEN "NO_PATH"                                            \* the two sites are not connected
  ELSE IF Feasible(P, r.inc) # {} THEN "ROUTED"                       \* shortest route crossing the whole list
  ELSE IF ~HasStrict(r) THEN "LOOSE_DROPPED"                          \* only LOOSE hops: unconstrained shortest
  ELSE IF Feasible(P, StrictPart(r)) = {} THEN "NO_PATH_WITH_CONSTRAINT"   \* a STRICT hop cannot be met
  ELSE "UNDECIDED"          \* mixed list, the STRICT hops alone could be met: the text does not arbitrate

\* batches: [reqs |-> <<r1, ...>>, groups |-> <<<<i, j>>, ...>>, relax |-> <<0 / 1 per group>>]
GroupSet(b, k) == SeqRange(b.groups[k])
Grouped(b)     == UNION {GroupSet(b, k) : k \in 1..Len(b.groups)}
MustDiffer(b, i, j) == i # j /\ \E k \in 1..Len(b.groups) : i \in GroupSet(b, k) /\ j \in GroupSet(b, k)
SinglePair(b)  == /\ Len(b.groups) >= 1
                  /\ \A k \in 1..Len(b.groups) : GroupSet(b, k) = GroupSet(b, 1)
                  /\ Cardinality(GroupSet(b, 1)) = 2
\* a group stated twice (same members) is one group: deduplicate_disjunctions
OneGroup(b)    == Cardinality({GroupSet(b, k) : k \in 1..Len(b.groups)}) = 1

\* the batch without its relaxable vectors: what must hold whatever `relaxable` is taken to mean
RECURSIVE PickHard(_, _)
PickHard(b, k) == IF k > Len(b.groups) THEN <<>>
                  ELSE (IF b.relax[k] = 0 THEN <<b.groups[k]>> ELSE <<>>) \o PickHard(b, k + 1)
Hard(b)        == LET h == PickHard(b, 1) IN [reqs |-> b.reqs, groups |-> h, relax |-> [k \in 1..Len(h) |-> 0]]
AllHard(b)     == \A k \in 1..Len(b.groups) : b.relax[k] = 0

\* which routes a grouped request may take:
\*   "strong": a request with a STRICT hop crosses its whole list (the code's reading: one STRICT makes the list STRICT)
\*   "weak"  : the STRICT hops only (the weakest reading of the text);  "any": no route constraint
Accept(r, p, mode) == CASE mode = "strong" -> (HasStrict(r) => Crosses(p, r.inc))
                        [] mode = "weak"   -> Crosses(p, StrictPart(r))
                        [] OTHER           -> TRUE

\* all assignments (request index -> route) of the grouped requests that are pairwise link-disjoint inside every group;
\* fx[i] are the Facts of request i (defined below), fx[i].P its simple paths.  sure = TRUE: surely disjoint whatever
\* the pairing of parallel links; sure = FALSE: not surely overlapping.  Without parallel links the two coincide.
RECURSIVE Sols(_, _, _, _, _, _, _)
Sols(G, b, fx, mode, sure, todo, part) ==
  IF todo = {} THEN {part}
  ELSE LET i  == SetMin(todo)
           ok == {p \in fx[i].P :
                    /\ Accept(b.reqs[i], p, mode)
                    /\ \A j \in DOMAIN part :
                         MustDiffer(b, i, j) => IF sure THEN SurelyDisjoint(G, p, part[j])
                                                ELSE ~SurelyOverlapping(G, p, part[j])}
       IN  UNION {Sols(G, b, fx, mode, sure, todo \ {i}, part @@ (i :> p)) : p \in ok}
Solutions(G, b, fx, mode, sure) == Sols(G, b, fx, mode, sure, Grouped(b), <<>>)

\* everything the clauses need to know about one (cleaned) request, computed once: its simple paths P, the verdict v
\* and the optimum the verdict refers to (min)
Facts(G, r) ==
  LET P == SimplePaths(G, r.s, r.d)
      v == Verdict(r, P)
  IN  [P |-> P, v |-> v,
       min |-> IF v = "ROUTED" THEN MinLen(G, Feasible(P, r.inc)) ELSE IF v = "LOOSE_DROPPED" THEN MinLen(G, P) ELSE 0]
FactsOf(G, b) == [i \in 1..Len(b.reqs) |-> Facts(G, Clean(b.reqs[i]))]

-----------------------------------------------------------------------------
(* 2. CLAUSES over an outcome o = [err |-> 0/1, res |-> <<[st, p, rev], ...>>]                                *)
(*    st = "path" with p the route and rev the reverse route (sequences of arcs), or a blocking reason        *)

Found(p)     == [st |-> "path", p |-> p, rev |-> RevRoute(p)]
Blocked(why) == [st |-> why, p |-> <<>>, rev |-> <<>>]
Routed(x)    == x.st = "path"
NoPathReasons == {"NO_PATH", "NO_PATH_WITH_CONSTRAINT"}

\* --- C11, clauses that need no search (they judge the returned route itself); r is a cleaned request
RealRoute(G, r, x)       == Routed(x) => IsRoute(G, x.p, r.s, r.d)
LoopFree(x)              == Routed(x) => IsSimple(x.p)
StrictHopsCrossed(r, x)  == Routed(x) => Crosses(x.p, StrictPart(r))
ReverseMirrors(x)        == Routed(x) => /\ Len(x.p) >= 1 /\ Len(x.rev) >= 1
                                         /\ SitesOf(x.rev) = Reverse(SitesOf(x.p))    \* same sites, in reverse

\* --- C11, clauses relative to the brute-force oracle; f = Facts(G, r), request outside any group
IncludesInOrder(r, f, x) == (Routed(x) /\ f.v = "ROUTED") => Crosses(x.p, r.inc)
ShortestFeasible(G, r, f, x, tol) ==          \* minimal length among the routes crossing the include list
  (Routed(x) /\ IsRoute(G, x.p, r.s, r.d) /\ f.v = "ROUTED") => PathLen(G, x.p) <= f.min + tol
LooseDroppedShortest(G, r, f, x, tol) ==      \* unsatisfiable LOOSE list dropped: the unconstrained shortest route
  (Routed(x) /\ IsRoute(G, x.p, r.s, r.d) /\ f.v = "LOOSE_DROPPED") => PathLen(G, x.p) <= f.min + tol
BlockedExactly(f, x)     == /\ f.v \in {"NO_PATH", "NO_PATH_WITH_CONSTRAINT"} => ~Routed(x)
                            /\ f.v \in {"ROUTED", "LOOSE_DROPPED"} => Routed(x)
BlockingReason(f, x)     == ~Routed(x) => /\ x.st \in NoPathReasons
                                          /\ (x.st = "NO_PATH") <=> (f.P = {})

\* --- C12
\* (the vectors that are not relaxable: see the head of the module)
GroupsLinkDisjoint(G, b, o) ==
  LET h == Hard(b)
  IN  o.err = 0 => \A i, j \in 1..Len(b.reqs) :
                      (MustDiffer(h, i, j) /\ Routed(o.res[i]) /\ Routed(o.res[j]))
                         => ~SurelyOverlapping(G, o.res[i].p, o.res[j].p)
GroupedAreRouted(b, o)   == o.err = 0 => \A i \in Grouped(b) : Routed(o.res[i])
ErrorOnlyForGroups(b, o) == o.err = 1 => b.groups # <<>>
\* completeness for one pair: an error is only allowed when no disjoint combination honours the route constraints
PairComplete(G, b, fx, o) == (o.err = 1 /\ SinglePair(b)) => Solutions(G, b, fx, "strong", TRUE) = {}
\* and an error is mandatory when not even the STRICT hops can be honoured disjointly (any group shape)
\* (counting the vectors that are not relaxable only: giving up a relaxable vector is not an error)
ErrorWhenNoSolution(G, b, fx, o) ==
  LET h == Hard(b) IN (h.groups # <<>> /\ Solutions(G, h, fx, "weak", FALSE) = {}) => o.err = 1

\* names of the clauses request i fails (search-free part / oracle part), and batch-level clauses; b is cleaned
StructuralViol(G, b, o, i) ==
  LET r == b.reqs[i]
      x == o.res[i]
  IN  (IF RealRoute(G, r, x) THEN {} ELSE {"RealRoute"})
      \cup (IF LoopFree(x) THEN {} ELSE {"LoopFree"})
      \cup (IF StrictHopsCrossed(r, x) THEN {} ELSE {"StrictHopsCrossed"})
      \cup (IF ReverseMirrors(x) THEN {} ELSE {"ReverseMirrors"})
OracleViol(G, b, fx, o, i, tol) ==
  LET r == b.reqs[i]
      x == o.res[i]
      f == fx[i]
  IN  IF i \in Grouped(b) THEN {}
      ELSE (IF IncludesInOrder(r, f, x) THEN {} ELSE {"IncludesInOrder"})
           \cup (IF ShortestFeasible(G, r, f, x, tol) THEN {} ELSE {"ShortestFeasible"})
           \cup (IF LooseDroppedShortest(G, r, f, x, tol) THEN {} ELSE {"LooseDroppedShortest"})
           \cup (IF BlockedExactly(f, x) THEN {} ELSE {"BlockedExactly"})
           \cup (IF BlockingReason(f, x) THEN {} ELSE {"BlockingReason"})
BatchStructuralViol(G, b, o) ==
  (IF GroupsLinkDisjoint(G, b, o) THEN {} ELSE {"GroupsLinkDisjoint"})
  \cup (IF GroupedAreRouted(b, o) THEN {} ELSE {"GroupedAreRouted"})
  \cup (IF ErrorOnlyForGroups(b, o) THEN {} ELSE {"ErrorOnlyForGroups"})
BatchOracleViol(G, b, fx, o) ==
  (IF PairComplete(G, b, fx, o) THEN {} ELSE {"PairComplete"})
  \cup (IF ErrorWhenNoSolution(G, b, fx, o) THEN {} ELSE {"ErrorWhenNoSolution"})

\* the complete judgement of a batch as the user wrote it (b0): set of <<request index (0 = the batch), clause name>>;
\* fx = FactsOf(G, b0)
Judge(G, b0, fx, o, tol) ==
  LET b == CleanBatch(b0)
  IN  {<<0, c>> : c \in BatchStructuralViol(G, b, o) \cup BatchOracleViol(G, b, fx, o)}
      \cup (IF o.err = 1 THEN {}
            ELSE UNION {{<<i, c>> : c \in StructuralViol(G, b, o, i) \cup OracleViol(G, b, fx, o, i, tol)} :
                        i \in 1..Len(b.reqs)})
JudgeStructural(G, b0, o) ==
  LET b == CleanBatch(b0)
  IN  {<<0, c>> : c \in BatchStructuralViol(G, b, o)}
      \cup (IF o.err = 1 THEN {}
            ELSE UNION {{<<i, c>> : c \in StructuralViol(G, b, o, i)} : i \in 1..Len(b.reqs)})
==============================================================================
