--------------------------------- MODULE Rat ---------------------------------
(* Exact rational arithmetic for TLC (used by PowerLedger).                                                    *)
(* A rational is a pair <<n, d>> with d > 0 and gcd(|n|, d) = 1, so equality of rationals is equality of       *)
(* pairs.  TLC integers are 32-bit and TLC raises an error on overflow (it never wraps silently); products     *)
(* are therefore taken after cross-reduction and comparisons use Euclid's algorithm (no product at all).       *)
EXTENDS Integers

RAbs(a) == IF a >= 0 THEN a ELSE -a

RECURSIVE Gcd(_, _)
Gcd(a, b) == IF b = 0 THEN a ELSE Gcd(b, a % b)            \* a, b >= 0; Gcd(0, d) = d

R(n, d)  == LET g == Gcd(RAbs(n), d) IN <<n \div g, d \div g>>      \* d > 0
RZero    == <<0, 1>>
ROne     == <<1, 1>>
IsRat(x) == x \in Int \X Int /\ x[2] > 0 /\ Gcd(RAbs(x[1]), x[2]) = 1

RNeg(x)    == <<-x[1], x[2]>>
RAdd(x, y) == LET g == Gcd(x[2], y[2])
                  l == (x[2] \div g) * y[2]                              \* lcm of the denominators
              IN R(x[1] * (l \div x[2]) + y[1] * (l \div y[2]), l)
RSub(x, y) == RAdd(x, RNeg(y))
RMul(x, y) == LET g1 == Gcd(RAbs(x[1]), y[2])
                  g2 == Gcd(RAbs(y[1]), x[2])
              IN <<(x[1] \div g1) * (y[1] \div g2), (x[2] \div g2) * (y[2] \div g1)>>
RInv(x)    == IF x[1] > 0 THEN <<x[2], x[1]>> ELSE <<-x[2], -x[1]>>     \* x # 0
RDiv(x, y) == RMul(x, RInv(y))                                           \* y # 0

(* a/b <= c/d for a, c >= 0 and b, d > 0, by comparing continued-fraction expansions                          *)
RECURSIVE FracLeq(_, _, _, _)
FracLeq(a, b, c, d) ==
    LET q1 == a \div b
        q2 == c \div d
        r1 == a % b
        r2 == c % d
    IN IF q1 # q2 THEN q1 < q2
       ELSE IF r1 = 0 THEN TRUE
       ELSE IF r2 = 0 THEN FALSE
       ELSE FracLeq(d, r2, b, r1)                      \* r1/b <= r2/d  <=>  d/r2 <= b/r1

RLeq(x, y) == CASE x[1] <  0 /\ y[1] >= 0 -> TRUE
                [] x[1] >= 0 /\ y[1] <  0 -> FALSE
                [] x[1] >= 0 /\ y[1] >= 0 -> FracLeq(x[1], x[2], y[1], y[2])
                [] OTHER                  -> FracLeq(-y[1], y[2], -x[1], x[2])
RLt(x, y)  == RLeq(x, y) /\ x # y
==============================================================================
