---------------------------- MODULE MC_Planning ----------------------------
(* Bounded model for C16 (+ the report of every history for C19): a line of three amplified spans per direction      *)
(* (a1 a2 a3 forward, b3 b2 b1 reverse; OMS k = span k) and a pool of five request classes:                          *)
(*   dense    a dense comb (load +2 dB over the design reference) on spans 1-2, forced mode, free slot             *)
(*   sat      saturating power (+4 dB) on spans 1-3, bidirectional, automatic mode over a type whose first explored  *)
(*            mode fails BECAUSE OF its impairment penalty and whose second mode defines no penalty; free slot       *)
(*   nopath   no route satisfies its STRICT include constraint  (blocked before propagation)                        *)
(*   loose    the same request with the constraint LOOSE: served on the unconstrained route (forced penalised mode:    *)
(*            its receiver - the one dense and slot also end on - then holds penalties)                             *)
(*   badmode  bidirectional, automatic mode selection, no feasible mode (NO_FEASIBLE_MODE; the reverse check of the   *)
(*            last explored mode fails too and must not rewrite the reason)                                          *)
(*   slot     user-fixed slot at the bottom of the band on span 2: fails in spectrum assignment whenever an earlier   *)
(*            served request already holds the bottom of span 2 - and pushes later free requests up when it is first *)
(* TLC explores every ordering of every subset (1956 non-empty histories) and the report of each.                     *)
EXTENDS Planning, Json

MCClasses == {"dense", "sat", "nopath", "loose", "badmode", "slot"}
MCAmps    == {"a1", "a2", "a3", "b1", "b2", "b3"}
MCOms     == {1, 2, 3}
MCDesign  == [a \in MCAmps |-> [gain |-> 20, pmax |-> 21]]
MCRcvs    == {"A", "B", "C"}
\* m2p carries an impairment penalty of 3 dB on these paths; the other modes define no penalty at all
MCModes   == <<[name |-> "m3", thr |-> 29000000, pen |-> NONE], [name |-> "m2p", thr |-> 22000000, pen |-> 3000000],
               [name |-> "m2", thr |-> 24000000, pen |-> NONE], [name |-> "m1", thr |-> 20000000, pen |-> NONE]>>
Free(m)   == [n |-> NONE, m |-> m]
R(short, rshort, src, dst, include, hop, oms, load, nch, mode, modes, slot, bidir, bw, type) ==
    [short |-> short, rshort |-> rshort, src |-> src, dst |-> dst, include |-> include, hop |-> hop, via |-> <<>>, rvia |-> <<>>, oms |-> oms,
     load |-> load, nch |-> nch, mode |-> mode, modes |-> modes, slot |-> slot, bidir |-> bidir, bw |-> bw, type |-> type]
MCReq ==
  [c \in MCClasses |->
     CASE c = "dense"   -> R(<<"a1", "a2">>, <<"b2", "b1">>, "A", "B", <<>>, "", {1, 2}, 2, 4, "m2", {"m1", "m2", "m3"}, Free(2),
                             FALSE, 10000, "T1")
       [] c = "sat"     -> R(<<"a1", "a2", "a3">>, <<"b3", "b2", "b1">>, "A", "C", <<>>, "", {1, 2, 3}, 4, 5, "", {"m2p", "m1"},
                             Free(2), TRUE, 20000, "T2")
       \* nopath and loose: same ends, same include list (no route crosses it), they differ in the hop type only
       [] c = "nopath"  -> R(<<"a1", "a2">>, <<"b2", "b1">>, "A", "B", <<"b3">>, "STRICT", {1, 2}, 0, 3, "m2p", {"m2p", "m1"},
                             Free(1), FALSE, 10000, "T1")
       [] c = "loose"   -> R(<<"a1", "a2">>, <<"b2", "b1">>, "A", "B", <<"b3">>, "LOOSE", {1, 2}, 0, 3, "m2p", {"m2p", "m1"},
                             Free(1), FALSE, 10000, "T1")
       \* badmode: bidirectional, automatic selection, no mode of its type is feasible; the reverse check fails as well
       [] c = "badmode" -> R(<<"a1", "a2", "a3">>, <<"b3", "b2", "b1">>, "A", "C", <<>>, "", {1, 2, 3}, 0, 2, "", {"m3"}, Free(1),
                             TRUE, 10000, "T3")
       [] c = "slot"    -> R(<<"a2">>, <<"b2">>, "C", "B", <<>>, "", {2}, 0, 3, "m1", {"m1", "m2", "m3"}, [n |-> 0, m |-> 2],
                             FALSE, 10000, "T1")]

\* B2 emission: one line per non-empty history (before the report): the order and, per request, the model's verdict
Status(c) == IF result[c].reason = "" THEN "served" ELSE result[c].reason
Emit == (done = <<>> \/ Reported) \/
        PrintT("@@" \o ToJson([order |-> done,
                               st |-> [i \in 1..Len(done) |-> Status(done[i])],
                               sameAsSolo |-> [i \in 1..Len(done) |-> result[done[i]] = Solo(done[i])]]))
==============================================================================
