---------------------------- MODULE MC_Planning ----------------------------
(* Bounded model for C16 (+ the report of every history for C19): a line of three amplified spans per direction      *)
(* (a1 a2 a3 forward, b3 b2 b1 reverse; OMS k = span k) and a pool of five request classes:                          *)
(*   dense    a dense comb (load +2 dB over the design reference) on spans 1-2, forced mode, free slot             *)
(*   sat      saturating power (+4 dB) on spans 1-3, bidirectional, automatic mode, free slot                       *)
(*   nopath   no route satisfies its strict constraint  (blocked before propagation)                                *)
(*   badmode  forced mode whose threshold the path misses (blocked after propagation)                               *)
(*   slot     user-fixed slot at the bottom of the band on span 2: fails in spectrum assignment whenever an earlier   *)
(*            served request already holds the bottom of span 2 - and pushes later free requests up when it is first *)
(* TLC explores every ordering of every subset (325 non-empty histories) and the report of each.                     *)
EXTENDS Planning, Json

MCClasses == {"dense", "sat", "nopath", "badmode", "slot"}
MCAmps    == {"a1", "a2", "a3", "b1", "b2", "b3"}
MCOms     == {1, 2, 3}
MCDesign  == [a \in MCAmps |-> [gain |-> 20, pmax |-> 21]]
MCModes   == <<[name |-> "m3", thr |-> 29000000], [name |-> "m2", thr |-> 24000000], [name |-> "m1", thr |-> 20000000]>>
Free(m)   == [n |-> NONE, m |-> m]
MCReq ==
  [c \in MCClasses |->
     CASE c = "dense"   -> [path |-> <<"a1", "a2">>, rpath |-> <<"b2", "b1">>, oms |-> {1, 2}, load |-> 2, mode |-> "m2",
                            slot |-> Free(2), noRoute |-> "", bidir |-> FALSE, bw |-> 10000, type |-> "T1"]
       [] c = "sat"     -> [path |-> <<"a1", "a2", "a3">>, rpath |-> <<"b3", "b2", "b1">>, oms |-> {1, 2, 3}, load |-> 4,
                            mode |-> "", slot |-> Free(2), noRoute |-> "", bidir |-> TRUE, bw |-> 20000, type |-> "T2"]
       [] c = "nopath"  -> [path |-> <<>>, rpath |-> <<>>, oms |-> {}, load |-> 0, mode |-> "m1", slot |-> Free(1),
                            noRoute |-> "NO_PATH_WITH_CONSTRAINT", bidir |-> FALSE, bw |-> 10000, type |-> "T1"]
       [] c = "badmode" -> [path |-> <<"a1", "a2", "a3">>, rpath |-> <<"b3", "b2", "b1">>, oms |-> {1, 2, 3}, load |-> 0,
                            mode |-> "m3", slot |-> Free(1), noRoute |-> "", bidir |-> FALSE, bw |-> 10000, type |-> "T3"]
       [] c = "slot"    -> [path |-> <<"a2">>, rpath |-> <<"b2">>, oms |-> {2}, load |-> 0, mode |-> "m1",
                            slot |-> [n |-> 0, m |-> 2], noRoute |-> "", bidir |-> FALSE, bw |-> 10000, type |-> "T1"]]

\* B2 emission: one line per non-empty history (before the report): the order and, per request, the model's verdict
Status(c) == IF result[c].reason = "" THEN "served" ELSE result[c].reason
Emit == (done = <<>> \/ Reported) \/
        PrintT("@@" \o ToJson([order |-> done,
                               st |-> [i \in 1..Len(done) |-> Status(done[i])],
                               sameAsSolo |-> [i \in 1..Len(done) |-> result[done[i]] = Solo(done[i])]]))
==============================================================================
