INIT Init
NEXT Next
INVARIANT Lemmas
INVARIANT AxisLaw
INVARIANT Emit
