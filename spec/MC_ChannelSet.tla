---------------------------- MODULE MC_ChannelSet ----------------------------
(* Bounded model for C07.  Band edges are those of the shipped multi-band library (eqpt_config_multiband.json)  *)
(* in MHz from 193.1 THz, so that the TLC-enumerated cases can be replayed on the real amplifiers:            *)
(*   multi-band amplifier  C = [-1 875 000, 3 025 000]   L = [-6 600 000, -3 000 000]                          *)
(*   test_fixed_gain       [-1 825 000, 3 025 000]       std_low_gain_bis [-1 850 000, 3 050 000]              *)
(*   SI default            [-1 800 000, 2 000 000]       wide_band (variant)  [-7 100 000, 3 100 000]                  *)
(*   three-band amplifier (variant: the C and L amplifiers above + an S-band one)   S = [3 900 000, 6 900 000]  *)
(* Candidates sit exactly on band edges, one MHz beyond them, in the C/L gap, touch each other exactly,        *)
(* overlap by one MHz, have the baud rate equal to / one MHz above the slot, and two slot widths.              *)
EXTENDS ChannelSet, TLC, Json

C(f, w, b, l) == [f |-> f, w |-> w, b |-> b, label |-> l]
MCCandidates == {
    C(-1850000, 50000, 32000,  1),     \* lower edge of multi-band C exactly; below both single-band amplifiers
    C(-1850001, 50000, 32000,  2),     \* one MHz below it
    C(-1800000, 50000, 32000,  3),     \* lower edge of test_fixed_gain (and of the SI default band) exactly
    C(-1800001, 50000, 32000,  4),     \* one MHz below: inside std_low_gain_bis and multi-band C only
    C(       0, 50000, 32000,  5),
    C(   62499, 75000, 64000,  6),     \* wider slot overlapping label 5 by one MHz (and labels 7, 8 by more)
    C(   50000, 50000, 32000,  7),     \* touches label 5 exactly
    C(  112500, 75000, 64000,  8),     \* wider slot touching label 7 exactly
    C( 3000000, 50000, 50000,  9),     \* upper edge of C exactly; baud rate = slot width
    C( 3000001, 50000, 32000, 10),     \* one MHz above: inside std_low_gain_bis only
    C(-2500000, 50000, 32000, 11),     \* in the gap between L and C
    C(-3025000, 50000, 32000, 12),     \* upper edge of L exactly
    C(-3024999, 50000, 32000, 13),     \* one MHz above
    C(-6575000, 50000, 32000, 14),     \* lower edge of L exactly
    C( 1000000, 50000, 50001, 15),     \* baud rate one MHz wider than the slot
    C(       0, 50000, 40000, 16),     \* a second, different carrier declared at the frequency of label 5
    C( 3925000, 50000, 32000, 17) }    \* lower edge of S exactly: outside every amplifier but the three-band one

Passive == [kind |-> "passive", bands |-> <<>>]
Amp(lo, hi) == [kind |-> "amp", bands |-> <<<<lo, hi>>>>]
Multi == [kind |-> "multi", bands |-> << <<-1875000, 3025000>>, <<-6600000, -3000000>> >>]    \* C first, as configured
\* three bands, configured C, L, S: the band in the middle of the configuration is not the one in the middle of the
\* frequency axis (the filter splits in frequency order L, C, S; the amplifier in configuration order)
Multi3 == [kind |-> "multi", bands |-> << <<-1875000, 3025000>>, <<-6600000, -3000000>>, <<3900000, 6900000>> >>]
MCPaths == << <<Amp(-1825000, 3025000), Passive, Amp(-1850000, 3050000)>>,          \* single band
              <<Multi, Passive, Multi>>,                                            \* multi band
              <<Multi, Passive, Amp(-1850000, 3050000)>>,                           \* mixed
              <<Passive>>,                                                          \* no amplifier at all
              \* one wide band spanning L and C met before / after the multi-band amplifier: the common band is the
              \* two bands of the multi-band amplifier whatever the order of the amplifiers on the path
              <<Amp(-7100000, 3100000), Passive, Multi>>,
              <<Multi, Passive, Amp(-7100000, 3100000)>>,
              <<Multi3, Passive, Multi3>> >>                                        \* three bands (three parts to mux)
MCDefaultBand == <<-1800000, 2000000>>

\* emission for the spec -> code replay (B2): one line per finished walk
Terminal == status \in {"SpectrumError", "NoChannel"} \/ (status = "filtered" /\ pos = Len(Paths[pid]))
Emit == ~Terminal \/ PrintT("@@" \o ToJson([input |-> input, pid |-> pid, status |-> status,
                                            launched |-> LaunchOutcome(input).spec, kept |-> kept, final |-> spec]))

\* the band common to all amplifiers does not depend on the order in which the path meets them
CommonIsOrderFree == \A c \in Candidates : InCommon(c, Paths[5]) = InCommon(c, Paths[6])
                                           /\ InCommon(c, Paths[5]) = InCommon(c, Paths[2])
ASSUME CommonIsOrderFree

\* vacuity witnesses (each must be VIOLATED when listed as an invariant)
WitnessMultiSplit == ~(status = "filtered" /\ pos = 3 /\ pid = 2 /\ \E c, d \in SeqSet(spec) : c.f < -3000000 /\ d.f > 0)
WitnessThreeBands == ~(status = "filtered" /\ pos = 3 /\ pid = 7 /\ \E c, d, e \in SeqSet(spec) : c.f < -3000000 /\ d.f \in -1850000..3000000
                                                                                                  /\ e.f > 3900000)
WitnessDropped    == ~(status = "filtered" /\ Len(kept) < Len(input) /\ Len(kept) >= 2)
==============================================================================
