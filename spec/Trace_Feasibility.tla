--------------------------- MODULE Trace_Feasibility ---------------------------
(* B3 for C13: recorded executions of the real compute_path_with_disjunction are judged against               *)
(* FeasibilityOps.  One trace = one service request on one path with one constructed transceiver library:      *)
(*   si         the SI entries of the equipment library as listed (the margin is the DEFAULT entry's)              *)
(*   modes[k]   what was CONFIGURED for mode k (baud rate, bit rate, fits, required OSNR, reciprocal             *)
(*              transmitter OSNR, penalty points as listed in the file) and the figures of mode k propagated ALONE on a fresh copy   *)
(*              (po: the same under every OTHER equalization offset the library defines for the mode's baud rate)    *)
(*              of the path with the implementation's own propagate(): pf (forward), pr (reverse)              *)
(*   stf/str    CONFIGURATION of every add/drop stage crossed, forward / reverse: profiles of the ROADM type as   *)
(*              listed - each with its frequency ranges as listed, possibly overlapping -, profile id selected  *)
(*              for the degrees (NONE: none), default (FeasibilityOps.StageInv); freq: the carriers' frequencies, MHz *)
(*   ev         every recomputation of receiver figures, in order: the pristine ones (kind 0, a reference      *)
(*              [mode, dir] to pf / pr) and the ones the request itself went through (kind 1: update_snr +     *)
(*              calc_penalties observed on the receiver, nup = how many times this receiver object had been    *)
(*              updated so far) and, for a bidirectional request, the receiver figures of the reverse path     *)
(*              RETURNED for it (kind 2).  A request of a batch carries the pristine figures of ITS OWN route. *)
(*   bidir      what THIS service asked for in the service file (the services of a file that differ in this flag *)
(*              are different requests whatever the aggregation step does)                                      *)
(*   txc        user-defined spectrum: reciprocal transmitter OSNR of every carrier as written (<<>>: none, the  *)
(*              mode's transmitter OSNR applies to every carrier)                                               *)
(*   out        what the code answered: selected mode and blocking reason                                      *)
(* Monitor-shaped: every event is consumed, `viol` accumulates <<step, clause>>, the last step judges the       *)
(* verdict; one line per trace is printed.  All figures are per channel.                                       *)
EXTENDS FeasibilityOps, Json, IOUtils, TLC

T == ndJsonDeserialize(IOEnv.TRACE_FILE)

TolInv  == 60       \* units of 1e-9 on the reciprocal composition (measured deviation <= 3, see evidence)
TolPen  == 2000     \* micro-dB on an interpolated penalty (projection of the impairment to table units dominates)
TolHist == 200      \* micro-dB between the figures the request saw for a mode and the pristine figures of that mode

VARIABLES tid, i, viol
vars == <<tid, i, viol>>

Chans(e)     == 1..Len(e.rx)
StagesOf(tr, e) == IF e.dir = 0 THEN tr.stf ELSE tr.str
Pristine(tr, k, dir) == IF dir = 0 THEN tr.modes[k].pf ELSE tr.modes[k].pr

\* the transmitter figure of carrier c: its own one in a user-defined spectrum, else the mode's
TxAt(tr, m, c) == IF c > Len(tr.txc) THEN m.tx ELSE tr.txc[c]

EventAt(tr, k) == LET e == tr.ev[k] IN IF e.kind = 0 THEN Pristine(tr, e.mode, e.dir) ELSE e

SameFigure(a, b, tol) == IF a >= Inf \/ b >= Inf THEN a >= Inf /\ b >= Inf ELSE Within(a, b, tol)
SameFigures(e, q) == Len(q.rxdb) = Len(e.rxdb) /\ \A c \in 1..Len(e.rxdb) : /\ SameFigure(e.rxdb[c], q.rxdb[c], TolHist)
                                                                           /\ SameFigure(e.tot[c], q.tot[c], TolHist)
\* the pristine figures of mode k (forward) under the OTHER equalization offsets the library defines for its baud rate
\* (FeasibilityOps.UnderOffsets); the figures a request sees for a mode are pristine ones under one of these offsets
OtherOffsets(tr, k, dir) == IF dir = 0 THEN {tr.modes[k].po[j] : j \in 1..Len(tr.modes[k].po)} ELSE {}

EvalClauses(tr, e) ==
  LET m == tr.modes[e.mode]
      p == Pristine(tr, e.mode, e.dir)
      tcd  == TableOf(m.cd)           \* the tables as WRITTEN in the equipment file, ordered by the specification
      tpmd == TableOf(m.pmd)
      tpdl == TableOf(m.pdl)
      st   == StagesOf(tr, e)
  IN  (IF \A j \in 1..Len(st) : StageOK(st[j]) THEN {} ELSE {"StageWellFormed"}) \cup
      (IF (Len(tr.txc) = 0 \/ Len(tr.txc) = Len(e.rx)) /\ Len(e.freq) = Len(e.rx) THEN {} ELSE {"SpectrumCarriers"}) \cup
      (IF PointsOK(m.cd) /\ PointsOK(m.pmd) /\ PointsOK(m.pdl) /\ TableOK(tcd) /\ TableOK(tpmd) /\ TableOK(tpdl)
       THEN {} ELSE {"TableWellFormed"})
      \cup (IF \A c \in Chans(e) : CompositionOK(e.rx[c], e.line[c], TxAt(tr, m, c), AddsOf(st, e.freq[c]), TolInv)
            THEN {} ELSE {"CompositionLaw"})
      \cup (IF \A c \in Chans(e) : /\ PenaltyOK(tcd, e.cd[c], e.pcd[c], TolPen)
                                   /\ PenaltyOK(tpmd, e.pmd[c], e.ppmd[c], TolPen)
                                   /\ PenaltyOK(tpdl, e.pdl[c], e.ppdl[c], TolPen)
                                   /\ TotalOK(<<e.pcd[c], e.ppmd[c], e.ppdl[c]>>, e.tot[c], TolPen)
            THEN {} ELSE {"PenaltyLaw"})
      \cup (IF e.kind = 1 /\ p.ran = 1 /\ ~(\E q \in {p} \cup OtherOffsets(tr, e.mode, e.dir) : SameFigures(e, q))
            THEN {"HistoryIndependence"} ELSE {})

\* the reverse result returned for the request must be the one of the request's own route, whatever the batch
\* propagated before
ReportedClauses(tr, e) ==
  LET p == Pristine(tr, e.mode, 1)
  IN  IF p.ran = 1 /\ ~(Len(p.rxdb) = Len(e.rxdb) /\ \A c \in 1..Len(e.rxdb) : /\ SameFigure(e.rxdb[c], p.rxdb[c], TolHist)
                                                                                /\ SameFigure(e.tot[c], p.tot[c], TolHist))
      THEN {"ReverseOnOwnRoute"} ELSE {}

StepClauses(tr, e) == IF e.kind = 2 THEN ReportedClauses(tr, e) ELSE EvalClauses(tr, e)

\* the library as the property sees it: pristine worst channel per mode
ModeRec(tr, k, dir) ==
  LET m == tr.modes[k]
      p == Pristine(tr, k, dir)
  IN  [br |-> m.br, rate |-> m.rate, fits |-> m.fits = 1, thr |-> Threshold(m.osnr, tr.si),
       worst |-> IF p.ran = 1 THEN Worst(p.rxdb, p.tot) ELSE -Inf]
\* automatic selection: a mode whose side of the threshold depends on which offset of its baud rate is applied is unjudged
AltWorsts(tr, k) == {Worst(q.rxdb, q.tot) : q \in OtherOffsets(tr, k, 0)}
Lib(tr) == [k \in 1..Len(tr.modes) |-> IF tr.auto = 1 THEN UnderOffsets(ModeRec(tr, k, 0), AltWorsts(tr, k))
                                                       ELSE ModeRec(tr, k, 0)]
OffsetDependent(tr) == {k \in 1..Len(tr.modes) : ~OffsetRobust(ModeRec(tr, k, 0), AltWorsts(tr, k))}

ReverseClauses(tr, k) ==     \* an accepted bidirectional request: the reverse direction must not be infeasible
  FixedClauses(ModeRec(tr, k, 0), ModeRec(tr, k, 1), TRUE, NoBlock) \cap {"ReverseDirectionCounts", "InfPenaltyBlocks"}

VerdictClauses(tr) ==
  LET lib == Lib(tr)
      o == tr.out
  IN  IF tr.auto = 1
      THEN IF o.block = NotFeas
           THEN (IF tr.bidir = 1 /\ o.sel \in DOMAIN lib THEN {} ELSE {"AutoOutcomeKind"})
                \cup AutoClauses(lib, [sel |-> o.sel, block |-> NoBlock])
                \cup (IF o.sel \in DOMAIN lib /\ tr.modes[o.sel].pr.ran = 1 /\ Feasible(ModeRec(tr, o.sel, 1))
                      THEN {"BlockedOnlyIfInfeasible"} ELSE {})
           ELSE AutoClauses(lib, o)
                \cup (IF tr.bidir = 1 /\ o.block = NoBlock /\ o.sel \in DOMAIN lib /\ tr.modes[o.sel].pr.ran = 1
                      THEN ReverseClauses(tr, o.sel) ELSE {})
      ELSE FixedClauses(ModeRec(tr, tr.fixed, 0),
                        IF tr.bidir = 1 THEN ModeRec(tr, tr.fixed, 1) ELSE ModeRec(tr, tr.fixed, 0),
                        tr.bidir = 1, o.block)

Init == /\ tid \in 1..Len(T)
        /\ i = 0
        /\ viol = {}

Next == /\ i <= Len(T[tid].ev)
        /\ i' = i + 1
        /\ tid' = tid
        /\ viol' = viol \cup {<<i + 1, c>> : c \in IF i < Len(T[tid].ev) THEN StepClauses(T[tid], EventAt(T[tid], i + 1))
                                                                       ELSE VerdictClauses(T[tid])}

\* verdict line: one per trace, printed when the verdict step has been taken
Done == i <= Len(T[tid].ev) \/ PrintT("@@" \o ToJson([name |-> T[tid].name, n |-> i, viol |-> viol, offdep |-> OffsetDependent(T[tid])]))
==============================================================================
