INIT Init
NEXT Next
INVARIANT Verdict
