---------------------------- MODULE RoutingSample ----------------------------
(* The meshes a sampled run of MC_Routing explores.  This file holds a small default; the harness overwrites  *)
(* it in the TLC work directory with the seeded, stratified sample of the run (harness/checks/c11.py).        *)
SampleMeshIds == {0, 1, 27, 283, 1365, 2047, 3906, 7812, 9000, 11718, 15624}
==============================================================================
