----------------------------- MODULE PowerLedger -----------------------------
(* C01 / C02 - the per-channel power ledger of gnpy.core.info.SpectralInformation.                            *)
(*                                                                                                          *)
(* Every channel carries a total power P and a ledger (S, A, N): the parts of P that are signal, amplified  *)
(* spontaneous emission and non-linear interference.  GNPy stores P (_pch) and the three shares S/P, A/P,   *)
(* N/P (_signal_ratio, _ase_ratio, _nli_ratio); signal = share * pch etc. are what it exposes.  The model    *)
(* keeps P and (S, A, N) as four separately updated exact rationals, so that "the books balance"            *)
(* (Conservation) is a real statement about the update rules and not a definition.                          *)
(*                                                                                                          *)
(* Actions, at the grain of the public methods every element is built from:                                  *)
(*   Scale(j, f)   apply_attenuation_lin / apply_gain_lin (and the _db forms): everything times f[c]        *)
(*   AddASE(j, a)  add_ase: a[c] watts of noise are ADDED to the channel: P and A grow by a[c]              *)
(*   AddNLI(j, r)  add_nli: the fraction r[c] = nli/pch of the channel power is TRANSFERRED to N:           *)
(*                 P is kept; S, A, N each give up their fraction r and N receives r*P                      *)
(*   Demux(j, M)   demuxed_spectral_information / select_channels: the channels M of spectrum j are taken   *)
(*                 out as one spectrum, the others form a second one; M may be a band, the complement of a  *)
(*                 (so the band in the middle of a comb) or any other selection - a later Mux then          *)
(*                 INTERLEAVES the two spectra                                                               *)
(*   Mux           muxed_spectral_information: ALL spectra (two or more) are re-assembled in frequency order *)
(* j designates the (sub-)spectrum an operation acts on: between Demux and Mux each band is processed by    *)
(* its own amplifier (Multiband_amplifier), otherwise there is one spectrum.                                 *)
(* Launch creates TWO spectra from one description (the per-channel arrays a caller hands to the            *)
(* constructor): the one that is driven through the operations and a twin that is kept as launched (the     *)
(* other direction of a link described once, the reference of a what-if study).  Every spectrum owns its    *)
(* books: nothing done to one spectrum reaches another one.                                                 *)
(*                                                                                                          *)
(* C01 clauses: Conservation, SharesInUnitInterval, GsnrIdentity, MuxDemuxLossless, DemuxMuxKeepLedger,      *)
(*              SourceUntouched, TwinUntouched (the first three also on the twin).                          *)
(* C02 clauses: KeepsOsnr, KeepsNli, LowersOsnr, LowersNli, NeverImprovesGsnr, OthersUntouched.              *)
EXTENDS Rat, Sequences, FiniteSets

CONSTANTS NCh,        \* number of launched channels; a channel's id is its rank in frequency order
          Launch,     \* <<p_1, ..., p_NCh>> launch power of each channel (rational, > 0)
          ScaleArgs,  \* set of vectors <<f_1, ..., f_NCh>> of gain/loss factors (> 0)
          AseArgs,    \* set of vectors of added ASE powers (>= 0)
          NliArgs,    \* set of vectors of transferred fractions r = nli / pch, 0 <= r < 1
          Splits,     \* set of channel selections M: Demux(j, M) separates the channels of M from the others of spectrum j
          MaxParts    \* largest number of spectra that exist (and are merged) at once

ASSUME /\ NCh \in Nat \ {0}
       /\ \A c \in 1..NCh : IsRat(Launch[c]) /\ RLt(RZero, Launch[c])
       /\ \A f \in ScaleArgs : \A c \in 1..NCh : IsRat(f[c]) /\ RLt(RZero, f[c])
       /\ \A a \in AseArgs : \A c \in 1..NCh : IsRat(a[c]) /\ RLeq(RZero, a[c])
       \* the property's precondition nli <= pch; r = 1 would leave no signal at all (every figure 0/0)
       /\ \A r \in NliArgs : \A c \in 1..NCh : IsRat(r[c]) /\ RLeq(RZero, r[c]) /\ RLt(r[c], ROne)
       /\ \A M \in Splits : M \subseteq 1..NCh /\ M # {} /\ M # 1..NCh

VARIABLES parts,   \* sequence of spectra; a spectrum is a sequence of channel records [id, P, S, A, N]
          src,     \* the spectrum the sub-spectra were extracted from, as it was then (<<>> when there is one spectrum):
                   \* extraction does not consume its source, which stays usable (Multiband_amplifier, filter_si)
          last,    \* the operation that produced this state: [op, j, arg] (arg: per-channel vector or <<>>)
          twin     \* a second spectrum built from the same launch description, never driven
vars == <<parts, src, last, twin>>

Chan  == 1..NCh
NoArg == [c \in Chan |-> RZero]

-----------------------------------------------------------------------------
(* The update rules of one channel                                                                            *)
ScaleCh(ch, f) == [ch EXCEPT !.P = RMul(@, f), !.S = RMul(@, f), !.A = RMul(@, f), !.N = RMul(@, f)]
AseCh(ch, a)   == [ch EXCEPT !.P = RAdd(@, a), !.A = RAdd(@, a)]
NliCh(ch, r)   == LET keep == RSub(ROne, r)
                  IN [ch EXCEPT !.S = RMul(@, keep), !.A = RMul(@, keep),
                                !.N = RAdd(RMul(@, keep), RMul(r, ch.P))]

OnPart(ps, j, F(_)) == [ps EXCEPT ![j] = [k \in 1..Len(ps[j]) |-> F(ps[j][k])]]
IdsOf(spec) == {spec[k].id : k \in 1..Len(spec)}

Launched == [c \in Chan |-> [id |-> c, P |-> Launch[c], S |-> Launch[c], A |-> RZero, N |-> RZero]]
Init == /\ parts = << Launched >>
        /\ twin = Launched
        /\ src = <<>>
        /\ last = [op |-> "Launch", j |-> 0, arg |-> NoArg]

Scale(j, f) == /\ parts' = OnPart(parts, j, LAMBDA ch : ScaleCh(ch, f[ch.id])) /\ UNCHANGED src
               /\ last' = [op |-> "Scale", j |-> j, arg |-> [c \in Chan |-> IF c \in IdsOf(parts[j]) THEN f[c] ELSE ROne]]

AddASE(j, a) == /\ parts' = OnPart(parts, j, LAMBDA ch : AseCh(ch, a[ch.id])) /\ UNCHANGED src
                /\ last' = [op |-> "AddASE", j |-> j, arg |-> [c \in Chan |-> IF c \in IdsOf(parts[j]) THEN a[c] ELSE RZero]]

\* the argument of add_nli is a power: arg records nli = r * pch of each channel of the part
AddNLI(j, r) == /\ parts' = OnPart(parts, j, LAMBDA ch : NliCh(ch, r[ch.id])) /\ UNCHANGED src
                /\ last' = [op |-> "AddNLI", j |-> j,
                            arg |-> [c \in Chan |-> IF c \in IdsOf(parts[j])
                                                    THEN RMul(r[c], (CHOOSE ch \in {parts[j][k] : k \in 1..Len(parts[j])} : ch.id = c).P)
                                                    ELSE RZero]]

\* Spectrum j is split: the selected channels first (when M is the upper band the spectra are handed on, and merged
\* again, high band first, as Multiband_amplifier does with its amplifiers in configuration order).  A sub-spectrum
\* may be split again, so that up to MaxParts spectra are merged at once.
Demux(j, M) == /\ Len(parts) < MaxParts
               /\ M # {} /\ M \subseteq IdsOf(parts[j]) /\ M # IdsOf(parts[j])
               /\ parts' = SubSeq(parts, 1, j - 1)
                            \o << SelectSeq(parts[j], LAMBDA ch : ch.id \in M), SelectSeq(parts[j], LAMBDA ch : ch.id \notin M) >>
                            \o SubSeq(parts, j + 1, Len(parts))
               /\ src' = IF Len(parts) = 1 THEN parts[1] ELSE src
               /\ last' = [op |-> "Demux", j |-> j, arg |-> NoArg]

\* muxed_spectral_information(list): SpectralInformation.__add__ appends, the constructor sorts by frequency
RECURSIVE Flat(_)
Flat(ps) == IF ps = <<>> THEN <<>> ELSE Head(ps) \o Flat(Tail(ps))
Mux == /\ Len(parts) >= 2
       /\ LET all == Flat(parts)
          IN parts' = << [c \in Chan |-> CHOOSE ch \in {all[k] : k \in 1..Len(all)} : ch.id = c] >>
       /\ src' = <<>>
       /\ last' = [op |-> "Mux", j |-> 0, arg |-> NoArg]

\* no operation has the twin among the spectra it acts on
Next == /\ \/ \E j \in 1..Len(parts) : \/ \E f \in ScaleArgs : Scale(j, f)
                                       \/ \E a \in AseArgs : AddASE(j, a)
                                       \/ \E r \in NliArgs : AddNLI(j, r)
           \/ \E j \in 1..Len(parts) : \E M \in Splits : Demux(j, M)
           \/ Mux
        /\ UNCHANGED twin
Spec == Init /\ [][Next]_vars

-----------------------------------------------------------------------------
(* Figures of merit (reciprocals, so that "no noise yet" is 0 and not infinity)                              *)
InvOsnr(ch) == RDiv(ch.A, ch.S)                   \* 1 / OSNR_ASE
InvNli(ch)  == RDiv(ch.N, ch.S)                   \* 1 / SNR_NLI
InvGsnr(ch) == RDiv(RAdd(ch.A, ch.N), ch.S)       \* 1 / GSNR

All(ps)    == UNION {{ps[j][k] : k \in 1..Len(ps[j])} : j \in 1..Len(ps)}
Every      == All(parts) \cup All(<<twin>>)                     \* every channel of every spectrum there is
Led(ps, c) == CHOOSE ch \in All(ps) : ch.id = c                  \* the ledger of channel c wherever it is
Touched    == IF last'.op \in {"Scale", "AddASE", "AddNLI"} THEN IdsOf(parts[last'.j]) ELSE {}

TypeOK == /\ Len(parts) \in 1..MaxParts
          /\ \A ch \in Every : ch.id \in Chan /\ IsRat(ch.P) /\ IsRat(ch.S) /\ IsRat(ch.A) /\ IsRat(ch.N)

-----------------------------------------------------------------------------
(* C01 *)
Conservation ==           \* signal + ASE + NLI is the channel power, i.e. the three shares add up to exactly 1
    \A ch \in Every : /\ RAdd(RAdd(ch.S, ch.A), ch.N) = ch.P
                       /\ RAdd(RAdd(RDiv(ch.S, ch.P), RDiv(ch.A, ch.P)), RDiv(ch.N, ch.P)) = ROne

SharesInUnitInterval ==   \* each share lies in [0, 1] (and there is signal left: r < 1)
    \A ch \in Every : /\ RLt(RZero, ch.P) /\ RLt(RZero, ch.S)
                       /\ \A x \in {ch.S, ch.A, ch.N} : RLeq(RZero, x) /\ RLeq(x, ch.P)

GsnrIdentity ==           \* 1/GSNR = 1/OSNR_ASE + 1/SNR_NLI
    \A ch \in Every : InvGsnr(ch) = RAdd(InvOsnr(ch), InvNli(ch))

MuxDemuxLossless ==       \* every launched channel is present exactly once, each spectrum in frequency order
    /\ \A c \in Chan : Cardinality({<<j, k>> \in (1..Len(parts)) \X Chan : k <= Len(parts[j]) /\ parts[j][k].id = c}) = 1
    /\ \A j \in 1..Len(parts) : \A k \in 1..(Len(parts[j]) - 1) : parts[j][k].id < parts[j][k + 1].id
    /\ \A j \in 1..Len(parts) : Len(parts[j]) > 0

\* extracting a band does not touch - and later work on the band does not reach back into - the spectrum it came from
SourceUntouchedStep == (src # <<>> /\ last'.op # "Mux") => src' = src
SourceUntouched == [][SourceUntouchedStep]_vars
SourceIsWhole == src = <<>> <=> Len(parts) = 1

\* two spectra built from one description do not share their books: whatever is done to one, the other stays as launched
TwinUntouchedStep == twin' = twin
TwinUntouched == [][TwinUntouchedStep]_vars
TwinAsLaunched == twin = Launched

DemuxMuxKeepLedgerStep == last'.op \in {"Demux", "Mux"} => \A c \in Chan : Led(parts', c) = Led(parts, c)
DemuxMuxKeepLedger == [][DemuxMuxKeepLedgerStep]_vars       \* band split / merge neither creates nor loses power

-----------------------------------------------------------------------------
(* C02: what each operation may do to the figures of merit of a channel                                       *)
KeepsOsnrStep == last'.op \in {"Scale", "AddNLI", "Demux", "Mux"} =>
                    \A c \in Chan : InvOsnr(Led(parts', c)) = InvOsnr(Led(parts, c))
KeepsNliStep  == last'.op \in {"Scale", "AddASE", "Demux", "Mux"} =>
                    \A c \in Chan : InvNli(Led(parts', c)) = InvNli(Led(parts, c))
LowersOsnrStep == last'.op = "AddASE" =>          \* strictly, wherever noise was really added
                    \A c \in Touched : IF last'.arg[c] = RZero THEN InvOsnr(Led(parts', c)) = InvOsnr(Led(parts, c))
                                       ELSE RLt(InvOsnr(Led(parts, c)), InvOsnr(Led(parts', c)))
LowersNliStep  == last'.op = "AddNLI" =>
                    \A c \in Touched : IF last'.arg[c] = RZero THEN InvNli(Led(parts', c)) = InvNli(Led(parts, c))
                                       ELSE RLt(InvNli(Led(parts, c)), InvNli(Led(parts', c)))
NeverImprovesGsnrStep == \A c \in Chan : RLeq(InvGsnr(Led(parts, c)), InvGsnr(Led(parts', c)))
OthersUntouchedStep   == \A c \in Chan \ Touched : Led(parts', c) = Led(parts, c)

KeepsOsnr         == [][KeepsOsnrStep]_vars
KeepsNli          == [][KeepsNliStep]_vars
LowersOsnr        == [][LowersOsnrStep]_vars
LowersNli         == [][LowersNliStep]_vars
NeverImprovesGsnr == [][NeverImprovesGsnrStep]_vars
OthersUntouched   == [][OthersUntouchedStep]_vars
==============================================================================
