----------------------------- MODULE Transmission -----------------------------
(* The second entry point of GNPy (gnpy-transmission-example, worker_utils.transmission_simulation):           *)
(*                                                                                                            *)
(*    Load -> Design(reference power) -> for every step dp of the power range:                                *)
(*                 [Redesign(reference power + dp)]  ->  Propagate(dp)  ->  record                            *)
(*                                                                                                            *)
(* The line is  ROADM -> amp 0 (booster) -> span 1 -> amp 1 -> ... -> span n -> amp n (preamp) -> ROADM.       *)
(* The ROADM launches a fixed power whatever the transceiver sends, so the sweep acts through the design only: *)
(* each step redesigns the amplifiers of the path for the step's reference power (power mode), then propagates.*)
(* Design at the grain of the code (set_egress_amplifier): the power offset of an amplifier is the rule of the *)
(* next span reduced so that reference power + offset stays below the amplifier's maximum, the gain closes the *)
(* budget from the previous amplifier's output.  In gain mode the gains are the operator's and no sweep exists.*)
(* Integer units are arbitrary (think dB).                                                                     *)
(*                                                                                                            *)
(* Clauses:  BudgetClosedEachStep (C09 at every sweep step), EachStepDesignedForItsPower,                      *)
(*           ResultIsFunctionOfPower (hence the order of the sweep is irrelevant), ZeroStepIsTheNominalDesign, *)
(*           SingleStepKeepsTheDesign, GainModeHasNoSweep, PowersReported, SweepTouchesOnlyThePathAmplifiers.  *)
EXTENDS GnpyBase, TLC

CONSTANTS Lines,        \* set of lines: sequences of span losses
          Ranges,       \* set of power ranges: non-empty sequences of offsets (already expanded from start/stop/step)
          Modes,        \* subset of BOOLEAN: TRUE = power mode
          SkipZero      \* deviation switch (FALSE): "do not redesign at the 0 dB step" - the model then violates its clauses

RoadmOut == -20                 \* per-channel power launched by the ROADM, relative to the nominal reference power 0
PMaxOff  == 3                   \* amplifier saturation: reference offset + power offset may not exceed this
Rule(nextLoss) == IF nextLoss = 0 THEN 0 ELSE IF nextLoss > 24 THEN 2 ELSE IF nextLoss < 18 THEN -2 ELSE 0
Reduce(dp, p)  == dp - MaxI(0, p + dp - PMaxOff)

NextLoss(L, k) == IF k < Len(L) THEN L[k + 1] ELSE 0                  \* amplifier k faces span k + 1 (the preamp a ROADM)
Dp(L, k, p)    == Reduce(Rule(NextLoss(L, k)), p)
Gain(L, k, p)  == IF k = 0 THEN p + Dp(L, 0, p) - RoadmOut ELSE L[k] + Dp(L, k, p) - Dp(L, k - 1, p)
\* settings of amplifiers 0..n designed for reference offset p (sequences are 1-based: index k + 1)
DesignAt(L, p) == [k \in 1..(Len(L) + 1) |-> [gain |-> Gain(L, k - 1, p), dp |-> Dp(L, k - 1, p)]]
\* reference channel power at every amplifier output when the line with settings s is propagated
RECURSIVE OutAt(_, _, _)
OutAt(L, s, k) == IF k = 0 THEN RoadmOut + s[1].gain ELSE OutAt(L, s, k - 1) - L[k] + s[k + 1].gain
Outputs(L, s) == [k \in 1..(Len(L) + 1) |-> OutAt(L, s, k - 1)]

VARIABLES line, mode, range,
          pc,            \* "loaded" "designed" "step" "redesigned" "propagated" "done"
          k,             \* index of the current sweep step
          pref,          \* reference offset of the current step
          set,           \* amplifier settings in force
          designedFor,   \* ghost: the reference offset the settings in force were designed for
          results,       \* one record per step: [dp, set, out]
          outside        \* version of every setting that is not an amplifier of the path (other directions, other degrees
                         \* of the crossed ROADMs, the ROADM targets themselves): the first design writes it, a sweep must not
vars == <<line, mode, range, pc, k, pref, set, designedFor, results, outside>>

\* transmission_simulation: "power cannot be changed in gain mode" -> the range collapses to <<0>>
EffRange == IF mode THEN range ELSE <<0>>

Init == /\ line \in Lines /\ mode \in Modes /\ range \in Ranges
        /\ pc = "loaded" /\ k = 0 /\ pref = 0 /\ set = <<>> /\ designedFor = NONE /\ results = <<>> /\ outside = 0

Design == /\ pc = "loaded"
          /\ set' = DesignAt(line, 0) /\ designedFor' = 0 /\ pc' = "designed" /\ outside' = 1
          /\ UNCHANGED <<line, mode, range, k, pref, results>>

StartSweep == /\ pc = "designed" /\ k' = 1 /\ pc' = "step"
              /\ UNCHANGED <<line, mode, range, pref, set, designedFor, results, outside>>

\* "redesign is mandatory for each power, but no need to redesign if there is no power sweep"
Redesign == /\ pc = "step"
            /\ pref' = EffRange[k]
            /\ IF Len(EffRange) > 1 /\ ~(SkipZero /\ EffRange[k] = 0)
               THEN set' = DesignAt(line, EffRange[k]) /\ designedFor' = EffRange[k]
               ELSE UNCHANGED <<set, designedFor>>
            /\ pc' = "redesigned"
            /\ UNCHANGED <<line, mode, range, k, results, outside>>

Propagate == /\ pc = "redesigned"
             /\ results' = Append(results, [dp |-> pref, set |-> set, out |-> Outputs(line, set)])
             /\ pc' = "propagated"
             /\ UNCHANGED <<line, mode, range, k, pref, set, designedFor, outside>>

NextStep == /\ pc = "propagated"
            /\ IF k < Len(EffRange) THEN k' = k + 1 /\ pc' = "step" ELSE k' = k /\ pc' = "done"
            /\ UNCHANGED <<line, mode, range, pref, set, designedFor, results, outside>>

Next == Design \/ StartSweep \/ Redesign \/ Propagate \/ NextStep
Spec == Init /\ [][Next]_vars

-----------------------------------------------------------------------------
Sweeping == Len(EffRange) > 1
\* the reference channel leaves every amplifier at (step's reference power) + (its power offset)
BudgetClosedEachStep ==
    Sweeping => \A i \in 1..Len(results) : \A a \in 1..Len(results[i].out) :
                    results[i].out[a] = results[i].dp + results[i].set[a].dp
EachStepDesignedForItsPower == (Sweeping /\ pc = "propagated") => designedFor = pref
\* a step's settings and result are those of a design made for that power alone: no memory of the steps before
ResultIsFunctionOfPower ==
    Sweeping => \A i \in 1..Len(results) : /\ results[i].set = DesignAt(line, results[i].dp)
                                          /\ results[i].out = Outputs(line, DesignAt(line, results[i].dp))
ZeroStepIsTheNominalDesign ==
    \A i \in 1..Len(results) : results[i].dp = 0 => results[i].set = DesignAt(line, 0)
SingleStepKeepsTheDesign ==
    (~Sweeping /\ Len(results) = 1) => results[1].set = DesignAt(line, 0)
GainModeHasNoSweep == (~mode /\ pc = "done") => Len(results) = 1 /\ results[1].dp = 0
PowersReported == pc = "done" => [i \in 1..Len(results) |-> results[i].dp] = EffRange
NeverAboveMaximum == \A i \in 1..Len(results) : \A a \in 1..Len(results[i].set) :
                        Sweeping => results[i].dp + results[i].set[a].dp <= PMaxOff
SweepTouchesOnlyThePathAmplifiers == [][pc # "loaded" => outside' = outside]_vars
TypeOK == pc \in {"loaded", "designed", "step", "redesigned", "propagated", "done"} /\ k \in 0..Len(EffRange)
==============================================================================
