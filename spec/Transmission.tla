----------------------------- MODULE Transmission -----------------------------
(* The second entry point of GNPy (gnpy-transmission-example, worker_utils.transmission_simulation):           *)
(*                                                                                                            *)
(*    Load -> Design(reference power) -> for every step dp of the power range:                                *)
(*                 [Redesign(reference power + dp)]  ->  Propagate(dp)  ->  record                            *)
(*                                                                                                            *)
(* The line is  ROADM -> amp 0 (booster) -> span 1 -> amp 1 -> ... -> span n -> amp n (preamp) -> ROADM.       *)
(* The ROADM launches a fixed power whatever the transceiver sends, so the sweep acts through the design only: *)
(* each step redesigns the amplifiers of the path for the step's reference power (power mode), then propagates.*)
(* Design at the grain of the code (set_egress_amplifier): the power offset of an amplifier is the rule of the *)
(* next span reduced so that reference power + offset stays below the amplifier's maximum, the gain closes the *)
(* budget from the previous amplifier's output.  In gain mode the gains are the operator's and no sweep exists.*)
(* An amplifier model with the library option out_voa_auto (AutoVoa) spends part of its head-room on its output *)
(* VOA: the FIRST design chooses it and adds it to gain and offset alike; every later design of the same        *)
(* amplifiers finds a VOA in force and keeps it (the offset before the VOA is rule + VOA), so the channel still  *)
(* enters the next span at reference power + offset - VOA.                                                       *)
(* Integer units are arbitrary (think dB).                                                                     *)
(*                                                                                                            *)
(* Clauses:  BudgetClosedEachStep (C09 at every sweep step), EachStepDesignedForItsPower,                      *)
(*           ResultIsFunctionOfPower (hence the order of the sweep is irrelevant), ZeroStepIsTheNominalDesign, *)
(*           SingleStepKeepsTheDesign, GainModeHasNoSweep, PowersReported, SweepTouchesOnlyThePathAmplifiers.  *)
EXTENDS GnpyBase, TLC

CONSTANTS Lines,        \* set of lines: sequences of span losses
          Ranges,       \* set of power ranges: non-empty sequences of offsets (already expanded from start/stop/step)
          Modes,        \* subset of BOOLEAN: TRUE = power mode
          AutoVoas,     \* subset of BOOLEAN: TRUE = the amplifier models optimise their output VOA (power mode only)
          SkipZero,     \* deviation switch (FALSE): "do not redesign at the 0 dB step" - the model then violates its clauses
          StackVoa      \* deviation switch (FALSE): "every design optimises the VOA anew, on top of an offset that still
                        \* holds the VOA in force" - idem (BudgetClosedEachStep, ResultIsFunctionOfPower, ZeroStep...)

VARIABLES line, mode, avoa, range,
          pc,            \* "loaded" "designed" "step" "redesigned" "propagated" "done"
          k,             \* index of the current sweep step
          pref,          \* reference offset of the current step
          set,           \* amplifier settings in force: Seq([gain, dp, voa]); dp is the offset BEFORE the output VOA
          designedFor,   \* ghost: the reference offset the settings in force were designed for
          results,       \* one record per step: [dp, set, out]
          outside        \* version of every setting that is not an amplifier of the path (other directions, other degrees
                         \* of the crossed ROADMs, the ROADM targets themselves): the first design writes it, a sweep must not
vars == <<line, mode, avoa, range, pc, k, pref, set, designedFor, results, outside>>

RoadmOut == -20                 \* per-channel power launched by the ROADM, relative to the nominal reference power 0
PMaxOff  == 3                   \* amplifier saturation: reference offset + power offset may not exceed this
Rule(nextLoss) == IF nextLoss = 0 THEN 0 ELSE IF nextLoss > 24 THEN 2 ELSE IF nextLoss < 18 THEN -2 ELSE 0
Reduce(dp, p)  == dp - MaxI(0, p + dp - PMaxOff)

NextLoss(L, a) == IF a < Len(L) THEN L[a + 1] ELSE 0                  \* amplifier a faces span a + 1 (the preamp a ROADM)

\* One design of amplifiers 0..n for reference offset p, walking the line as set_egress_amplifier does.  cur = the settings
\* in force (<<>> when the line has never been designed); prevNet = offset at which the channel enters the span in front
\* of amplifier a, as the walk hands it on.  An output VOA in force is kept (v0); an automatic one is chosen by the design
\* that finds none - half the head-room left at this reference power - and raises gain and offset by the same amount.
RECURSIVE Walk(_, _, _, _, _, _, _)
Walk(L, p, cur, a, prevNet, acc, stack) ==
    IF a > Len(L) THEN acc
    ELSE LET first == cur = <<>>
             v0    == IF first THEN 0 ELSE cur[a + 1].voa
             dp0   == Reduce(Rule(NextLoss(L, a)) + v0, p)
             g0    == IF a = 0 THEN p + dp0 - RoadmOut ELSE L[a] + dp0 - prevNet
             opt   == avoa /\ (first \/ stack)             \* stack: the deviation StackVoa
             v     == IF opt THEN MaxI(0, (PMaxOff - p - dp0) \div 2) ELSE 0
         IN Walk(L, p, cur, a + 1, dp0 - v0,
                 Append(acc, [gain |-> g0 + v, dp |-> dp0 + v, voa |-> IF opt THEN v ELSE v0]), stack)
DesignFrom(L, p, cur) == Walk(L, p, cur, 0, 0, <<>>, FALSE)
\* THE design of the line for reference offset p: what a network designed (once, at the nominal power) and then
\* designed for p carries - a function of the line and of p alone
DesignAt(L, p) == DesignFrom(L, p, DesignFrom(L, 0, <<>>))
\* reference channel power at every amplifier output (after its VOA) when the line with settings s is propagated
RECURSIVE OutAt(_, _, _)
OutAt(L, s, a) == IF a = 0 THEN RoadmOut + s[1].gain - s[1].voa ELSE OutAt(L, s, a - 1) - L[a] + s[a + 1].gain - s[a + 1].voa
Outputs(L, s) == [a \in 1..(Len(L) + 1) |-> OutAt(L, s, a - 1)]


\* transmission_simulation: "power cannot be changed in gain mode" -> the range collapses to <<0>>
EffRange == IF mode THEN range ELSE <<0>>

Init == /\ line \in Lines /\ mode \in Modes /\ range \in Ranges
        /\ avoa \in {v \in AutoVoas : v => mode}                \* the output VOA is optimised in power mode only
        /\ pc = "loaded" /\ k = 0 /\ pref = 0 /\ set = <<>> /\ designedFor = NONE /\ results = <<>> /\ outside = 0

Design == /\ pc = "loaded"
          /\ set' = DesignFrom(line, 0, <<>>) /\ designedFor' = 0 /\ pc' = "designed" /\ outside' = 1
          /\ UNCHANGED <<line, mode, avoa, range, k, pref, results>>

StartSweep == /\ pc = "designed" /\ k' = 1 /\ pc' = "step"
              /\ UNCHANGED <<line, mode, avoa, range, pref, set, designedFor, results, outside>>

\* "redesign is mandatory for each power, but no need to redesign if there is no power sweep"
Redesign == /\ pc = "step"
            /\ pref' = EffRange[k]
            /\ IF Len(EffRange) > 1 /\ ~(SkipZero /\ EffRange[k] = 0)
               THEN /\ set' = Walk(line, EffRange[k], set, 0, 0, <<>>, StackVoa)             \* the SAME amplifiers again:
                    /\ designedFor' = EffRange[k]                                            \* DesignFrom(.., set)
               ELSE UNCHANGED <<set, designedFor>>
            /\ pc' = "redesigned"
            /\ UNCHANGED <<line, mode, avoa, range, k, results, outside>>

Propagate == /\ pc = "redesigned"
             /\ results' = Append(results, [dp |-> pref, set |-> set, out |-> Outputs(line, set)])
             /\ pc' = "propagated"
             /\ UNCHANGED <<line, mode, avoa, range, k, pref, set, designedFor, outside>>

NextStep == /\ pc = "propagated"
            /\ IF k < Len(EffRange) THEN k' = k + 1 /\ pc' = "step" ELSE k' = k /\ pc' = "done"
            /\ UNCHANGED <<line, mode, avoa, range, pref, set, designedFor, results, outside>>

Next == Design \/ StartSweep \/ Redesign \/ Propagate \/ NextStep
Spec == Init /\ [][Next]_vars

-----------------------------------------------------------------------------
Sweeping == Len(EffRange) > 1
\* the reference channel leaves every amplifier (after its output VOA) at (step's reference power) + (its power offset)
BudgetClosedEachStep ==
    Sweeping => \A i \in 1..Len(results) : \A a \in 1..Len(results[i].out) :
                    results[i].out[a] = results[i].dp + results[i].set[a].dp - results[i].set[a].voa
\* an automatic output VOA never changes what enters the next span: with or without it the net offset is the rule's
VoaInvisibleDownstream ==
    \A i \in 1..Len(results) : \A a \in 1..Len(results[i].set) :
        LET s == results[i].set[a] IN
        s.voa >= 0 /\ (Sweeping => s.dp - s.voa <= Rule(NextLoss(line, a - 1)))
                  /\ (Sweeping /\ s.dp - s.voa < Rule(NextLoss(line, a - 1)) => results[i].dp + s.dp = PMaxOff)
EachStepDesignedForItsPower == (Sweeping /\ pc = "propagated") => designedFor = pref
\* a step's settings and result are those of a design made for that power alone: no memory of the steps before
ResultIsFunctionOfPower ==
    Sweeping => \A i \in 1..Len(results) : /\ results[i].set = DesignAt(line, results[i].dp)
                                          /\ results[i].out = Outputs(line, DesignAt(line, results[i].dp))
ZeroStepIsTheNominalDesign ==
    \A i \in 1..Len(results) : results[i].dp = 0 => results[i].set = DesignAt(line, 0)
SingleStepKeepsTheDesign ==
    (~Sweeping /\ Len(results) = 1) => results[1].set = DesignAt(line, 0)
GainModeHasNoSweep == (~mode /\ pc = "done") => Len(results) = 1 /\ results[1].dp = 0
PowersReported == pc = "done" => [i \in 1..Len(results) |-> results[i].dp] = EffRange
NeverAboveMaximum == \A i \in 1..Len(results) : \A a \in 1..Len(results[i].set) :
                        Sweeping => results[i].dp + results[i].set[a].dp <= PMaxOff
SweepTouchesOnlyThePathAmplifiers == [][pc # "loaded" => outside' = outside]_vars
TypeOK == pc \in {"loaded", "designed", "step", "redesigned", "propagated", "done"} /\ k \in 0..Len(EffRange)
==============================================================================
