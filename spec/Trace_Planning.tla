---------------------------- MODULE Trace_Planning ----------------------------
(* B3 for C16 and C19: recorded runs of the real worker_utils.planning() are judged against PlanningOps.             *)
(* One trace = one batch on a freshly designed network:                                                              *)
(*   inputs   the requests as the user wrote them  [id, bw, key, bidir, type, mode, power, powerudbm]               *)
(*   ent[k]   the k-th response entry:  o   outcome assembled from the captures made WHILE the request was computed  *)
(*                                          (route at routing, receivers at the return of its own propagation,       *)
(*                                          selected mode, N/M and blocking reason at the return of the assignment)  *)
(*                                      e   the projected response entry (ResultElement.json)                        *)
(*                                      row the projected CSV row (jsontocsv)                                        *)
(*                                      c16 [has, exp, cur, solo, unit]: the projected result in this batch (cur),    *)
(*                                          the same request computed without the rest of the batch (solo), the      *)
(*                                          verdict MC_Planning predicted for this position (exp, "" = none)         *)
(*                                          ref / hasRef: the same entry in ANOTHER ORDERING of the same batch        *)
(*                                          (synchronization vectors untouched)                                      *)
(*   netB / netA  network_to_json before / after, one integer per element                                            *)
(*   simB / simA  the process-wide simulation parameters (SimParams) before / after                                  *)
(*   redesign     the run used planning(redesign=True);  red  one record per redesign it made: [id, given, changed,   *)
(*                post, hasSolo, soloPost] - the request it was made for, the elements (indices into netB) it was       *)
(*                given = the request's route and reverse route, the elements whose exported settings it changed, the    *)
(*                digests of the given elements when it returned, and the same digests in the run of that request alone  *)
(* Monitor-shaped: step k <= Len(ent) judges entry k, the last step judges the batch; `viol` accumulates             *)
(* <<step, clause>>, the verdict line is printed when everything has been consumed.                                  *)
EXTENDS PlanningOps, Json, IOUtils

T == ndJsonDeserialize(IOEnv.TRACE_FILE)

VARIABLES tid, i, viol
vars == <<tid, i, viol>>

Known(tr, ids) == SelectSeq(ids, LAMBDA x : \E k \in 1..Len(tr.inputs) : tr.inputs[k].id = x)
Input(tr, x)   == tr.inputs[CHOOSE k \in 1..Len(tr.inputs) : tr.inputs[k].id = x]
Members(tr, e) == LET kn == Known(tr, e.ids) IN [k \in 1..Len(kn) |-> Input(tr, kn[k])]
OutcomeRec(tr, x) == [members |-> Members(tr, x.e)] @@ x.o

Status(core) == IF core.reason = "" THEN "served" ELSE core.reason
Differs(x)   == ~SameSlots(x.c16.cur, x.c16.solo)

C16Viol(tr, k) ==
    LET x == tr.ent[k]  c == x.c16 IN
    IF ~(tr.j16 /\ c.has) THEN {} ELSE
       (IF c.solo.found /\ SameCore(c.cur, c.solo) THEN {} ELSE {"Independent"})
       \cup (IF c.exp = "" \/ Status(c.cur) = c.exp THEN {} ELSE {"ModelAgrees"})
       \* both orderings must equal the result computed alone, hence each other - stated directly because a member
       \* of a synchronization vector cannot be computed alone
       \cup (IF ~c.hasRef \/ (c.ref.found /\ SameCore(c.cur, c.ref)) THEN {} ELSE {"OrderIndependent"})
       \cup (IF c.solo.found /\ Differs(x) /\
                ~\E j \in 1..(k - 1) : /\ tr.ent[j].o.reason = ""
                                       /\ SeqRange(tr.ent[j].o.oms) \cap SeqRange(x.o.oms) # {}
                                       /\ (tr.ent[j].c16.unit # c.unit \/ Differs(tr.ent[j]))
             THEN {"OnlySlotsDependOnHistory"} ELSE {})

C19Viol(tr, k) ==
    LET x == tr.ent[k]  o == OutcomeRec(tr, x) IN
    IF ~tr.j19 THEN {} ELSE
       EntryViol(o, x.e)
       \cup (IF ~x.hasRow THEN {"CsvOneRowPerEntry"}
             ELSE CsvViol(o, x.e, x.row) \cup (IF x.row.idstr = x.e.idstr THEN {} ELSE {"CsvOneRowPerEntry"}))

\* Planning.tla, variant Redesign: a redesign touches the route of its request only and leaves it as a design made for
\* that request alone would; between the redesigns nothing changes a setting
Changed(tr)      == {k \in 1..Len(tr.netB) : k > Len(tr.netA) \/ tr.netB[k] # tr.netA[k]}
RedesignViol(tr) ==
    (IF \A j \in 1..Len(tr.red) : SeqRange(tr.red[j].changed) \subseteq SeqRange(tr.red[j].given) THEN {}
     ELSE {"OnlyRouteRedesigned"})
    \cup (IF \A j \in 1..Len(tr.red) : tr.red[j].hasSolo => tr.red[j].post = tr.red[j].soloPost THEN {}
          ELSE {"RedesignIsForTheRequest"})
    \cup (IF Len(tr.netB) = Len(tr.netA) /\ Changed(tr) \subseteq UNION {SeqRange(tr.red[j].changed) : j \in 1..Len(tr.red)}
          THEN {} ELSE {"NetworkFrozen"})

BatchViol(tr) ==
    (IF tr.redesign THEN RedesignViol(tr) ELSE IF tr.netB = tr.netA THEN {} ELSE {"NetworkFrozen"})
    \cup (IF tr.simB = tr.simA THEN {} ELSE {"SimParamsFrozen"})
    \* every request of the batch has exactly one result (C19 states it for the report; C16 needs it too: a request
    \* whose result is missing or paired with another request's is not "the same as computed alone")
    \cup (IF ~(tr.j19 \/ tr.j16) \/ OneEntryPerRequest([k \in 1..Len(tr.inputs) |-> tr.inputs[k].id],
                                            [k \in 1..Len(tr.ent) |-> tr.ent[k].e.ids])
          THEN {} ELSE {"OneEntryPerRequest"})
    \cup (IF ~tr.j19 \/ tr.nrows = Len(tr.ent) THEN {} ELSE {"CsvOneRowPerEntry"})

Init == /\ tid \in 1..Len(T)
        /\ i = 0
        /\ viol = {}

Next == /\ i <= Len(T[tid].ent)
        /\ i' = i + 1
        /\ tid' = tid
        /\ viol' = viol \cup {<<i + 1, c>> : c \in IF i < Len(T[tid].ent)
                                                     THEN C16Viol(T[tid], i + 1) \cup C19Viol(T[tid], i + 1)
                                                     ELSE BatchViol(T[tid])}

Done == i <= Len(T[tid].ent) \/ PrintT("@@" \o ToJson([name |-> T[tid].name, n |-> i, viol |-> viol]))
==============================================================================
