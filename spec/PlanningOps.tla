----------------------------- MODULE PlanningOps -----------------------------
(* C16 / C19 - what one processed request IS (its outcome record) and what the response and the CSV export must     *)
(* state about it.  Pure operators: used by Planning (state machine + bounded models) and by Trace_Planning         *)
(* (judging recorded runs of the real planning()).                                                                   *)
(*                                                                                                                   *)
(* Units.  Receiver figures: micro-dB.  Everything the response / CSV state with two decimals: centi-units.          *)
(* Powers: nW (response) and centi-dBm (CSV).  Bandwidths and bit rates: 10 Mbit/s = centi-Gbit/s.                   *)
(* Names, ids, modes, blocking reasons: strings (only ever compared with strings).  NONE = "not evaluated / not      *)
(* applicable", MISSING = key absent from the document, +/-Inf sentinels (GnpyBase).                                 *)
EXTENDS GnpyBase, TLC

MISSING  == -9998
RoundTol == 1            \* micro-units of slack at an exact rounding tie (round-half-even vs half-up is not decided)
EqTol    == 3            \* micro-dB: the same propagation computed twice (measured deviation on the unchanged tree: 0)

NoPathFamily     == {"NO_PATH", "NO_PATH_WITH_CONSTRAINT", "NO_FEASIBLE_BAUDRATE_WITH_SPACING", "NO_COMPUTED_SNR"}
NoModeFamily     == {"NO_FEASIBLE_MODE", "MODE_NOT_FEASIBLE"}
NoSpectrumFamily == {"NO_SPECTRUM", "NOT_ENOUGH_RESERVED_SPECTRUM"}
Reasons          == NoPathFamily \cup NoModeFamily \cup NoSpectrumFamily
IsServed(o)      == o.reason = ""
HasPath(o)       == o.reason \notin NoPathFamily          \* served, or blocked after a path was propagated

MetricKeys == {"snrbw", "snr01", "osnrbw", "osnr01", "snrmin", "snrmax", "pdl", "cd", "pmd"}
CsvKeys    == {"osnr01", "snr01", "snrbw", "snrmin", "snrmax", "pdl", "cd", "pmd"}

-----------------------------------------------------------------------------
(* Rounding to two decimals.  u: micro-units, c: centi-units.                                                        *)
Special(x) == x = NONE \/ x = MISSING \/ IsInf(x)
Centi(u)   == IF Special(u) THEN u ELSE (u + 5000) \div 10000                    \* constructive (half up)
RoundsTo(u, c) == IF Special(u) \/ Special(c) THEN c = u                         \* declarative (tie left open)
                  ELSE AbsI(c * 10000 - u) <= 5000 + RoundTol
MetricsMatch(rx, m, keys) == \A k \in keys : RoundsTo(rx[k], m[k])
CeilDiv(a, b) == (a + b - 1) \div b

-----------------------------------------------------------------------------
(* The outcome record of one (aggregated) request - what was computed:                                               *)
(*   members  sequence of [id, bw, key, bidir]   the user's requests reported together (aggregatedFrom)            *)
(*   reason   "" when served, else the blocking reason the request carries = the FIRST one raised while it was      *)
(*            computed;  raised  the reasons in the order the stages raised them (route, forward judgement, reverse    *)
(*            judgement, spectrum) - a later stage must not rewrite the reason of a request already blocked          *)
(*   route    sequence of element names (<<>> when none)                                                            *)
(*   type, mode  transponder type and the SELECTED mode;  nm  sequence of <<N, M>> assigned (<<>> when blocked)     *)
(*   bidir;  rx / rxRev  receiver figures of the forward / reverse propagation (micro-dB);  power (nW), powerudbm   *)
(*   mi  library figures of (type, mode): osnr, margin, baud, bitrate, cost (centi-units)                          *)
OutcomeBw(o) == SumSeq([i \in 1..Len(o.members) |-> o.members[i].bw])
MemberIds(o) == [i \in 1..Len(o.members) |-> o.members[i].id]
Thr(o)       == o.mi.osnr + o.mi.margin

(* ---- the response entry, constructively (the grain of ResultElement.pathresult / path_properties /              *)
(*      detailed_path_json): objects are [k, idx, uid, nm, type, mode] with k in {"hop", "label", "trx"}            *)
Obj(k, uid, nm, type, mode) == [k |-> k, idx |-> 0, uid |-> uid, nm |-> nm, type |-> type, mode |-> mode]
HopObjs(o, j) ==
    <<Obj("hop", o.route[j], <<>>, "", "")>>
    \o (IF IsServed(o) THEN <<Obj("label", "", o.nm, "", "")>> ELSE <<>>)
    \o (IF j \in {1, Len(o.route)} THEN <<Obj("trx", "", <<>>, o.type, o.mode)>> ELSE <<>>)
RECURSIVE FlatObjs(_, _)
FlatObjs(o, j) == IF j > Len(o.route) THEN <<>> ELSE HopObjs(o, j) \o FlatObjs(o, j + 1)
RouteObjs(o)   == LET s == FlatObjs(o, 1) IN [i \in 1..Len(s) |-> [s[i] EXCEPT !.idx = i - 1]]

NoMetric == [k \in MetricKeys \cup {"power", "bw"} |-> NONE]
MetricOf(rx, o) == [k \in MetricKeys \cup {"power", "bw"} |->
                      IF k = "power" THEN o.power ELSE IF k = "bw" THEN OutcomeBw(o) ELSE Centi(rx[k])]

ReportEntry(o) ==
    [ids |-> MemberIds(o),
     top |-> IF IsServed(o) THEN <<"path-properties">> ELSE <<"no-path">>,
     npkeys |-> IF IsServed(o) THEN <<>> ELSE IF HasPath(o) THEN <<"no-path", "path-properties">> ELSE <<"no-path">>,
     reason |-> o.reason,
     hasProps |-> HasPath(o),
     objs |-> IF HasPath(o) THEN RouteObjs(o) ELSE <<>>,
     metric |-> IF HasPath(o) THEN MetricOf(o.rx, o) ELSE NoMetric,
     hasZA |-> HasPath(o) /\ o.bidir,
     za |-> IF HasPath(o) /\ o.bidir THEN MetricOf(o.rxRev, o) ELSE NoMetric]

(* ---- the clauses of C19 on ONE entry e for outcome o (declarative; B1 checks ReportEntry satisfies them all)     *)
Kinds(objs)   == [i \in 1..Len(objs) |-> objs[i].k]
OfKind(e, k)  == SelectSeq(e.objs, LAMBDA x : x.k = k)
Hops(e)       == LET h == OfKind(e, "hop") IN [i \in 1..Len(h) |-> h[i].uid]
Labels(e)     == LET h == OfKind(e, "label") IN [i \in 1..Len(h) |-> h[i].nm]
Trxs(e)       == LET h == OfKind(e, "trx") IN [i \in 1..Len(h) |-> <<h[i].type, h[i].mode>>]

IdIsJoinedId(o, e) ==            \* reported under the ids of exactly the requests it stands for, each once
    /\ Len(e.ids) = Len(o.members)
    /\ SeqRange(e.ids) = SeqRange(MemberIds(o))
    /\ Cardinality(SeqRange(e.ids)) = Len(e.ids)
BandwidthIsSum(o, e) == e.hasProps => AbsI(e.metric.bw - OutcomeBw(o)) <= Len(o.members)
AggregatedOnlyIdentical(o) == \A i, j \in 1..Len(o.members) : o.members[i].key = o.members[j].key

ServedHasPathProperties(o, e) == IsServed(o) => e.top = <<"path-properties">> /\ e.hasProps /\ e.reason = ""
NoPathOnlyReason(o, e) ==        \* no route / no baud rate: the entry carries the reason and nothing else
    o.reason \in NoPathFamily => e.top = <<"no-path">> /\ e.npkeys = <<"no-path">> /\ e.reason = o.reason /\ ~e.hasProps
BlockedCarriesReason(o, e) ==    \* blocked after propagation: reason + the candidate path's properties
    (~IsServed(o) /\ HasPath(o)) =>
        e.top = <<"no-path">> /\ e.npkeys = <<"no-path", "path-properties">> /\ e.reason = o.reason /\ e.hasProps
ReasonIsFirstRaised(o, e) ==    \* the entry carries the first blocking reason raised for the request
    /\ o.raised # <<>> => e.reason = o.raised[1]
    /\ o.raised = <<>> => e.reason = ""
RouteHopByHop(o, e)     == e.hasProps => Hops(e) = o.route
LabelsEqualNM(o, e)     == (IsServed(o) /\ e.hasProps) => Labels(e) = [j \in 1..Len(o.route) |-> o.nm]
NoLabelWhenBlocked(o, e) == ~IsServed(o) => OfKind(e, "label") = <<>>
TransponderTypeAndMode(o, e) == e.hasProps => Trxs(e) = <<<<o.type, o.mode>>, <<o.type, o.mode>>>>
ObjectOrder(o, e) ==             \* hop [label] [transponder at both ends], indexed 0, 1, 2, ...
    e.hasProps => /\ Kinds(e.objs) = Kinds(RouteObjs(o))
                  /\ \A i \in 1..Len(e.objs) : e.objs[i].idx = i - 1
MetricsEqualReceiver(o, e) ==
    e.hasProps => MetricsMatch(o.rx, e.metric, MetricKeys) /\ AbsI(e.metric.power - o.power) <= 1
ReverseIffBidir(o, e)  == e.hasProps => (e.hasZA <=> o.bidir)
ReverseFromReverseReceiver(o, e) == (e.hasZA /\ o.hasRev) => MetricsMatch(o.rxRev, e.za, MetricKeys)

EntryClauses == <<"IdIsJoinedId", "BandwidthIsSum", "AggregatedOnlyIdentical", "ServedHasPathProperties",
                  "NoPathOnlyReason", "BlockedCarriesReason", "ReasonIsFirstRaised", "RouteHopByHop", "LabelsEqualNM", "NoLabelWhenBlocked",
                  "TransponderTypeAndMode", "ObjectOrder", "MetricsEqualReceiver", "ReverseIffBidir",
                  "ReverseFromReverseReceiver">>
EntryHolds(c, o, e) ==
    CASE c = "IdIsJoinedId" -> IdIsJoinedId(o, e)
      [] c = "BandwidthIsSum" -> BandwidthIsSum(o, e)
      [] c = "AggregatedOnlyIdentical" -> AggregatedOnlyIdentical(o)
      [] c = "ServedHasPathProperties" -> ServedHasPathProperties(o, e)
      [] c = "NoPathOnlyReason" -> NoPathOnlyReason(o, e)
      [] c = "BlockedCarriesReason" -> BlockedCarriesReason(o, e)
      [] c = "ReasonIsFirstRaised" -> ReasonIsFirstRaised(o, e)
      [] c = "RouteHopByHop" -> RouteHopByHop(o, e)
      [] c = "LabelsEqualNM" -> LabelsEqualNM(o, e)
      [] c = "NoLabelWhenBlocked" -> NoLabelWhenBlocked(o, e)
      [] c = "TransponderTypeAndMode" -> TransponderTypeAndMode(o, e)
      [] c = "ObjectOrder" -> ObjectOrder(o, e)
      [] c = "MetricsEqualReceiver" -> MetricsEqualReceiver(o, e)
      [] c = "ReverseIffBidir" -> ReverseIffBidir(o, e)
      [] c = "ReverseFromReverseReceiver" -> ReverseFromReverseReceiver(o, e)
EntryViol(o, e) == {EntryClauses[i] : i \in {j \in 1..Len(EntryClauses) : ~EntryHolds(EntryClauses[j], o, e)}}

-----------------------------------------------------------------------------
(* The CSV row of an entry (jsontocsv).  Row fields: idstr? (trace only), src, dst, bw, passf, nbtsp, cost, type,    *)
(* mode, bitrate, thr, baud, power (centi-dBm), path, nm, m[CsvKeys], rev[CsvKeys]; blank cells are NONE / "".      *)
Blank == [k \in CsvKeys |-> NONE]
Pick(m) == [k \in CsvKeys |-> m[k]]
PassFlag(minsnr, thr) == IF minsnr >= thr THEN "True" ELSE "False"

CsvRow(o, e) ==        \* constructive
    IF ~HasPath(o)
    THEN [src |-> "", dst |-> "", bw |-> NONE, passf |-> o.reason, nbtsp |-> NONE, cost |-> NONE, type |-> "",
          mode |-> "", bitrate |-> NONE, thr |-> NONE, baud |-> NONE, power |-> NONE, path |-> <<>>, nm |-> <<>>,
          m |-> Blank, rev |-> Blank]
    ELSE LET n == CeilDiv(e.metric.bw, o.mi.bitrate) IN
         [src |-> o.route[1], dst |-> o.route[Len(o.route)],
          bw |-> IF IsServed(o) THEN e.metric.bw ELSE NONE,
          passf |-> IF IsServed(o) THEN PassFlag(e.metric.snrmin, Thr(o)) ELSE o.reason,
          nbtsp |-> IF IsServed(o) THEN n * 100 ELSE NONE,
          cost |-> IF IsServed(o) THEN n * o.mi.cost ELSE NONE,
          type |-> o.type, mode |-> o.mode, bitrate |-> o.mi.bitrate, thr |-> Thr(o), baud |-> o.mi.baud,
          power |-> Centi(o.powerudbm), path |-> o.route, nm |-> IF IsServed(o) THEN o.nm ELSE <<>>,
          m |-> Pick(e.metric), rev |-> IF e.hasZA THEN Pick(e.za) ELSE Blank]

(* declarative clauses on an observed row r *)
CsvNoPathOnlyReason(o, e, r) ==
    ~e.hasProps => /\ r.passf = e.reason
                   /\ r.src = "" /\ r.dst = "" /\ r.type = "" /\ r.mode = "" /\ r.path = <<>> /\ r.nm = <<>>
                   /\ r.bw = NONE /\ r.nbtsp = NONE /\ r.cost = NONE /\ r.m = Blank /\ r.rev = Blank
CsvStatesSame(o, e, r) ==      \* the row repeats what the entry states (route, ends, transponder, labels, metrics)
    e.hasProps =>
        /\ r.path = Hops(e)
        /\ Len(r.path) > 0 => (r.src = r.path[1] /\ r.dst = r.path[Len(r.path)])
        /\ Len(Trxs(e)) > 0 => (r.type = Trxs(e)[1][1] /\ r.mode = Trxs(e)[1][2])
        /\ r.nm = (IF Len(Labels(e)) > 0 THEN Labels(e)[1] ELSE <<>>)
        /\ r.m = Pick(e.metric)
        /\ r.rev = (IF e.hasZA THEN Pick(e.za) ELSE Blank)
CsvLibraryFigures(o, e, r) ==  \* threshold (margin included), baud rate, bit rate of the stated mode; launch power
    (e.hasProps /\ o.mi.osnr # NONE) =>
        /\ r.thr = Thr(o) /\ r.baud = o.mi.baud /\ r.bitrate = o.mi.bitrate
        /\ RoundsTo(o.powerudbm, r.power)
CsvPassFlag(o, e, r) ==
    /\ (e.hasProps /\ e.reason = "") => r.passf = PassFlag(r.m.snrmin, r.thr)
    /\ e.reason # "" => r.passf = e.reason
CsvBandwidthAndCost(o, e, r) ==
    /\ (e.hasProps /\ e.reason = "" /\ o.mi.osnr # NONE) =>
          /\ r.bw = e.metric.bw
          /\ r.nbtsp = CeilDiv(e.metric.bw, o.mi.bitrate) * 100
          /\ r.cost = CeilDiv(e.metric.bw, o.mi.bitrate) * o.mi.cost
    /\ e.reason # "" => (r.bw = NONE /\ r.nbtsp = NONE /\ r.cost = NONE)

CsvClauses == <<"CsvNoPathOnlyReason", "CsvStatesSame", "CsvLibraryFigures", "CsvPassFlag", "CsvBandwidthAndCost">>
CsvHolds(c, o, e, r) ==
    CASE c = "CsvNoPathOnlyReason" -> CsvNoPathOnlyReason(o, e, r)
      [] c = "CsvStatesSame" -> CsvStatesSame(o, e, r)
      [] c = "CsvLibraryFigures" -> CsvLibraryFigures(o, e, r)
      [] c = "CsvPassFlag" -> CsvPassFlag(o, e, r)
      [] c = "CsvBandwidthAndCost" -> CsvBandwidthAndCost(o, e, r)
CsvViol(o, e, r) == {CsvClauses[i] : i \in {j \in 1..Len(CsvClauses) : ~CsvHolds(CsvClauses[j], o, e, r)}}

-----------------------------------------------------------------------------
(* Batch level (C19): every request the user wrote appears in exactly one entry.                                     *)
RECURSIVE ConcatAll(_)
ConcatAll(ss) == IF ss = <<>> THEN <<>> ELSE Head(ss) \o ConcatAll(Tail(ss))
OneEntryPerRequest(inputIds, entryIds) ==        \* inputIds: sequence of ids; entryIds: sequence of sequences of ids
    LET all == ConcatAll(entryIds)
    IN /\ Len(all) = Len(inputIds)
       /\ SeqRange(all) = SeqRange(inputIds)
       /\ Cardinality(SeqRange(all)) = Len(all)

-----------------------------------------------------------------------------
(* C16: the part of a result that must not depend on the other requests of the batch.                               *)
(* core = [found, reason, route, routeRev, mode, metric, hasZA, za, rx, rxRev, nm, hasRow, row]; the spectrum family   *)
(* of reasons and nm are                                                                                              *)
(* the only things allowed to depend on history.                                                                     *)
PreSpectrum(reason) == IF reason \in NoSpectrumFamily THEN "" ELSE reason
CloseRx(a, b) == \A k \in MetricKeys : IF Special(a[k]) \/ Special(b[k]) THEN a[k] = b[k] ELSE Within(a[k], b[k], EqTol)
(* The CSV row is one more reported view.  Ends, transponder, library figures, route, forward and reverse metrics     *)
(* never depend on history; bandwidth / pass flag / pair count / cost are blank for a request blocked in spectrum      *)
(* assignment, so they are compared when neither run blocked it there; the labels are slots.                          *)
SameRow(a, b) ==
    (a.hasRow /\ b.hasRow) =>
        LET x == a.row  y == b.row IN
        /\ x.src = y.src /\ x.dst = y.dst /\ x.type = y.type /\ x.mode = y.mode /\ x.path = y.path
        /\ x.bitrate = y.bitrate /\ x.thr = y.thr /\ x.baud = y.baud /\ x.power = y.power
        /\ x.m = y.m /\ x.rev = y.rev
        /\ (a.reason \notin NoSpectrumFamily /\ b.reason \notin NoSpectrumFamily) =>
               (x.bw = y.bw /\ x.passf = y.passf /\ x.nbtsp = y.nbtsp /\ x.cost = y.cost)
SameCore(a, b) ==
    /\ PreSpectrum(a.reason) = PreSpectrum(b.reason)
    /\ a.route = b.route
    /\ a.routeRev = b.routeRev       \* the elements the reverse direction was propagated through
    /\ a.mode = b.mode
    /\ a.metric = b.metric           \* what the response states (centi-units): identical
    /\ a.hasZA = b.hasZA /\ a.za = b.za
    /\ CloseRx(a.rx, b.rx) /\ CloseRx(a.rxRev, b.rxRev)
    /\ SameRow(a, b)
SameSlots(a, b) == a.nm = b.nm /\ (a.reason \in NoSpectrumFamily) = (b.reason \in NoSpectrumFamily)
==============================================================================
