INIT Init
NEXT Next
INVARIANT LErrorsClassified
INVARIANT LLibraryErrorsFirst
INVARIANT LRangeIsTheTypes
INVARIANT LNbChannelFitsBand
INVARIANT LNbChannelFitsBandWhenAutomatic
INVARIANT LAutomaticFillsBand
INVARIANT LGivenCountSetsFmax
INVARIANT LModeGivesAllOrNothing
INVARIANT LSpacingRespectsMode
INVARIANT LPowerAlwaysDefined
INVARIANT LPowerPrecedence
INVARIANT LSlotsAsWritten
INVARIANT LFixedSlotsCanCarryBandwidth
INVARIANT LAcceptedFixedSlotsDisjoint
INVARIANT LConsecutiveTestIsPairwise
INVARIANT Emit
