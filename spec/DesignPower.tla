------------------------------- MODULE DesignPower -------------------------------
(* C09 - designed gains close the power budget and follow the documented power rule: the STATE MACHINE.        *)
(*                                                                                                            *)
(* One optical multiplex section (OMS): an ingress ROADM / transceiver whose reference channel leaves at      *)
(* pref + t0, then amplifiers a_1 .. a_n, amplifier a_k being preceded by a passive span of loss L_k          *)
(* (fibre + fused + connectors + EOL, raised to the padding; 0 for a booster) and followed by a span, or by    *)
(* the egress ROADM.  Auto-design walks the OMS once, one amplifier per step (gnpy: set_egress_amplifier ->    *)
(* set_one_amplifier); the step has the grain of the code: targets -> saturation reduction -> output VOA       *)
(* (operators Targets / RhoSet / AutoVoaSet of DesignPowerRule).  Where the property leaves a choice (rounding *)
(* ties of the rule, the two admissible reductions for an auto-selected model, the size of the automatic       *)
(* output VOA) the step is nondeterministic.  The clauses are stated on the designed settings only and are     *)
(* checked by TLC for every reachable design of every profile and configuration of the bounded instance.       *)
(*                                                                                                            *)
(* THE DESIGNED LINE IS A STATE THAT LIVES ON.  Once complete, the design is used: loads are propagated        *)
(* through it (the design load, or a heavier what-if load that drives amplifiers into saturation for the time  *)
(* of that propagation - action Use), and the tools design the SAME amplifiers again for the same reference    *)
(* channel (every step of a power sweep, the planner's redesign - action DesignAgain: the walk starts over,    *)
(* the operator settings are still those of the configuration, the amplifier models and the output VOAs in     *)
(* place are kept).  Propagating changes no designed setting (UseKeepsTheDesign); the clauses, being          *)
(* invariants, bind the second design like the first, and where the property leaves no choice the second       *)
(* design IS the first (DesignedAgainIsTheSame).                                                               *)
EXTENDS DesignPowerRule

CONSTANTS Configs,     \* set of [mode, slope (milli), ref, lo, hi, step, prefTot]
          Profiles,    \* set of OMS profiles [ing, t0, tx, dpref, dload, amps : Seq([L, Ln, nxt, inVoa, uGain, uDp, uVoa, uVar,
                       \*                                                     pmax, pmaxSet, flatx, autoVoa])]
          VoaGrid,     \* candidate automatic VOA values
          Followed(_, _)  \* Followed(cfg, oms): the life of this designed line is followed further (bounded instance)

(* The OMS starts at a ROADM (ing = 0), whose egress target puts the reference channel at pref + t0, or directly at a   *)
(* transceiver (ing = 1) that transmits tx dBm: t0 is then tx - pref.  dpref shifts the reference power of the profile  *)
(* (and with it the total design power) away from the configuration's; dload shifts the total alone (a design band    *)
(* with its own channel spacing carries another number of channels at the same reference power).  An amplifier whose model is auto-selected may   *)
(* end up with any of the library's eligible models: pmaxSet holds their p_max (which one is C10's business), the step  *)
(* picks one and the clauses are stated for the model in place.                                                        *)

VARIABLES cfg,      \* the design configuration (fixed along a behaviour)
          oms,      \* the OMS being designed   (fixed along a behaviour)
          i,        \* amplifiers designed so far
          prevNet,  \* net offset the channel has when it enters the span in front of amplifier i+1
          pLine,    \* LEDGER: power of the reference channel relative to pref at the current point of the line,
                    \*         obtained by physically applying every loss, gain and VOA crossed so far
          out,      \* designed settings: Seq([gain, dp, voa, pmax of the model in place])
          used,     \* a load has been propagated through the line since it was (last) designed
          first     \* the first complete design, once the line is being / has been designed again (<<>> before)
vars == <<cfg, oms, i, prevNet, pLine, out, used, first>>

T0 == IF oms.ing = 1 THEN oms.tx - oms.dpref ELSE oms.t0          \* offset of the channel leaving the ingress
C  == [cfg EXCEPT !.prefTot = cfg.prefTot + oms.dpref + oms.dload]   \* the configuration at this profile's design load

Init == /\ cfg \in Configs
        /\ oms \in Profiles
        /\ i = 0
        /\ prevNet = T0
        /\ pLine = T0
        /\ out = <<>>
        /\ used = FALSE
        /\ first = <<>>

Complete == i = Len(oms.amps)
Again    == first # <<>>                                             \* this is the second design of the line

DesignAmp ==
    /\ i < Len(oms.amps)
    /\ \E pm \in (IF Again THEN {first[i + 1].pmax} ELSE oms.amps[i + 1].pmaxSet) :   \* p_max of the model in place
       LET a == [oms.amps[i + 1] EXCEPT !.pmax = pm] IN
       \E t \in Targets(C, a, prevNet) : \E rho \in RhoSet(C, a, t) :
       \* an automatic output VOA is chosen by the design that finds none; a later design keeps the VOA in place
       \E v \in (IF Again THEN {first[i + 1].voa - VoaU(a)}
                          ELSE AutoVoaSet(C, a, t.g0 - rho, t.dp0 - rho, rho, VoaGrid)) :
          LET gain == t.g0 - rho + v
              dp   == t.dp0 - rho + v
              voa  == VoaU(a) + v
          IN /\ out' = Append(out, [gain |-> gain, dp |-> dp, voa |-> voa, pmax |-> pm])
             /\ prevNet' = dp - voa
             /\ pLine' = pLine - a.L - a.inVoa + gain - voa          \* span, input VOA, amplifier, output VOA
             /\ i' = i + 1
    /\ UNCHANGED <<cfg, oms, used, first>>

\* a load - the design load or any other - is propagated through the designed line: no designed setting changes
\* (an amplifier that saturates under a heavier load lowers its gain for THAT propagation only)
Use == /\ Complete /\ Followed(cfg, oms) /\ ~used
       /\ used' = TRUE
       /\ UNCHANGED <<cfg, oms, i, prevNet, pLine, out, first>>

\* the same line is designed a second time for the same reference channel: the walk starts over from the ingress
DesignAgain == /\ Complete /\ Followed(cfg, oms) /\ ~Again
               /\ first' = out
               /\ i' = 0 /\ prevNet' = T0 /\ pLine' = T0 /\ out' = <<>> /\ used' = FALSE
               /\ UNCHANGED <<cfg, oms>>

Next == DesignAmp \/ Use \/ DesignAgain
Spec == Init /\ [][Next]_vars

-----------------------------------------------------------------------------
(* The clauses of C09 (DesignPowerRule, tolerance 0) over everything designed so far.                          *)
Designed     == 1..Len(out)
A(k)         == [oms.amps[k] EXCEPT !.pmax = out[k].pmax]
PrevNetOf(k) == IF k = 1 THEN T0 ELSE NetOf(out[k - 1])

Closure               == \A k \in Designed : ClosureAt(A(k), out[k], PrevNetOf(k), 0)
PowerRule             == \A k \in Designed : PowerRuleAt(C, A(k), out[k], 0)
ZeroBeforeRoadm       == \A k \in Designed : ZeroBeforeRoadmAt(C, A(k), out[k], 0)
ReductionOnlyAsNeeded == \A k \in Designed : ReductionOnlyAsNeededAt(C, A(k), out[k], 0)
OperatorOffsetKept    == \A k \in Designed : OperatorOffsetKeptAt(C, A(k), out[k], 0)
OperatorGainKept      == \A k \in Designed : OperatorGainKeptAt(C, A(k), out[k], 0)
VoaKept               == \A k \in Designed : VoaKeptAt(A(k), out[k], 0)
NeverAboveMaxOutput   == \A k \in Designed : NeverAboveMaxOutputAt(C, A(k), out[k], 0)

\* "the reference channel leaves every amplifier at reference power + its power offset": the LEDGER, which applies
\* every loss, input VOA, gain and output VOA crossed so far, agrees with the design's own target.  This is the
\* noise-free form of DesignLoadReproduces (the trace specification states it on propagated powers).
RefChannelAtTarget == pLine = (IF i = 0 THEN T0 ELSE NetOf(out[i]))

\* the life of the designed line
UseKeepsTheDesign == [][used' # used /\ used' => out' = out /\ i' = i]_vars
\* where the property leaves no choice (no rounding tie, one admissible reduction) the second design is the first
NoChoice(k) == LET a == A(k) IN
               /\ Cardinality(RuleSet(C, a.nxt, a.Ln)) = 1
               /\ \A t \in Targets(C, a, PrevNetOf(k)) : Cardinality(RhoSet(C, a, t)) = 1
DesignedAgainIsTheSame ==
    Again => \A k \in Designed : (\A j \in 1..k : NoChoice(j)) => out[k] = first[k]

TypeOK == /\ i \in 0..Len(oms.amps)
          /\ Len(out) = i
          /\ used \in BOOLEAN
          /\ first = <<>> \/ Len(first) = Len(oms.amps)
==============================================================================
