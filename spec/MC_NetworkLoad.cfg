INIT Init
NEXT Next
INVARIANT LMergeLaws
INVARIANT LMergeable
INVARIANT LElementWins
INVARIANT LLibraryFillsGaps
INVARIANT LNothingInvented
INVARIANT LUnknownVarietyRejected
INVARIANT LVarietyForgotten
INVARIANT LVarietyKept
INVARIANT LPlaceholderEdfaHasNoVariety
INVARIANT LEdfaParamsMerged
INVARIANT LDefaultsOnlyWhenAbsent
INVARIANT LOnePolicyAfterLoad
INVARIANT LTwoPoliciesRejected
INVARIANT LRoadmParamsNeverSeesTwo
INVARIANT LPerDegreeAsWritten
INVARIANT LPmdCoefRemembered
INVARIANT LFibreGeometry
INVARIANT LRamanComplete
INVARIANT LElementErrorsClassified
INVARIANT LLoadedIff
INVARIANT LFirstErrorWins
INVARIANT LEveryElementIsANode
INVARIANT LEveryConnectionEndpointExists
INVARIANT LNoEdgeInvented
INVARIANT LFibreEdgesWeighLength
INVARIANT LRepeatedConnectionIsOneEdge
INVARIANT LShadowedNodeIsIsolated
INVARIANT LLoadErrorsClassified
INVARIANT Emit
