------------------------------ MODULE MC_RoadmLaw ------------------------------
(* Bounded instance for C06.  Three channel types (32 GBd / 50 GHz, 64 GBd / 75 GHz, 90 GBd / 100 GHz), node policy   *)
(* of each of the three kinds, written in the library or in the element (replacing a library default of another       *)
(* kind), egress-degree setting absent or of any kind, add / drop / express, inputs 3 dB below / at / above target     *)
(* mixed per channel, offsets, path loss.  Every initial state is one case, Load and Cross compute the expectation.   *)
EXTENDS RoadmLaw, Json, TLC

MCChan == 1..3
\* 10 log10(32), (64), (90)  and  10 log10(50), (75), (100) in micro-dB
MCChanType == <<[baudDb |-> 15051500, slotDb |-> 16989700],
                [baudDb |-> 18061800, slotDb |-> 18750613],
                [baudDb |-> 19542425, slotDb |-> 20000000]>>
\* second crossing, same three frequencies: a SINGLE-RATE spectrum - every carrier has the baud rate the network was
\* designed with (the SI reference, 32 GBd) - laid on a flexible grid: slots of 75 / 50 / 100 GHz (wider than / equal to /
\* twice the reference spacing).  Against the first crossing every carrier changes its baud rate or its slot width (or
\* both); a constant-PSD target is now the same for all three carriers while a per-slot-width target still differs per carrier
MCChanType2 == <<[baudDb |-> 15051500, slotDb |-> 18750613],
                 [baudDb |-> 15051500, slotDb |-> 16989700],
                 [baudDb |-> 15051500, slotDb |-> 20000000]>>
MCStages == {"designed", "reloaded", "yang"}
MCStageOne == {"designed"}
\* node: pch -20 dBm, psd -35 dB(mW/GHz) (-19.95 dBm at 32 GBd), psw -37 dB(mW/GHz) (-20.01 dBm in 50 GHz)
MCNodeV == [k \in PolicyKinds |-> IF k = "pch" THEN -20000000 ELSE IF k = "psd" THEN -35000000 ELSE -37000000]
\* egress degree: 1.5 dB lower, so that using the node's value instead is visible
MCDegV  == [k \in PolicyKinds |-> IF k = "pch" THEN -21500000 ELSE IF k = "psd" THEN -36500000 ELSE -38500000]

Nxt(k) == IF k = "pch" THEN "psd" ELSE IF k = "psd" THEN "psw" ELSE "pch"
\* accepted: library only, or element replacing a library default of another kind; plus every invalid combination
AcceptedCases == {[lib |-> {k}, elt |-> {}] : k \in PolicyKinds} \cup {[lib |-> {Nxt(k)}, elt |-> {k}] : k \in PolicyKinds}
AllCases      == [lib : SUBSET PolicyKinds, elt : SUBSET PolicyKinds]
MCLoadCases     == AcceptedCases \cup {c \in AllCases : ~ConfigAccepted(c.lib, c.elt)}
MCLoadCasesAll  == AllCases

MCDegKinds  == PolicyKinds \cup {"none", "pch0"}
MCEltDegKindsQuick == {"none", "psd"}
MCProfKinds == {"single", "firstListed", "explicit"}
MCProfOne   == {"single"}
MCCrossings == {"add", "drop", "express"}
MCDeltas    == {0 - 3000000, 0, 3000000}
V(a, b, c)  == <<a, b, c>>
D2 == 2000000
MCOffsetVecsQuick == {V(0, 0, 0), V(0 - D2, 0, D2), V(D2, 0 - D2, 0)}
MCOffsetVecsFull  == [MCChan -> {0 - D2, 0, D2}]
\* path loss per channel (each channel lies in its own frequency range of the impairment profile): none, and different
\* losses per range (2 / 0 / 1 dB); thorough adds the uniform 2 dB
MCMaxLossVecsQuick == {V(0, 0, 0), V(D2, 0, 1000000)}
MCMaxLossVecs      == {V(0, 0, 0), V(D2, D2, D2), V(D2, 0, 1000000)}
\* singletons for the configuration-loading generation run (the crossing grid is irrelevant there)
MCDegNone == {"none"}
MCCrossOne == {"express"}
MCDeltaOne == {0}
MCOffsetOne == {V(0, 0, 0)}
MCMaxLossOne == {V(0, 0, 0)}

\* ---- emission for the spec -> code replay (B2)
SetSeq(S) == IF "pch" \in S THEN (IF "psd" \in S THEN (IF "psw" \in S THEN <<"pch", "psd", "psw">> ELSE <<"pch", "psd">>)
                                  ELSE (IF "psw" \in S THEN <<"pch", "psw">> ELSE <<"pch">>))
             ELSE (IF "psd" \in S THEN (IF "psw" \in S THEN <<"psd", "psw">> ELSE <<"psd">>)
                   ELSE (IF "psw" \in S THEN <<"psw">> ELSE <<>>))
EmitCross == ~(phase = "out2" \/ (phase = "out" /\ ~RecrossEnabled)) \/
   PrintT("@@" \o ToJson([lib |-> SetSeq(cfg.lib), elt |-> SetSeq(cfg.elt), degKind |-> cfg.degKind,
                          crossing |-> cfg.crossing, maxloss |-> cfg.maxloss, prof |-> cfg.prof,
                          profiles |-> Profiles(cfg), explicitId |-> ExplicitId(cfg),
                          node |-> NodePolicy(cfg), deg |-> DegSetting(cfg),
                          ch |-> [k \in 1..N |-> [baudDb |-> ChanType[k].baudDb, slotDb |-> ChanType[k].slotDb,
                                                  offset |-> cfg.offset[k], maxloss |-> PathLoss(cfg)[k], in |-> last.in[k], tgt |-> last.tgt[k],
                                                  out |-> last.out[k]]],
                          stage |-> cfg.stage,
                          ch2 |-> IF phase # "out2" THEN <<>>
                                  ELSE [k \in 1..N |-> [baudDb |-> ChanType2[k].baudDb, slotDb |-> ChanType2[k].slotDb,
                                                        offset |-> cfg.offset[k], maxloss |-> PathLoss(cfg)[k], in |-> last2.in[k],
                                                        tgt |-> last2.tgt[k], out |-> last2.out[k]]]]))
EmitLoad == phase \notin {"ready", "rejected"} \/
   PrintT("@@" \o ToJson([lib |-> SetSeq(cfg.lib), elt |-> SetSeq(cfg.elt), accepted |-> (phase = "ready"),
                          inforce |-> IF phase = "ready" THEN SetSeq(InForce(cfg)) ELSE <<>>]))
\* non-vacuity probes: each must be VIOLATED (TLC finds a witness of the antecedent)
ProbeEqualised == ~(Crossed /\ \E k \in 1..N : last.in[k] - PathLoss(cfg)[k] > last.tgt[k] + cfg.offset[k])
ProbeBelow     == ~(Crossed /\ \E k \in 1..N : last.in[k] - PathLoss(cfg)[k] < last.tgt[k] + cfg.offset[k])
ProbeMixed     == ~(Crossed /\ (\E k \in 1..N : last.in[k] - PathLoss(cfg)[k] > last.tgt[k] + cfg.offset[k])
                            /\ (\E k \in 1..N : last.in[k] - PathLoss(cfg)[k] < last.tgt[k] + cfg.offset[k]))
ProbeRejected  == phase # "rejected"
ProbeDegOtherKind == ~(Crossed /\ cfg.degKind # "none" /\ DegKindOf(cfg.degKind) \notin InForce(cfg))
\* a channel left unequalised in a range whose loss is lower than the largest loss of the crossing
ProbeLowerLossRange == ~(Crossed /\ \E k, j \in 1..N : PathLoss(cfg)[k] < PathLoss(cfg)[j]
                                        /\ last.in[k] - PathLoss(cfg)[j] < last.tgt[k] + cfg.offset[k])
==============================================================================
