------------------------------ MODULE Trace_OmsMap ------------------------------
(* B2/B3 judge for C15: the OMS list that the real build_oms_list produced for a designed network            *)
(* (generated topologies, synthetic band layouts, shipped networks) is the observed state; the clauses of    *)
(* C15 are evaluated on it.  One trace = one network; one verdict line per trace.                             *)
EXTENDS FlexGrid, TLC, Json, IOUtils

T == ndJsonDeserialize(IOEnv.TRACE_FILE)
VARIABLES tid, done
vars == <<tid, done>>

Line(t)      == {"Fiber", "RamanFiber", "Edfa", "Fused", "Multiband_amplifier"}
TypeOf(t, e) == t.nodes[e].t
Edge(t, a, b) == \E k \in 1..Len(t.edges) : t.edges[k][1] = a /\ t.edges[k][2] = b
Interior(o)  == {o.els[i] : i \in 2..(Len(o.els) - 1)}
Oms(t)       == 1..Len(t.oms)
From(o)      == o.els[1]
To(o)        == o.els[Len(o.els)]
IsSubSeq(s, big) == \E f \in [1..Len(s) -> 1..Len(big)] :
                        (\A i \in 1..Len(s) : big[f[i]] = s[i]) /\ (\A i \in 1..(Len(s) - 1) : f[i] < f[i + 1])

\* ---- A. partition
EndpointsAreRoadms(t) == \A k \in Oms(t) : LET o == t.oms[k] IN
    /\ Len(o.els) >= 3
    /\ TypeOf(t, From(o)) \in {"Roadm", "Transceiver"} /\ TypeOf(t, To(o)) = "Roadm"
    /\ \A e \in Interior(o) : TypeOf(t, e) \in Line(t)
IsChain(t) == \A k \in Oms(t) : LET o == t.oms[k] IN \A i \in 1..(Len(o.els) - 1) : Edge(t, o.els[i], o.els[i + 1])
ExactlyOneOms(t) == \A e \in 1..Len(t.nodes) : TypeOf(t, e) \in Line(t) =>
                        Cardinality({k \in Oms(t) : e \in Interior(t.oms[k])}) = 1
OnePerEgress(t) == Cardinality(Oms(t)) =
    Cardinality({k \in 1..Len(t.edges) : TypeOf(t, t.edges[k][1]) = "Roadm" /\ TypeOf(t, t.edges[k][2]) \in Line(t)})
\* "opposite directions are paired".  Opp = the OMS running the other way between the same two ROADMs, Par = the OMS
\* running the same way (k itself, plus the parallel routes on other degrees of the two ROADMs).  Judged for every
\* layout: an OMS has a partner exactly when an opposite OMS exists, and the partner is one of them.  Which of several
\* parallel opposite OMS is the partner is not decided by the property (reversed_oms pairs by end points), so the
\* pairing is required to be mutual only where neither direction has a parallel route.
Opp(t, k) == {j \in Oms(t) : From(t.oms[j]) = To(t.oms[k]) /\ To(t.oms[j]) = From(t.oms[k])}
Par(t, k) == {j \in Oms(t) : From(t.oms[j]) = From(t.oms[k]) /\ To(t.oms[j]) = To(t.oms[k])}
ReversePaired(t) == \A k \in Oms(t) : LET o == t.oms[k] IN
    /\ o.rev # 0 => o.rev \in Opp(t, k)
    /\ o.rev = 0 => Opp(t, k) = {}
    /\ (o.rev \in Opp(t, k) /\ Cardinality(Par(t, k)) = 1 /\ Cardinality(Opp(t, k)) = 1) => t.oms[o.rev].rev = k
\* every link of the generated topology (parallel routes included) is one OMS holding that link's elements in order
ExpectedLinks(t) == \A x \in 1..Len(t.expect) : LET l == t.expect[x] IN
    /\ Cardinality({k \in Oms(t) : From(t.oms[k]) = l.from /\ To(t.oms[k]) = l.to}) =
           Cardinality({y \in 1..Len(t.expect) : t.expect[y].from = l.from /\ t.expect[y].to = l.to})
    /\ Cardinality({k \in Oms(t) : From(t.oms[k]) = l.from /\ To(t.oms[k]) = l.to /\ IsSubSeq(l.must, t.oms[k].els)}) = 1

\* ---- B. maps (runs = <<first index, last index, value>> in position order)
RunsChain(m) == /\ Len(m.runs) >= 1
                /\ \A r \in 1..Len(m.runs) : m.runs[r][1] <= m.runs[r][2]
                /\ \A r \in 1..(Len(m.runs) - 1) : m.runs[r + 1][1] = m.runs[r][2] + 1
                /\ m.nmin = m.runs[1][1] /\ m.nmax = m.runs[Len(m.runs)][2]
                /\ m.n = m.nmax - m.nmin + 1 /\ m.naxis = m.n
AxisContiguous(t) == \A k \in 1..Len(t.maps) : RunsChain(t.maps[k])
SameExtent(t) == \A k \in 1..Len(t.maps) : t.maps[k].nmin = t.maps[1].nmin /\ t.maps[k].nmax = t.maps[1].nmax
ExtentIsNetworkHull(t) == \A k \in 1..Len(t.maps) : t.maps[k].nmin = t.ext[1] /\ t.maps[k].nmax = t.ext[2]
CoversAmp(a, k) == \E b \in 1..Len(a) : a[b][1] <= k /\ k <= a[b][2]
Common(t, o, k) == \A a \in 1..Len(t.amps[o]) : CoversAmp(t.amps[o][a], k)
\* judged per run: a FREE run lies wholly inside the common band(s); any other run wholly outside
\* (checked on the run's end points and on every band edge falling inside the run)
BandEdges(t, o) == UNION {UNION {{t.amps[o][a][b][1], t.amps[o][a][b][2], t.amps[o][a][b][1] - 1, t.amps[o][a][b][2] + 1} :
                                      b \in 1..Len(t.amps[o][a])} : a \in 1..Len(t.amps[o])}
Probe(t, o, r) == {r[1], r[2]} \cup {k \in BandEdges(t, o) : r[1] <= k /\ k <= r[2]}
FreeIffCommon(t) == \A o \in 1..Len(t.maps) : \A j \in 1..Len(t.maps[o].runs) :
    LET r == t.maps[o].runs[j] IN
       \A k \in Probe(t, o, r) : (r[3] = "F") <=> Common(t, o, k)

Clauses(t) ==
   (IF EndpointsAreRoadms(t) THEN {} ELSE {"EndpointsAreRoadms"}) \cup
   (IF IsChain(t) THEN {} ELSE {"IsChain"}) \cup
   (IF ExactlyOneOms(t) THEN {} ELSE {"ExactlyOneOms"}) \cup
   (IF OnePerEgress(t) THEN {} ELSE {"OnePerEgress"}) \cup
   (IF ReversePaired(t) THEN {} ELSE {"ReversePaired"}) \cup
   (IF ExpectedLinks(t) THEN {} ELSE {"ExpectedLinks"}) \cup
   (IF AxisContiguous(t) THEN {} ELSE {"AxisContiguous"}) \cup
   (IF SameExtent(t) THEN {} ELSE {"SameExtent"}) \cup
   (IF ExtentIsNetworkHull(t) THEN {} ELSE {"ExtentIsNetworkHull"}) \cup
   (IF AxisContiguous(t) /\ ~FreeIffCommon(t) THEN {"FreeIffCommon"} ELSE {})

Init == tid \in 1..Len(T) /\ done = FALSE
Next == done = FALSE /\ done' = TRUE /\ UNCHANGED tid
Verdict == ~done \/ PrintT("@@" \o ToJson([name |-> T[tid].name, viol |-> Clauses(T[tid])]))
==============================================================================
