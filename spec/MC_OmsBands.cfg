CONSTANTS
  Ids = {1}
  Extents = {1}
  MaxOcc = 0
INIT BInit
NEXT BNext
INVARIANT TwoFormulationsAgree
INVARIANT MapCoversExtent
INVARIANT SomeUsable
