---------------------------- MODULE Trace_DesignPower ----------------------------
(* B3 (and the second verdict of B2) for C09: designs produced by the real designed_network, recorded OMS by      *)
(* OMS, are judged against the clauses of DesignPowerRule.  One trace = one OMS in one design band:                *)
(*   [name, mode, slope, ref, lo, hi, step, prefTot, pref, t0, ev : Seq(amplifier event), rd : ROADM event]        *)
(* amplifier event = what the design faced and produced, all micro-dB integers projected by the harness:           *)
(*   L, Ln     loss of the span before / after the amplifier, summed from the elements as propagation applies them *)
(*   dev       tilt deviation the design assumed for this band (0 outside multiband designs; an input)             *)
(*   nxt       what follows (DesignPowerRule: ROADM / SPAN / AMP / ENDPT)                                          *)
(*   inVoa, uGain, uDp, uVoa, uVar   operator settings as loaded (NONE = not set)                                  *)
(*   pmax, flatx                     limits of the amplifier model in place after the design                       *)
(*   gain, dp, voa                   designed settings                                                             *)
(*   jc, jr    1 when Closure / the rule are inside the judged domain for this amplifier (0: Raman span, amp->amp)  *)
(*   rd        egress ROADM: judged, tgt (degree target), obs (total power out), inp (total power in), maxloss,   *)
(*             all per-channel averages in micro-dBm                                                               *)
(*   sig, tot  per-channel signal / total power (micro-dBm, channel average) after the amplifier and its VOA when   *)
(*             the design load is propagated through the real elements; NONE when not propagated                   *)
(* The designed network is a state that lives on (DesignPower.tla: Use, DesignAgain), and so do the clauses: besides *)
(* the trace observed right after the design, the same OMS is observed again                                        *)
(*   name~used        after a what-if load heavier than the design load and then the design load have been          *)
(*                    propagated through the SAME elements: gain, dp, voa are what the network exports (to_json)     *)
(*                    after that use, sig / tot the powers of this later propagation of the design load;             *)
(*   name~redesigned  after the same network objects have been designed a second time for the same reference        *)
(*                    channel: the operator settings (uGain, uDp, uVoa, uVar) are those of the configuration as      *)
(*                    loaded, not what the amplifier carried when the second design reached it.                      *)
(* Every clause binds these traces exactly like the first one.                                                      *)
(* Monitor-shaped: every event is consumed, `viol` accumulates <<step, clause>>; the net offset is carried forward  *)
(* from the OBSERVED design (re-synchronising after a deviation), so one wrong amplifier is reported once.          *)
EXTENDS DesignPowerRule, Json, IOUtils, TLC

T == ndJsonDeserialize(IOEnv.TRACE_FILE)

TolEq  == 10        \* micro-dB: equality of projected design quantities (float noise measured ~1e-8 micro-dB,
                    \*           five rounded summands in Closure)
TolRep == 100       \* micro-dB: reproduction of targets by propagation (measured overshoot 3e-8 micro-dB)

VARIABLES tid, i, prevNet, viol
vars == <<tid, i, prevNet, viol>>

CfgOf(t) == [mode |-> t.mode, slope |-> t.slope, ref |-> t.ref, lo |-> t.lo, hi |-> t.hi, step |-> t.step,
             prefTot |-> t.prefTot]

\* the amplifier as the rule sees it: the assumed tilt deviation adds to both spans it looks at
Faced(e) == [L |-> e.L + e.dev, Ln |-> e.Ln + e.dev, nxt |-> e.nxt, inVoa |-> e.inVoa, uGain |-> e.uGain,
             uDp |-> e.uDp, uVoa |-> e.uVoa, uVar |-> (e.uVar = 1), pmax |-> e.pmax, flatx |-> e.flatx]
Made(e)  == [gain |-> e.gain, dp |-> e.dp, voa |-> e.voa]

\* DesignLoadReproduces at an amplifier: the target of the reference channel lies between the propagated signal
\* power and the propagated total (signal + ASE + NLI) power, i.e. it is reproduced up to the accumulated noise
ReproducedAt(t, e) == e.tot = NONE \/
                      (e.sig <= t.pref + NetOf(Made(e)) + TolRep /\ t.pref + NetOf(Made(e)) <= e.tot + TolRep)

RuleClauses == {"PowerRule", "ZeroBeforeRoadm", "ReductionOnlyAsNeeded"}

StepClauses(t, e, prev) ==
    LET failed == FailedAt(CfgOf(t), Faced(e), Made(e), prev, TolEq)
    IN  {c \in failed : (c = "Closure" => e.jc = 1) /\ (c \in RuleClauses => e.jr = 1)}
          \cup (IF ReproducedAt(t, e) THEN {} ELSE {"DesignLoadReproduces"})

\* DesignLoadReproduces at the egress ROADM: its output never exceeds the degree's target, and equals it (up to the
\* noise the ROADM equalises away: it sets the TOTAL power) whenever the line delivers enough power
RoadmClauses(t) ==
    LET able == t.rd.inp - t.rd.maxloss >= t.rd.tgt + TolRep      \* the line delivers enough power for the target
    IN IF t.rd.judged = 0 THEN {}
       ELSE IF t.rd.obs > t.rd.tgt + TolRep \/ (able /\ t.rd.obs < t.rd.tgt - TolRep)
            THEN {"DesignLoadReproducesAtRoadm"} ELSE {}

Init == /\ tid \in 1..Len(T)
        /\ i = 0
        /\ prevNet = T[tid].t0
        /\ viol = IF Len(T[tid].ev) = 0 THEN {<<0, c>> : c \in RoadmClauses(T[tid])} ELSE {}

Next == /\ i < Len(T[tid].ev)
        /\ i' = i + 1
        /\ tid' = tid
        /\ LET e == T[tid].ev[i + 1]
           IN /\ prevNet' = NetOf(Made(e))
              /\ viol' = viol \cup {<<i + 1, c>> : c \in StepClauses(T[tid], e, prevNet)}
                              \cup (IF i + 1 = Len(T[tid].ev) THEN {<<i + 1, c>> : c \in RoadmClauses(T[tid])} ELSE {})

\* verdict line: one per trace, printed when the last event has been consumed
Done == i < Len(T[tid].ev) \/ PrintT("@@" \o ToJson([name |-> T[tid].name, n |-> i, viol |-> viol]))
==============================================================================
