---------------------------- MODULE DesignLifecycle ----------------------------
(* C17 - the life of a design:                                                                                 *)
(*    x --Design--> d1 --Export--> j1 ;  x --Design--> (twin)  ;  j1 --Load--> x2 --Design--> d2 --Export--> j2 *)
(*    --Load--> ... for MaxRounds export / reload / redesign rounds, with the process-wide simulation           *)
(*    parameters `simParams` and the shared equipment library `lib` as part of the state.  Between d1 and the   *)
(*    twin design the same library is used for another design with an explicit design power (args_power):       *)
(*    DesignElsewhere.  Designing x again afterwards must still give d1.                                        *)
(*                                                                                                            *)
(* The network is the smallest line system that carries every mechanism the property depends on:               *)
(*    ROADM -> amp 1 (booster) -> fibre (optionally a Raman fibre) -> amp 2 (preamp) -> ROADM                  *)
(* A document gives every setting as a value or NONE ("design it").  Design is written at the grain of the      *)
(* code: CompleteFibre (connector default + EOL), Pad, EstimateRamanGain as its four steps                      *)
(* Save; SetTemp; Solve; Restore on simParams, SetAmp 1, SetAmp 2 (compute_gain_power_and_tilt_target +         *)
(* set_amplifier_voa: operational values are consumed when present, delta_p is exported including the output    *)
(* VOA, the SRS estimation reads simParams).  Export rounds gains to the export grid.  The document carries a   *)
(* ghost flag `aged`: the ageing margin EOL is part of a designed fibre's con_out and is not added again.       *)
(* The ingress ROADM equalises either in power, in power spectral density (mW/GHz) or in power per slot width:  *)
(* `roadm.def` is its default flavour, `roadm.deg` the target of the degree the line leaves from and           *)
(* `roadm.other` that of its second degree ("none" = not given: SetRoadmTargets copies the default to it, so a  *)
(* designed ROADM may hold per-degree targets of several flavours side by side).  `roadm.restrict`: the ROADMs  *)
(* only permit a low-gain amplifier model on the line.  An amplifier whose model is not `known` is selected by  *)
(* the design (select_edfa): when no permitted model reaches the gain, gain and delta_p are reduced by what is  *)
(* missing; the designed (and exported) amplifier has a known model.                                            *)
(* Integer units are arbitrary (think 0.5 dB).                                                                  *)
EXTENDS GnpyBase, TLC

CONSTANTS Docs,          \* input documents
          Cfgs,          \* Span settings [eol, padding, powerMode]
          Sims,          \* simulation-parameter settings in force when design is invoked
          MaxRounds,     \* export / reload / redesign rounds
          Grid           \* export rounding grid for gains

VARIABLES doc0,          \* the document the user supplied
          doc,           \* the document being designed (input of the current Design, settings filled in as it goes)
          cfg,
          pc,            \* "roadm" "fibre" "pad" "rsave" "rtemp" "rsolve" "rrestore" "amp1" "amp2" "designed" "exported" "end"
          round,         \* 0 first design, 1 twin design of the same input, 2.. redesigns of reloaded exports
          carry,         \* net reference offset handed from one amplifier to the next (prev_dp - prev_voa)
          rgain,         \* estimated Raman gain of the span (0 when there is none)
          exports,       \* j1, j2, ... (the twin is kept apart)
          twin,
          props,         \* abstract result of the reference propagation on d1, d2, ...
          simParams, sim0, simEntry, saved,
          lib,           \* the equipment library object shared by every design of the process: [power |-> SI power_dbm]
          proc,          \* the process the design runs in: "fresh" | "used" (other designs before, possibly with another library
                         \* whose amplifiers have the same names; another interpreter / string hash seed); no action of a
                         \* design reads it
          effective,     \* effective gains of the last propagation (saturation may reduce them below the set gains in doc)
          reexport       \* export of the designed network taken again after it carried a propagation
vars == <<doc0, doc, cfg, pc, round, carry, rgain, exports, twin, props, simParams, sim0, simEntry, saved, lib, proc,
          effective, reexport>>

Temp == [flag |-> TRUE, method |-> "perturbative", order |-> 2, resultRes |-> 50000, solverRes |-> 100,
         nli |-> "gn_model_analytic", cc |-> <<NONE>>, ncc |-> NONE]       \* SimParams.set_params(sim_params) of the estimate
NoDoc == [none |-> TRUE]

-----------------------------------------------------------------------------
DefaultConOut == 0
BaseLoss(d) == d.base + d.conOut + d.attIn
Rule(nextLoss) == IF nextLoss = 0 THEN 0 ELSE IF nextLoss > 12 THEN 0 ELSE -2          \* power rule: a function of the next span only
AutoVoa == 1
PMax == 3                                                                              \* amplifier saturation: total offset allowed
LibPower == 0                                                                          \* SI power_dbm of the library
\* the reference power of a design is the library's SI power unless the call gives one; saturation reduces the offset
Reduce(dp, refPower) == dp - MaxI(0, refPower + dp - PMax)
\* ROADM equalisation flavours; egress offset of the reference carrier from the reference power under each of them
Flavours == {"power", "psd", "psw"}
NoTarget == "none"
Offset(kind) == IF kind = "psd" THEN -1 ELSE IF kind = "psw" THEN 1 ELSE 0
\* highest gain an amplifier model that the design may select can give
GainLimit(d) == IF d.roadm.restrict THEN 12 ELSE 100
Dev == IF simParams.flag THEN 1 ELSE 0                                                 \* SRS estimation depends on simParams
RoundTo(x) == IF x = NONE THEN NONE ELSE (x \div Grid) * Grid

AmpDesign(a, prevLoss, prevNet, nextLoss, gainLimit) ==
    LET voa0 == IF a.voa = NONE THEN 0 ELSE a.voa
        dp0  == Reduce(IF a.dp = NONE THEN Rule(nextLoss) + voa0 ELSE a.dp, lib.power)
        useGain == a.gain # NONE /\ ~cfg.powerMode
        gain0 == IF useGain THEN a.gain ELSE prevLoss + Dev + dp0 - prevNet
        dpg   == IF useGain THEN prevNet - (prevLoss + Dev) + gain0 ELSE dp0
        \* select_edfa: a model left to the design is chosen among the permitted ones; what they lack in gain is taken
        \* from the gain and from the power target, whoever set them
        red   == IF a.known THEN 0 ELSE MinI(0, gainLimit - gain0)
        gain1 == gain0 + red
        dp1   == dpg + red
        auto == IF a.voa = NONE /\ cfg.powerMode THEN MaxI(0, MinI(AutoVoa, PMax - lib.power - dp1)) ELSE 0   \* only the headroom
    IN [amp |-> [gain |-> gain1 + auto, dp |-> IF cfg.powerMode THEN dp1 + auto ELSE NONE, voa |-> voa0 + auto,
                 known |-> TRUE],
        net |-> dp1 - voa0]

-----------------------------------------------------------------------------
Init == /\ doc0 \in Docs /\ cfg \in Cfgs /\ simParams \in Sims
        /\ doc = doc0 /\ sim0 = simParams /\ simEntry = simParams /\ saved = simParams
        /\ pc = "roadm" /\ round = 0 /\ carry = 0 /\ rgain = 0
        /\ exports = <<>> /\ twin = NoDoc /\ props = <<>>
        /\ lib = [power |-> LibPower]
        /\ proc \in {"fresh", "used"} /\ effective = <<0, 0>> /\ reexport = NoDoc

\* set_roadm_per_degree_targets: a degree without a target of its own gets the ROADM default, in the default's flavour
SetRoadmTargets ==
    /\ pc = "roadm"
    /\ doc' = [doc EXCEPT !.roadm.deg = IF @ = NoTarget THEN doc.roadm.def ELSE @,
                          !.roadm.other = IF @ = NoTarget THEN doc.roadm.def ELSE @]
    /\ pc' = "fibre" /\ simEntry' = simParams
    /\ UNCHANGED <<doc0, cfg, round, carry, rgain, exports, twin, props, simParams, sim0, saved, lib, proc, effective, reexport>>

CompleteFibre ==
    /\ pc = "fibre"
    /\ doc' = [doc EXCEPT !.conOut = (IF @ = NONE THEN DefaultConOut ELSE @) + (IF doc.aged THEN 0 ELSE cfg.eol),
                          !.aged = TRUE]
    /\ pc' = "pad"
    /\ UNCHANGED <<doc0, cfg, round, carry, rgain, exports, twin, props, simParams, sim0, simEntry, saved, lib, proc, effective, reexport>>

Pad ==
    /\ pc = "pad"
    /\ doc' = IF ~doc.raman /\ BaseLoss(doc) < cfg.padding
              THEN [doc EXCEPT !.attIn = @ + cfg.padding - BaseLoss(doc)] ELSE doc
    /\ pc' = IF doc.raman THEN "rsave" ELSE "amp1"
    /\ rgain' = 0
    /\ UNCHANGED <<doc0, cfg, round, carry, exports, twin, props, simParams, sim0, simEntry, saved, lib, proc, effective, reexport>>

\* estimate_raman_gain, network.py:313-325
RamanSave    == pc = "rsave"    /\ saved' = simParams /\ pc' = "rtemp"
                /\ UNCHANGED <<doc0, doc, cfg, round, carry, rgain, exports, twin, props, simParams, sim0, simEntry, lib, proc, effective, reexport>>
RamanSetTemp == pc = "rtemp"    /\ simParams' = Temp /\ pc' = "rsolve"
                /\ UNCHANGED <<doc0, doc, cfg, round, carry, rgain, exports, twin, props, sim0, simEntry, saved, lib, proc, effective, reexport>>
RamanSolve   == pc = "rsolve"   /\ rgain' = (IF simParams.flag THEN 5 ELSE 0) /\ pc' = "rrestore"
                /\ UNCHANGED <<doc0, doc, cfg, round, carry, exports, twin, props, simParams, sim0, simEntry, saved, lib, proc, effective, reexport>>
RamanRestore == pc = "rrestore" /\ simParams' = saved /\ pc' = "amp1"
                /\ UNCHANGED <<doc0, doc, cfg, round, carry, rgain, exports, twin, props, sim0, simEntry, saved, lib, proc, effective, reexport>>

SetAmp1 ==
    /\ pc = "amp1"
    /\ LET r == AmpDesign(doc.amps[1], 0, Offset(doc.roadm.deg), BaseLoss(doc) - rgain, GainLimit(doc))
       IN doc' = [doc EXCEPT !.amps[1] = r.amp] /\ carry' = r.net
    /\ pc' = "amp2"
    /\ UNCHANGED <<doc0, cfg, round, rgain, exports, twin, props, simParams, sim0, simEntry, saved, lib, proc, effective, reexport>>

SetAmp2 ==
    /\ pc = "amp2"
    /\ LET r == AmpDesign(doc.amps[2], BaseLoss(doc) - rgain, carry, 0, GainLimit(doc))
       IN doc' = [doc EXCEPT !.amps[2] = r.amp] /\ carry' = r.net
    /\ pc' = "designed"
    /\ UNCHANGED <<doc0, cfg, round, rgain, exports, twin, props, simParams, sim0, simEntry, saved, lib, proc, effective, reexport>>

Exported(d) == [d EXCEPT !.amps = [k \in 1..2 |-> [d.amps[k] EXCEPT !.gain = RoundTo(@)]]]
Propagation(d) == Offset(d.roadm.deg) + d.amps[1].gain + d.amps[2].gain - BaseLoss(d) + rgain

Export ==
    /\ pc = "designed"
    /\ IF round = 1 THEN twin' = Exported(doc) /\ UNCHANGED <<exports, props>>
       ELSE exports' = Append(exports, Exported(doc)) /\ props' = Append(props, Propagation(doc)) /\ UNCHANGED twin
    /\ pc' = "exported"
    /\ UNCHANGED <<doc0, doc, cfg, round, carry, rgain, simParams, sim0, simEntry, saved, lib, proc, effective, reexport>>

\* the reference propagation runs on the designed network: an amplifier driven into saturation works at a lower effective
\* gain, the gain that was set stays what it is; saving the network again gives the same document
SatLimit == 17
PropagateAndReexport ==
    /\ pc = "exported" /\ round = 0 /\ reexport = NoDoc
    /\ effective' = [k \in 1..2 |-> MinI(doc.amps[k].gain, SatLimit)]
    /\ reexport' = Exported(doc)
    /\ UNCHANGED <<doc0, doc, cfg, pc, round, carry, rgain, exports, twin, props, simParams, sim0, simEntry, saved, lib, proc>>

\* designed_network(lib, another network, args_power = p): the reference power of THAT design is p; the library is an
\* input of the call and stays as it is
DesignElsewhere ==
    /\ pc = "exported" /\ round = 0 /\ twin = NoDoc /\ reexport # NoDoc
    /\ \E p \in {LibPower + 3} : lib' = lib
    /\ pc' = "elsewhere" /\ proc' = "used"
    /\ UNCHANGED <<doc0, doc, cfg, round, carry, rgain, exports, twin, props, simParams, sim0, simEntry, saved, effective, reexport>>

\* round 0 -> design the user's input once more (fresh load of the same file); later -> load the last export
Load ==
    /\ pc = (IF round = 0 THEN "elsewhere" ELSE "exported")
    /\ IF Len(exports) > MaxRounds THEN pc' = "end" /\ UNCHANGED <<doc, round>>
       ELSE /\ doc' = IF round = 0 THEN doc0 ELSE exports[Len(exports)]
            /\ round' = round + 1 /\ pc' = "roadm"
    /\ carry' = 0
    /\ UNCHANGED <<doc0, cfg, rgain, exports, twin, props, simParams, sim0, simEntry, saved, lib, proc, effective, reexport>>

Next == PropagateAndReexport \/ DesignElsewhere \/ SetRoadmTargets \/ CompleteFibre \/ Pad \/ RamanSave \/ RamanSetTemp \/ RamanSolve \/ RamanRestore \/ SetAmp1 \/ SetAmp2
        \/ Export \/ Load
Spec == Init /\ [][Next]_vars

-----------------------------------------------------------------------------
(* The clauses of C17.                                                                                         *)
SameDoc(a, b) == /\ a.conOut = b.conOut /\ a.attIn = b.attIn /\ a.base = b.base /\ a.raman = b.raman
                 /\ a.roadm = b.roadm
                 /\ \A k \in 1..2 : /\ a.amps[k].dp = b.amps[k].dp /\ a.amps[k].voa = b.amps[k].voa
                                    /\ a.amps[k].known = b.amps[k].known
                                    /\ Within(a.amps[k].gain, b.amps[k].gain, Grid)
\* export, reload, redesign changes nothing (to the export's rounding), for any number of rounds
Fixpoint == \A k \in 1..(Len(exports) - 1) : SameDoc(exports[k], exports[k + 1])
\* designing the same input twice gives identical output
Deterministic == twin # NoDoc => twin = exports[1]
\* a saved design reproduces the same propagation result (to the export's rounding, one grid step per amplifier)
PropagationReproduced == \A k \in 1..(Len(props) - 1) : Within(props[k], props[k + 1], 2 * Grid)
\* auto-design leaves the process-wide simulation parameters exactly as it found them ...
DesignLeavesSimParams == pc \in {"designed", "exported", "elsewhere", "end"} => simParams = simEntry
\* ... and they only ever differ from the initial setting inside estimate_raman_gain, between SetTemp and Restore
SimParamsOnlyTemporarilyChanged == pc \notin {"rsolve", "rrestore"} => simParams = sim0
DesignAsAWholeKeepsSimParams == [][pc' = "designed" => simParams' = simEntry]_vars
\* saving a designed network after it has been used for a propagation gives the same document
ExportUnaffectedByPropagation == reexport # NoDoc => reexport = exports[1]
\* the equipment library is an input: no design changes it
LibraryUnchanged == lib = [power |-> LibPower]
\* design settles every setting
EverythingDesigned == pc = "designed" =>
    /\ doc.conOut # NONE
    /\ doc.roadm.deg \in Flavours /\ doc.roadm.other \in Flavours
    /\ \A k \in 1..2 : doc.amps[k].known
    /\ \A k \in 1..2 : doc.amps[k].gain # NONE /\ doc.amps[k].voa # NONE /\ (cfg.powerMode => doc.amps[k].dp # NONE)
==============================================================================
