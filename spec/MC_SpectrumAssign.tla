--------------------------- MODULE MC_SpectrumAssign ---------------------------
(* Bounded model for C14: line network A-B-C(-D); OMS 2k-1 is link k forward, OMS 2k its reverse.             *)
(* Link 2 has a narrower band (top of the axis unusable).  Templates cover every (N, M) case of the code,     *)
(* fixed / free / mixed slot lists, over-provisioned fixed slots, insufficient spectrum, pre-blocked          *)
(* requests, uni- and bidirectional, one- and two-hop paths, and two channel widths (pcm).                    *)
EXTENDS SpectrumAssign, Json

S(n, m) == [n |-> n, m |-> m]
\* nbWl channels of 100 Gbit/s at a spacing of pcm x 12.5 GHz
T(path, slots, nbWl, pcm, pre) == [path |-> path, slots |-> slots, bw |-> nbWl * 100000, rate |-> 100000, spacing |-> pcm * 12500, pre |-> pre]
\* explicit bandwidth (Mbit/s) and off-grid spacing (MHz): both quotients must be rounded up
TX(path, slots, bw, rate, spacing) == [path |-> path, slots |-> slots, bw |-> bw, rate |-> rate, spacing |-> spacing, pre |-> FALSE]

MCNMin == -8
MCNMax == 8
MCIdxMin == -7
MCIdxMax == 7
MCOMS == {1, 2, 3, 4}
\* link 2: top of the axis outside the amplifier band; its two lowest indices were added by grid alignment
MCUnusable == [o \in MCOMS |-> IF o \in {3, 4} THEN (5..8) \cup {-8, -7} ELSE {}]

MCTemplates == <<
  T({1, 2},       <<S(NONE, NONE)>>,             1, 2, FALSE),
  T({1, 2, 3, 4}, <<S(NONE, NONE)>>,             2, 2, FALSE),
  T({3, 4},       <<S(NONE, NONE)>>,             3, 2, FALSE),
  T({1},          <<S(0, 2), S(5, 2)>>,          2, 2, FALSE),
  T({1, 2},       <<S(0, NONE)>>,                2, 2, FALSE),
  T({3, 4},       <<S(NONE, 2)>>,                1, 2, FALSE),
  T({1, 2, 3, 4}, <<S(-4, 2), S(NONE, NONE)>>,   2, 2, FALSE),
  T({1, 2},       <<S(-3, 4), S(NONE, NONE)>>,   1, 2, FALSE),
  T({1, 2},       <<S(5, 2)>>,                   1, 2, FALSE),
  T({3, 4},       <<S(2, 2)>>,                   2, 2, FALSE),
  T({1, 2},       <<S(NONE, NONE)>>,             1, 2, TRUE),
  T({3},          <<S(-3, 2), S(3, NONE)>>,      3, 2, FALSE),
  T({2, 4},       <<S(NONE, NONE)>>,             1, 2, FALSE),
  T({1, 2},       <<S(NONE, NONE)>>,             1, 3, FALSE),
  T({1, 2, 3, 4}, <<S(6, 2)>>,                   1, 2, FALSE),
  T({1, 2},       <<S(12, 2)>>,                  1, 2, FALSE),      \* user N above the axis: must block, not crash
  T({3, 4},       <<S(-11, NONE), S(NONE, NONE)>>, 1, 2, FALSE),    \* user N below the axis, M free
  T({1, 2},       <<S(-1, 4)>>,                  2, 2, FALSE),      \* wide fixed slot: centre free, edge may be busy
  TX({3, 4},      <<S(NONE, NONE)>>, 150000, 100000, 28000),        \* 2 channels x ceil(28/12.5) = 3 slots
  TX({1, 2},      <<S(NONE, 3)>>,    100000, 100000, 40000),        \* fixed M = 3 < ceil(40/12.5) = 4: not enough
  T({1, 2},       <<S(7, 2)>>,                   1, 2, FALSE),      \* centre legal, upper edge inside the guard band
  T({3, 4},       <<S(-6, NONE)>>,               1, 2, FALSE),      \* centre legal, lower edge inside the guard band
  T({1, 2},       <<S(NONE, 4), S(5, 2)>>,       1, 2, FALSE),      \* the M-only slot covers the need; the fixed slot may be busy
  T({1, 2},       <<S(-3, 2)>>,                  1, 2, FALSE),      \* leaves a two-index hole at the bottom of the band
  T({1, 2},       <<S(NONE, 2), S(NONE, 1)>>,    3, 1, FALSE),      \* two free-N slots of different widths: each takes ITS lowest position
  T({1, 2},       <<S(-5, NONE), S(NONE, NONE)>>, 3, 2, FALSE)      \* N fixed with little room, then a free slot: the two must not overlap
>>

\* emission for the spec -> code replay (B2): one JSON line per complete history
Emit == Len(hist) < MaxHist \/ PrintT("@@" \o ToJson([hist |-> hist, occ |-> occ]))
==============================================================================
