------------------------------- MODULE MC_AmpLaw -------------------------------
(* Bounded instance for C04.  The amplifier constants mirror entries of the shipped library                        *)
(* gnpy/example-data/eqpt_config.json (the harness refuses to run if they differ) plus one synthetic variable-gain  *)
(* entry; gains below / at / inside / at the top of / above the flat range; loads from -25 to +12 dBm so that       *)
(* every regime occurs saturated and unsaturated; histories of MaxCross crossings of the same amplifier.            *)
EXTENDS AmpLaw, Json, TLC

dB == 1000000
\* fmin / fmax: the amplifier band (MHz) the LIBRARY ENTRY states (the default band unless the entry gives its own)
AB(id, t, gmin, gmax, pmax, rip, fmin, fmax) == [id |-> id, typeDef |-> t, gainMin |-> gmin * dB, flatMax |-> gmax * dB,
                                                 pMax |-> pmax * dB, ripple |-> rip, fmin |-> fmin, fmax |-> fmax]
A(id, t, gmin, gmax, pmax, rip) == AB(id, t, gmin, gmax, pmax, rip, 191275000, 196125000)
MCAmps == { A("std_medium_gain", "variable_gain", 15, 26, 23, 0),
            A("std_fixed_gain", "fixed_gain", 20, 21, 21, 0),
            A("openroadm_ila_standard", "openroadm", 0, 27, 22, 0),
            A("openroadm_mw_mw_preamp", "openroadm_preamp", 0, 27, 22, 0),
            A("openroadm_mw_mw_booster", "openroadm_booster", 0, 32, 22, 0),
            A("high_detail_model_example", "advanced_model", 15, 25, 21, 1),
            A("medium+low_gain", "dual_stage", 25, 42, 23, 0),
            A("high_power", "variable_gain", 8, 16, 25, 0),
            A("verif_vg", "variable_gain", 12, 22, 19, 0),
            \* an advanced_model entry that states its OWN, narrower band (its configuration file covers the default band)
            AB("verif_adv_band", "advanced_model", 15, 25, 21, 1, 192000000, 195000000) }

MCGainTargets(a) == {g \in {a.gainMin - 6 * dB, a.gainMin - 1 * dB, a.gainMin, (a.gainMin + a.flatMax) \div 2,
                            a.flatMax, a.flatMax + 2 * dB} : g >= 0}
\* edge = 1: the out-of-band channels sit just outside the amplifier band (slot edge 1 GHz / 0.5 GHz beyond f_max / f_min);
\* edge = 0: far outside.  nIn = 1: a single channel of a wider spectrum lies in the band.
Var(iv, ov, nin, nout, ramp, edge) == [inVoa |-> iv, outVoa |-> ov, nIn |-> nin, nOut |-> nout, ramp |-> ramp, edge |-> edge]
MCVariants == {Var(0, 0, 16, 0, 0, 0), Var(1500000, 2 * dB, 12, 2, 0, 1), Var(0, 1 * dB, 12, 0, 1, 0), Var(0, 0, 1, 2, 0, 0)}
MCTilts    == {0, 0 - 1500000}
\* total input powers from -25 dBm to +27 dBm: the last one is above the pMax of every amplifier (negative effective gain)
MCPinTots  == {0 - 25 * dB, 0 - 10 * dB, 0, 6 * dB, 12 * dB, 27 * dB}
MCPinTotsQuick == {0 - 25 * dB, 6 * dB, 27 * dB}
MCPinTotsReplay == {0 - 25 * dB, 0 - 10 * dB, 6 * dB, 27 * dB}     \* thorough-tier replay (histories of 3 crossings)

Emit == Len(hist) < MaxCross \/ PrintT("@@" \o ToJson([amp |-> amp, set |-> set, hist |-> hist]))

(* ---- NF sweep laws of LineElements: checked here on an integer min/max-NF curve, and shown to reject   ---- *)
(* ---- the curves a defect would produce (TLC evaluates the ASSUMEs before exploring)                        ---- *)
SwCfg == [gainMin |-> 15 * dB, flatMax |-> 25 * dB, nfMin |-> 6 * dB, nfMax |-> 10 * dB, minmax |-> 1, poly |-> 0, dual |-> 0, cascade |-> 0]
SwPoly == [SwCfg EXCEPT !.minmax = 0, !.poly = 1]
\* ideal curve: nfMax + dB-for-dB padding below gainMin, linear nfMax -> nfMin inside the range, flat above
NfIdeal(g) == IF g < SwCfg.gainMin THEN SwCfg.nfMax + (SwCfg.gainMin - g)
              ELSE IF g <= SwCfg.flatMax
                   THEN SwCfg.nfMax - ((SwCfg.nfMax - SwCfg.nfMin) * ((g - SwCfg.gainMin) \div dB)) \div ((SwCfg.flatMax - SwCfg.gainMin) \div dB)
                   ELSE SwCfg.nfMin
SwGains == [k \in 1..16 |-> (11 + k) * dB]                                 \* 12 .. 27 dB
Curve(f(_)) == [k \in 1..16 |-> [g |-> SwGains[k], nf |-> f(SwGains[k])]]
NoPadding(g)    == IF g < SwCfg.gainMin THEN SwCfg.nfMax ELSE NfIdeal(g)    \* padding lost
Bump(g)         == IF g = 20 * dB THEN NfIdeal(g) + dB ELSE NfIdeal(g)      \* not monotone
Shifted(g)      == NfIdeal(g) + 500000                                      \* wrong end points
Extrapolated(g) == IF g > SwCfg.flatMax THEN SwCfg.nfMin + (g - SwCfg.flatMax) \div 4 ELSE NfIdeal(g)   \* rises above flatMax
Undershoot(g)   == IF g > SwCfg.flatMax THEN SwCfg.nfMin - (g - SwCfg.flatMax) \div 4 ELSE NfIdeal(g)   \* keeps falling
AllSweepLaws(pts) == /\ SweepNfMinAtFlatMax(SwCfg, pts, 0) /\ SweepNfMaxAtGainMin(SwCfg, pts, 0)
                     /\ SweepNonIncreasing(SwCfg, pts, 0) /\ SweepDbForDbBelowMin(SwCfg, pts, 0)
                     /\ SweepNonIncreasingExtended(SwCfg, pts, 0) /\ SweepClampAboveMax(SwPoly, pts, 0)
ASSUME AllSweepLaws(Curve(NfIdeal))
ASSUME ~SweepDbForDbBelowMin(SwCfg, Curve(NoPadding), 0)
ASSUME ~SweepNonIncreasing(SwCfg, Curve(Bump), 0)
ASSUME ~SweepNonIncreasingExtended(SwPoly, Curve(Extrapolated), 1)
ASSUME SweepNonIncreasingExtended(SwPoly, Curve(Undershoot), 0) /\ ~SweepClampAboveMax(SwPoly, Curve(Undershoot), 3)
ASSUME ~SweepNfMinAtFlatMax(SwCfg, Curve(Shifted), 11000) /\ ~SweepNfMaxAtGainMin(SwCfg, Curve(Shifted), 11000)

\* synthetic min/max-NF library entries for the NF sweeps (the harness writes them as equipment JSON; entries the
\* loader itself refuses - its nf1/nf2 plausibility checks - are legitimately rejected and skipped)
SweepEntries == {[gainMin |-> gm * dB, flatMax |-> (gm + sp) * dB, nfMin |-> nm, nfMax |-> nm + d] :
                    gm \in {10, 15, 20}, sp \in {8, 11, 15}, nm \in {5500000, 6500000}, d \in {3 * dB, 4500000}}
FirstAmp == CHOOSE a \in Amps : TRUE
FirstSet == CHOOSE x \in Settings(FirstAmp) : TRUE
EmitSweepEntries == hist # <<>> \/ amp # FirstAmp \/ set # FirstSet \/ \A e \in SweepEntries : PrintT("@@" \o ToJson(e))

(* ---- NF model curves: OpenROADM masks read at the input power per 50 GHz slot, on grids of other slot widths ---- *)
\* 10 log10(50 GHz / slot width) and 10 log10(number of channels), micro-dB
CurveSlots == {[mhz |-> 37500, ratioDb |-> 1249387], [mhz |-> 50000, ratioDb |-> 0],
               [mhz |-> 75000, ratioDb |-> 0 - 1760913], [mhz |-> 100000, ratioDb |-> 0 - 3010300]}
CurveNch   == {[n |-> 4, nDb |-> 6020600], [n |-> 8, nDb |-> 9030900]}
CurvePch   == {0 - 28 * dB, 0 - 22 * dB, 0 - 16 * dB, 0 - 10 * dB, 0 - 4 * dB}      \* per-channel input power (dBm)
\* one case: a contiguous comb of n channels of that slot width at pch each, through an amplifier of the model, unclamped;
\* for the preamp mask (closed form) the expected NF is emitted, for the ILA the configured polynomial is judged by the
\* trace specification against the library's coefficients
CurveCases == {[model |-> m, slotMHz |-> s.mhz, slotRatioDb |-> s.ratioDb, nch |-> c.n, nchDb |-> c.nDb, pch |-> p,
                pinTot |-> p + c.nDb,
                nfPreamp |-> LET x == OrPin50(p + c.nDb, c.nDb, s.ratioDb) IN OrNf(x, OrPreampOsnr(x))] :
                  m \in {"orIla", "orPreamp"}, s \in CurveSlots, c \in CurveNch, p \in CurvePch}
EmitCurveCases == hist # <<>> \/ amp # FirstAmp \/ set # FirstSet \/ \A e \in CurveCases : PrintT("@@" \o ToJson(e))
\* sanity of the laws themselves: same per-channel power in a 100 GHz slot is 3.01 dB less per 50 GHz; the preamp mask has its
\* knee at -11 dBm (OSNR 33 dB above it, NF = P + 25), and below it NF = (3 P + 131) / 7; table interpolation is exact on a line
ASSUME OrPin50(0 - 10 * dB + 9030900, 9030900, 0 - 3010300) = 0 - 13010300
ASSUME OrNf(0 - 4 * dB, OrPreampOsnr(0 - 4 * dB)) = 21 * dB
ASSUME OrNf(0 - 25 * dB, OrPreampOsnr(0 - 25 * dB)) = 8 * dB
ASSUME LET t == [x0 |-> 0 - 100, step |-> 20, v |-> <<5, 45, 85, 125>>] IN
          /\ InterpUniform(t, 0 - 100) = 5 /\ InterpUniform(t, 0 - 70) = 65 /\ InTable(t, 0 - 41) /\ ~InTable(t, 0 - 40)
ASSUME PolyArg(12 * dB, 15 * dB, 25 * dB) = 0 - 10 * dB /\ PolyArg(27 * dB, 15 * dB, 25 * dB) = 0

\* non-vacuity probes (each must be violated)
ProbeSaturated == \A k \in H : ~hist[k].sat
ProbePadded    == \A k \in H : hist[k].regime # "padded"
ProbeExtended  == \A k \in H : hist[k].regime # "extended"
ProbePaddedSat == \A k \in H : ~(hist[k].regime = "padded" /\ hist[k].sat)
ProbeRelief    == ~(Len(hist) >= 2 /\ hist[1].sat /\ ~hist[2].sat)
ProbeNegativeGain == \A k \in H : hist[k].eff >= 0
==============================================================================
