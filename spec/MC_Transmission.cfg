CONSTANTS
  Lines <- MCLines
  Ranges <- MCRanges
  Modes <- MCModes
  AutoVoas <- MCAutoVoas
  SkipZero = FALSE
  StackVoa = FALSE
INIT MCInit
NEXT Next
INVARIANT TypeOK
INVARIANT BudgetClosedEachStep
INVARIANT EachStepDesignedForItsPower
INVARIANT ResultIsFunctionOfPower
INVARIANT ZeroStepIsTheNominalDesign
INVARIANT SingleStepKeepsTheDesign
INVARIANT GainModeHasNoSweep
INVARIANT PowersReported
INVARIANT NeverAboveMaximum
INVARIANT VoaInvisibleDownstream
PROPERTY SweepTouchesOnlyThePathAmplifiers
