CONSTANTS
  Lines <- MCLines
  Ranges <- MCRanges
  Modes <- MCModes
  SkipZero = FALSE
INIT Init
NEXT Next
INVARIANT TypeOK
INVARIANT BudgetClosedEachStep
INVARIANT EachStepDesignedForItsPower
INVARIANT ResultIsFunctionOfPower
INVARIANT ZeroStepIsTheNominalDesign
INVARIANT SingleStepKeepsTheDesign
INVARIANT GainModeHasNoSweep
INVARIANT PowersReported
INVARIANT NeverAboveMaximum
PROPERTY SweepTouchesOnlyThePathAmplifiers
