-------------------------------- MODULE NliLaws --------------------------------
(* C03 (scaling-law clauses) - the algebra every GN-type NLI estimate obeys.                                 *)
(*                                                                                                          *)
(* gn_model_analytic computes, for channel i of a comb `on` with powers P,                                    *)
(*        NLI_i = P_i * SUM_{j \in on} Eta[i][j] * P_j^2        (NliSolver.compute_nli: cut * pump^2 * eta)   *)
(* where Eta[i][j] >= 0 depends on channels i and j and the fibre only (SPM on the diagonal, XPM elsewhere).  *)
(* This module states that pairwise-cubic form abstractly (small integer powers and coefficients) as a state  *)
(* machine over combs - ScaleAll, Add, Raise - and the laws that follow from it:                              *)
(*   NonNegative, CubeLaw, MonotoneInComb, MonotoneInPower, Superposition (1- and 2-channel experiments       *)
(*   determine the whole comb).  Order independence is built in: `on` is a set.                               *)
(* TLC shows the laws are consequences of the form (B1); Trace_NliLaws checks that the real Fiber obeys the   *)
(* same laws on observed NLI powers (B3).  The VALUE of Eta (asinh kernel, 16/27 and 32/27 weights,           *)
(* effective length) is a transcendental closed form and is NOT decided here - see DESIGN.md §5.              *)
EXTENDS GnpyBase, TLC

CONSTANTS Chan,        \* channel identifiers
          Eta,         \* [Chan -> [Chan -> Nat]] pairwise coefficients
          MaxP,        \* bound on integer powers
          MaxSteps

VARIABLES P, on, last, steps
vars == <<P, on, last, steps>>

Sq(x) == x * x
Nli(pw, S, i) == pw[i] * SumFun([j \in S |-> Eta[i][j] * Sq(pw[j])], S)
Single(pw, i) == Nli(pw, {i}, i)
Pair(pw, i, j) == Nli(pw, {i, j}, i)

Init == /\ P \in [Chan -> 1..2]
        /\ on \in (SUBSET Chan) \ {{}}
        /\ last = [op |-> "init", k |-> 1, before |-> [i \in Chan |-> 0], onBefore |-> {}]
        /\ steps = 0
Remember(op, k) == last' = [op |-> op, k |-> k, before |-> [i \in Chan |-> IF i \in on THEN Nli(P, on, i) ELSE 0],
                            onBefore |-> on]
ScaleAll(k) == /\ \A i \in Chan : P[i] * k <= MaxP
               /\ P' = [i \in Chan |-> P[i] * k] /\ UNCHANGED on /\ Remember("scale", k)
Add(c)      == /\ c \notin on /\ on' = on \cup {c} /\ UNCHANGED P /\ Remember("add", 1)
Raise(c)    == /\ c \in on /\ P[c] < MaxP /\ P' = [P EXCEPT ![c] = @ + 1] /\ UNCHANGED on /\ Remember("raise", 1)
Next == /\ steps < MaxSteps /\ steps' = steps + 1
        /\ (\E k \in {2, 3} : ScaleAll(k)) \/ (\E c \in Chan : Add(c) \/ Raise(c))
Spec == Init /\ [][Next]_vars

NonNegative     == \A i \in on : Nli(P, on, i) >= 0
CubeLaw         == last.op = "scale" => \A i \in on : Nli(P, on, i) = last.k * last.k * last.k * last.before[i]
MonotoneInComb  == last.op = "add" => \A i \in last.onBefore : Nli(P, on, i) >= last.before[i]
MonotoneInPower == last.op = "raise" => \A i \in on : Nli(P, on, i) >= last.before[i]
Superposition   == \A i \in on : Nli(P, on, i) = Single(P, i) + SumFun([j \in on \ {i} |-> Pair(P, i, j) - Single(P, i)], on \ {i})
==============================================================================
