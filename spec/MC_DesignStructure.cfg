CONSTANTS
  Cases <- MCCases
  Tier = "quick"
INIT Init
NEXT Next
INVARIANT ChainsOneInOneOutInv
INVARIANT UniqueNamesInv
INVARIANT RoadmReachabilityUnchangedInv
INVARIANT NothingLostNothingInventedInv
INVARIANT EveryJunctionAmplifiedInv
INVARIANT SplitIsEqualAndConservativeInv
INVARIANT EveryAmpConfiguredInv
INVARIANT EveryFiberHasConnectorsInv
INVARIANT SpanAtLeastPaddingInv
INVARIANT UserAttenuatorKeptInv
INVARIANT VoaIsAttenuationInv
INVARIANT NoInsertionWhenNotAskedInv
