CONSTANTS
  Docs <- MCDocs
  Cfgs <- MCCfgs
  Sims <- MCSims
  MaxRounds = 3
  Grid = 2
  Family = "docs"
INIT Init
NEXT Next
INVARIANT Fixpoint
INVARIANT Deterministic
INVARIANT PropagationReproduced
INVARIANT DesignLeavesSimParams
INVARIANT SimParamsOnlyTemporarilyChanged
INVARIANT EverythingDesigned
INVARIANT LibraryUnchanged
INVARIANT ExportUnaffectedByPropagation
PROPERTY DesignAsAWholeKeepsSimParams
