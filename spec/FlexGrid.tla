------------------------------- MODULE FlexGrid -------------------------------
(* ITU-T G.694.1 flexible grid arithmetic as GNPy uses it (gnpy.topology.spectrum_assignment).               *)
(* A frequency slot is (N, M): nominal central frequency 193.1 THz + N * 6.25 GHz, width M * 12.5 GHz.       *)
(* On the 6.25 GHz index axis the slot occupies the indices N-M .. N+M-1  (mvalue_to_slots).                 *)
EXTENDS GnpyBase

SlotRange(n, m) == (n - m)..(n + m - 1)
StartN(n, m)    == n - m
StopN(n, m)     == n + m - 1
\* slots_to_m: centre and half-width of an index interval (truncating division as in the code, for start<=stop)
CentreOf(a, b)  == (a + b + 1) \div 2
HalfOf(a, b)    == (b - a + 1) \div 2

\* every index of a..b lies in the axis S and is not busy
FreeRun(S, busy, a, b) == \A k \in a..b : k \in S /\ k \notin busy

RoundTrip == \A n \in -6..6, m \in 1..4 : CentreOf(StartN(n, m), StopN(n, m)) = n /\ HalfOf(StartN(n, m), StopN(n, m)) = m
==============================================================================
