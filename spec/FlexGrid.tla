------------------------------- MODULE FlexGrid -------------------------------
(* ITU-T G.694.1 flexible grid arithmetic as GNPy uses it (gnpy.topology.spectrum_assignment).               *)
(* A frequency slot is (N, M): nominal central frequency 193.1 THz + N * 6.25 GHz, width M * 12.5 GHz.       *)
(* On the 6.25 GHz index axis the slot occupies the indices N-M .. N+M-1  (mvalue_to_slots).                 *)
EXTENDS GnpyBase

SlotRange(n, m) == (n - m)..(n + m - 1)
StartN(n, m)    == n - m
StopN(n, m)     == n + m - 1
\* slots_to_m: centre and half-width of an index interval (truncating division as in the code, for start<=stop)
CentreOf(a, b)  == (a + b + 1) \div 2
HalfOf(a, b)    == (b - a + 1) \div 2

\* every index of a..b lies in the axis S and is not busy
FreeRun(S, busy, a, b) == \A k \in a..b : k \in S /\ k \notin busy

RoundTrip == \A n \in -6..6, m \in 1..4 : CentreOf(StartN(n, m), StopN(n, m)) = n /\ HalfOf(StartN(n, m), StopN(n, m)) = m

-----------------------------------------------------------------------------
(* The frequency side.  Frequencies are integers in MHz counted from the anchor 193.1 THz (so they fit TLC's integers  *)
(* and every grid frequency is exact, as it is in a double); the index grid is 6.25 GHz, a slot of width M spans         *)
(* M * 12.5 GHz.  frequency_to_n is `int((f - 193.1e12) / grid)`: Python's int() TRUNCATES TOWARDS ZERO, which is the     *)
(* floor above the anchor and the ceiling below it - modelled as it is (TruncDiv), not idealised.                         *)
GridMHz == 6250
TruncDiv(a, b) == IF a >= 0 THEN a \div b ELSE -((-a) \div b)        \* int(a / b) for b > 0
NOfFreq(f)     == TruncDiv(f, GridMHz)                                 \* frequency_to_n
FreqOfN(n)     == n * GridMHz                                          \* nvalue_to_frequency
SlotEdges(n, m) == <<FreqOfN(StartN(n, m)), FreqOfN(StopN(n, m) + 1)>> \* m_to_freq: [lower edge, upper edge)
\* Bitmap(f_min, f_max, guardband): the index axis of a spectrum map and the indices the guard bands leave usable
AxisOf(fmin, fmax)      == NOfFreq(fmin)..NOfFreq(fmax)
GuardLo(fmin, guard)    == NOfFreq(fmin + guard)
GuardHi(fmax, guard)    == NOfFreq(fmax - guard)
Overlap(n1, m1, n2, m2) == SlotRange(n1, m1) \cap SlotRange(n2, m2) # {}

\* lemmas (checked by TLC on a window around the anchor, MC_FlexGrid)
GridInverse(NS)     == \A n \in NS : NOfFreq(FreqOfN(n)) = n
WidthLaw(NS, MS)    == \A n \in NS, m \in MS : SlotEdges(n, m)[2] - SlotEdges(n, m)[1] = m * 12500
CentreLaw(NS, MS)   == \A n \in NS, m \in MS : SlotEdges(n, m)[1] + SlotEdges(n, m)[2] = 2 * FreqOfN(n)
OverlapLaw(NS, MS)  == \A n1, n2 \in NS, m1, m2 \in MS : Overlap(n1, m1, n2, m2) <=> AbsI(n1 - n2) < m1 + m2
\* two slots share an index exactly when their frequency intervals [lo, hi) intersect
IndexIsFrequency(NS, MS) == \A n1, n2 \in NS, m1, m2 \in MS :
    LET a == SlotEdges(n1, m1)  b == SlotEdges(n2, m2) IN Overlap(n1, m1, n2, m2) <=> (a[1] < b[2] /\ b[1] < a[2])
AdjacentLaw(NS, MS) == \A n \in NS, m1, m2 \in MS : StopN(n, m1) + 1 = StartN(n + m1 + m2, m2)
\* truncation: never away from the anchor; the index found is the grid point at or next to f on the anchor's side
TruncLaw(FS)        == \A f \in FS : LET n == NOfFreq(f) IN
                          /\ AbsI(FreqOfN(n)) <= AbsI(f) /\ AbsI(f) - AbsI(FreqOfN(n)) < GridMHz
                          /\ (f >= 0 => n >= 0) /\ (f <= 0 => n <= 0)
==============================================================================
