INIT Init
NEXT Next
INVARIANT IdIsJoinedIdInv
INVARIANT BandwidthIsSumInv
INVARIANT ServedHasPathPropertiesInv
INVARIANT NoPathOnlyReasonInv
INVARIANT BlockedCarriesReasonInv
INVARIANT ReasonIsFirstRaisedInv
INVARIANT RouteHopByHopInv
INVARIANT LabelsEqualNMInv
INVARIANT NoLabelWhenBlockedInv
INVARIANT TransponderTypeAndModeInv
INVARIANT ObjectOrderInv
INVARIANT MetricsEqualReceiverInv
INVARIANT ReverseIffBidirInv
INVARIANT ReverseFromReverseReceiverInv
INVARIANT CsvNoPathOnlyReasonInv
INVARIANT CsvStatesSameInv
INVARIANT CsvLibraryFiguresInv
INVARIANT CsvPassFlagInv
INVARIANT CsvBandwidthAndCostInv
INVARIANT PassFlagMeaning
INVARIANT ReverseIsNotForward
INVARIANT Emit
