---------------------------- MODULE SpectrumCore ----------------------------
(* The core of C14, for ANY set of OMS, an unbounded slot axis and any number of requests - proved with TLAPS      *)
(* in SpectrumCoreProofs.tla (tlapm: all obligations proved; re-run by the thorough tier of check C14).             *)
(* State: occ[o] = the slot indices recorded as occupied on OMS o; served = the grants made so far, each a path     *)
(* (set of OMS) and a set of slot indices.  The only step: a grant is accepted when its slots are free on every OMS *)
(* of its path, and is then written on every one of them.  SpectrumAssign.tla (the code-grain model TLC explores     *)
(* and the replays bind to gnpy.topology.spectrum_assignment) refines this machine: MC_SpectrumAssign checks that     *)
(* every Assign(t) step is an Accept step (served) or a stuttering step (blocked) - property CoreStep.               *)
(* Theorem Safety: occupancy is EXACTLY the union of the accepted grants (nothing lost, nothing invented), and two    *)
(* grants that share an OMS never share a slot.                                                                       *)
EXTENDS Integers

CONSTANT OMS
VARIABLES occ, served
vars == <<occ, served>>

Grant  == [path : SUBSET OMS, rng : SUBSET Int]
TypeOK == occ \in [OMS -> SUBSET Int] /\ served \subseteq Grant

Init == occ = [o \in OMS |-> {}] /\ served = {}

Accept(p, r) == /\ \A o \in p : r \cap occ[o] = {}
                /\ occ' = [o \in OMS |-> IF o \in p THEN occ[o] \cup r ELSE occ[o]]
                /\ served' = served \cup {[path |-> p, rng |-> r]}

Next == \E p \in SUBSET OMS, r \in SUBSET Int : Accept(p, r)
Spec == Init /\ [][Next]_vars

Exact    == \A o \in OMS, k \in Int : k \in occ[o] <=> \E g \in served : o \in g.path /\ k \in g.rng
NoDouble == \A g, h \in served : (g # h /\ g.path \cap h.path # {}) => g.rng \cap h.rng = {}
Inv      == TypeOK /\ Exact /\ NoDouble
==============================================================================
