------------------------- MODULE MC_PowerLedgerEmit -------------------------
(* Emission of behaviours of MC_PowerLedger for the replay into the real SpectralInformation (B2): the          *)
(* history variable `hist` turns every behaviour prefix into a state of its own, and every behaviour of        *)
(* exactly MaxDepth operations is printed as one JSON line.                                                    *)
EXTENDS MC_PowerLedger, Json

VARIABLE hist          \* sequence of [op, j, arg, parts, src, twin, q]: parts, src, twin = state after the operation,
                       \* q[c] = <<1/OSNR_ASE, 1/SNR_NLI, 1/GSNR>> of channel c after it

EmitInit == MCInit /\ hist = <<>>
EmitNext == /\ MCNext
            /\ hist' = Append(hist, [op |-> last'.op, j |-> last'.j, arg |-> last'.arg, parts |-> parts', src |-> src', twin |-> twin',
                                      q |-> [c \in Chan |-> LET ch == Led(parts', c) IN <<InvOsnr(ch), InvNli(ch), InvGsnr(ch)>>]])

Emit == Len(hist) < MaxDepth \/ PrintT("@@" \o ToJson(hist))
==============================================================================
