CONSTANTS
  Amps <- MCAmps
  GainTargets <- MCGainTargets
  Variants <- MCVariants
  Tilts <- MCTilts
  PinTots <- MCPinTots
  NGrids = 2
  MaxCross = 2
INIT Init
NEXT Next
INVARIANT NeverAbovePmax
INVARIANT EffNeverAboveSet
INVARIANT UnsaturatedKeepsSet
INVARIANT ReducedOnlyAsNeeded
INVARIANT GainLaw
INVARIANT PaddingBelowMin
INVARIANT RegimePartition
INVARIANT NoMemory
INVARIANT MonotoneInLoad
