------------------------------ MODULE Planning ------------------------------
(* C16 / C19 - the batch pipeline of worker_utils.planning() after the network has been designed:                   *)
(*                                                                                                                   *)
(*     for each request r of the batch, in order:   Process(r) = Route -> Propagate(copy) -> Judge -> Assign         *)
(*     then                                         Report                                                           *)
(*                                                                                                                   *)
(* State                                                                                                             *)
(*   settings  the designed network's settings (an abstract constant record: per amplifier its gain and p_max)       *)
(*   live      the run-time state held by the NETWORK's own element objects: amplifier operating gain                 *)
(*             (Edfa.effective_gain) and, per receiving Transceiver, the penalties of the last evaluation             *)
(*   sim       the process-wide simulation parameters (SimParams): here the channels the NLI is evaluated on - NONE  *)
(*             means "derive them from the propagated comb"; a propagation that stores what it derived fixes them     *)
(*             for every later request                                                                              *)
(*   occ       spectrum occupancy per OMS (set of slot indices)                                                      *)
(*   done      sequence of processed request classes;  result[r]  the result computed for r (NoResult before)        *)
(*   response  <<>> until Report, then one entry per processed request;  csv  the exported rows, same order          *)
(*                                                                                                                   *)
(* An element mutates ITSELF while propagating (the amplifier keeps the gain it was clamped to).  The property       *)
(* holds because each request propagates on a private copy of its path taken from `settings`; the constant Leaky     *)
(* switches the model to the defective variant (propagate on the shared objects) - used only to show that the        *)
(* clauses below are not vacuous: TLC must then find a history violating Independent and NetworkFrozen.              *)
(*                                                                                                                   *)
(* Pipeline variant Redesign (compute_path_with_disjunction(redesign=True)): Process(r) = Route -> RedesignFor(r) on  *)
(* the amplifiers of r's route and of its reverse -> Propagate(copy) -> Judge -> Assign.  The settings then DO change  *)
(* (that is what the option is for), but only on the route of the request being computed (OnlyRouteRedesigned), the    *)
(* new settings are those a design made for that request alone would give (RedesignIsForTheRequest) - so a result is   *)
(* still a function of the request only (Independent, with Solo computed under the same option).  The defective        *)
(* variant (Leaky) takes the gain an EARLIER redesign reduced as if the operator had set it.                            *)
EXTENDS PlanningOps

CONSTANTS Classes,     \* request classes of the pool (strings)
          Amps,        \* amplifiers of the designed network
          Oms,         \* optical multiplex sections
          Design,      \* [Amps -> [gain, pmax]]  what the design step produced
          Req,         \* [Classes -> [short, rshort, src, dst, include, hop, via, rvia, oms, load, nch, mode, modes, slot, bidir, bw, type]]  (see MC_Planning)
          Rcvs,        \* receiving Transceiver objects of the network (one per destination)
          ModeTable,   \* sequence of [name, thr, pen] explored in this order by the automatic selection; pen = NONE when
                       \* the mode defines no impairment penalty, else the penalty (micro-dB) the path incurs
          NSlots,      \* slot indices 0..NSlots-1 on every OMS
          Leaky,       \* FALSE: the property's mechanism (private copy); TRUE: the defect
          Redesign     \* FALSE: the network is designed once; TRUE: planning(redesign=True) / --redesign-per-request -
                       \* before a request is propagated the amplifiers of its route (both directions) are designed
                       \* again with the request's own channel as the reference

VARIABLES settings, live, sim, occ, done, result, response, csv
vars == <<settings, live, sim, occ, done, result, response, csv>>

SimDefault == [cut |-> NONE]

NoResult == [reason |-> "none", raised |-> <<>>, route |-> <<>>, mode |-> "", gsnr |-> NONE, gsnrRev |-> NONE, pen |-> NONE,
             penRev |-> NONE, nm |-> <<>>]
Slots    == 0..(NSlots - 1)

-----------------------------------------------------------------------------
(* Propagation of load p along a path of amplifier objects whose current gains are `st`:                             *)
(* Edfa.interpol_params:  effective_gain := min(effective_gain, p_max - pin)  - and the object keeps it.             *)
(* The span after an amplifier loses the designed gain, so a clamped amplifier leaves a power (and GSNR) deficit.    *)
RECURSIVE Walk(_, _, _, _, _)
Walk(d, st, path, k, p) ==
    IF k > Len(path) THEN [st |-> st, deficit |-> 0]
    ELSE LET a   == path[k]
             eff == MinI(st[a], d[a].pmax - p)
             nx  == Walk(d, [st EXCEPT ![a] = eff], path, k + 1, p + eff - Design[a].gain)   \* the span loses the
         IN [st |-> nx.st, deficit |-> nx.deficit + (Design[a].gain - eff)]                \* NOMINAL gain
Gsnr(path, deficit) == 30000000 - 1500000 * Len(path) - 1000000 * deficit          \* micro-dB, abstract
(* NLI is evaluated on a few channels spread over the propagated comb (r.nch carriers) and interpolated: evaluating   *)
(* it on positions derived from ANOTHER comb costs accuracy.                                                          *)
Cut(simv, r)     == IF simv.cut # NONE THEN simv.cut ELSE r.nch
NliError(simv, r) == 300000 * AbsI(Cut(simv, r) - r.nch)

(* Route: the include-node constraint of the request.  r.via is the route through the nodes to include (<<>> when    *)
(* no route crosses them in order); r.short is the unconstrained shortest route between the same ends.  A STRICT      *)
(* constraint that cannot be honoured blocks the request, a LOOSE one is dropped - whatever other requests with the   *)
(* same ends and the same include list asked for.                                                                     *)
Route(r) == IF r.include = <<>> THEN r.short
            ELSE IF r.via # <<>> THEN r.via
            ELSE IF r.hop = "LOOSE" THEN r.short ELSE <<>>

(* The receiving Transceiver OBJECT holds the penalties of the last mode evaluated on it (calc_penalties).  Evaluating *)
(* a mode that defines no penalty must leave it with none - not with what the previous evaluation (an earlier mode    *)
(* explored on the same path, an earlier request ending on the same object) left there.                               *)
Held(m, before) == IF m.pen # NONE THEN m.pen ELSE IF Leaky THEN before ELSE 0

(* Judge: forced mode -> MODE_NOT_FEASIBLE when GSNR minus penalty is below its threshold; automatic -> first mode of   *)
(* the transponder type (explored in table order, each evaluated on the same receiver object) that passes, else        *)
(* NO_FEASIBLE_MODE with the last explored one.  Returns the mode, the reason and the penalty the receiver now holds.  *)
ModeIdx(name) == CHOOSE i \in 1..Len(ModeTable) : ModeTable[i].name = name
ThrOf(name)   == ModeTable[ModeIdx(name)].thr
Explored(r)   == {i \in 1..Len(ModeTable) : ModeTable[i].name \in r.modes}
RECURSIVE Explore(_, _, _, _)
Explore(r, g, todo, before) ==           \* todo: the indices still to explore
    LET i == SetMin(todo)  m == ModeTable[i]  h == Held(m, before) IN
    IF g - h >= m.thr THEN [mode |-> m.name, reason |-> "", pen |-> h]
    ELSE IF todo = {i} THEN [mode |-> m.name, reason |-> "NO_FEASIBLE_MODE", pen |-> h]
    ELSE Explore(r, g, todo \ {i}, h)
Judge(r, g, before) ==
    IF r.mode # "" THEN LET m == ModeTable[ModeIdx(r.mode)]  h == Held(m, before) IN
                        [mode |-> r.mode, reason |-> IF g - h >= m.thr THEN "" ELSE "MODE_NOT_FEASIBLE", pen |-> h]
    ELSE Explore(r, g, Explored(r), before)

(* Assign: a fixed slot is taken as given or the request is blocked; a free one is placed first-fit.                 *)
Range(n, m)   == n..(n + m - 1)
FreeOn(oc, S, rg) == rg \subseteq Slots /\ \A o \in S : rg \cap oc[o] = {}
Assign(oc, r) ==
    IF r.slot.n # NONE
    THEN IF FreeOn(oc, r.oms, Range(r.slot.n, r.slot.m)) THEN <<r.slot.n, r.slot.m>> ELSE <<>>
    ELSE LET cand == {n \in Slots : FreeOn(oc, r.oms, Range(n, r.slot.m))}
         IN IF cand = {} THEN <<>> ELSE <<SetMin(cand), r.slot.m>>

(* The whole computation for request class c from element gains `st`, design d and occupancy oc.                     *)
(* `raised` lists the blocking reasons in the order the stages raise them (route, forward judgement, reverse          *)
(* judgement with the retained mode, spectrum - the last one only attempted for a request not yet blocked);           *)
(* the request CARRIES THE FIRST ONE: a later stage never rewrites the reason of a request that is already blocked.   *)
First(raised) == IF raised = <<>> THEN "" ELSE raised[1]
Compute(d, st, simv, oc, c) ==
    LET r == Req[c]  path == Route(r) IN
    IF path = <<>> THEN [res |-> [reason |-> "NO_PATH_WITH_CONSTRAINT", raised |-> <<"NO_PATH_WITH_CONSTRAINT">>,
                                  route |-> <<>>, mode |-> r.mode, gsnr |-> NONE, gsnrRev |-> NONE, pen |-> NONE,
                                  penRev |-> NONE, nm |-> <<>>],
                         st |-> st, cut |-> simv.cut, oc |-> oc]
    ELSE LET rpath == IF path = r.via THEN r.rvia ELSE r.rshort
             w   == Walk(d, st.gain, path, 1, r.load)
             g   == Gsnr(path, w.deficit) - NliError(simv, r)
             j   == Judge(r, g, st.rx[r.dst])                            \* evaluated on the destination's receiver
             w2  == IF r.bidir THEN Walk(d, w.st, rpath, 1, r.load)      \* the reverse direction: its own amplifiers
                    ELSE [st |-> w.st, deficit |-> 0]
             g2  == IF r.bidir THEN Gsnr(rpath, w2.deficit) - NliError(simv, r) - 100000 ELSE NONE
             h2  == IF r.bidir THEN Held(ModeTable[ModeIdx(j.mode)], st.rx[r.src]) ELSE NONE   \* ... and the source's
             fwd == IF j.reason # "" THEN <<j.reason>> ELSE <<>>
             rev == IF r.bidir /\ g2 - h2 < ThrOf(j.mode) THEN <<"MODE_NOT_FEASIBLE">> ELSE <<>>
             nm  == IF fwd \o rev = <<>> THEN Assign(oc, r) ELSE <<>>
             spc == IF fwd \o rev = <<>> /\ nm = <<>> THEN <<"NO_SPECTRUM">> ELSE <<>>
             raised == fwd \o rev \o spc
         IN [res |-> [reason |-> First(raised), raised |-> raised, route |-> path, mode |-> j.mode, gsnr |-> g,
                      gsnrRev |-> g2, pen |-> j.pen, penRev |-> h2, nm |-> IF nm = <<>> THEN <<>> ELSE <<nm>>],
             st |-> [gain |-> w2.st,
                     rx |-> [x \in Rcvs |-> IF x = r.dst THEN j.pen ELSE IF r.bidir /\ x = r.src THEN h2 ELSE st.rx[x]]],
             cut |-> Cut(simv, r),
             oc |-> IF raised = <<>> THEN [o \in Oms |-> IF o \in r.oms THEN oc[o] \cup Range(nm[1], nm[2]) ELSE oc[o]]
                    ELSE oc]

DesignGains(d) == [gain |-> [a \in Amps |-> d[a].gain], rx |-> [x \in Rcvs |-> 0]]    \* fresh element objects

(* design_network(pathreq, network.subgraph(route + reverse route)): every amplifier of the two directions of the      *)
(* request's route gets the gain a design with the request's channel as reference gives it - the nominal gain, reduced  *)
(* only as needed so that the request's own load does not exceed the maximum output - whatever it was set to before.    *)
(* A request without a route redesigns nothing.  Leaky: the current (possibly already reduced) gain is taken as the     *)
(* operator's and only ever reduced further.                                                                            *)
RouteAmps(c) == LET r == Req[c]  path == Route(r) IN
                IF path = <<>> THEN {} ELSE SeqRange(path) \cup SeqRange(IF path = r.via THEN r.rvia ELSE r.rshort)
RedesignFor(s, c) ==
    [a \in Amps |-> IF a \in RouteAmps(c)
                    THEN [s[a] EXCEPT !.gain = MinI(IF Leaky THEN s[a].gain ELSE Design[a].gain, s[a].pmax - Req[c].load)]
                    ELSE s[a]]
SettingsFor(s, c) == IF Redesign THEN RedesignFor(s, c) ELSE s
\* the result of c computed alone (under the same option)
Solo(c) == LET d == SettingsFor(Design, c) IN Compute(d, DesignGains(d), SimDefault, [o \in Oms |-> {}], c).res

-----------------------------------------------------------------------------
Init == /\ settings = Design
        /\ live = DesignGains(Design)
        /\ sim = SimDefault
        /\ occ = [o \in Oms |-> {}]
        /\ done = <<>>
        /\ result = [c \in Classes |-> NoResult]
        /\ response = <<>>
        /\ csv = <<>>

Process(c) ==
    /\ response = <<>>
    /\ c \notin SeqRange(done)
    /\ LET d     == SettingsFor(settings, c)                           \* the redesign (if any) precedes the copy
           start == IF Leaky /\ ~Redesign THEN live ELSE DesignGains(d) \* deepcopy(path) vs the shared objects
           x     == Compute(d, start, sim, occ, c)
       IN /\ result' = [result EXCEPT ![c] = x.res]
          /\ settings' = d
          /\ occ' = x.oc
          /\ live' = IF Leaky /\ ~Redesign THEN x.st ELSE live
          /\ sim' = IF Leaky /\ ~Redesign THEN [cut |-> x.cut] ELSE sim   \* the defect: what was derived is stored
    /\ done' = Append(done, c)
    /\ UNCHANGED <<response, csv>>

(* the outcome record (PlanningOps) of a processed class, and the report *)
RxOf(g, pen) == [k \in MetricKeys |-> IF k \in {"pdl", "pmd"} THEN NONE
                                      ELSE IF k = "cd" THEN (IF pen = NONE \/ pen = 0 THEN NONE ELSE pen)
                                      ELSE IF g = NONE THEN NONE ELSE g - (IF k = "snrmin" THEN 40000 ELSE 0)]
OutcomeOf(c) ==
    LET r == Req[c]  res == result[c] IN
    [members |-> <<[id |-> c, bw |-> r.bw, key |-> c, bidir |-> r.bidir]>>, reason |-> res.reason, raised |-> res.raised,
     route |-> IF res.route = <<>> THEN <<>> ELSE <<"trx src">> \o res.route \o <<"trx dst">>,
     type |-> r.type, mode |-> res.mode, nm |-> res.nm, bidir |-> r.bidir, hasRev |-> r.bidir /\ res.route # <<>>,
     rx |-> RxOf(res.gsnr, res.pen), rxRev |-> RxOf(res.gsnrRev, res.penRev), power |-> 1000000, powerudbm |-> 0,
     mi |-> [osnr |-> 1200, margin |-> 200, baud |-> 3200, bitrate |-> 10000, cost |-> 100]]
(* the CSV writer goes through the entries in order; a row is built from its own entry only - the defective variant   *)
(* keeps the reverse-direction block of the last bidirectional row for the rows that follow                            *)
RECURSIVE WriteRows(_, _, _)
WriteRows(ents, k, carry) ==
    IF k > Len(ents) THEN <<>>
    ELSE LET o   == OutcomeOf(done[k])
             own == CsvRow(o, ents[k])
             rev == IF ents[k].hasZA \/ ~Leaky \/ ~ents[k].hasProps THEN own.rev ELSE carry
         IN <<[own EXCEPT !.rev = rev]>> \o WriteRows(ents, k + 1, IF ents[k].hasZA THEN own.rev ELSE carry)
Report == /\ response = <<>> /\ done # <<>>
          /\ response' = [i \in 1..Len(done) |-> ReportEntry(OutcomeOf(done[i]))]
          /\ csv' = WriteRows([i \in 1..Len(done) |-> ReportEntry(OutcomeOf(done[i]))], 1, Blank)
          /\ UNCHANGED <<settings, live, sim, occ, done, result>>

Next == (\E c \in Classes : Process(c)) \/ Report
Spec == Init /\ [][Next]_vars

-----------------------------------------------------------------------------
(* ---- C16 ---- *)
Core(res) == [reason |-> PreSpectrum(res.reason), route |-> res.route, mode |-> res.mode, gsnr |-> res.gsnr,
              gsnrRev |-> res.gsnrRev, pen |-> res.pen, penRev |-> res.penRev]

Independent ==       \* route, mode, GSNR figures and feasibility verdict: as if computed alone, whatever `done` was
    \A i \in 1..Len(done) : Core(result[done[i]]) = Core(Solo(done[i]))

NetworkFrozen == [][settings' = settings /\ live' = live]_vars          \* computing requests changes no setting
\* ... except, under the redesign option, the amplifiers of the route of the request being computed - and those are left
\* as a design made for that request alone leaves them
OnlyRouteRedesigned == [][live' = live /\ (done' # done =>
                            \A a \in Amps : settings'[a] # settings[a] => a \in RouteAmps(done'[Len(done')]))]_vars
RedesignIsForTheRequest == [][done' # done => LET c == done'[Len(done')] IN
                                \A a \in RouteAmps(c) : settings'[a] = RedesignFor(Design, c)[a]]_vars
SimParamsFrozen == [][sim' = sim]_vars                                  \* ... and no process-wide simulation parameter
SettingsAreTheDesign == (Redesign \/ settings = Design) /\ live = DesignGains(Design) /\ sim = SimDefault

OnlySlotsDependOnHistory ==     \* a result differs from the solo result only in its slots (or NO_SPECTRUM), and only
    \A i \in 1..Len(done) :     \* when an earlier SERVED request shares an OMS with it; the first one never differs
        LET c == done[i] IN
        result[c] # Solo(c) =>
            /\ Core(result[c]) = Core(Solo(c))
            /\ \E j \in 1..(i - 1) : result[done[j]].reason = "" /\ Req[done[j]].oms \cap Req[c].oms # {}

CarriesFirstReason ==           \* the feasibility verdict a request carries is the first reason raised for it, and a
    \A i \in 1..Len(done) :     \* STRICT include constraint that cannot be honoured is never answered with a route
        LET c == done[i] IN
        /\ result[c].reason = First(result[c].raised)
        /\ (Req[c].include # <<>> /\ Req[c].via = <<>> /\ Req[c].hop = "STRICT") => result[c].route = <<>>

BlockedHoldsNoSpectrum ==       \* a blocked request has no labels and occupies nothing (C14 /\ C19)
    /\ \A i \in 1..Len(done) : result[done[i]].reason # "" => result[done[i]].nm = <<>>
    /\ \A o \in Oms : occ[o] = UNION {Range(result[c].nm[1][1], result[c].nm[1][2]) :
                                       c \in {x \in SeqRange(done) : result[x].reason = "" /\ o \in Req[x].oms}}

(* ---- C19 on the reported batch ---- *)
Reported == response # <<>>
ReportIsOneEntryPerRequest ==
    Reported => OneEntryPerRequest(done, [i \in 1..Len(response) |-> response[i].ids])
ReportStatesWhatWasComputed ==
    Reported => \A i \in 1..Len(done) : EntryViol(OutcomeOf(done[i]), response[i]) = {}
ReportedCsvIsConsistent ==
    Reported => \A i \in 1..Len(done) : CsvViol(OutcomeOf(done[i]), response[i], csv[i]) = {}
ReportedViewsIndependent ==     \* C16 on what is REPORTED: entry and CSV row of a request are those of the request alone
    Reported => \A i \in 1..Len(done) :       \* (slots and the spectrum verdict apart), whatever rows precede it
        LET c == done[i]
            solo  == Solo(c)
            alone == [OutcomeOf(c) EXCEPT !.reason = solo.reason, !.raised = solo.raised, !.nm = solo.nm]
            row   == CsvRow(alone, ReportEntry(alone))
        IN  Core(result[c]) = Core(solo) => (csv[i].rev = row.rev /\ csv[i].m = row.m /\ csv[i].path = row.path)

TypeOK == /\ done \in Seq(Classes) /\ Cardinality(SeqRange(done)) = Len(done)
          /\ \A o \in Oms : occ[o] \subseteq Slots
==============================================================================
