----------------------------- MODULE ChannelOps -----------------------------
(* C07 - pure operators on channel lists, shared by the state machine ChannelSet and by Trace_Propagation.    *)
(* A channel is a record [f, w, b, label]: centre frequency (MHz offset from 193.1 THz), slot width and      *)
(* baud rate (MHz) and a label standing for everything the transmitter attached to it.  A band is <<lo, hi>>.*)
EXTENDS Integers, Sequences, FiniteSets

SeqSet(s) == {s[i] : i \in 1..Len(s)}
Lo(c) == c.f - c.w \div 2                \* slot edges (widths are even numbers of MHz in every instance)
Hi(c) == c.f + c.w \div 2

\* the channels of a set in increasing frequency (ties, which are always rejected, in any fixed order)
RECURSIVE Sorted(_)
Sorted(S) == IF S = {} THEN <<>>
             ELSE LET m == CHOOSE c \in S : \A d \in S : c.f < d.f \/ (c.f = d.f /\ (c.label <= d.label))
                  IN <<m>> \o Sorted(S \ {m})

\* SpectralInformation.__init__ : argsort, then the two checks on the sorted arrays
NeighbourOverlap(s) == \E i \in 1..(Len(s) - 1) : Hi(s[i]) > Lo(s[i + 1])
BaudExceeds(s)      == \E i \in 1..Len(s) : s[i].b > s[i].w
LaunchOutcome(l) == LET s == Sorted(SeqSet(l))
                    IN IF NeighbourOverlap(s) \/ BaudExceeds(s) THEN [status |-> "SpectrumError", spec |-> <<>>]
                       ELSE [status |-> "launched", spec |-> s]

\* the property-level notions: ANY two channels whose open slots intersect
SlotsOverlap(c, d) == c # d /\ Hi(c) > Lo(d) /\ Hi(d) > Lo(c)
AnyOverlap(S)      == \E c, d \in S : SlotsOverlap(c, d)
AnyBaudWider(S)    == \E c \in S : c.b > c.w

\* is_in_band: the whole slot inside the band, edges included
InBand(c, band) == Lo(c) >= band[1] /\ Hi(c) <= band[2]
\* "the band common to all amplifiers of the path": some band of EVERY amplifier holds the whole slot;
\* ampBands = sequence (one entry per amplifier) of sequences of bands; dflt is used when there is no amplifier
InCommonBand(c, ampBands, dflt) ==
    IF Len(ampBands) = 0 THEN InBand(c, dflt)
    ELSE \A i \in 1..Len(ampBands) : \E k \in 1..Len(ampBands[i]) : InBand(c, ampBands[i][k])

RECURSIVE PerBand(_, _, _)      \* Multiband_amplifier.__call__: one sub-spectrum per band, in configuration order
PerBand(s, bands, k) == IF k > Len(bands) THEN <<>>
                        ELSE SelectSeq(s, LAMBDA c : InBand(c, bands[k])) \o PerBand(s, bands, k + 1)
==============================================================================
