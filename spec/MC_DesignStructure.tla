-------------------------- MODULE MC_DesignStructure --------------------------
(* Bounded instance for C08: 2-4 ROADMs (each with its transceiver); every directed link carries a chain from   *)
(*     Fiber(len) | Fiber Fused Fiber | Fiber UserAmp(full|partial|none) Fiber | RamanFiber                     *)
(*     (+ Fiber UserAmp(full) RamanFiber: the one way a Raman span survives the real design, see the C08 report) *)
(*     (+ Fiber(20 km) with a user att_in of 3 dB: padding completes, never replaces, a user attenuator)           *)
(*     (+ spliced chains whose first fibre carries a user att_in, + RamanFiber next to a plain fibre,              *)
(*      + fibres whose loss coefficient is a per-frequency table, one of them longer than the maximum)            *)
(* len in {0.05, 20, 80, 95, 151, 400, 1200} km; Span settings padding 0/10 dB x EOL 0/1 dB x max_length         *)
(* 80/150 km (thorough: 80/100/150; 80 km is below the 90 km target span, 95 km then lies between the maximum    *)
(* and the length at which two spans reach the 50 km minimum) x power/gain mode; the SI band lies strictly       *)
(* inside the amplifier band or has the same edges (tied to EOL xor mode so that every chain meets both).        *)
(* Further chain kinds: two splices in a row, fibres describing one / both connectors themselves, joined fibres,   *)
(* user-complete line systems (also with insertion off), already split spans, C+L multiband sites, a 140 km span  *)
(* under a design power sweep (+0.2 .. +3.0 dBm in 0.2 dB steps).                                                 *)
(* A link given as two / three sections that are each longer than the maximum span length (directly connected).     *)
(* A second use of the same network object: a designed 2-ROADM network gets further sections (400 km; 20 km; two    *)
(* long ones) behind the last fibre of line A -> B in memory and is designed again.                                *)
(* The reverse direction of a link carries the mirrored chain (a plain 80 km fibre opposite a Raman chain).      *)
(* Tier selects how many chain combinations are used on the 3- and 4-ROADM shapes.                              *)
EXTENDS DesignStructure, Json

CONSTANT Tier                      \* "quick" | "thorough" | "b1quick" (the quick tier's exhaustive run: fewer settings)

dB == 1000000
km == 1000

Blank(name, type) == [name |-> name, type |-> type, succ |-> {}, pred |-> {}, len |-> 0, coef |-> 0, variety |-> "",
                      conIn |-> NONE, conOut |-> NONE, attIn |-> NONE, loss |-> 0, sub |-> <<>>, origin |-> "", coefTab |-> <<>>, opt |-> "", phys |-> <<>>]
\* chain element descriptors
F(l) == [t |-> "Fiber", len |-> l, k |-> "", att |-> 0, ci |-> NONE, co |-> NONE]
FQ(l) == [F(l) EXCEPT !.k = "perfreq"]                 \* fibre whose loss coefficient is given per frequency
FU(l, tag) == [F(l) EXCEPT !.k = tag]                 \* fibre with further user parameters (see harness/design_util.py)
FM(l) == [F(l) EXCEPT !.k = "pmd"]                     \* fibre with a user pmd_coef different from its library type
FP(l, a) == [F(l) EXCEPT !.att = a]                     \* fibre with a user-set padding attenuator att_in
FC(l, i, o) == [F(l) EXCEPT !.ci = i, !.co = o]         \* fibre that describes its connectors itself (NONE = left to the Span default)
R(l) == [t |-> "RamanFiber", len |-> l, k |-> "", att |-> 0, ci |-> dB \div 2, co |-> dB \div 2]
X    == [t |-> "Fused", len |-> 0, k |-> "", att |-> 0, ci |-> NONE, co |-> NONE]
A(k) == [t |-> "Edfa", len |-> 0, k |-> k, att |-> 0, ci |-> NONE, co |-> NONE]
M(k) == [t |-> "Multiband_amplifier", len |-> 0, k |-> k, att |-> 0, ci |-> NONE, co |-> NONE]   \* user multiband site

LossTable == <<<<191000000, 210>>, <<193500000, 200>>, <<196500000, 190>>>>       \* <<MHz, mdB/km>>
\* one band of a user multiband amplifier: "zero" = delta_p and out_voa explicitly 0 dB (keep the reference power), "full"
UserBand(k, v) == IF k = "zero" THEN [variety |-> v, gain |-> NONE, voa |-> 0, dp |-> 0]
                  ELSE [variety |-> v, gain |-> 18 * dB, voa |-> dB, dp |-> dB]
UserSub(k) == IF k = "full" THEN [variety |-> "std_medium_gain", gain |-> 18 * dB, voa |-> dB, dp |-> dB]
              ELSE IF k = "voa" THEN [variety |-> "", gain |-> NONE, voa |-> 3 * dB, dp |-> NONE]     \* only an output VOA set
              ELSE IF k = "zero" THEN [variety |-> "std_medium_gain", gain |-> NONE, voa |-> 0, dp |-> 0]   \* explicit 0 dB settings
              ELSE IF k = "partial" THEN [variety |-> "std_medium_gain", gain |-> NONE, voa |-> NONE, dp |-> NONE]
              ELSE NoSub
Concrete(d, name) ==
    IF d.t = "Fiber" THEN [Blank(name, "Fiber") EXCEPT !.len = d.len, !.coef = 200, !.variety = "SSMF", !.attIn = d.att,
                               !.conIn = d.ci, !.conOut = d.co, !.opt = IF d.k \in {"", "perfreq", "span1", "span2"} THEN "" ELSE d.k, !.coefTab = IF d.k = "perfreq" THEN LossTable ELSE <<>>]
    ELSE IF d.t = "RamanFiber" THEN [Blank(name, "RamanFiber") EXCEPT !.len = d.len, !.coef = 200, !.variety = "SSMF",
                                        !.attIn = 0, !.conIn = dB \div 2, !.conOut = dB \div 2]
    ELSE IF d.t = "Fused" THEN [Blank(name, "Fused") EXCEPT !.loss = dB]
    ELSE IF d.t = "Multiband_amplifier"
         THEN [Blank(name, "Multiband_amplifier") EXCEPT !.variety = IF d.k = "none" THEN "" ELSE "std_medium_gain_multiband",
                                                         !.sub = IF d.k = "none" THEN <<>> ELSE <<UserBand(d.k, "std_medium_gain"), UserBand(d.k, "std_medium_gain_L")>>]
    ELSE [Blank(name, "Edfa") EXCEPT !.variety = UserSub(d.k).variety, !.sub = <<UserSub(d.k)>>]

Lens == {50, 20 * km, 80 * km, 95 * km, 151 * km, 400 * km, 1200 * km}
Plain  == {<<F(l)>> : l \in Lens}
Spliced == {<<F(a), X, F(b)>> : a \in {50, 20 * km, 151 * km}, b \in {50, 80 * km, 400 * km}}
WithAmp == {<<F(p[1]), A(k), F(p[2])>> : p \in {<<20 * km, 80 * km>>, <<80 * km, 50>>, <<151 * km, 20 * km>>},
                                         k \in {"full", "partial", "none"}}
Raman  == {<<R(80 * km)>>, <<F(80 * km), A("full"), R(80 * km)>>, <<R(80 * km), F(20 * km)>>, <<F(20 * km), R(80 * km)>>,
           <<R(80 * km), X, F(20 * km)>>}
\* user-set padding attenuators: alone, and on the first / (mirrored) last fibre of a spliced span shorter than the padding
Padded == {<<FP(20 * km, 3 * dB)>>, <<FP(20 * km, 3 * dB), X, F(50)>>, <<FP(50, 3 * dB), X, F(20 * km)>>,
           <<FP(50, 2 * dB), X, FP(50, dB)>>}
\* two splices in a row inside a span shorter than the padding
DoubleSplice == {<<F(50), X, X, F(50)>>, <<F(20 * km), X, X, F(50)>>}
\* one connector described by the topology, the other left to the Span default; both described
OneConnector == {<<FC(80 * km, dB \div 2, NONE)>>, <<FC(20 * km, NONE, dB \div 4)>>, <<FC(50, dB \div 2, NONE), X, FC(20 * km, dB, dB)>>}
\* user fibre parameters that only the export / reload round trip can lose (one of the fibres splits)
\* pmd: pmd_coef; lumped: a lumped loss inside the fibre; dispfreq: dispersion given per frequency; disp: dispersion and
\* effective area different from the library type
UserParams == {<<FM(151 * km)>>, <<FM(20 * km), X, F(80 * km)>>, <<FU(80 * km, "lumped")>>, <<FU(151 * km, "dispfreq")>>,
               <<FU(80 * km, "dispfreq")>>, <<FU(80 * km, "disp")>>}
\* a saved design designed again: the two spans x_(1/2), x_(2/2) of an earlier split with their in-line amplifier; under a
\* shorter maximum both are split again
Resplit == {<<FU(100 * km, "span1"), A("partial"), FU(100 * km, "span2")>>}
\* a user amplifier whose delta_p / out_voa are explicitly 0 dB
ZeroAmp == {<<F(80 * km), A("zero"), F(20 * km)>>}
\* C+L line systems (library tests/data/eqpt_config_multiband.json, ROADM design bands C and a narrow L band): the user
\* placed multiband amplifier sites, undescribed / with explicit 0 dB settings / fully described
Multi == {<<F(55 * km), M("none"), F(50 * km), M("none"), F(60 * km)>>, <<F(80 * km), M("zero"), F(80 * km)>>,
          <<F(80 * km), M("full"), F(20 * km)>>}
\* a long span at the edge of amplifier saturation: designed under a sweep of the design power
Hot == {<<F(140 * km)>>}
\* two fibres joined directly (an in-line amplifier is to be inserted between unequal spans)
Joined == {<<F(80 * km), F(20 * km)>>, <<F(95 * km), F(50), F(80 * km)>>}
\* line systems in which the user placed every amplifier (some spans shorter than the padding, connectors undescribed):
\* also designed with amplifier insertion switched off
Complete == {<<A("none"), F(20 * km), A("none")>>, <<A("partial"), F(50), X, F(50), A("none")>>,
             <<A("none"), F(80 * km), A("full"), FC(20 * km, NONE, dB \div 4), A("none")>>}
\* a user output VOA on an otherwise automatic amplifier, followed by two more amplifiers (the second fibre splits)
UserVoa == {<<F(80 * km), A("voa"), F(151 * km)>>, <<F(20 * km), A("voa"), F(80 * km)>>}
PerFreq == {<<FQ(151 * km)>>, <<FQ(20 * km), X, F(80 * km)>>}
\* a long link described as sections that are each longer than the maximum span length, directly connected (80 km maximum:
\* also the 95 km section)
LongSections == {<<F(151 * km), F(400 * km)>>, <<F(95 * km), F(400 * km), F(151 * km)>>}
Chains == LongSections \cup Plain \cup Spliced \cup WithAmp \cup Padded \cup PerFreq \cup DoubleSplice \cup OneConnector \cup UserParams \cup UserVoa \cup Joined \cup Complete \cup Resplit \cup ZeroAmp
\* representatives used where the full product would be too large
Reps   == {<<F(50)>>, <<F(80 * km)>>, <<F(400 * km)>>, <<F(20 * km), X, F(50)>>, <<F(151 * km), X, F(80 * km)>>,
           <<F(20 * km), A("none"), F(80 * km)>>, <<F(151 * km), A("full"), F(20 * km)>>, <<F(80 * km), A("partial"), F(50)>>}
Few    == {<<F(20 * km)>>, <<F(151 * km)>>, <<F(50), X, F(50)>>, <<F(80 * km), A("none"), F(50)>>}

\* chain of the opposite direction: the mirror image; opposite a Raman chain a plain 80 km fibre
Reverse(s) == IF \E i \in 1..Len(s) : s[i].t = "RamanFiber" THEN <<F(80 * km)>> ELSE [i \in 1..Len(s) |-> s[Len(s) + 1 - i]]
Site(i) == <<"A", "B", "C", "D">>[i]

\* graph with n ROADMs (index i) and their transceivers (index n + i), no links yet
Sites(n) == [x \in 1..(2 * n) |->
               IF x <= n THEN [Blank("roadm " \o Site(x), "Roadm") EXCEPT !.succ = {n + x}, !.pred = {n + x}]
               ELSE [Blank("trx " \o Site(x - n), "Transceiver") EXCEPT !.succ = {x - n}, !.pred = {x - n}]]

\* append the chain `ch` as the line from ROADM a to ROADM b
AddLine(G, a, b, ch) ==
    LET n == Len(G)
        m == Len(ch)
        tag == Site(a) \o Site(b)
        \* fibres of kind span1 / span2 carry the names of the two spans of a fibre split by an earlier design
        nm(j) == IF ch[j].k = "span1" THEN "Fiber " \o tag \o "_(1/2)" ELSE IF ch[j].k = "span2" THEN "Fiber " \o tag \o "_(2/2)"
                 ELSE ch[j].t \o " " \o tag \o ToString(j)
        el(j) == [Concrete(ch[j], nm(j))
                     EXCEPT !.pred = {IF j = 1 THEN a ELSE n + j - 1}, !.succ = {IF j = m THEN b ELSE n + j + 1}]
    IN [x \in 1..(n + m) |-> IF x > n THEN el(x - n)
                             ELSE IF x = a THEN [G[a] EXCEPT !.succ = @ \cup {n + 1}]
                             ELSE IF x = b THEN [G[b] EXCEPT !.pred = @ \cup {n + m}]
                             ELSE G[x]]
AddLink(G, a, b, ch) == AddLine(AddLine(G, a, b, ch), b, a, Reverse(ch))

Pair(c)        == AddLink(Sites(2), 1, 2, c)
\* the same with ROADM A carrying element-level impairment parameters (add_drop_osnr, pmd, pdl) of its own
PairR(c)       == [Pair(c) EXCEPT ![1] = [@ EXCEPT !.opt = "impair"]]
Line3(c, d)    == AddLink(AddLink(Sites(3), 1, 2, c), 2, 3, d)
Tri(c, d, e)   == AddLink(AddLink(AddLink(Sites(3), 1, 2, c), 2, 3, d), 1, 3, e)
Star(c, d, e)  == AddLink(AddLink(AddLink(Sites(4), 2, 1, c), 2, 3, d), 2, 4, e)      \* hub B of degree 3, leaves of degree 1

\* SI / design band in MHz: strictly inside the band of the library amplifiers, or with the same edges
AmpBand   == <<191275000, 196125000>>
InnerBand == <<191300000, 195100000>>
Setting(pad, eol, maxl, pm) == [padding |-> pad * dB, eol |-> eol * dB, maxLen |-> maxl * km, powerMode |-> pm,
                                conIn |-> 300000, conOut |-> 400000,
                                siBand |-> IF (eol + (IF pm THEN 1 ELSE 0)) % 2 = 1 THEN AmpBand ELSE InnerBand,
                                ampBand |-> AmpBand,
                                bands |-> 1,                                       \* design bands of the ROADMs (2 = C + L)
                                power |-> 0,                                       \* design power (SI power_dbm) in 0.1 dBm
                                insert |-> TRUE,                                   \* amplifier insertion on (the default)
                                lenUnits |-> IF (pad \div 10 + (IF pm THEN 1 ELSE 0)) % 2 = 1 THEN "m" ELSE "km",  \* unit of Span.max_length
                                lib |-> {"std_low_gain", "std_medium_gain", "std_high_gain"}]
MaxLens == IF Tier = "thorough" THEN {80, 100, 150} ELSE {80, 150}
AllSettings == {Setting(p, e, m, pm) : p \in {0, 10}, e \in {0, 1}, m \in MaxLens, pm \in BOOLEAN}
\* strength-3 half fraction of the 16 settings (even parity of the four binary factors)
HalfSettings == {Setting(p, e, m, ((p \div 10) + e + (IF m = 150 THEN 1 ELSE 0)) % 2 = 1) : p \in {0, 10}, e \in {0, 1}, m \in {80, 150}}
FewSettings == {Setting(10, 0, 150, TRUE), Setting(0, 1, 80, FALSE), Setting(10, 1, 80, TRUE), Setting(0, 0, 150, FALSE)}

Graphs == {Pair(c) : c \in Chains}
NoInsert(s) == [s EXCEPT !.insert = FALSE]
TwoBands(s) == [s EXCEPT !.bands = 2, !.siBand = InnerBand, !.lenUnits = "km",
                         !.lib = {"std_medium_gain_multiband", "std_medium_gain", "std_medium_gain_L"}]
PowerSweep  == {[Setting(10, 0, 150, TRUE) EXCEPT !.power = p] : p \in {2 * k : k \in 1..15}}          \* +0.2 .. +3.0 dBm
\* a Raman estimation costs ~0.3 s in the real code: the Raman chains run under the half fraction of the settings
GraphsHalf == {Pair(c) : c \in Raman} \cup {PairR(c) : c \in {<<F(80 * km)>>, <<F(151 * km)>>}} \cup (IF Tier # "thorough" THEN {} ELSE {Line3(c, d) : c \in Chains, d \in Reps})
GraphsFew == IF Tier # "thorough"
             THEN {Line3(c, d) : c \in Reps, d \in Few} \cup {Tri(c, d, e) : c \in Few, d \in Few, e \in {<<F(80 * km)>>}}
             ELSE {Tri(c, d, e) : c \in Reps, d \in Reps, e \in Few} \cup {Star(c, d, e) : c \in Reps, d \in Reps, e \in Few}

\* thorough: the 2-ROADM shape under every setting; quick: under the half fraction (all of them are designed by the
\* real code, B2); b1quick (the exhaustive run of the quick tier): under two settings
TwoSettings == {Setting(10, 0, 150, TRUE), Setting(0, 1, 80, FALSE)}
PairSettings == IF Tier = "thorough" THEN AllSettings ELSE IF Tier = "quick" THEN HalfSettings ELSE TwoSettings
\* the same network object used twice: designed, extended in memory behind the last fibre of line A -> B, designed again
Section(l, k) == Concrete(F(l), "Fiber AB section " \o ToString(k))
Behind(c) == "Fiber AB" \o ToString(Len(c))
ExtBase == {<<F(80 * km)>>, <<F(151 * km)>>, <<F(20 * km), X, F(50)>>, <<F(80 * km), A("full"), F(20 * km)>>}
\* a long section (split by the second design) behind every base; behind the plain fibre also a short one (junction only) and
\* two long ones in a row
Extensions(c) == {<<[at |-> Behind(c), el |-> Section(400 * km, 2)]>>}
                 \cup (IF c # <<F(80 * km)>> THEN {}
                       ELSE {<<[at |-> Behind(c), el |-> Section(20 * km, 2)]>>,
                             <<[at |-> Behind(c), el |-> Section(400 * km, 2)], [at |-> "Fiber AB section 2", el |-> Section(151 * km, 3)]>>})
ExtCases == {[g |-> Pair(c), s |-> s, x |-> e] : <<c, e>> \in UNION {{<<c, e>> : e \in Extensions(c)} : c \in ExtBase},
                                               s \in (IF Tier = "b1quick" THEN TwoSettings ELSE FewSettings)}
SingleUse ==
           {[g |-> x, s |-> s] : x \in Graphs, s \in PairSettings}
           \cup {[g |-> Pair(c), s |-> TwoBands(s)] : c \in Multi, s \in (IF Tier = "b1quick" THEN TwoSettings ELSE FewSettings)}
           \cup {[g |-> Pair(c), s |-> s] : c \in Hot, s \in (IF Tier = "b1quick" THEN {Setting(10, 0, 150, TRUE)} ELSE PowerSweep)}
           \cup {[g |-> Pair(c), s |-> NoInsert(s)] : c \in Complete, s \in (IF Tier = "b1quick" THEN FewSettings ELSE HalfSettings)}
           \cup {[g |-> x, s |-> s] : x \in GraphsHalf, s \in (IF Tier = "b1quick" THEN FewSettings ELSE HalfSettings)}
           \cup {[g |-> x, s |-> s] : x \in GraphsFew, s \in FewSettings}
MCCases == {[g |-> c.g, s |-> c.s, x |-> <<>>] : c \in SingleUse} \cup ExtCases

\* B2: one line per enumerated case (printed for the initial state of its behaviour); the harness renders it as
\* topology JSON + equipment overrides and runs the real designed_network
Compact(e) == [n |-> e.name, t |-> e.type, l |-> e.len, c |-> e.coef, v |-> e.variety, ci |-> e.conIn, co |-> e.conOut, ai |-> e.attIn, ct |-> e.coefTab, o |-> e.opt,
               lo |-> e.loss, u |-> e.sub, s |-> e.succ]
\* CONSTRAINT of the enumeration-only run (C17): keep the initial states, do not rewrite
InitialOnly == phase = "split" /\ seen = {} /\ g = inp /\ round = 1
\* single-use cases (also replayed by C17) and, separately, the cases with a second use of the network object
Emit == phase # "split" \/ seen # {} \/ g # inp \/ round # 1 \/ ext # <<>>
        \/ PrintT("@@" \o ToJson([g |-> [i \in Nodes(inp) |-> Compact(inp[i])], s |-> cfg]))
EmitExt == phase # "split" \/ seen # {} \/ g # inp \/ round # 1 \/ ext = <<>>
        \/ PrintT("@@" \o ToJson([g |-> [i \in Nodes(inp) |-> Compact(inp[i])], s |-> cfg,
                                   x |-> [k \in 1..Len(ext) |-> [at |-> ext[k].at, e |-> Compact(ext[k].el)]]]))
==============================================================================
