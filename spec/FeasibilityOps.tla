---------------------------- MODULE FeasibilityOps ----------------------------
(* C13 - what "feasible" means, which mode an automatic request must get, how the receiver figures compose.   *)
(* Pure operators, shared by the state machine (Feasibility), its bounded instance (MC_Feasibility) and the   *)
(* trace specification judging recorded executions of the real code (Trace_Feasibility).                      *)
(*                                                                                                            *)
(* Units (all integers): micro-dB for SNR / thresholds / penalties; 1e-9 for reciprocal linear SNR in 0.1 nm; *)
(* impairments in table units chosen by the harness (CD ps/nm, PMD fs, PDL 1e-4 dB).   +/-Inf are sentinels.  *)
(*                                                                                                            *)
(* A mode record is [br, rate, fits, worst, thr]:                                                             *)
(*   br, rate  baud rate and bit rate (any unit, only compared)                                               *)
(*   fits      min_spacing <= requested spacing                                                               *)
(*   worst     min over channels of (GSNR in 0.1 nm - CD/PMD/PDL penalty) for THIS mode propagated alone on a *)
(*             pristine path; -Inf when an impairment lies outside the mode's penalty table                   *)
(*   thr       required OSNR + system margin                                                                  *)
EXTENDS GnpyBase

Band == 5100        \* the verdict compares round(x, 2): a metric within +/-0.0051 dB of the threshold is not judged

Feasible(m)   == m.worst > -Inf /\ m.worst - m.thr >= Band
Infeasible(m) == m.worst <= -Inf \/ m.worst - m.thr <= -Band
Unjudged(m)   == ~Feasible(m) /\ ~Infeasible(m)

Larger(a, b)  == a.br > b.br \/ (a.br = b.br /\ a.rate > b.rate)      \* "highest baud rate, then highest bit rate"

NoBlock == "none"
NoFit   == "NO_FEASIBLE_BAUDRATE_WITH_SPACING"
NoMode  == "NO_FEASIBLE_MODE"
NotFeas == "MODE_NOT_FEASIBLE"

Fitting(lib) == {i \in DOMAIN lib : lib[i].fits}

(* The system margin added to a mode's required OSNR is the one of the DEFAULT spectral-information entry of the  *)
(* equipment library: si = the SI entries as LISTED, [dflt, margin]; dflt marks an entry that is unnamed or named  *)
(* "default".  When no entry is so marked the first listed one is the default.                                    *)
DefaultMargin(si) ==
  LET marked == {j \in 1..Len(si) : si[j].dflt}
  IN  si[IF marked = {} THEN 1 ELSE SetMin(marked)].margin
Threshold(osnr, si) == osnr + DefaultMargin(si)

-----------------------------------------------------------------------------
(* Automatic mode selection.  lib: sequence of mode records.  out = [sel |-> index or 0, block |-> string].   *)
(* Each clause is a set of clause names that FAIL, so that a monitor can name what went wrong.                 *)

AutoClauses(lib, out) ==
  LET F == Fitting(lib)
      picked == out.block = NoBlock
  IN  (IF (out.block = NoFit) # (F = {}) THEN {"NoFitIffNoneFits"} ELSE {})
      \cup (IF out.block = NoMode /\ (\E i \in F : Feasible(lib[i])) THEN {"BlockedOnlyIfNoFeasible"} ELSE {})
      \cup (IF F # {} /\ (\A i \in F : Infeasible(lib[i])) /\ out.block # NoMode THEN {"AllInfeasibleBlocks"} ELSE {})
      \cup (IF picked /\ out.sel \notin F THEN {"SelectedFits"} ELSE {})
      \cup (IF picked /\ out.sel \in DOMAIN lib /\ Infeasible(lib[out.sel]) /\ lib[out.sel].worst > -Inf
            THEN {"SelectedIsFeasible"} ELSE {})
      \cup (IF picked /\ out.sel \in DOMAIN lib /\ lib[out.sel].worst <= -Inf THEN {"InfPenaltyBlocks"} ELSE {})
      \cup (IF picked /\ out.sel \in DOMAIN lib /\ (\E i \in F : Feasible(lib[i]) /\ Larger(lib[i], lib[out.sel]))
            THEN {"NoLargerFeasible"} ELSE {})
      \cup (IF out.block \notin {NoBlock, NoFit, NoMode} THEN {"AutoOutcomeKind"} ELSE {})

AutoAcceptable(lib, out) == AutoClauses(lib, out) = {}

AutoOutcomes(lib) == {[sel |-> 0, block |-> NoFit], [sel |-> 0, block |-> NoMode]}
                     \cup {[sel |-> i, block |-> NoBlock] : i \in DOMAIN lib}
AutoAcceptableSet(lib) == {o \in AutoOutcomes(lib) : AutoAcceptable(lib, o)}

-----------------------------------------------------------------------------
(* Fixed mode.  fwd / rev: the mode record with the forward / reverse pristine worst; bidir: both directions     *)
(* requested.  Not blocked iff feasible in every requested direction.                                          *)
FixedClauses(fwd, rev, bidir, block) ==
      (IF block = NoBlock /\ Infeasible(fwd) /\ fwd.worst > -Inf THEN {"AcceptedOnlyIfFeasible"} ELSE {})
      \cup (IF block = NoBlock /\ fwd.worst <= -Inf THEN {"InfPenaltyBlocks"} ELSE {})
      \cup (IF block = NoBlock /\ bidir /\ Infeasible(rev) /\ rev.worst > -Inf THEN {"ReverseDirectionCounts"} ELSE {})
      \cup (IF block = NoBlock /\ bidir /\ rev.worst <= -Inf THEN {"InfPenaltyBlocks"} ELSE {})
      \cup (IF block = NotFeas /\ Feasible(fwd) /\ (~bidir \/ Feasible(rev)) THEN {"BlockedOnlyIfInfeasible"} ELSE {})
      \cup (IF block \notin {NoBlock, NotFeas} THEN {"FixedOutcomeKind"} ELSE {})

FixedAcceptable(fwd, rev, bidir, block) == FixedClauses(fwd, rev, bidir, block) = {}
FixedAcceptableSet(fwd, rev, bidir) == {b \in {NoBlock, NotFeas} : FixedAcceptable(fwd, rev, bidir, b)}

-----------------------------------------------------------------------------
(* Equalization offsets.  A mode's figure (worst) is the one of the mode propagated with ITS OWN equalization     *)
(* offset.  A transceiver may define, for one baud rate, modes with different offsets; the automatic selection    *)
(* propagates a baud rate once per offset defined for it, so a mode may be looked at under the offset of another   *)
(* mode of its baud rate.  The rule "feasible, fits, highest baud rate then highest bit rate" speaks of the modes, *)
(* whatever their offsets: it is judged on every mode whose side of the threshold is the same under each of the    *)
(* offsets defined for its baud rate (alts: the worst-channel figures of the mode propagated alone under the OTHER *)
(* offsets); a mode whose side depends on the offset applied is left unjudged (its figure is put on the threshold, *)
(* inside the band).                                                                                              *)
SameSide(m, w) == LET a == [m EXCEPT !.worst = w]
                  IN  (Feasible(m) /\ Feasible(a)) \/ (Infeasible(m) /\ Infeasible(a))
OffsetRobust(m, alts) == \A w \in alts : SameSide(m, w)
UnderOffsets(m, alts) == IF OffsetRobust(m, alts) THEN m ELSE [m EXCEPT !.worst = m.thr]

-----------------------------------------------------------------------------
(* Composition law, reciprocal-linear at 0.1 nm, units of 1e-9:                                               *)
(*     inv(rx) = inv(line) + inv(tx) + SUM_k inv(adddrop_k)                                                   *)
(* line: what the line delivered (signal / (ASE + NLI) referred to 0.1 nm), tx: the mode's transmitter OSNR,   *)
(* adds: one entry per add/drop stage the path crosses - each exactly once.                                   *)
Composed(line, tx, adds) == line + tx + SumSeq(adds)

(* Which OSNR an add/drop stage contributes to a carrier is CONFIGURATION:                                       *)
(*   stage = [kind, sel, profiles, dflt]                                                                        *)
(*     kind      "add" or "drop" (the ROADM next to the emitting / receiving transceiver)                       *)
(*     profiles  the impairment profiles of the ROADM's type AS LISTED: sequence of [id, kind, ranges]          *)
(*               ranges: the frequency ranges of the profile AS LISTED, [lo, hi, inv] (inv: reciprocal OSNR,    *)
(*               NONE when the range does not define one).  Ranges may overlap: a carrier takes the FIRST       *)
(*               listed range that contains its frequency and defines an OSNR (none: no contribution)           *)
(*     sel       id of the profile the topology selects for this pair of degrees, NONE when it selects nothing  *)
(*               (ids are arbitrary integers: 0 is an id like any other)                                        *)
(*     dflt      reciprocal of (add_drop_osnr + 10log10 2), used when the type lists no profile of that kind     *)
(* A selected profile is used whatever its id; otherwise the first listed profile of the stage's kind.          *)
(* f: the frequency of the carrier (any unit shared with lo / hi, only compared).                               *)
RangeInv(ranges, f) ==
  LET hit == {j \in 1..Len(ranges) : ranges[j].lo <= f /\ f <= ranges[j].hi /\ ranges[j].inv # NONE}
  IN  IF hit = {} THEN 0 ELSE ranges[SetMin(hit)].inv
StageInv(st, f) ==
  IF st.sel # NONE
  THEN LET i == CHOOSE j \in 1..Len(st.profiles) : st.profiles[j].id = st.sel IN RangeInv(st.profiles[i].ranges, f)
  ELSE LET same == {j \in 1..Len(st.profiles) : st.profiles[j].kind = st.kind}
       IN  IF same = {} THEN st.dflt ELSE RangeInv(st.profiles[SetMin(same)].ranges, f)
StageOK(st) == st.sel = NONE \/ \E j \in 1..Len(st.profiles) : st.profiles[j].id = st.sel /\ st.profiles[j].kind = st.kind
AddsOf(stages, f) == [k \in 1..Len(stages) |-> StageInv(stages[k], f)]
CompositionOK(rx, line, tx, adds, tol) == Within(rx, Composed(line, tx, adds), tol)

-----------------------------------------------------------------------------
(* Penalty law: piecewise-linear interpolation of the mode's table; outside the table the penalty is infinite. *)
(* tab = [x |-> strictly increasing knots, y |-> penalties in micro-dB]; an empty table means "not evaluated".  *)
(* MulDiv(a, b, c) = floor(a * b / c) for 0 <= b <= c without leaving 32-bit integers (needs c * c < 2^31).     *)
MulDivPos(a, b, c) == (a \div c) * b + ((a % c) * b) \div c
MulDiv(a, b, c)    == IF a >= 0 THEN MulDivPos(a, b, c) ELSE 0 - MulDivPos(0 - a, b, c)

(* The equipment file lists the points of a table as pairs (boundary, penalty) in ANY order.  The table meant is *)
(* the set of these pairs ordered by boundary; when every boundary is positive the point (0, 0) belongs to it    *)
(* ("0 penalty for 0 impairment").  pts: sequence of [x, y] as written; boundaries are distinct.                  *)
TableOf(pts) ==
  LET given == {pts[i] : i \in 1..Len(pts)}
      P  == IF given # {} /\ (\A p \in given : p.x > 0) THEN given \cup {[x |-> 0, y |-> 0]} ELSE given
      X  == {p.x : p \in P}
      Kth(k) == CHOOSE x \in X : Cardinality({z \in X : z < x}) = k - 1
  IN  [x |-> [k \in 1..Cardinality(X) |-> Kth(k)],
       y |-> [k \in 1..Cardinality(X) |-> (CHOOSE p \in P : p.x = Kth(k)).y]]
PointsOK(pts) == \A i, j \in 1..Len(pts) : i # j => pts[i].x # pts[j].x

TableOK(tab) == /\ Len(tab.x) = Len(tab.y)
                /\ IsStrictlyIncreasing(tab.x)
                /\ \A k \in 1..(Len(tab.x) - 1) : tab.x[k + 1] - tab.x[k] <= 46340

InTable(tab, v)  == Len(tab.x) > 0 /\ tab.x[1] <= v /\ v <= tab.x[Len(tab.x)]
\* the projected impairment is rounded to the table unit: within one unit of either end the side is not decided
NearEdge(tab, v) == Len(tab.x) > 0 /\ (AbsI(v - tab.x[1]) <= 1 \/ AbsI(v - tab.x[Len(tab.x)]) <= 1)

Interp(tab, v) ==
  IF Len(tab.x) = 0 THEN 0
  ELSE IF ~InTable(tab, v) THEN Inf
  ELSE IF Len(tab.x) = 1 THEN tab.y[1]
  ELSE LET k == CHOOSE j \in 1..(Len(tab.x) - 1) : tab.x[j] <= v /\ v <= tab.x[j + 1]
       IN  tab.y[k] + MulDiv(tab.y[k + 1] - tab.y[k], v - tab.x[k], tab.x[k + 1] - tab.x[k])

\* The projected impairment v is the observed one rounded to the table unit, so the observed penalty must lie between
\* the interpolations at v - 1, v, v + 1 (widened by tol): sound whatever the steepness of the table.
Min3(a, b, c) == MinI(a, MinI(b, c))
Max3(a, b, c) == MaxI(a, MaxI(b, c))
PenaltyOK(tab, v, obs, tol) ==
  \/ NearEdge(tab, v)
  \/ LET p == Interp(tab, v)
     IN IF p >= Inf THEN obs >= Inf
        ELSE LET a == Interp(tab, v - 1)
                 b == Interp(tab, v + 1)
             IN obs < Inf /\ Min3(p, a, b) - tol <= obs /\ obs <= Max3(p, a, b) + tol

\* total penalty: the sum, infinite as soon as one of them is
TotalOK(pens, obs, tol) ==
  IF \E i \in 1..Len(pens) : pens[i] >= Inf THEN obs >= Inf ELSE obs < Inf /\ Within(obs, SumSeq(pens), tol)

\* worst channel: min over channels of (GSNR 0.1 nm - total penalty); -Inf when some channel's penalty is infinite
Worst(rxdb, tot) ==
  IF \E c \in 1..Len(rxdb) : tot[c] >= Inf THEN -Inf
  ELSE IF Len(rxdb) = 0 THEN Inf
  ELSE SetMin({rxdb[c] - tot[c] : c \in 1..Len(rxdb)})
==============================================================================
