------------------------------ MODULE SpectrumOps ------------------------------
(* C14 - the per-request function of spectrum assignment (pure operators, shared by the state machine          *)
(* SpectrumAssign and by the trace specification Trace_SpectrumAssign).                                      *)
(* gnpy.topology.spectrum_assignment: pth_assign_spectrum / compute_n_m / spectrum_selection / ...           *)
(*                                                                                                          *)
(* State: occ[o] = indices of the 6.25 GHz axis marked OCCUPIED on OMS o by accepted services.               *)
(* One action Assign(t) per request, at the grain of the code: consistency check of user M values,           *)
(* slot ordering (order_slots), the four (N, M) cases of compute_n_m evaluated on a COPY of the aggregated   *)
(* occupancy of the path, blocking decision, and only then the write on every OMS of the path.               *)
(* First-fit and last-fit are deterministic, so the model predicts the exact result of every request.        *)
EXTENDS FlexGrid, TLC

CONSTANTS NMin, NMax,         \* index axis of every OMS map (n_min..n_max after alignment)
          IdxMin, IdxMax,     \* guard-band limits: an assigned slot must lie inside IdxMin..IdxMax
          OMS,                \* set of OMS identifiers
          Unusable,           \* [OMS -> SUBSET Slots] indices outside the OMS's amplifier band(s)
          Policy              \* "first_fit" | "last_fit": which of the feasible positions a free N takes (select_candidate)

Slots == NMin..NMax

-----------------------------------------------------------------------------
(* Availability tests on an aggregated "busy" set (bitmap_sum of the path's OMS: occupied or unusable).        *)
BusyOn(oc, path) == UNION {oc[o] \cup Unusable[o] : o \in path}
OkAt(busy, n, m) == /\ m > 0
                    /\ FreeRun(Slots, busy, n - m, n + m - 1)
                    /\ n - m >= IdxMin /\ n + m - 1 <= IdxMax
\* spectrum_selection with requested_n = None: the candidates are the start indices whose 2m run is free and inside the
\* guards; first_fit takes the lowest one, last_fit the highest one
Candidates(busy, m) == {a \in Slots : FreeRun(Slots, busy, a, a + 2 * m - 1) /\ a >= IdxMin /\ a + 2 * m - 1 <= IdxMax}
FirstFit(busy, m) == LET C == Candidates(busy, m)
                     IN IF C = {} THEN NONE ELSE (IF Policy = "last_fit" THEN SetMax(C) ELSE SetMin(C)) + m
\* determine_slot_numbers: N fixed, M free: largest multiple of pcm (<= need) that is symmetrically free around n,
\* every smaller multiple being free too (the code grows step by step)
Grow(busy, n, need, pcm) ==
    LET K == {k \in 0..(NMax - NMin + 1) : \A j \in 1..k : OkAt(busy, n, j * pcm) /\ j * pcm <= need}
    IN SetMax(K) * pcm

(* order_slots: defined M first, by decreasing M then increasing N (N = None last); then undefined M by N.     *)
Key(s) == <<IF s.m = NONE THEN 1 ELSE 0, IF s.m = NONE THEN 0 ELSE -s.m, IF s.n = NONE THEN Inf ELSE s.n>>
LessK(a, b) == \/ a[1] < b[1]
               \/ (a[1] = b[1] /\ a[2] < b[2])
               \/ (a[1] = b[1] /\ a[2] = b[2] /\ a[3] < b[3])
Order(slots) == SortSeq([i \in 1..Len(slots) |-> i],
                        LAMBDA i, j : LessK(Key(slots[i]), Key(slots[j])) \/ (Key(slots[i]) = Key(slots[j]) /\ i < j))

(* compute_n_m: walk the ordered slots threading [busy, rem, sel, stop]. The first slot that cannot be served  *)
(* stops the walk (the request is then blocked iff rem > 0).                                                   *)
NoSel == [n |-> NONE, m |-> NONE]
Select(acc, s) ==
    CASE s.m # NONE /\ s.n # NONE -> IF OkAt(acc.busy, s.n, s.m) THEN [n |-> s.n, m |-> s.m] ELSE NoSel
      [] s.m # NONE /\ s.n = NONE -> LET n == FirstFit(acc.busy, s.m) IN IF n = NONE THEN NoSel ELSE [n |-> n, m |-> s.m]
      [] s.m = NONE /\ s.n # NONE -> LET m == Grow(acc.busy, s.n, acc.rem, acc.pcm)
                                     IN IF m = 0 \/ acc.rem <= 0 THEN NoSel ELSE [n |-> s.n, m |-> m]
      [] OTHER                    -> IF acc.rem <= 0 THEN NoSel
                                     ELSE LET n == FirstFit(acc.busy, acc.rem) IN IF n = NONE THEN NoSel ELSE [n |-> n, m |-> acc.rem]
RECURSIVE Walk(_, _, _, _)
Walk(slots, ord, k, acc) ==
    IF k > Len(ord) \/ acc.stop THEN acc
    ELSE LET i == ord[k]
             r == Select(acc, slots[i])
         IN IF r.n = NONE
            THEN \* a slot whose M the user fixed and that cannot be served blocks the whole request, whatever was served
                 \* before it (compute_n_m: "blocks the request (even if other N,M were feasible)"); a slot with a free M
                 \* that finds nothing more to serve just ends the walk
                 [acc EXCEPT !.stop = TRUE, !.refused = (slots[i].m # NONE)]
            ELSE Walk(slots, ord, k + 1, [acc EXCEPT !.busy = @ \cup SlotRange(r.n, r.m), !.rem = @ - r.m,
                                                     !.sel = @ @@ (i :> r)])

SumM(slots) == SumSeq([i \in 1..Len(slots) |-> slots[i].m])
ChannelsIn(slots, pcm) == SumSeq([i \in 1..Len(slots) |-> slots[i].m \div pcm])
\* the selected (n, m) in the original order of the request, unselected ones dropped (restore_order)
RECURSIVE Pack(_, _, _)
Pack(sel, i, n) == IF i > n THEN <<>> ELSE (IF i \in DOMAIN sel THEN <<sel[i]>> ELSE <<>>) \o Pack(sel, i + 1, n)

(* compute_spectrum_slot_vs_bandwidth: channels needed for the bandwidth, slots (12.5 GHz) per channel.          *)
(* bw and rate in Mbit/s, spacing in MHz; both quotients are rounded UP.                                       *)
CeilDiv(a, b) == (a + b - 1) \div b
NbWl(t) == CeilDiv(t.bw, t.rate)
Pcm(t)  == CeilDiv(t.spacing, 12500)

Outcome(oc, t) ==
    LET need == NbWl(t) * Pcm(t)
        allM == \A i \in 1..Len(t.slots) : t.slots[i].m # NONE /\ t.slots[i].m # 0
    IN IF t.pre THEN [st |-> "preblocked", nm |-> <<>>]
       ELSE IF allM /\ NbWl(t) > ChannelsIn(t.slots, Pcm(t)) THEN [st |-> "NOT_ENOUGH_RESERVED_SPECTRUM", nm |-> <<>>]
       ELSE LET fin == Walk(t.slots, Order(t.slots), 1,
                            [busy |-> BusyOn(oc, t.path), rem |-> need, sel |-> <<>>, stop |-> FALSE, refused |-> FALSE,
                             pcm |-> Pcm(t)])
            IN IF fin.rem > 0 \/ fin.refused THEN [st |-> "NO_SPECTRUM", nm |-> <<>>]
               ELSE [st |-> "served", nm |-> Pack(fin.sel, 1, Len(t.slots))]

RangesOf(nm) == UNION {SlotRange(nm[j].n, nm[j].m) : j \in 1..Len(nm)}
Write(oc, t, out) == [o \in OMS |-> IF out.st = "served" /\ o \in t.path THEN oc[o] \cup RangesOf(out.nm) ELSE oc[o]]
==============================================================================
