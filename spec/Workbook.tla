------------------------------ MODULE Workbook ------------------------------
(* C20 - spreadsheet inputs convert to the network and services they describe.                               *)
(*                                                                                                           *)
(* An abstract workbook has the sheets Nodes (city, type), Links (A, Z, east values, west values possibly    *)
(* blank), Eqpt (A, Z, east / west amplifier settings), Roadms (A, Z, per-degree target) and Service rows.   *)
(* Expected(wb) is Error when one of the documented sanity rules is violated; otherwise the converted        *)
(* topology must satisfy the clauses of Conforms (stated on connectivity and on the site each element        *)
(* belongs to, not on element names) and the request list must satisfy ServiceConforms.  Expected(wb) and all the   *)
(* clauses are functions of the workbook alone: what an earlier conversion (of another file, of the same path, with  *)
(* a region filter) or an earlier Service row did must not show.  Model(wb) is the    *)
(* topology with the names the documentation describes; B1 checks that it satisfies every clause, so the     *)
(* clauses are satisfiable and none is vacuous.                                                              *)
(* Values are decimals m * 10^(-s) in normal form (see Documents.tla); a blank cell is Absent.               *)
(* Layout: wb.blanks[sheet] gives, row by row, how many empty spreadsheet lines precede the row (missing     *)
(* entries = 0).  Empty lines are not rows and do not end a sheet: NO operator below reads wb.blanks, so the  *)
(* expected conversion is the same whatever the layout.  Likewise a Links / Eqpt row is identified by its     *)
(* end points only: two rows joining the same two sites are duplicates whatever their other cells say        *)
(* (distance, cable id, ...).                                                                                 *)
EXTENDS Integers, Sequences, FiniteSets, TLC

Num(m, s) == [t |-> "num", m |-> m, s |-> s]
Null      == [t |-> "null", m |-> 0, s |-> 0]
Absent    == [t |-> "absent", m |-> 0, s |-> 0]
Dflt(v, d) == IF v.t = "absent" THEN d ELSE v
SeqSet(s) == {s[i] : i \in 1..Len(s)}

\* normal form of m * 10^(-s) (mantissa without trailing zero), used by the unit conversions of the Service sheet
RECURSIVE Normal(_, _)
Normal(m, s) == IF m = 0 THEN Num(0, 0) ELSE IF m % 10 = 0 THEN Normal(m \div 10, s - 1) ELSE Num(m, s)
Times1e9(v) == IF v.t = "num" THEN Normal(v.m, v.s - 9) ELSE v

-----------------------------------------------------------------------------
(* reading the sheets *)
Cities(wb)   == {wb.nodes[i].city : i \in 1..Len(wb.nodes)}
Node(wb, c)  == CHOOSE n \in SeqSet(wb.nodes) : n.city = c
DeclType(wb, c) == LET t == Node(wb, c).type IN IF t \in {"ROADM", "ILA", "FUSED"} THEN t ELSE "ILA"
LinkIdx(wb, c)  == {i \in 1..Len(wb.links) : wb.links[i].a = c \/ wb.links[i].z = c}
Degree(wb, c)   == Cardinality(LinkIdx(wb, c))
Other(l, c)     == IF l.a = c THEN l.z ELSE l.a
Neigh(wb, c)    == {Other(wb.links[i], c) : i \in LinkIdx(wb, c)}
\* "Incorrectly specified types (ILA for a node of degree /= 2) are corrected": such a site is a ROADM site
EffType(wb, c)  == IF DeclType(wb, c) = "ILA" /\ Degree(wb, c) # 2 THEN "ROADM" ELSE DeclType(wb, c)
RowsFrom(wb, c) == {i \in 1..Len(wb.eqpt) : wb.eqpt[i].a = c}
Joins(l, x, y)  == (l.a = x /\ l.z = y) \/ (l.a = y /\ l.z = x)

\* east values with the documented defaults; a blank west cell takes the east value
EastEff(l) == [dist |-> Dflt(l.east.dist, Num(8, -1)), fiber |-> IF l.east.fiber = "" THEN "SSMF" ELSE l.east.fiber,
               lineic |-> Dflt(l.east.lineic, Num(2, 1)), con_in |-> Dflt(l.east.con_in, Null),
               con_out |-> Dflt(l.east.con_out, Null), cable |-> l.east.cable]
WestEff(l) == LET e == EastEff(l) IN
              [dist |-> Dflt(l.west.dist, e.dist), fiber |-> IF l.west.fiber = "" THEN e.fiber ELSE l.west.fiber,
               lineic |-> Dflt(l.west.lineic, e.lineic), con_in |-> Dflt(l.west.con_in, e.con_in),
               con_out |-> Dflt(l.west.con_out, e.con_out), cable |-> IF l.west.cable = "" THEN e.cable ELSE l.west.cable]

-----------------------------------------------------------------------------
(* the documented sanity rules *)
ErrorKinds(wb) ==
  LET C == Cities(wb) IN
     (IF \E i, j \in 1..Len(wb.nodes) : i < j /\ wb.nodes[i].city = wb.nodes[j].city THEN {"duplicate_city"} ELSE {})
  \cup (IF \E l \in SeqSet(wb.links) : l.a \notin C \/ l.z \notin C THEN {"link_to_unknown_node"} ELSE {})
  \cup (IF \E i, j \in 1..Len(wb.links) : i < j /\ Joins(wb.links[i], wb.links[j].a, wb.links[j].z)
        THEN {"duplicate_link"} ELSE {})
  \cup (IF \E c \in C : Degree(wb, c) = 0 THEN {"unreferenced_node"} ELSE {})
  \cup (IF \E e \in SeqSet(wb.eqpt) : e.a \notin C \/ e.z \notin C THEN {"eqpt_unknown_node"} ELSE {})
  \cup (IF \E e \in SeqSet(wb.eqpt) : e.a \in C /\ e.z \in C /\ ~\E l \in SeqSet(wb.links) : Joins(l, e.a, e.z)
        THEN {"eqpt_unknown_link"} ELSE {})
  \cup (IF \E i, j \in 1..Len(wb.eqpt) : i < j /\ wb.eqpt[i].a = wb.eqpt[j].a /\ wb.eqpt[i].z = wb.eqpt[j].z
        THEN {"duplicate_eqpt"} ELSE {})
  \cup (IF \E c \in C : DeclType(wb, c) = "ILA" /\ Degree(wb, c) = 2 /\ Cardinality(RowsFrom(wb, c)) > 1
        THEN {"two_eqpt_on_ila"} ELSE {})
\* the rules do not say whether two Eqpt rows are allowed on a site declared ILA that is corrected to ROADM: no verdict
Undecided(wb) == ErrorKinds(wb) = {} /\ \E c \in Cities(wb) :
                    DeclType(wb, c) = "ILA" /\ Degree(wb, c) # 2 /\ Cardinality(RowsFrom(wb, c)) > 1

\* rows that contradict each other without breaking a documented rule: a FUSED site ("ingress and egress spans are
\* fused together") that does not have exactly two links, or an Eqpt row on a FUSED site.  The property allows two
\* outcomes: rejected with a topology error, or converted into a network in which nothing dangles.
Inconsistent(wb) == ErrorKinds(wb) = {} /\ \E c \in Cities(wb) :
                       DeclType(wb, c) = "FUSED" /\ (Degree(wb, c) # 2 \/ RowsFrom(wb, c) # {})

-----------------------------------------------------------------------------
(* topologies: els = sequence of [uid, type, city, variety, p]; cx = sequence of [from, to]; pd = per-degree targets *)
NoP == [length |-> Absent, loss_coef |-> Absent, con_in |-> Absent, con_out |-> Absent, gain |-> Absent, dp |-> Absent,
        tilt |-> Absent, att_out |-> Absent, att_in |-> Absent, loss |-> Absent]
FiberP(v) == [NoP EXCEPT !.length = v.dist, !.loss_coef = v.lineic, !.con_in = v.con_in, !.con_out = v.con_out]
\* amplifier settings of one side of an Eqpt row: blank gain / delta p / tilt / att_out are null, blank att_in is 0
AmpP(a)   == [NoP EXCEPT !.gain = Dflt(a.gain, Null), !.dp = Dflt(a.dp, Null), !.tilt = Dflt(a.tilt, Null),
                         !.att_out = Dflt(a.att_out, Null), !.att_in = Dflt(a.att_in, Num(0, 0))]
AutoAmpP  == [NoP EXCEPT !.gain = Null, !.tilt = Null]
FusedP    == [NoP EXCEPT !.loss = Num(0, 0)]
\* what an element created for one side of an Eqpt row must be
SideType(a)    == IF a.type = "fused" THEN "Fused" ELSE "Edfa"
SideVariety(a) == IF a.type = "fused" THEN "" ELSE a.type
SideP(a)       == IF a.type = "fused" THEN FusedP ELSE AmpP(a)

Uids(o)    == {o.els[i].uid : i \in 1..Len(o.els)}
\* an index of the observed topology, computed once: element by name, predecessor / successor sets, and for every
\* fibre the site it comes from and the site it goes to (the sites of its unique predecessor / successor)
Index(o) ==
  LET U == Uids(o)
      el == [u \in U |-> CHOOSE e \in SeqSet(o.els) : e.uid = u]
      succ == [u \in U |-> {c.to : c \in {x \in SeqSet(o.cx) : x.from = u}}]
      pred == [u \in U |-> {c.from : c \in {x \in SeqSet(o.cx) : x.to = u}}]
      site(S) == IF Cardinality(S) = 1 /\ S \subseteq U THEN el[CHOOSE u \in S : TRUE].city ELSE "?"
      fib == {u \in U : el[u].type = "Fiber"}
  IN [uids |-> U, el |-> el, succ |-> succ, pred |-> pred, fibers |-> fib,
      up |-> [u \in fib |-> site(pred[u])], down |-> [u \in fib |-> site(succ[u])]]
At(o, c)   == {e \in SeqSet(o.els) : e.city = c}
FibersFromTo(ix, x, y) == {u \in ix.fibers : ix.up[u] = x /\ ix.down[u] = y}
IsLine(e) == e.type \in {"Edfa", "Fused"}

\* ---- the clauses (ix = Index(o))
UniqueNames(o)    == Cardinality(Uids(o)) = Len(o.els)
EndpointsExist(o) == \A c \in SeqSet(o.cx) : c.from \in Uids(o) /\ c.to \in Uids(o)

SiteInventory(wb, o, ix) ==
  /\ \A e \in SeqSet(o.els) : e.type = "Fiber" \/ e.city \in Cities(wb)
  /\ \A c \in Cities(wb) :
       LET here == At(o, c)
           n(ty) == Cardinality({e \in here : e.type = ty})
           rows == Cardinality(RowsFrom(wb, c))
       IN CASE EffType(wb, c) = "ROADM" ->
                 /\ n("Transceiver") = 1 /\ n("Roadm") = 1 /\ n("Edfa") + n("Fused") = 2 * rows
                 /\ LET t == CHOOSE e \in here : e.type = "Transceiver"
                        r == CHOOSE e \in here : e.type = "Roadm"
                    IN r.uid \in ix.succ[t.uid] /\ t.uid \in ix.succ[r.uid]
            [] EffType(wb, c) = "ILA"   -> n("Transceiver") = 0 /\ n("Roadm") = 0 /\ n("Edfa") + n("Fused") = 2
            [] EffType(wb, c) = "FUSED" -> n("Transceiver") = 0 /\ n("Roadm") = 0 /\ n("Edfa") = 0 /\ n("Fused") = 2

\* for every link one fibre per direction with the sheet's length, type, loss and connector values
FibrePerDirection(wb, o, ix) ==
  /\ Cardinality(ix.fibers) = 2 * Len(wb.links)
  /\ \A l \in SeqSet(wb.links) :
       LET az == FibersFromTo(ix, l.a, l.z)
           za == FibersFromTo(ix, l.z, l.a)
       IN /\ Cardinality(az) = 1 /\ Cardinality(za) = 1
          /\ \A u \in az : ix.el[u].variety = EastEff(l).fiber /\ ix.el[u].p = FiberP(EastEff(l))
          /\ \A u \in za : ix.el[u].variety = WestEff(l).fiber /\ ix.el[u].p = FiberP(WestEff(l))

\* nothing dangles: every fibre and every line element has exactly one predecessor and one successor; a line element
\* sits between two fibres (or between a fibre and its own ROADM) and never turns the traffic back
Continuity(wb, o, ix) ==
  /\ \A u \in ix.fibers : Cardinality(ix.pred[u]) = 1 /\ Cardinality(ix.succ[u]) = 1
  /\ \A e \in {x \in SeqSet(o.els) : IsLine(x) /\ x.city \in Cities(wb)} :
       /\ Cardinality(ix.pred[e.uid]) = 1 /\ Cardinality(ix.succ[e.uid]) = 1
       /\ LET p == ix.el[CHOOSE u \in ix.pred[e.uid] : TRUE]
              s == ix.el[CHOOSE u \in ix.succ[e.uid] : TRUE]
              c == e.city
          IN IF EffType(wb, c) = "ROADM"
             THEN \/ (p.type = "Roadm" /\ p.city = c /\ s.type = "Fiber" /\ ix.up[s.uid] = c)
                  \/ (p.type = "Fiber" /\ ix.down[p.uid] = c /\ s.type = "Roadm" /\ s.city = c)
             ELSE p.type = "Fiber" /\ s.type = "Fiber" /\ ix.up[p.uid] # ix.down[s.uid]
  /\ \A c \in Cities(wb) : (EffType(wb, c) = "ROADM" /\ \E e \in At(o, c) : e.type = "Roadm") =>
       LET r == CHOOSE e \in At(o, c) : e.type = "Roadm" IN
       \A nb \in Neigh(wb, c) :
          \* towards nb: roadm -> [line element of this site] -> fibre(c -> nb), and the way back
          /\ \E f \in FibersFromTo(ix, c, nb) : \E u \in ix.pred[f] :
                u = r.uid \/ (ix.el[u].city = c /\ IsLine(ix.el[u]) /\ ix.pred[u] = {r.uid})
          /\ \E f \in FibersFromTo(ix, nb, c) : \E u \in ix.succ[f] :
                u = r.uid \/ (ix.el[u].city = c /\ IsLine(ix.el[u]) /\ ix.succ[u] = {r.uid})

\* "fused or amplifier elements per other site ... wired": a site that is not a ROADM site joins its two links through
\* its OWN elements - in each direction the traffic goes fibre -> one fused / amplifier element of the site -> fibre of
\* the other link; the two fibres are never spliced to each other directly.  Stated for every such site of degree 2,
\* whatever else the sheets say about it (an Eqpt row naming a FUSED site does not remove the site's elements from
\* the line): it is also part of "wired" for the inconsistent workbooks that are converted rather than rejected.
LineSites(wb) == {c \in Cities(wb) : EffType(wb, c) \in {"ILA", "FUSED"} /\ Degree(wb, c) = 2}
CrossedThroughOwnElement(wb, o, ix) ==
  \A c \in LineSites(wb) : \A x \in Neigh(wb, c) : \A y \in Neigh(wb, c) \ {x} :
     \E e \in At(o, c) : /\ IsLine(e)
                         /\ \E f \in FibersFromTo(ix, x, c) : ix.pred[e.uid] = {f}
                         /\ \E g \in FibersFromTo(ix, c, y) : ix.succ[e.uid] = {g}

\* each Eqpt row (A, Z): the east settings are on the element of site A that feeds the fibre towards Z, the west
\* settings on the element of site A that is fed by the fibre coming from Z
AmpFacesNeighbour(wb, o, ix) ==
  \A e \in SeqSet(wb.eqpt) :
     /\ \E x \in At(o, e.a) : /\ \E f \in FibersFromTo(ix, e.a, e.z) : ix.succ[x.uid] = {f}
                              /\ x.type = SideType(e.east) /\ x.variety = SideVariety(e.east) /\ x.p = SideP(e.east)
     /\ \E x \in At(o, e.a) : /\ \E f \in FibersFromTo(ix, e.z, e.a) : ix.pred[x.uid] = {f}
                              /\ x.type = SideType(e.west) /\ x.variety = SideVariety(e.west) /\ x.p = SideP(e.west)
\* amplifiers the sheets do not describe are left to the design: no settings
UndescribedAmpsAreBlank(wb, o, ix) ==
  \A c \in Cities(wb) : RowsFrom(wb, c) = {} => \A e \in At(o, c) : e.type = "Edfa" => e.variety = "" /\ e.p = AutoAmpP

\* Roadms sheet: the target of row (A, Z) is the per-degree target of ROADM A for the element that feeds the fibre to Z
PerDegreeTargets(wb, o, ix) ==
  /\ Len(o.pd) = Len(wb.roadms)
  /\ \A r \in SeqSet(wb.roadms) : \E t \in SeqSet(o.pd) :
       /\ t.roadm \in ix.uids /\ ix.el[t.roadm].type = "Roadm" /\ ix.el[t.roadm].city = r.a /\ t.v = r.target
       /\ t.deg \in ix.uids /\ \E f \in FibersFromTo(ix, r.a, r.z) : ix.succ[t.deg] = {f}

ClauseNames == <<"SiteInventory", "FibrePerDirection", "Continuity", "CrossedThroughOwnElement", "AmpFacesNeighbour",
                 "UndescribedAmpsAreBlank", "PerDegreeTargets">>
Clause(name, wb, o, ix) ==
  CASE name = "SiteInventory" -> SiteInventory(wb, o, ix) [] name = "FibrePerDirection" -> FibrePerDirection(wb, o, ix)
    [] name = "Continuity" -> Continuity(wb, o, ix) [] name = "AmpFacesNeighbour" -> AmpFacesNeighbour(wb, o, ix)
    [] name = "CrossedThroughOwnElement" -> CrossedThroughOwnElement(wb, o, ix)
    [] name = "UndescribedAmpsAreBlank" -> UndescribedAmpsAreBlank(wb, o, ix)
    [] name = "PerDegreeTargets" -> PerDegreeTargets(wb, o, ix)
\* the structural clauses presuppose well-formed names and endpoints
Failing(wb, o) == IF ~UniqueNames(o) THEN {"UniqueNames"} ELSE IF ~EndpointsExist(o) THEN {"EndpointsExist"}
                  ELSE LET ix == Index(o) IN {ClauseNames[k] : k \in {j \in 1..Len(ClauseNames) : ~Clause(ClauseNames[j], wb, o, ix)}}
Conforms(wb, o) == Failing(wb, o) = {}
\* the name- and type-independent part: one fibre per direction of every link, and nothing dangles
WiringFailing(wb, o) == IF ~UniqueNames(o) THEN {"UniqueNames"} ELSE IF ~EndpointsExist(o) THEN {"EndpointsExist"}
                        ELSE LET ix == Index(o) IN {n \in {"FibrePerDirection", "Continuity"} : ~Clause(n, wb, o, ix)}
\* the sites' own elements are in the line (judged apart from WiringFailing: elements that are created but left
\* unconnected make Continuity fail; whether the line elements of a site are IN the line is a different question)
CrossingFailing(wb, o) == IF ~UniqueNames(o) \/ ~EndpointsExist(o) THEN {}
                          ELSE IF CrossedThroughOwnElement(wb, o, Index(o)) THEN {} ELSE {"CrossedThroughOwnElement"}

-----------------------------------------------------------------------------
(* Model(wb): the topology with the documented names *)
FiberUid(x, y, cable) == "fiber (" \o x \o " -> " \o y \o ")-" \o cable
LinkOf(wb, x, y) == CHOOSE l \in SeqSet(wb.links) : Joins(l, x, y)
FiberFrom(wb, x, y) == LET l == LinkOf(wb, x, y) IN
                       IF l.a = x THEN FiberUid(l.a, l.z, EastEff(l).cable) ELSE FiberUid(l.z, l.a, WestEff(l).cable)
E0(uid, type, city, variety, p) == [uid |-> uid, type |-> type, city |-> city, variety |-> variety, p |-> p]
RECURSIVE Cat(_)
Cat(ss) == IF ss = <<>> THEN <<>> ELSE Head(ss) \o Cat(Tail(ss))
\* neighbours of a site in the order of the Links sheet
Others(wb, c) == Cat([i \in 1..Len(wb.links) |-> IF i \in LinkIdx(wb, c) THEN <<Other(wb.links[i], c)>> ELSE <<>>])
HasRow(wb, x, y) == \E e \in SeqSet(wb.eqpt) : e.a = x /\ e.z = y
Via(from, mid, to) == IF mid = "" THEN <<[from |-> from, to |-> to]>> ELSE <<[from |-> from, to |-> mid], [from |-> mid, to |-> to]>>
LineName(wb, c, dir, ref) ==   \* the line element of an ILA / FUSED site for the traffic direction `dir`
  IF EffType(wb, c) = "FUSED" THEN dir \o " fused spans in " \o c
  ELSE IF RowsFrom(wb, c) = {} THEN dir \o " edfa in " \o c
  ELSE LET e == wb.eqpt[CHOOSE i \in RowsFrom(wb, c) : TRUE]
           d == IF e.z # ref THEN (IF dir = "east" THEN "west" ELSE "east") ELSE dir
       IN d \o " edfa in " \o c \o " to " \o e.z
ModelEls(wb) ==
  Cat([i \in 1..Len(wb.nodes) |->
         LET c == wb.nodes[i].city IN
         CASE EffType(wb, c) = "ROADM" -> <<E0("trx " \o c, "Transceiver", c, "", NoP), E0("roadm " \o c, "Roadm", c, "", NoP)>>
           [] EffType(wb, c) = "FUSED" -> <<E0("west fused spans in " \o c, "Fused", c, "", NoP),
                                            E0("east fused spans in " \o c, "Fused", c, "", NoP)>>
           [] OTHER -> IF RowsFrom(wb, c) = {}
                       THEN <<E0("west edfa in " \o c, "Edfa", c, "", AutoAmpP), E0("east edfa in " \o c, "Edfa", c, "", AutoAmpP)>>
                       ELSE <<>>])
  \o Cat([i \in 1..Len(wb.links) |->
         LET l == wb.links[i] IN
         <<E0(FiberUid(l.a, l.z, EastEff(l).cable), "Fiber", "", EastEff(l).fiber, FiberP(EastEff(l))),
           E0(FiberUid(l.z, l.a, WestEff(l).cable), "Fiber", "", WestEff(l).fiber, FiberP(WestEff(l)))>>])
  \o Cat([i \in 1..Len(wb.eqpt) |->
         LET e == wb.eqpt[i] IN
         <<E0("east edfa in " \o e.a \o " to " \o e.z, SideType(e.east), e.a, SideVariety(e.east), SideP(e.east)),
           E0("west edfa in " \o e.a \o " to " \o e.z, SideType(e.west), e.a, SideVariety(e.west), SideP(e.west))>>])
ModelCx(wb) ==
  Cat([i \in 1..Len(wb.nodes) |->
         LET c == wb.nodes[i].city
             os == Others(wb, c)
         IN IF EffType(wb, c) = "ROADM"
            THEN Cat([k \in 1..Len(os) |->
                        Via("roadm " \o c, IF HasRow(wb, c, os[k]) THEN "east edfa in " \o c \o " to " \o os[k] ELSE "",
                            FiberFrom(wb, c, os[k]))
                        \o Via(FiberFrom(wb, os[k], c), IF HasRow(wb, c, os[k]) THEN "west edfa in " \o c \o " to " \o os[k] ELSE "",
                               "roadm " \o c)])
                 \o <<[from |-> "trx " \o c, to |-> "roadm " \o c], [from |-> "roadm " \o c, to |-> "trx " \o c]>>
            ELSE Via(FiberFrom(wb, os[1], c), LineName(wb, c, "west", os[1]), FiberFrom(wb, c, os[2]))
                 \o Via(FiberFrom(wb, os[2], c), LineName(wb, c, "east", os[1]), FiberFrom(wb, c, os[1]))])
ModelPd(wb) == [i \in 1..Len(wb.roadms) |->
                  [roadm |-> "roadm " \o wb.roadms[i].a, deg |-> "east edfa in " \o wb.roadms[i].a \o " to " \o wb.roadms[i].z,
                   v |-> wb.roadms[i].target]]
Model(wb) == [els |-> ModelEls(wb), cx |-> ModelCx(wb), pd |-> ModelPd(wb)]

Expected(wb) == IF ErrorKinds(wb) # {} THEN [status |-> "error", kinds |-> ErrorKinds(wb)]
                ELSE IF Inconsistent(wb) THEN [status |-> "error-or-wired", kinds |-> {}]
                ELSE [status |-> "ok", kinds |-> {}]

-----------------------------------------------------------------------------
(* SERVICES.  Row: id, src, dst, trx, mode ("" blank), spacing (GHz), power (dBm), nch, disjoint (seq of ids),   *)
(* path (seq of names), loose ("" / "yes" / "no"), bw (Gbit/s).  Observed request: the JSON path-request.     *)
\* the name a ROADM site is known by in the converted topology: the uid of its Roadm element
NamedAt(o, c, ty) == IF \E e \in At(o, c) : e.type = ty THEN (CHOOSE e \in At(o, c) : e.type = ty).uid ELSE "?"
RoadmUid(o, c) == NamedAt(o, c, "Roadm")
TrxUid(o, c)   == NamedAt(o, c, "Transceiver")
\* A route list entry is decided when it names a ROADM site, or an in-line amplifier site followed in the list by one
\* of its two neighbours (the documented way of telling the direction).  The entry of a ROADM site becomes that site's
\* Roadm element; the entry of an amplifier site becomes the amplifier of THIS request's direction: the line element of
\* the site that feeds the fibre towards the next listed site - whatever other rows of the sheet said about the site.
EntryDecided(wb, row, k) ==
  LET c == row.path[k] IN
  /\ c \in Cities(wb)
  /\ \/ EffType(wb, c) = "ROADM"
     \/ (EffType(wb, c) = "ILA" /\ k < Len(row.path) /\ row.path[k + 1] \in Neigh(wb, c))
RouteDecided(wb, row) == \A k \in 1..Len(row.path) : EntryDecided(wb, row, k)
LineToward(o, ix, c, nb) == {x.uid : x \in {e \in At(o, c) : IsLine(e) /\ \E f \in FibersFromTo(ix, c, nb) : ix.succ[e.uid] = {f}}}
\* one request per row between the named sites' transceivers, with the row's transceiver, mode and direction flag
RequestEnds(wb, o, row, q, bidir) ==
  /\ q.id = row.id /\ q.source = TrxUid(o, row.src) /\ q.destination = TrxUid(o, row.dst) /\ q.bidir = bidir
  /\ q.trx = row.trx /\ q.mode = (IF row.mode = "" THEN "~null" ELSE row.mode)
\* spacing GHz -> Hz, bandwidth Gbit/s -> bit/s (0 when blank), channel count, power dBm -> W
RequestUnits(row, q, tol) ==
  /\ q.spacing = Times1e9(row.spacing)
  /\ q.bandwidth = (IF row.bw.t = "absent" THEN Num(0, 0) ELSE Times1e9(row.bw))
  /\ q.nch = Dflt(row.nch, Null)
  \* dBm -> W is transcendental: the harness reports the observed W back in micro-dBm (-9999 = no power given)
  /\ IF row.power.t = "absent" THEN q.power_udbm = -9999
     ELSE LET want == row.power.m * (10 ^ (6 - row.power.s)) IN q.power_udbm - want <= tol /\ want - q.power_udbm <= tol
\* a decided route list becomes the names of the elements above, in the order given, every hop LOOSE when the row
\* says yes or nothing, STRICT otherwise (route lists with other kinds of names are not decided here)
RequestRoute(wb, o, ix, row, q) ==
  /\ RouteDecided(wb, row) =>
        /\ Len(q.include) = Len(row.path)
        /\ \A k \in 1..Len(row.path) :
              IF EffType(wb, row.path[k]) = "ROADM" THEN q.include[k] = RoadmUid(o, row.path[k])
              ELSE q.include[k] \in LineToward(o, ix, row.path[k], row.path[k + 1])
  /\ \A k \in 1..Len(q.hops) : q.hops[k] = (IF row.loose \in {"", "yes", "Yes", "YES"} THEN "LOOSE" ELSE "STRICT")
  /\ Len(q.hops) = Len(q.include)
\* one synchronisation vector per row with a 'disjoint from' entry: the row's id followed by the ids it names
SyncConforms(wb, obs) ==
  LET withsync == SelectSeq(wb.services, LAMBDA r : r.disjoint # <<>>) IN
  /\ Len(obs.sync) = Len(withsync)
  /\ \A k \in 1..Len(withsync) : obs.sync[k] = [id |-> withsync[k].id, ids |-> <<withsync[k].id>> \o withsync[k].disjoint]
ServiceFailing(wb, o, obs, bidir, tol) ==
  IF Len(obs.reqs) # Len(wb.services) THEN {"OneRequestPerRow"}
  ELSE LET ix == Index(o) IN
       (IF \E k \in 1..Len(wb.services) : ~RequestEnds(wb, o, wb.services[k], obs.reqs[k], bidir) THEN {"RequestEnds"} ELSE {})
       \cup (IF \E k \in 1..Len(wb.services) : ~RequestUnits(wb.services[k], obs.reqs[k], tol) THEN {"RequestUnits"} ELSE {})
       \cup (IF \E k \in 1..Len(wb.services) : ~RequestRoute(wb, o, ix, wb.services[k], obs.reqs[k]) THEN {"RequestRoute"} ELSE {})
       \cup (IF ~SyncConforms(wb, obs) THEN {"DisjunctionPerEntry"} ELSE {})
ServiceConforms(wb, o, obs, bidir, tol) == ServiceFailing(wb, o, obs, bidir, tol) = {}
==============================================================================
