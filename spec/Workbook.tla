------------------------------ MODULE Workbook ------------------------------
(* C20 - spreadsheet inputs convert to the network and services they describe.                               *)
(*                                                                                                           *)
(* An abstract workbook has the sheets Nodes (city, type), Links (A, Z, east values, west values possibly    *)
(* blank), Eqpt (A, Z, east / west amplifier settings), Roadms (A, Z, per-degree target) and Service rows.   *)
(* Expected(wb) is Error when one of the documented sanity rules is violated; otherwise the converted        *)
(* topology must satisfy the clauses of Conforms (stated on connectivity and on the site each element        *)
(* belongs to, not on element names) and the request list must satisfy ServiceConforms.  Model(wb) is the    *)
(* topology with the names the documentation describes; B1 checks that it satisfies every clause, so the     *)
(* clauses are satisfiable and none is vacuous.                                                              *)
(* Values are decimals m * 10^(-s) in normal form (see Documents.tla); a blank cell is Absent.               *)
EXTENDS Integers, Sequences, FiniteSets, TLC

Num(m, s) == [t |-> "num", m |-> m, s |-> s]
Null      == [t |-> "null", m |-> 0, s |-> 0]
Absent    == [t |-> "absent", m |-> 0, s |-> 0]
Dflt(v, d) == IF v.t = "absent" THEN d ELSE v
SeqSet(s) == {s[i] : i \in 1..Len(s)}

\* normal form of m * 10^(-s) (mantissa without trailing zero), used by the unit conversions of the Service sheet
RECURSIVE Normal(_, _)
Normal(m, s) == IF m = 0 THEN Num(0, 0) ELSE IF m % 10 = 0 THEN Normal(m \div 10, s - 1) ELSE Num(m, s)
Times1e9(v) == IF v.t = "num" THEN Normal(v.m, v.s - 9) ELSE v

-----------------------------------------------------------------------------
(* reading the sheets *)
Cities(wb)   == {wb.nodes[i].city : i \in 1..Len(wb.nodes)}
Node(wb, c)  == CHOOSE n \in SeqSet(wb.nodes) : n.city = c
DeclType(wb, c) == LET t == Node(wb, c).type IN IF t \in {"ROADM", "ILA", "FUSED"} THEN t ELSE "ILA"
LinkIdx(wb, c)  == {i \in 1..Len(wb.links) : wb.links[i].a = c \/ wb.links[i].z = c}
Degree(wb, c)   == Cardinality(LinkIdx(wb, c))
Other(l, c)     == IF l.a = c THEN l.z ELSE l.a
Neigh(wb, c)    == {Other(wb.links[i], c) : i \in LinkIdx(wb, c)}
\* "Incorrectly specified types (ILA for a node of degree /= 2) are corrected": such a site is a ROADM site
EffType(wb, c)  == IF DeclType(wb, c) = "ILA" /\ Degree(wb, c) # 2 THEN "ROADM" ELSE DeclType(wb, c)
RowsFrom(wb, c) == {i \in 1..Len(wb.eqpt) : wb.eqpt[i].a = c}
Joins(l, x, y)  == (l.a = x /\ l.z = y) \/ (l.a = y /\ l.z = x)

\* east values with the documented defaults; a blank west cell takes the east value
EastEff(l) == [dist |-> Dflt(l.east.dist, Num(8, -1)), fiber |-> IF l.east.fiber = "" THEN "SSMF" ELSE l.east.fiber,
               lineic |-> Dflt(l.east.lineic, Num(2, 1)), con_in |-> Dflt(l.east.con_in, Null),
               con_out |-> Dflt(l.east.con_out, Null), cable |-> l.east.cable]
WestEff(l) == LET e == EastEff(l) IN
              [dist |-> Dflt(l.west.dist, e.dist), fiber |-> IF l.west.fiber = "" THEN e.fiber ELSE l.west.fiber,
               lineic |-> Dflt(l.west.lineic, e.lineic), con_in |-> Dflt(l.west.con_in, e.con_in),
               con_out |-> Dflt(l.west.con_out, e.con_out), cable |-> IF l.west.cable = "" THEN e.cable ELSE l.west.cable]

-----------------------------------------------------------------------------
(* the documented sanity rules *)
ErrorKinds(wb) ==
  LET C == Cities(wb) IN
     (IF \E i, j \in 1..Len(wb.nodes) : i < j /\ wb.nodes[i].city = wb.nodes[j].city THEN {"duplicate_city"} ELSE {})
  \cup (IF \E l \in SeqSet(wb.links) : l.a \notin C \/ l.z \notin C THEN {"link_to_unknown_node"} ELSE {})
  \cup (IF \E i, j \in 1..Len(wb.links) : i < j /\ Joins(wb.links[i], wb.links[j].a, wb.links[j].z)
        THEN {"duplicate_link"} ELSE {})
  \cup (IF \E c \in C : Degree(wb, c) = 0 THEN {"unreferenced_node"} ELSE {})
  \cup (IF \E e \in SeqSet(wb.eqpt) : e.a \notin C \/ e.z \notin C THEN {"eqpt_unknown_node"} ELSE {})
  \cup (IF \E e \in SeqSet(wb.eqpt) : e.a \in C /\ e.z \in C /\ ~\E l \in SeqSet(wb.links) : Joins(l, e.a, e.z)
        THEN {"eqpt_unknown_link"} ELSE {})
  \cup (IF \E i, j \in 1..Len(wb.eqpt) : i < j /\ wb.eqpt[i].a = wb.eqpt[j].a /\ wb.eqpt[i].z = wb.eqpt[j].z
        THEN {"duplicate_eqpt"} ELSE {})
  \cup (IF \E c \in C : DeclType(wb, c) = "ILA" /\ Degree(wb, c) = 2 /\ Cardinality(RowsFrom(wb, c)) > 1
        THEN {"two_eqpt_on_ila"} ELSE {})
\* the rules do not say whether two Eqpt rows are allowed on a site declared ILA that is corrected to ROADM: no verdict
Undecided(wb) == ErrorKinds(wb) = {} /\ \E c \in Cities(wb) :
                    DeclType(wb, c) = "ILA" /\ Degree(wb, c) # 2 /\ Cardinality(RowsFrom(wb, c)) > 1

-----------------------------------------------------------------------------
(* topologies: els = sequence of [uid, type, city, variety, p]; cx = sequence of [from, to]; pd = per-degree targets *)
NoP == [length |-> Absent, loss_coef |-> Absent, con_in |-> Absent, con_out |-> Absent, gain |-> Absent, dp |-> Absent,
        tilt |-> Absent, att_out |-> Absent, att_in |-> Absent, loss |-> Absent]
FiberP(v) == [NoP EXCEPT !.length = v.dist, !.loss_coef = v.lineic, !.con_in = v.con_in, !.con_out = v.con_out]
\* amplifier settings of one side of an Eqpt row: blank gain / delta p / tilt / att_out are null, blank att_in is 0
AmpP(a)   == [NoP EXCEPT !.gain = Dflt(a.gain, Null), !.dp = Dflt(a.dp, Null), !.tilt = Dflt(a.tilt, Null),
                         !.att_out = Dflt(a.att_out, Null), !.att_in = Dflt(a.att_in, Num(0, 0))]
AutoAmpP  == [NoP EXCEPT !.gain = Null, !.tilt = Null]
FusedP    == [NoP EXCEPT !.loss = Num(0, 0)]
\* what an element created for one side of an Eqpt row must be
SideType(a)    == IF a.type = "fused" THEN "Fused" ELSE "Edfa"
SideVariety(a) == IF a.type = "fused" THEN "" ELSE a.type
SideP(a)       == IF a.type = "fused" THEN FusedP ELSE AmpP(a)

Uids(o)    == {o.els[i].uid : i \in 1..Len(o.els)}
El(o, u)   == CHOOSE e \in SeqSet(o.els) : e.uid = u
Succ(o, u) == {c.to : c \in {x \in SeqSet(o.cx) : x.from = u}}
Pred(o, u) == {c.from : c \in {x \in SeqSet(o.cx) : x.to = u}}
At(o, c)   == {e \in SeqSet(o.els) : e.city = c}
Fibers(o)  == {e \in SeqSet(o.els) : e.type = "Fiber"}
\* a fibre runs from the site of its predecessor to the site of its successor
Up(o, f)   == IF Cardinality(Pred(o, f.uid)) = 1 /\ Pred(o, f.uid) \subseteq Uids(o)
              THEN El(o, CHOOSE u \in Pred(o, f.uid) : TRUE).city ELSE "?"
Down(o, f) == IF Cardinality(Succ(o, f.uid)) = 1 /\ Succ(o, f.uid) \subseteq Uids(o)
              THEN El(o, CHOOSE u \in Succ(o, f.uid) : TRUE).city ELSE "?"
FibersFromTo(o, x, y) == {f \in Fibers(o) : Up(o, f) = x /\ Down(o, f) = y}

\* ---- the clauses
UniqueNames(o)    == Cardinality(Uids(o)) = Len(o.els)
EndpointsExist(o) == \A c \in SeqSet(o.cx) : c.from \in Uids(o) /\ c.to \in Uids(o)

SiteInventory(wb, o) ==
  /\ \A e \in SeqSet(o.els) : e.type = "Fiber" \/ e.city \in Cities(wb)
  /\ \A c \in Cities(wb) :
       LET here == At(o, c)
           n(ty) == Cardinality({e \in here : e.type = ty})
           rows == Cardinality(RowsFrom(wb, c))
       IN CASE EffType(wb, c) = "ROADM" ->
                 /\ n("Transceiver") = 1 /\ n("Roadm") = 1 /\ n("Edfa") + n("Fused") = 2 * rows
                 /\ LET t == CHOOSE e \in here : e.type = "Transceiver"
                        r == CHOOSE e \in here : e.type = "Roadm"
                    IN r.uid \in Succ(o, t.uid) /\ t.uid \in Succ(o, r.uid)
            [] EffType(wb, c) = "ILA"   -> n("Transceiver") = 0 /\ n("Roadm") = 0 /\ n("Edfa") + n("Fused") = 2
            [] EffType(wb, c) = "FUSED" -> n("Transceiver") = 0 /\ n("Roadm") = 0 /\ n("Edfa") = 0 /\ n("Fused") = 2

\* for every link one fibre per direction with the sheet's length, type, loss and connector values
FibrePerDirection(wb, o) ==
  /\ Cardinality(Fibers(o)) = 2 * Len(wb.links)
  /\ \A l \in SeqSet(wb.links) :
       /\ \E f \in FibersFromTo(o, l.a, l.z) : f.variety = EastEff(l).fiber /\ f.p = FiberP(EastEff(l))
       /\ \E f \in FibersFromTo(o, l.z, l.a) : f.variety = WestEff(l).fiber /\ f.p = FiberP(WestEff(l))
       /\ Cardinality(FibersFromTo(o, l.a, l.z)) = 1 /\ Cardinality(FibersFromTo(o, l.z, l.a)) = 1

\* nothing dangles: every fibre and every line element has exactly one predecessor and one successor, a line
\* element sits between two fibres (or a fibre and its own ROADM) and never turns the traffic back
Continuity(wb, o) ==
  /\ \A f \in Fibers(o) : Cardinality(Pred(o, f.uid)) = 1 /\ Cardinality(Succ(o, f.uid)) = 1
  /\ \A c \in Cities(wb) : \A e \in {x \in At(o, c) : x.type \in {"Edfa", "Fused"}} :
       /\ Cardinality(Pred(o, e.uid)) = 1 /\ Cardinality(Succ(o, e.uid)) = 1
       /\ LET p == El(o, CHOOSE u \in Pred(o, e.uid) : TRUE)
              s == El(o, CHOOSE u \in Succ(o, e.uid) : TRUE)
          IN IF EffType(wb, c) = "ROADM"
             THEN \/ (p.type = "Roadm" /\ p.city = c /\ s.type = "Fiber" /\ Up(o, s) = c)
                  \/ (p.type = "Fiber" /\ Down(o, p) = c /\ s.type = "Roadm" /\ s.city = c)
             ELSE p.type = "Fiber" /\ s.type = "Fiber" /\ Up(o, p) # Down(o, s)
  /\ \A c \in Cities(wb) : EffType(wb, c) = "ROADM" =>
       LET r == CHOOSE e \in At(o, c) : e.type = "Roadm" IN
       \A nb \in Neigh(wb, c) :
          \* towards nb: roadm -> [line element of this site] -> fibre(c -> nb), and the way back
          /\ \E f \in FibersFromTo(o, c, nb) : \E u \in Pred(o, f.uid) :
                u = r.uid \/ (El(o, u).city = c /\ El(o, u).type \in {"Edfa", "Fused"} /\ Pred(o, u) = {r.uid})
          /\ \E f \in FibersFromTo(o, nb, c) : \E u \in Succ(o, f.uid) :
                u = r.uid \/ (El(o, u).city = c /\ El(o, u).type \in {"Edfa", "Fused"} /\ Succ(o, u) = {r.uid})

\* each Eqpt row (A, Z): the east settings are on the element of site A that feeds the fibre towards Z, the west
\* settings on the element of site A that is fed by the fibre coming from Z
AmpFacesNeighbour(wb, o) ==
  \A e \in SeqSet(wb.eqpt) :
     /\ \E x \in At(o, e.a) : /\ \E f \in FibersFromTo(o, e.a, e.z) : Succ(o, x.uid) = {f.uid}
                              /\ x.type = SideType(e.east) /\ x.variety = SideVariety(e.east) /\ x.p = SideP(e.east)
     /\ \E x \in At(o, e.a) : /\ \E f \in FibersFromTo(o, e.z, e.a) : Pred(o, x.uid) = {f.uid}
                              /\ x.type = SideType(e.west) /\ x.variety = SideVariety(e.west) /\ x.p = SideP(e.west)
\* amplifiers the sheets do not describe are left to the design: no settings
UndescribedAmpsAreBlank(wb, o) ==
  \A c \in Cities(wb) : RowsFrom(wb, c) = {} => \A e \in At(o, c) : e.type = "Edfa" => e.variety = "" /\ e.p = AutoAmpP

\* Roadms sheet: the target of row (A, Z) is the per-degree target of ROADM A for the element that feeds the fibre to Z
PerDegreeTargets(wb, o) ==
  /\ Len(o.pd) = Len(wb.roadms)
  /\ \A r \in SeqSet(wb.roadms) : \E t \in SeqSet(o.pd) :
       /\ El(o, t.roadm).type = "Roadm" /\ El(o, t.roadm).city = r.a /\ t.v = r.target
       /\ t.deg \in Uids(o) /\ \E f \in FibersFromTo(o, r.a, r.z) : Succ(o, t.deg) = {f.uid}

Conforms(wb, o) == /\ UniqueNames(o) /\ EndpointsExist(o) /\ SiteInventory(wb, o) /\ FibrePerDirection(wb, o)
                   /\ Continuity(wb, o) /\ AmpFacesNeighbour(wb, o) /\ UndescribedAmpsAreBlank(wb, o)
                   /\ PerDegreeTargets(wb, o)
ClauseNames == <<"UniqueNames", "EndpointsExist", "SiteInventory", "FibrePerDirection", "Continuity",
                 "AmpFacesNeighbour", "UndescribedAmpsAreBlank", "PerDegreeTargets">>
Clause(name, wb, o) == CASE name = "UniqueNames" -> UniqueNames(o) [] name = "EndpointsExist" -> EndpointsExist(o)
                         [] name = "SiteInventory" -> SiteInventory(wb, o) [] name = "FibrePerDirection" -> FibrePerDirection(wb, o)
                         [] name = "Continuity" -> Continuity(wb, o) [] name = "AmpFacesNeighbour" -> AmpFacesNeighbour(wb, o)
                         [] name = "UndescribedAmpsAreBlank" -> UndescribedAmpsAreBlank(wb, o)
                         [] name = "PerDegreeTargets" -> PerDegreeTargets(wb, o)
\* the structural clauses presuppose well-formed names and endpoints
Failing(wb, o) == IF ~UniqueNames(o) THEN {"UniqueNames"} ELSE IF ~EndpointsExist(o) THEN {"EndpointsExist"}
                  ELSE {ClauseNames[k] : k \in {j \in 3..Len(ClauseNames) : ~Clause(ClauseNames[j], wb, o)}}

-----------------------------------------------------------------------------
(* Model(wb): the topology with the documented names *)
FiberUid(x, y, cable) == "fiber (" \o x \o " -> " \o y \o ")-" \o cable
LinkOf(wb, x, y) == CHOOSE l \in SeqSet(wb.links) : Joins(l, x, y)
FiberFrom(wb, x, y) == LET l == LinkOf(wb, x, y) IN
                       IF l.a = x THEN FiberUid(l.a, l.z, EastEff(l).cable) ELSE FiberUid(l.z, l.a, WestEff(l).cable)
E0(uid, type, city, variety, p) == [uid |-> uid, type |-> type, city |-> city, variety |-> variety, p |-> p]
RECURSIVE Cat(_)
Cat(ss) == IF ss = <<>> THEN <<>> ELSE Head(ss) \o Cat(Tail(ss))
\* neighbours of a site in the order of the Links sheet
Others(wb, c) == Cat([i \in 1..Len(wb.links) |-> IF i \in LinkIdx(wb, c) THEN <<Other(wb.links[i], c)>> ELSE <<>>])
HasRow(wb, x, y) == \E e \in SeqSet(wb.eqpt) : e.a = x /\ e.z = y
Via(from, mid, to) == IF mid = "" THEN <<[from |-> from, to |-> to]>> ELSE <<[from |-> from, to |-> mid], [from |-> mid, to |-> to]>>
LineName(wb, c, dir, ref) ==   \* the line element of an ILA / FUSED site for the traffic direction `dir`
  IF EffType(wb, c) = "FUSED" THEN dir \o " fused spans in " \o c
  ELSE IF RowsFrom(wb, c) = {} THEN dir \o " edfa in " \o c
  ELSE LET e == wb.eqpt[CHOOSE i \in RowsFrom(wb, c) : TRUE]
           d == IF e.z # ref THEN (IF dir = "east" THEN "west" ELSE "east") ELSE dir
       IN d \o " edfa in " \o c \o " to " \o e.z
ModelEls(wb) ==
  Cat([i \in 1..Len(wb.nodes) |->
         LET c == wb.nodes[i].city IN
         CASE EffType(wb, c) = "ROADM" -> <<E0("trx " \o c, "Transceiver", c, "", NoP), E0("roadm " \o c, "Roadm", c, "", NoP)>>
           [] EffType(wb, c) = "FUSED" -> <<E0("west fused spans in " \o c, "Fused", c, "", NoP),
                                            E0("east fused spans in " \o c, "Fused", c, "", NoP)>>
           [] OTHER -> IF RowsFrom(wb, c) = {}
                       THEN <<E0("west edfa in " \o c, "Edfa", c, "", AutoAmpP), E0("east edfa in " \o c, "Edfa", c, "", AutoAmpP)>>
                       ELSE <<>>])
  \o Cat([i \in 1..Len(wb.links) |->
         LET l == wb.links[i] IN
         <<E0(FiberUid(l.a, l.z, EastEff(l).cable), "Fiber", "", EastEff(l).fiber, FiberP(EastEff(l))),
           E0(FiberUid(l.z, l.a, WestEff(l).cable), "Fiber", "", WestEff(l).fiber, FiberP(WestEff(l)))>>])
  \o Cat([i \in 1..Len(wb.eqpt) |->
         LET e == wb.eqpt[i] IN
         <<E0("east edfa in " \o e.a \o " to " \o e.z, SideType(e.east), e.a, SideVariety(e.east), SideP(e.east)),
           E0("west edfa in " \o e.a \o " to " \o e.z, SideType(e.west), e.a, SideVariety(e.west), SideP(e.west))>>])
ModelCx(wb) ==
  Cat([i \in 1..Len(wb.nodes) |->
         LET c == wb.nodes[i].city
             os == Others(wb, c)
         IN IF EffType(wb, c) = "ROADM"
            THEN Cat([k \in 1..Len(os) |->
                        Via("roadm " \o c, IF HasRow(wb, c, os[k]) THEN "east edfa in " \o c \o " to " \o os[k] ELSE "",
                            FiberFrom(wb, c, os[k]))
                        \o Via(FiberFrom(wb, os[k], c), IF HasRow(wb, c, os[k]) THEN "west edfa in " \o c \o " to " \o os[k] ELSE "",
                               "roadm " \o c)])
                 \o <<[from |-> "trx " \o c, to |-> "roadm " \o c], [from |-> "roadm " \o c, to |-> "trx " \o c]>>
            ELSE Via(FiberFrom(wb, os[1], c), LineName(wb, c, "west", os[1]), FiberFrom(wb, c, os[2]))
                 \o Via(FiberFrom(wb, os[2], c), LineName(wb, c, "east", os[1]), FiberFrom(wb, c, os[1]))])
ModelPd(wb) == [i \in 1..Len(wb.roadms) |->
                  [roadm |-> "roadm " \o wb.roadms[i].a, deg |-> "east edfa in " \o wb.roadms[i].a \o " to " \o wb.roadms[i].z,
                   v |-> wb.roadms[i].target]]
Model(wb) == [els |-> ModelEls(wb), cx |-> ModelCx(wb), pd |-> ModelPd(wb)]

Expected(wb) == IF ErrorKinds(wb) # {} THEN [status |-> "error", kinds |-> ErrorKinds(wb)]
                ELSE [status |-> "ok", kinds |-> {}]

-----------------------------------------------------------------------------
(* SERVICES.  Row: id, src, dst, trx, mode ("" blank), spacing (GHz), power (dBm), nch, disjoint (seq of ids),   *)
(* path (seq of names), loose ("" / "yes" / "no"), bw (Gbit/s).  Observed request: the JSON path-request.     *)
\* the name a ROADM site is known by in the converted topology: the uid of its Roadm element
RoadmUid(o, c) == (CHOOSE e \in At(o, c) : e.type = "Roadm").uid
TrxUid(o, c)   == (CHOOSE e \in At(o, c) : e.type = "Transceiver").uid
PathOfRoadms(wb, row) == \A k \in 1..Len(row.path) : row.path[k] \in Cities(wb) /\ EffType(wb, row.path[k]) = "ROADM"
RequestConforms(wb, o, row, q, bidir, tol) ==
  /\ q.id = row.id /\ q.source = TrxUid(o, row.src) /\ q.destination = TrxUid(o, row.dst) /\ q.bidir = bidir
  /\ q.trx = row.trx /\ q.mode = (IF row.mode = "" THEN "~null" ELSE row.mode)
  /\ q.spacing = Times1e9(row.spacing)
  /\ q.bandwidth = (IF row.bw.t = "absent" THEN Num(0, 0) ELSE Times1e9(row.bw))
  /\ q.nch = Dflt(row.nch, Null)
  \* power: dBm -> W is transcendental; the harness reports the observed W back in micro-dBm
  /\ IF row.power.t = "absent" THEN q.power_udbm = -9999
     ELSE LET want == row.power.m * (10 ^ (6 - row.power.s)) IN q.power_udbm - want <= tol /\ want - q.power_udbm <= tol
  \* a route list naming ROADM sites becomes the names of those sites' Roadm elements, in the order given
  \* (other kinds of names in a route list are not decided here)
  /\ PathOfRoadms(wb, row) => q.include = [k \in 1..Len(row.path) |-> RoadmUid(o, row.path[k])]
  /\ \A k \in 1..Len(q.hops) : q.hops[k] = (IF row.loose \in {"", "yes"} THEN "LOOSE" ELSE "STRICT")
  /\ Len(q.hops) = Len(q.include)
ServiceConforms(wb, o, obs, bidir, tol) ==
  LET withsync == SelectSeq(wb.services, LAMBDA r : r.disjoint # <<>>) IN
  /\ Len(obs.reqs) = Len(wb.services)
  /\ \A k \in 1..Len(wb.services) : RequestConforms(wb, o, wb.services[k], obs.reqs[k], bidir, tol)
  /\ Len(obs.sync) = Len(withsync)
  /\ \A k \in 1..Len(withsync) : obs.sync[k] = [id |-> withsync[k].id, ids |-> <<withsync[k].id>> \o withsync[k].disjoint]
==============================================================================
