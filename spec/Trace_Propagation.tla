-------------------------- MODULE Trace_Propagation --------------------------
(* B3 for C01 / C02 / C07: executions of the real gnpy.topology.request.propagate, recorded as one event per   *)
(* element crossing, are judged against the ledger laws of PowerLedger (in the integer projections: shares in *)
(* ppb, figures of merit in micro-dB, reciprocal linear figures in 1e-9) and the channel-set laws of          *)
(* ChannelOps / ChannelSet (frequencies, widths, baud rates in MHz).                                          *)
(* Monitor-shaped: every event is consumed and `viol` accumulates <<step, clause>> for every clause that      *)
(* fails, so the verdict is total and names the failing clause.  Step 0 is the request itself.                *)
(*                                                                                                          *)
(* One trace = one call of propagate():                                                                      *)
(*   req      the carriers as given by the caller, in the caller's order: <<f, w, b, label>>                  *)
(*   amps     the bands <<lo, hi>> of every amplifier of the path (configuration), dflt the SI default band   *)
(*   outcome  0 completed | 1 SpectrumError | 2 ValueError "no channel in the amplifiers' band" | 3 other     *)
(*   ev       "Launch" (spectrum as constructed), "Filter" (after filter_si), then one event per element:     *)
(*            cls, d (1 = nested inside the next Multiband_amplifier event), ops (primitive ledger operations *)
(*            applied), and the spectrum AFTER the element: f w b lab | s a n (ppb of pch) | osnr nli gsnr    *)
(*   rx       the figures the receiving Transceiver reports after update_snr: snr osnr onli (micro-dB), lab  *)
(*            (the transmitter data it holds per carrier) and                                                 *)
(*            their reciprocal linear values isnr iosnr inli (1e-9; Inf when not representable)               *)
(*   ref      receiver figures of the same request with the carriers given in another order (or empty)        *)
EXTENDS ChannelOps, GnpyBase, Json, IOUtils, TLC

CONSTANTS TolUdb,        \* "unchanged" / "not higher" for figures in micro-dB
          TolOrderUdb,   \* permuted carrier order: identical receiver figures
          TolPpb,        \* shares add up to 1e9
          TolInv         \* reciprocal identity, units of 1e-9

T == ndJsonDeserialize(IOEnv.TRACE_FILE)

VARIABLES tid, i, base, viol
vars == <<tid, i, base, viol>>

One == 1000000000
NotANumber == 1 - Inf               \* projection of NaN (harness.propagation_util.NAN_UDB)
N(e) == Len(e.f)
Chans(e) == [k \in 1..N(e) |-> [f |-> e.f[k], w |-> e.w[k], b |-> e.b[k], label |-> e.lab[k]]]
Req(t) == [k \in 1..Len(t.req) |-> [f |-> t.req[k][1], w |-> t.req[k][2], b |-> t.req[k][3], label |-> t.req[k][4]]]
InCommon(c, t) == InCommonBand(c, t.amps, t.dflt)
Passive == {"Roadm", "Fused", "Transceiver"}
Amplifier == {"Edfa", "Multiband_amplifier"}
Elements == Passive \cup Amplifier \cup {"Fiber", "RamanFiber"}

-----------------------------------------------------------------------------
(* Step 0: what must happen to the request as a whole (C07)                                                   *)
RequestClauses(t) ==
    LET S == SeqSet(Req(t))
        invalid == AnyOverlap(S) \/ AnyBaudWider(S)
    IN  (IF AnyOverlap(S) /\ t.outcome # 1 THEN {"RejectOverlap"} ELSE {})
   \cup (IF AnyBaudWider(S) /\ t.outcome # 1 THEN {"RejectBaudWiderThanSlot"} ELSE {})
   \cup (IF t.outcome = 1 /\ ~invalid THEN {"AcceptValid"} ELSE {})
        \* a valid spectrum with at least one channel inside the common band is propagated to the end
   \cup (IF ~invalid /\ (\E c \in S : InCommon(c, t)) /\ t.outcome # 0 THEN {"Survives"} ELSE {})

-----------------------------------------------------------------------------
(* C01 on every recorded spectrum                                                                             *)
\* position in p of the channel at position k of e, keyed by frequency (0 = not there)
Where(p, e) == IF p.f = e.f THEN [k \in 1..N(e) |-> k]
               ELSE [k \in 1..N(e) |-> IF \E j \in 1..N(p) : p.f[j] = e.f[k] THEN CHOOSE j \in 1..N(p) : p.f[j] = e.f[k] ELSE 0]

\* a break is blamed on the element that produces it: a channel whose books were already wrong (or whose figure was
\* already not a number) when the element was entered is not judged again on the elements after it
InRange(e, k)  == \A x \in {e.s[k], e.a[k], e.n[k]} : x >= 0 /\ x <= One
\* (summed in an order that cannot overflow 32 bits; a channel with a share out of range is reported by that clause)
Balanced(e, k) == ~InRange(e, k) \/ AbsI((e.s[k] - One) + e.a[k] + e.n[k]) <= TolPpb
Ledger(e, p, w) ==          \* p = spectrum before (p = e, w = identity for Launch / Filter: judged as they stand)
        (IF \E k \in 1..N(e) : ~Balanced(e, k) /\ (p = e \/ w[k] = 0 \/ Balanced(p, w[k])) THEN {"Conservation"} ELSE {})
   \cup (IF \E k \in 1..N(e) : ~InRange(e, k) /\ (p = e \/ w[k] = 0 \/ InRange(p, w[k])) THEN {"SharesInUnitInterval"} ELSE {})

(* C07 on every recorded spectrum: launch = the request sorted, filter = exactly the common band, then intact  *)
ChannelSetClauses(t, k) ==
    LET e == t.ev[k]
    IN  (IF \E j \in 1..(N(e) - 1) : e.f[j] >= e.f[j + 1] THEN {"InFrequencyOrder"} ELSE {})
        \* launch = the request sorted by frequency (order is judged by InFrequencyOrder), every attribute attached;
        \* stated without the recursive Sorted(): spectra of 150+ channels would exhaust TLC's evaluation stack
   \cup (CASE e.cls = "Launch" -> IF N(e) = Len(t.req) /\ SeqSet(Chans(e)) = SeqSet(Req(t)) THEN {} ELSE {"LaunchIsSortedRequest"}
          [] e.cls = "Filter" -> IF Chans(e) = SelectSeq(Chans(t.ev[1]), LAMBDA c : InCommon(c, t)) THEN {}
                                 ELSE {"FilterKeepsExactlyCommon"}
          [] e.d = 0          -> IF Chans(e) = Chans(t.ev[2]) THEN {} ELSE {"Survives"}
          [] OTHER            -> IF SeqSet(Chans(e)) \subseteq SeqSet(Chans(t.ev[2])) THEN {} ELSE {"OwnAttributes"})

(* the sub-spectra handled by the member amplifiers of a multi-band amplifier partition its output            *)
MultiBand(t, k, b) ==
    LET e == t.ev[k]
        nested == (b + 1)..(k - 1)
    IN IF e.cls # "Multiband_amplifier" THEN {}
       ELSE IF /\ nested # {}
               /\ \A j \in nested : t.ev[j].d = 1 /\ t.ev[j].cls = "Edfa"
               /\ \A j1, j2 \in nested : j1 # j2 => SeqSet(t.ev[j1].f) \cap SeqSet(t.ev[j2].f) = {}
               /\ UNION {SeqSet(t.ev[j].f) : j \in nested} = SeqSet(e.f)
            THEN {} ELSE {"MultiBandPartition"}

-----------------------------------------------------------------------------
(* C02 on every element crossing: p = spectrum before (last top-level event), e = spectrum after               *)
OpOf(name) == CASE name = "add_ase" -> "AddASE" [] name = "add_nli" -> "AddNLI"
                [] name \in {"apply_attenuation_lin", "apply_gain_lin"} -> "Scale" [] OTHER -> name
Ops(e) == [j \in 1..Len(e.ops) |-> OpOf(e.ops[j])]
GrammarOk(e) == CASE e.cls = "Fused"       -> Ops(e) = <<"Scale">>
                  [] e.cls = "Roadm"       -> Ops(e) = <<"Scale", "Scale">>
                  [] e.cls = "Fiber"       -> Ops(e) = <<"Scale", "AddNLI", "Scale", "Scale">>
                  [] e.cls = "RamanFiber"  -> Ops(e) = <<"Scale", "AddNLI", "AddASE", "Scale", "Scale">>
                  [] e.cls = "Edfa"        -> Ops(e) \in {<<"AddASE", "Scale">>, <<"Scale", "AddASE", "Scale">>}
                  [] e.cls = "Multiband_amplifier" -> Ops(e) = <<>>          \* all work is done by the nested Edfa crossings
                  [] e.cls = "Transceiver" -> Ops(e) = <<>>
                  [] OTHER -> FALSE

Quality(p, e) ==
    LET w == Where(p, e)
        K == {k \in 1..N(e) : w[k] # 0}
        \* a figure that is not a number (NotANumber: the dB value of a negative ratio) is neither kept nor lowered
        \* (y = the figure before: when that already was not a number the step is not judged, see Ledger)
        Same(x, y) == y = NotANumber \/ (x # NotANumber /\ Within(x, y, TolUdb))
        NotHigher(x, y) == y = NotANumber \/ (x # NotANumber /\ x <= y + TolUdb)
    IN  (IF GrammarOk(e) THEN {} ELSE {"OpGrammar"})
   \cup (IF \E k \in K : ~NotHigher(e.gsnr[k], p.gsnr[w[k]]) THEN {"NeverImprovesGsnr"} ELSE {})
   \cup (IF \E k \in K : ~NotHigher(e.osnr[k], p.osnr[w[k]]) THEN {"NeverImprovesOsnr"} ELSE {})
   \cup (IF \E k \in K : ~NotHigher(e.nli[k], p.nli[w[k]]) THEN {"NeverImprovesNli"} ELSE {})
   \cup (IF e.cls \in Passive /\ \E k \in K : ~(Same(e.gsnr[k], p.gsnr[w[k]]) /\ Same(e.osnr[k], p.osnr[w[k]]) /\ Same(e.nli[k], p.nli[w[k]]))
         THEN {"PassiveUnchanged"} ELSE {})
   \cup (IF e.cls \in Amplifier /\ \E k \in K : ~Same(e.nli[k], p.nli[w[k]]) THEN {"KeepsNli"} ELSE {})
   \cup (IF e.cls = "Fiber" /\ \E k \in K : ~Same(e.osnr[k], p.osnr[w[k]]) THEN {"KeepsOsnr"} ELSE {})

-----------------------------------------------------------------------------
(* at the receiver: the reported figures obey the reciprocal identity, agree with the ledger that arrived,      *)
(* and (for a request repeated with its carriers in another order) are the same channel by channel             *)
Receiver(t) ==
    LET r == t.rx
        e == t.ev[Len(t.ev)]
        K == 1..Len(r.f)
    IN  (IF \E k \in K : r.isnr[k] < Inf /\ r.iosnr[k] < Inf /\ r.inli[k] < Inf /\ ~Within(r.isnr[k], r.iosnr[k] + r.inli[k], TolInv)
         THEN {"GsnrIdentity"} ELSE {})
   \cup (IF r.f # e.f \/ \E k \in K : ~Within(r.onli[k], e.nli[k], TolUdb) \/ r.snr[k] > e.gsnr[k] + TolUdb \/ r.osnr[k] > e.osnr[k] + TolUdb
         THEN {"ReportedFromLedger"} ELSE {})
        \* the receiver holds, for every carrier, that carrier's own transmitter data (label, transmit power)
   \cup (IF r.lab # e.lab THEN {"OwnAttributes"} ELSE {})
   \cup (IF Len(t.ref.f) > 0 /\ (t.ref.f # r.f \/ \E k \in K : ~(Within(r.snr[k], t.ref.snr[k], TolOrderUdb) /\ Within(r.osnr[k], t.ref.osnr[k], TolOrderUdb)
                                                                  /\ Within(r.onli[k], t.ref.onli[k], TolOrderUdb)))
         THEN {"OrderIrrelevant"} ELSE {})

StepClauses(t, k, b) ==
    LET e == t.ev[k]
        p == IF e.cls \in Elements THEN t.ev[b] ELSE e
    IN Ledger(e, p, Where(p, e)) \cup ChannelSetClauses(t, k)
       \cup (IF e.cls \in Elements THEN Quality(t.ev[b], e) \cup MultiBand(t, k, b) ELSE {})
       \cup (IF k = Len(t.ev) /\ t.outcome = 0 THEN Receiver(t) ELSE {})

-----------------------------------------------------------------------------
Init == /\ tid \in 1..Len(T)
        /\ i = 0
        /\ base = 0
        /\ viol = {<<0, c>> : c \in RequestClauses(T[tid])}

Next == /\ i < Len(T[tid].ev)
        /\ i' = i + 1
        /\ tid' = tid
        /\ base' = IF T[tid].ev[i + 1].d = 0 THEN i + 1 ELSE base
        /\ viol' = viol \cup {<<i + 1, c>> : c \in StepClauses(T[tid], i + 1, base)}

\* verdict line: one per trace, printed when the last event has been consumed
Done == i < Len(T[tid].ev) \/ PrintT("@@" \o ToJson([name |-> T[tid].name, n |-> i, viol |-> viol]))
==============================================================================
