----------------------------- MODULE Trace_Routing -----------------------------
(* B2 second pass / B3 for C11 and C12: the routes the real pipeline returned (correct_json_route_list,       *)
(* deduplicate_disjunctions, requests_aggregation, compute_path_dsjctn, find_reversed_path) are JUDGED here.  *)
(*                                                                                                            *)
(* One trace = one network:  [name, n, links = <<<<a, b, len, k>>, ...>> (directed arcs as the GENERATOR of the *)
(* topology knows them, not as gnpy's OMS/isdisjoint see them), opt, tol (length units), ev].  One event = one batch handed   *)
(* to the pipeline (reqs, groups, relax = 1 for every group written `relaxable: true`, as the batch was       *)
(* WRITTEN, not as the code read it), with what came back for every request: a blocking reason, or the        *)
(* element list projected                                                                                     *)
(* to                                                                                                         *)
(*    src, dst   site of the transceiver the list starts / ends with (0 if it is no transceiver)              *)
(*    sites      the ROADMs crossed, in order                                                                 *)
(*    hops       per ROADM-to-ROADM segment: its end sites, the generator identity of every element of it     *)
(*               that the generator of the topology created (fibre spans, the amplifier of a fibre-less       *)
(*               patch, shipped amplifiers / fused: code LineEl(a, b) of the arc it was created for;          *)
(*               auto-inserted amplifiers carry no identity) and the fibre length the segment sums to         *)
(*    nel/nuniq  number of elements / of distinct elements;  contig = 1 iff consecutive elements are          *)
(*               connected by an edge of the designed network                                                 *)
(* and the same for the reverse route.  Monitor-shaped: every event is consumed, `viol` accumulates           *)
(* <<event, request (0 = batch), clause>>, one verdict line per trace.                                        *)
(* opt = 1: the brute-force oracle of Routing.tla is computed for every request (optimality, blocked-exactly, *)
(* completeness); opt = 0 (graphs too large for enumeration): only the clauses that judge the returned routes *)
(* themselves - reality, loop-freeness, STRICT hops, reverse, pairwise link-disjointness.                     *)
EXTENDS Routing, Json, IOUtils

T == ndJsonDeserialize(IOEnv.TRACE_FILE)

VARIABLES tid, i, viol
vars == <<tid, i, viol>>

GraphOfTrace(tr) ==
  LET L    == SeqRange(tr.links)
      arcs == {<<l[1], l[2], l[4]>> : l \in L}
  IN  [n |-> tr.n, arcs |-> arcs,
       len |-> [a \in arcs |-> (CHOOSE l \in L : l[1] = a[1] /\ l[2] = a[2] /\ l[4] = a[3])[3]]]

\* the abstract outcome the clauses of Routing.tla speak about: the arc of a segment is given by its end sites and
\* by which of two parallel links its elements belong to (index of the first identified element)
ArcOfHop(h)  == <<h.a, h.b, IF h.ids = <<>> THEN 0 ELSE h.ids[1] \div 1000000>>
RouteOf(ob)  == [k \in 1..Len(ob.hops) |-> ArcOfHop(ob.hops[k])]
Abstract(e) == [err |-> e.err,
                res |-> [k \in 1..Len(e.res) |->
                           [st |-> e.res[k].st, p |-> RouteOf(e.res[k].p), rev |-> RouteOf(e.res[k].rev)]]]

\* ---- clauses about the concrete element list (what "a real path of the designed network" means)
EndsAtTransceivers(s, d, ob) == ob.src = s /\ ob.dst = d
ElementsFollowEdges(G, ob, tol) ==
  /\ ob.contig = 1
  /\ Len(ob.hops) = Len(ob.sites) - 1
  /\ \A k \in 1..Len(ob.hops) :
       LET h == ob.hops[k]
       IN  /\ h.a = ob.sites[k] /\ h.b = ob.sites[k + 1]
           /\ h.ids # <<>>
           /\ \A j \in 1..Len(h.ids) : h.ids[j] = LineEl(ArcOfHop(h))        \* only elements of that very link
           /\ ArcOfHop(h) \in G.arcs => Within(h.len, G.len[ArcOfHop(h)], tol)  \* all of them
NoElementTwice(ob) == ob.nel = ob.nuniq

ConcreteViol(G, e, k, tol) ==
  LET r == e.reqs[k]
      x == e.res[k]
  IN  IF x.st # "path" THEN {}
      ELSE (IF EndsAtTransceivers(r.s, r.d, x.p) THEN {} ELSE {"EndsAtTransceivers"})
           \cup (IF ElementsFollowEdges(G, x.p, tol) THEN {} ELSE {"ElementsFollowEdges"})
           \cup (IF NoElementTwice(x.p) THEN {} ELSE {"NoElementTwice"})
           \cup (IF EndsAtTransceivers(r.d, r.s, x.rev) /\ ElementsFollowEdges(G, x.rev, tol) /\ NoElementTwice(x.rev)
                 THEN {} ELSE {"ReverseIsReal"})

EventViol(tr, e) ==
  LET G == GraphOfTrace(tr)
      b == [reqs |-> e.reqs, groups |-> e.groups, relax |-> e.relax]
      o == Abstract(e)
  IN  (IF tr.opt = 1 THEN Judge(G, b, FactsOf(G, b), o, tr.tol) ELSE JudgeStructural(G, b, o))
      \cup (IF e.err = 1 THEN {} ELSE UNION {{<<k, c>> : c \in ConcreteViol(G, e, k, tr.tol)} : k \in 1..Len(e.reqs)})

Init == /\ tid \in 1..Len(T)
        /\ i = 0
        /\ viol = {}

Next == /\ i < Len(T[tid].ev)
        /\ i' = i + 1
        /\ tid' = tid
        /\ viol' = viol \cup {<<i + 1, v[1], v[2]>> : v \in EventViol(T[tid], T[tid].ev[i + 1])}

\* verdict line: one per trace, printed when the last event has been consumed
Done == i < Len(T[tid].ev) \/ PrintT("@@" \o ToJson([name |-> T[tid].name, n |-> i, viol |-> viol]))
==============================================================================
