CONSTANTS
  NCh <- MCNCh
  Launch <- MCLaunch
  ScaleArgs <- MCScaleArgs
  AseArgs <- MCAseArgs
  NliArgs <- MCNliArgs
  Cuts <- MCCuts
  MaxDepth = 3
INIT EmitInit
NEXT EmitNext
INVARIANT Emit
