CONSTANTS
  NCh <- MCNCh
  Launch <- MCLaunch
  ScaleArgs <- MCScaleArgs
  AseArgs <- MCAseArgs
  NliArgs <- MCNliArgs
  Splits <- MCSplits
  MaxParts = 3
  MaxDepth = 3
INIT EmitInit
NEXT EmitNext
INVARIANT Emit
