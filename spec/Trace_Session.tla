------------------------------ MODULE Trace_Session ------------------------------
(* Several complete runs (load -> design -> planning) made one after the other in ONE process, each from freshly  *)
(* loaded files.  Gnpy.tla describes one run as a function of its inputs: nothing a run leaves behind in the     *)
(* process may reach a later one.  A session is a sequence of [input |-> name of the input files,                 *)
(* res |-> sequence of <<request id, CRC of the reported result>>].                                               *)
EXTENDS GnpyBase, TLC, Json, IOUtils

T == ndJsonDeserialize(IOEnv.TRACE_FILE)
VARIABLES tid, done
vars == <<tid, done>>

RunIsAFunctionOfItsInputs(s) ==
    \A i, j \in 1..Len(s.runs) : (i < j /\ s.runs[i].input = s.runs[j].input) => s.runs[i].res = s.runs[j].res
EveryRunReports(s) == \A i \in 1..Len(s.runs) : Len(s.runs[i].res) > 0

Clauses(s) == (IF RunIsAFunctionOfItsInputs(s) THEN {} ELSE {"RunIsAFunctionOfItsInputs"})
         \cup (IF EveryRunReports(s) THEN {} ELSE {"EveryRunReports"})

Init == tid \in 1..Len(T) /\ done = FALSE
Next == ~done /\ done' = TRUE /\ UNCHANGED tid
Done == ~done \/ PrintT("@@" \o ToJson([name |-> T[tid].name, viol |-> Clauses(T[tid])]))
==============================================================================
