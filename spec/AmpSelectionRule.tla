---------------------------- MODULE AmpSelectionRule ----------------------------
(* C10 - auto-selected amplifiers are allowed, capable and the quietest capable choice: DEFINITIONS and CLAUSES. *)
(* (pure operators; AmpSelection.tla is the state machine, Trace_AmpSelection.tla judges recorded selections)    *)
(*                                                                                                              *)
(* A library model is a record                                                                                  *)
(*   [id, gmin, flat, pmax, nf, raman, fmin, fmax, own, rdm, alw]                                               *)
(*   gmin / flat   minimum gain / maximum flat gain            pmax  maximum total output power                  *)
(*   nf            noise figure AT THE REQUIRED GAIN (an input: the implementation's own NF model)               *)
(*   raman         Raman (hybrid) model                         fmin, fmax  amplification band (MHz)              *)
(*   own / rdm / alw   listed in the amplifier's own variety list / in the adjacent ROADM's booster-or-preamp     *)
(*                     restriction / flagged allowed_for_design in the library                                   *)
(* The context of one selection is a record                                                                      *)
(*   [g, p, ext, hasOwn, hasRdm, bfmin, bfmax, prevFiber, lossCoef, ramanLimit]                                   *)
(*   g / p   required gain / total output power                ext   extended-gain allowance                      *)
(*   hasOwn  the amplifier carries a non-empty variety list    hasRdm  an adjacent ROADM restricts this position   *)
(*   bfmin, bfmax  design band (MHz)                                                                              *)
(*   prevFiber, lossCoef, ramanLimit   the amplifier follows a fibre of that loss coefficient; configured limit   *)
(* Powers and gains in micro-dB.                                                                                 *)
EXTENDS GnpyBase

MinGainAllowance == 3000000        \* a non-Raman model may be used down to 3 dB below its minimum gain

Covers(a, c) == a.fmin <= c.bfmin /\ a.fmax >= c.bfmax

\* precedence: own variety list -> adjacent ROADM restriction -> models flagged allowed for design
Listed(a, c) == IF c.hasOwn THEN a.own ELSE IF c.hasRdm THEN a.rdm ELSE a.alw
Permitted(lib, c) == {a \in lib : Listed(a, c) /\ Covers(a, c)}

RamanOK(c)   == c.prevFiber /\ c.lossCoef < c.ramanLimit
Usable(a, c) == ~a.raman \/ RamanOK(c)

(* "can deliver the required gain and output power (within the extended-gain allowance)".  m > 0 shrinks the      *)
(* capability region (certainly capable), m < 0 widens it (possibly capable): a target within |m| of a boundary   *)
(* is left undecided.                                                                                            *)
Capable(a, c, m) ==
    /\ Usable(a, c)
    /\ c.g > (IF a.raman THEN a.gmin ELSE a.gmin - MinGainAllowance) + m
    /\ c.g < a.flat + c.ext - m
    /\ c.p < a.pmax - m
CapableSet(lib, c, m) == {a \in Permitted(lib, c) : Capable(a, c, m)}

\* excluded ONLY by the 3 dB minimum-gain allowance: the property's "capable" does not arbitrate whether such a
\* model (used with input padding) should have been preferred
OnlyBelowMinGain(a, c, m) ==
    /\ Usable(a, c) /\ ~a.raman
    /\ c.g <= a.gmin - MinGainAllowance + m
    /\ c.g < a.flat + c.ext - m /\ c.p < a.pmax - m

-----------------------------------------------------------------------------
(* The clauses for one selection: lib, context c, chosen model x.  m = boundary margin, tnf = NF tolerance.       *)
ChosenPermittedAt(lib, c, x)    == \E a \in Permitted(lib, c) : a.id = x.id
CoversBandAt(c, x)              == Covers(x, c)
RamanOnlyIfAllowedAt(c, x)      == x.raman => RamanOK(c)
CapableIfPossibleAt(lib, c, x, m) == CapableSet(lib, c, m) # {} => Capable(x, c, 0 - m)
QuietestCapableAt(lib, c, x, m, tnf) ==
    CapableSet(lib, c, m) # {} => \A a \in CapableSet(lib, c, m) : x.nf <= a.nf + tnf

\* the admissible choices (used by the model and emitted as the expectation of B2)
Admissible(lib, c) ==
    LET cap == CapableSet(lib, c, 0)
    IN IF cap # {} THEN {a \in cap : \A b \in cap : a.nf <= b.nf}
       ELSE {a \in Permitted(lib, c) : Usable(a, c)}

ClauseNames == {"ChosenPermitted", "CoversBand", "RamanOnlyIfAllowed", "CapableIfPossible", "QuietestCapable"}
FailedAt(lib, c, x, m, tnf) ==
    {n \in ClauseNames :
        \/ n = "ChosenPermitted" /\ ~ChosenPermittedAt(lib, c, x)
        \/ n = "CoversBand" /\ ~CoversBandAt(c, x)
        \/ n = "RamanOnlyIfAllowed" /\ ~RamanOnlyIfAllowedAt(c, x)
        \/ n = "CapableIfPossible" /\ ~CapableIfPossibleAt(lib, c, x, m)
        \/ n = "QuietestCapable" /\ ~QuietestCapableAt(lib, c, x, m, tnf)}

-----------------------------------------------------------------------------
(* Multiband amplifiers.  A multiband type is a group of single-band models.  The models put in the bands of one     *)
(* multiband amplifier must all belong to ONE admitted group, each must cover the band it serves, and the type the     *)
(* amplifier ends up with must be such a group.  Admitted: the operator's own multiband type when one is given         *)
(* (ptype), else the types listed by the variety list / ROADM restriction, else those allowed for design.             *)
(* groups : set of [idx, alw, listed, members : set of ids]; hasList : a variety / ROADM restriction applies;           *)
(* ptype : idx of the operator-chosen type or NONE; chosen : set of [id, fmin, fmax, bfmin, bfmax]                      *)
GroupPermitted(gr, hasList) == IF hasList THEN gr.listed ELSE gr.alw
GroupAdmitted(gr, hasList, ptype) == IF ptype # NONE THEN gr.idx = ptype ELSE GroupPermitted(gr, hasList)
MemberOfAdmittedGroupAt(groups, hasList, ptype, id) ==
    \E gr \in groups : GroupAdmitted(gr, hasList, ptype) /\ id \in gr.members
OneGroupAt(groups, hasList, ptype, chosen) ==
    \E gr \in groups : GroupAdmitted(gr, hasList, ptype) /\ {x.id : x \in chosen} \subseteq gr.members
NamedGroupAdmittedAt(groups, hasList, ptype, named, chosen) ==
    \E gr \in groups : gr.idx = named /\ GroupAdmitted(gr, hasList, ptype) /\ {x.id : x \in chosen} \subseteq gr.members
EveryMemberCoversItsBandAt(chosen) == \A x \in chosen : x.fmin <= x.bfmin /\ x.fmax >= x.bfmax

(* Capability and noise of a multiband amplifier as a whole.  sels : set of [c, lib, x] - one per band: the context of    *)
(* the band (required gain and power, design band, fibre), the single-band library with each model's NF at that gain,     *)
(* and the model chosen for the band.  A group is capable when, in every band, it has a member covering the band that     *)
(* is capable there.  If some admitted group is capable, every chosen band model must be; and the choice must not be      *)
(* DOMINATED: no admitted capable group may be quieter than the chosen models in every band (which band to favour when    *)
(* groups trade noise between bands is not decided by the property).                                                     *)
Serving(gr, s) == {a \in s.lib : a.id \in gr.members /\ Covers(a, s.c)}
GroupCapableAt(gr, sels, m) == \A s \in sels : \E a \in Serving(gr, s) : Capable(a, s.c, m)
GroupDominatesAt(gr, sels, m, tnf) ==
    \A s \in sels : \E a \in Serving(gr, s) : Capable(a, s.c, m) /\ a.nfok /\ s.x.nfok /\ a.nf + tnf < s.x.nf
GroupCapableIfPossibleAt(groups, hasList, ptype, sels, m) ==
    (\E gr \in groups : GroupAdmitted(gr, hasList, ptype) /\ GroupCapableAt(gr, sels, m))
        => \A s \in sels : Capable(s.x, s.c, 0 - m)
NotDominatedByCapableGroupAt(groups, hasList, ptype, sels, m, tnf) ==
    ~\E gr \in groups : GroupAdmitted(gr, hasList, ptype) /\ GroupDominatesAt(gr, sels, m, tnf)
==============================================================================
