------------------------------ MODULE MC_OmsBands ------------------------------
(* C15 part B, bounded: every assignment of amplifier band layouts to the OMS of a 3-ROADM line.            *)
(* One initial state per layout (function-shaped); the invariants relate the two formulations of           *)
(* "usable" and state the map clauses on the spec's own ExpectedMap; Emit hands every layout to the harness. *)
EXTENDS FlexGrid, TLC, Json
CONSTANTS Ids, Extents, MaxOcc
VARIABLES maps, before, phase, nocc, post
INSTANCE OmsMap

C       == {<<-30, 30>>}
L       == {<<-70, -45>>}
CL      == {<<-70, -45>>, <<-30, 30>>}
NarrowC == {<<-20, 20>>}
TopLow  == {<<-30, 22>>}
BotHigh == {<<-22, 30>>}
Wide    == {<<-70, 30>>}                               \* one band straddling both bands of a C+L amplifier
Tri     == {<<-70, -45>>, <<-30, -5>>, <<5, 30>>}      \* three bands
CL2     == {<<-70, -50>>, <<-25, 30>>}                 \* same outer range as CL, other inner edges
Sliver  == {<<-48, 30>>}                               \* overlaps the L band of L / CL by four slots only: a usable band narrower than two guard bands
Menu    == {C, L, CL, NarrowC, TopLow, BotHigh, Wide, Tri, CL2, Sliver}
\* an OMS carries two amplifiers IN ORDER (booster, preamp): the common band must not depend on the order
AmpPairs == Menu \X Menu

VARIABLE lay                      \* lay[o] = <<booster, preamp>> (each a set of bands) on OMS group o
Groups == 1..2                    \* group 1: link A-B both directions, 2: link B-C both directions
AmpsOf(o) == {lay[o][1], lay[o][2]}
NonEmptyCommon(amps) == {k \in -80..40 : CommonAt(amps, k)} # {}   \* (a set, not \E: TLC would fan out initial states)
BInit == /\ lay \in [Groups -> AmpPairs]
         /\ \A o \in Groups : NonEmptyCommon(AmpsOf(o))
         /\ maps = <<>> /\ before = <<>> /\ phase = "bands" /\ nocc = 0 /\ post = <<>>
BNext == FALSE /\ UNCHANGED <<lay, maps, before, phase, nocc, post>>

Ext == Hull(UNION {AmpsOf(o) : o \in Groups})
TwoFormulationsAgree == \A o \in Groups : MeetAgreesWithPointwise(AmpsOf(o), Ext)
MapCoversExtent      == \A o \in Groups : DOMAIN ExpectedMap(AmpsOf(o), Ext) = Ext[1]..Ext[2]
SomeUsable           == \A o \in Groups : \E k \in Ext[1]..Ext[2] : ExpectedMap(AmpsOf(o), Ext)[k] = "F"
\* bands of an amplifier as a sequence in increasing order
BandSeq(a) == LET n == Cardinality(a)
                  lo(S) == CHOOSE b \in S : \A c \in S : b[1] <= c[1]
                  b1 == lo(a)
              IN IF n = 1 THEN <<b1>>
                 ELSE LET b2 == lo(a \ {b1}) IN IF n = 2 THEN <<b1, b2>> ELSE <<b1, b2, lo(a \ {b1, b2})>>
Emit == PrintT("@@" \o ToJson([lay |-> [o \in Groups |-> [i \in 1..2 |-> BandSeq(lay[o][i])]], ext |-> Ext]))
==============================================================================
