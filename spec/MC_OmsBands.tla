------------------------------ MODULE MC_OmsBands ------------------------------
(* C15 part B, bounded: every assignment of amplifier band layouts to the OMS of a 3-ROADM line.            *)
(* One initial state per layout (function-shaped); the invariants relate the two formulations of           *)
(* "usable" and state the map clauses on the spec's own ExpectedMap; Emit hands every layout to the harness. *)
EXTENDS FlexGrid, TLC, Json
CONSTANTS Ids, Extents, MaxOcc
VARIABLES maps, before, phase, nocc
INSTANCE OmsMap

C       == {<<-30, 30>>}
L       == {<<-70, -45>>}
CL      == {<<-70, -45>>, <<-30, 30>>}
NarrowC == {<<-20, 20>>}
TopLow  == {<<-30, 22>>}
BotHigh == {<<-22, 30>>}
Menu    == {C, L, CL, NarrowC, TopLow, BotHigh}
AmpSets == {S \in SUBSET Menu : Cardinality(S) \in {1, 2}}

VARIABLE lay                      \* lay[o] = set of amplifiers (each a set of bands) on OMS group o
Groups == 1..3                    \* group 1: link A-B forward, 2: link A-B reverse, 3: link B-C both directions
NonEmptyCommon(amps) == {k \in -80..40 : CommonAt(amps, k)} # {}   \* (a set, not \E: TLC would fan out initial states)
BInit == /\ lay \in [Groups -> AmpSets]
         /\ \A o \in Groups : NonEmptyCommon(lay[o])
         /\ maps = <<>> /\ before = <<>> /\ phase = "bands" /\ nocc = 0
BNext == FALSE /\ UNCHANGED <<lay, maps, before, phase, nocc>>

Ext == Hull(UNION {lay[o] : o \in Groups})
TwoFormulationsAgree == \A o \in Groups : MeetAgreesWithPointwise(lay[o], Ext)
MapCoversExtent      == \A o \in Groups : DOMAIN ExpectedMap(lay[o], Ext) = Ext[1]..Ext[2]
SomeUsable           == \A o \in Groups : \E k \in Ext[1]..Ext[2] : ExpectedMap(lay[o], Ext)[k] = "F"
AmpSeq(S) == LET a == CHOOSE x \in S : TRUE IN IF Cardinality(S) = 1 THEN <<a, a>> ELSE <<a, CHOOSE y \in S : y # a>>
BandSeq(a) == LET lo == CHOOSE b \in a : \A c \in a : b[1] <= c[1] IN IF Cardinality(a) = 1 THEN <<lo>> ELSE <<lo, CHOOSE c \in a : c # lo>>
Emit == PrintT("@@" \o ToJson([lay |-> [o \in Groups |-> [i \in 1..2 |-> BandSeq(AmpSeq(lay[o])[i])]], ext |-> Ext]))
==============================================================================
