------------------------------ MODULE MC_NliLaws ------------------------------
EXTENDS NliLaws
MCChan == 1..3
\* an asymmetric non-negative coefficient table incl. a zero (far-away channel) and a dominant diagonal
MCEta == [i \in MCChan |-> [j \in MCChan |-> IF i = j THEN 3 ELSE IF (i = 1 /\ j = 3) THEN 0 ELSE i + j]]
==============================================================================
