--------------------------- MODULE Trace_Workbook ---------------------------
(* B2/B3 judge for C20.  One trace line = one workbook (abstract: enumerated by MC_Workbook and written to    *)
(* .xlsx by the harness; or read from a shipped .xls/.xlsx) together with what the REAL xls_to_json_data,     *)
(* network_from_json, designed_network and the service-sheet conversion did with the file.                    *)
(* Monitor-shaped: stages Convert, Load, Services; `viol` accumulates <<stage, clause>>.                      *)
EXTENDS Workbook, Json, IOUtils

T == ndJsonDeserialize(IOEnv.TRACE_FILE)
Tol == 10          \* micro-dB on the dBm -> W -> dBm round trip of the service power (measured deviation: 0)

VARIABLES tid, i, viol
vars == <<tid, i, viol>>
Stages == <<"Convert", "Load", "Services">>

Valid(tr) == ErrorKinds(tr.wb) = {} /\ ~Undecided(tr.wb) /\ ~Inconsistent(tr.wb)

StageClauses(tr, stage) ==
  LET w == tr.wb
      ob == tr.obs IN
  CASE stage = "Convert" ->
         IF ErrorKinds(w) # {} THEN (IF ob.status = "error" THEN {} ELSE {"RejectedWithTopologyError"})
         ELSE IF Undecided(w) THEN {}
         \* rejected, or converted: then nothing dangles AND every FUSED / amplifier site of degree 2 is crossed through
         \* its own elements (two separate verdicts: orphan elements are one thing, a site by-passed by a direct
         \* fibre -> fibre splice another)
         ELSE IF Inconsistent(w) THEN (IF ob.status = "error" THEN {}
                                       ELSE IF ob.status # "ok" THEN {"InconsistentRowsRejectedOrWired"}
                                       ELSE (IF WiringFailing(w, ob.topo) = {} THEN {} ELSE {"InconsistentRowsRejectedOrWired"})
                                            \cup CrossingFailing(w, ob.topo))
         ELSE IF ob.status # "ok" THEN {"ConvertsValidWorkbook"}
         ELSE Failing(w, ob.topo)
    [] stage = "Load" ->
         IF ~Valid(tr) \/ ob.status # "ok" THEN {}
         ELSE (IF tr.judge_design /\ ob.load # "ok" THEN {"Loadable"} ELSE {})
              \* auto-design is C08's subject; here only: a converted network with at least one ROADM site designs
              \cup (IF ob.load = "ok" /\ tr.judge_design /\ (\E c \in Cities(w) : EffType(w, c) = "ROADM") /\ ob.design # "ok"
                    THEN {"Designable"} ELSE {})
    [] stage = "Services" ->
         IF ~Valid(tr) \/ ob.status # "ok" \/ w.services = <<>> \/ ~tr.judge_services \/ Failing(w, ob.topo) # {} THEN {}
         ELSE IF ob.svc.status # "ok" THEN {"ServicesConvert"}
         ELSE ServiceFailing(w, ob.topo, ob.svc, tr.bidir, Tol)

Init == tid \in 1..Len(T) /\ i = 0 /\ viol = {}
Next == /\ i < Len(Stages)
        /\ i' = i + 1 /\ tid' = tid
        /\ viol' = viol \cup {<<Stages[i + 1], c>> : c \in StageClauses(T[tid], Stages[i + 1])}
Done == i < Len(Stages) \/ PrintT("@@" \o ToJson([name |-> T[tid].name, n |-> i, viol |-> viol,
                                                  kinds |-> ErrorKinds(T[tid].wb), undecided |-> Undecided(T[tid].wb),
                                                  inconsistent |-> Inconsistent(T[tid].wb)]))
==============================================================================
