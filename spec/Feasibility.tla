------------------------------ MODULE Feasibility ------------------------------
(* C13 - the verdict on one service request, as a state machine at the grain of the code:                     *)
(*   Propagate(b)   the spectrum of baud-rate group b is sent down a PRISTINE path; the receiver keeps the    *)
(*                  line-only figure (the raw values of the Transceiver)                                       *)
(*   Evaluate(i)    the receiver figures are recomputed for mode i (update_snr: transmitter OSNR and every     *)
(*                  crossed add/drop OSNR are added to the LINE figure, never to the previous result), the     *)
(*                  penalties are interpolated, and the worst channel is compared with OSNR + margin           *)
(*   Reverse        the same for the opposite direction when the request is bidirectional                      *)
(* The machine explores the largest unexplored fitting mode first.  What the property demands of the outcome  *)
(* is stated separately (FeasibilityOps.AutoClauses / FixedClauses) and checked as invariants, so the order of *)
(* exploration is the machine's business and not part of the property.                                        *)
EXTENDS FeasibilityOps

CONSTANTS Libs,        \* the transceiver libraries considered: each a sequence of mode records
                       \*   [br, rate, fits, worst, thr, tx]   (tx: reciprocal transmitter OSNR)
          Adds,        \* reciprocal OSNR of the add/drop stages crossed by the path, one entry per stage
          LineInv,     \* [baud rate -> reciprocal line GSNR delivered by a pristine path for that group]
          RevMargins   \* margins (worst - thr, micro-dB) the reverse direction may show

VARIABLES lib,        \* the library of the request's transceiver
          req,        \* [auto |-> BOOLEAN, mode |-> index (fixed mode), bidir |-> BOOLEAN]
          pc,         \* "start", "explore", "reverse", "done"
          explored,   \* set of mode indices already evaluated
          curBr,      \* baud rate of the spectrum currently on the line (0: nothing propagated yet)
          line,       \* reciprocal line figure held by the receiver (raw value)
          rx,         \* reciprocal receiver figure after the last update
          last,       \* index of the mode of the last update (0: none)
          nUpdates,   \* HISTORY: how many times the receiver figures have been recomputed on this path
          rev,        \* margin observed on the reverse direction (NotRun: not propagated; -Inf: infinite penalty)
          out         \* [sel, block]
vars == <<lib, req, pc, explored, curBr, line, rx, last, nUpdates, rev, out>>

-----------------------------------------------------------------------------
NotRun == Inf
WithMargin(m, d) == [m EXCEPT !.worst = IF d <= -Inf THEN -Inf ELSE m.thr + d]

Requests(l) == {[auto |-> TRUE, mode |-> 0, bidir |-> b] : b \in BOOLEAN}
               \cup {[auto |-> FALSE, mode |-> i, bidir |-> b] : i \in Fitting(l), b \in BOOLEAN}

Init == /\ lib \in Libs
        /\ req \in Requests(lib)
        /\ pc = "start" /\ explored = {} /\ curBr = 0 /\ line = 0 /\ rx = 0 /\ last = 0 /\ nUpdates = 0
        /\ rev = NotRun
        /\ out = [sel |-> 0, block |-> NoBlock]

Unexplored == Fitting(lib) \ explored
\* the candidates the exploration may take next: no unexplored fitting mode is larger
Next1 == {i \in Unexplored : \A j \in Unexplored : ~Larger(lib[j], lib[i])}

\* the comparison with the threshold; inside the unjudged band either answer is allowed
Passes(m) == {ok \in BOOLEAN : (ok => ~Infeasible(m)) /\ (~ok => ~Feasible(m))}

Start == /\ pc = "start"
         /\ IF req.auto /\ Fitting(lib) = {}
            THEN /\ out' = [sel |-> 0, block |-> NoFit] /\ pc' = "done"
            ELSE /\ out' = out /\ pc' = "explore"
         /\ UNCHANGED <<lib, req, explored, curBr, line, rx, last, nUpdates, rev>>

Propagate(b) == /\ pc = "explore" /\ b # curBr
                /\ \E i \in (IF req.auto THEN Next1 ELSE {req.mode} \ explored) : lib[i].br = b
                /\ curBr' = b
                /\ line' = LineInv[b]          \* pristine: depends on the group only, not on what was explored before
                /\ rx' = LineInv[b] /\ last' = 0
                /\ UNCHANGED <<lib, req, pc, explored, nUpdates, rev, out>>

Update(i) == /\ rx' = Composed(line, lib[i].tx, Adds)      \* from the LINE figure: nothing accumulates
             /\ last' = i
             /\ nUpdates' = nUpdates + 1

AfterForward(i, ok) ==     \* outcome bookkeeping once the forward direction of mode i has been judged
    IF ok THEN /\ out' = [sel |-> i, block |-> NoBlock]
               /\ pc' = IF req.bidir THEN "reverse" ELSE "done"
    ELSE IF req.auto
         THEN IF Unexplored \ {i} = {} THEN /\ out' = [sel |-> 0, block |-> NoMode] /\ pc' = "done"
                                       ELSE /\ out' = out /\ pc' = "explore"
         ELSE /\ out' = [sel |-> i, block |-> NotFeas] /\ pc' = "done"

Evaluate(i) == /\ pc = "explore" /\ lib[i].br = curBr
               /\ i \in (IF req.auto THEN Next1 ELSE {req.mode} \ explored)
               /\ Update(i)
               /\ explored' = explored \cup {i}
               /\ \E ok \in Passes(lib[i]) : AfterForward(i, ok)
               /\ UNCHANGED <<lib, req, curBr, line, rev>>

Reverse == /\ pc = "reverse"
           /\ \E d \in RevMargins :
                LET m == WithMargin(lib[out.sel], d)
                IN /\ rev' = d
                   /\ \E ok \in Passes(m) :
                        out' = IF ok THEN out ELSE [out EXCEPT !.block = NotFeas]
           /\ pc' = "done"
           /\ UNCHANGED <<lib, req, explored, curBr, line, rx, last, nUpdates>>

Next == Start \/ (\E b \in DOMAIN LineInv : Propagate(b)) \/ (\E i \in DOMAIN lib : Evaluate(i)) \/ Reverse
Spec == Init /\ [][Next]_vars

-----------------------------------------------------------------------------
(* The clauses of C13.                                                                                        *)
Done == pc = "done"
RevRan  == rev # NotRun
RevMode == WithMargin(lib[out.sel], rev)

\* automatic mode: the forward outcome obeys every clause of the selection rule
AutoSelection ==
    (Done /\ req.auto) =>
        IF out.block = NotFeas                     \* only a bidirectional request can end like this
        THEN req.bidir /\ RevRan /\ AutoAcceptable(lib, [sel |-> out.sel, block |-> NoBlock]) /\ ~Feasible(RevMode)
        ELSE /\ AutoAcceptable(lib, out)
             /\ (req.bidir /\ out.block = NoBlock) => (RevRan /\ ~Infeasible(RevMode))

\* fixed mode: not blocked iff feasible, in both directions when bidirectional
FixedModeVerdict ==
    (Done /\ ~req.auto) =>
        /\ out.sel = req.mode
        /\ FixedAcceptable(lib[req.mode], IF RevRan THEN RevMode ELSE lib[req.mode], RevRan, out.block)
        /\ (req.bidir /\ out.block = NoBlock) => RevRan

\* a mode with an impairment outside its penalty table is never accepted
InfPenaltyAlwaysBlocks == (Done /\ out.block = NoBlock /\ out.sel # 0) => lib[out.sel].worst > -Inf

\* the receiver figure is line + tx + each add/drop once, however many updates this receiver has seen
CompositionHolds == last # 0 => rx = line + lib[last].tx + SumSeq(Adds)
LineIsPristine   == curBr # 0 => line = LineInv[curBr]

\* the rule itself: always some acceptable outcome; unique up to ties / unjudged modes; blocked <=> no feasible mode
\* (they speak about the library alone, so it is enough to evaluate them once per library: in the initial state of
\* its unidirectional automatic request)
OncePerLib == pc = "start" /\ req.auto /\ ~req.bidir
NoUnjudged(l) == \A i \in Fitting(l) : ~Unjudged(l[i])
RuleWellDefined == OncePerLib => AutoAcceptableSet(lib) # {}
SelectionUniqueUpToTies ==
    (OncePerLib /\ NoUnjudged(lib)) => LET acc == AutoAcceptableSet(lib) IN \A o1, o2 \in acc :
        /\ o1.block = o2.block
        /\ (o1.sel # o2.sel => ~Larger(lib[o1.sel], lib[o2.sel]) /\ ~Larger(lib[o2.sel], lib[o1.sel]))
BlockedIffNoFeasible ==
    (OncePerLib /\ NoUnjudged(lib)) =>
       (([sel |-> 0, block |-> NoMode] \in AutoAcceptableSet(lib))
            <=> (Fitting(lib) # {} /\ \A i \in Fitting(lib) : Infeasible(lib[i])))

TypeOK == /\ pc \in {"start", "explore", "reverse", "done"}
          /\ explored \subseteq DOMAIN lib
          /\ out.block \in {NoBlock, NoFit, NoMode, NotFeas}
          /\ nUpdates <= Len(lib)
==============================================================================
