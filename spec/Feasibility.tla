------------------------------ MODULE Feasibility ------------------------------
(* C13 - the verdict on one service request, as a state machine at the grain of the code:                     *)
(*   Propagate(b)   the spectrum of baud-rate group b is sent down a PRISTINE path; the receiver keeps the    *)
(*                  line-only figure (the raw values of the Transceiver)                                       *)
(*   Evaluate(i)    the receiver figures are recomputed for mode i (update_snr: transmitter OSNR and every     *)
(*                  crossed add/drop OSNR are added to the LINE figure, never to the previous result), the     *)
(*                  penalties are interpolated, and the worst channel is compared with OSNR + margin           *)
(*   Reverse        the same for the opposite direction when the request is bidirectional: on the reverse of   *)
(*                  the request's OWN route (the reverse figures are a function of the route)                  *)
(*   NextRequest    the next request of the batch (same ends, transceiver and mode - another route) starts on  *)
(*                  fresh copies; only the history of the batch (revOf) is carried over                        *)
(* The machine explores the largest unexplored fitting mode first.  What the property demands of the outcome  *)
(* is stated separately (FeasibilityOps.AutoClauses / FixedClauses) and checked as invariants, so the order of *)
(* exploration is the machine's business and not part of the property.                                        *)
EXTENDS FeasibilityOps, TLC

CONSTANTS Libs,        \* the transceiver libraries considered: each a sequence of mode records
                       \*   [br, rate, fits, worst, thr, tx]   (tx: reciprocal transmitter OSNR)
          Scenarios(_), \* library -> set of [stages, routes, flags, spectrum, si]: (si: the SI entries of the equipment
                       \*   library as listed, see FeasibilityOps.DefaultMargin; the mode records carry osnr besides thr) the add/drop stages the path crosses
                       \*   (configuration, see FeasibilityOps.StageInv); the routes of the services of the batch, one per
                       \*   service; their bidirectional flags AS WRITTEN in the service file (<<>>: the request's); a
                       \*   user-defined spectrum [carrier -> reciprocal transmitter OSNR] for fixed-mode requests (<<>>: none)
          Carriers,    \* the carriers of the spectrum, named by their frequencies (the figures of the receiver are per carrier)
          LineInv,     \* [baud rate -> reciprocal line GSNR delivered by a pristine path for that group] (carrier c
                       \*   sees LineInv[b] + c: the carriers differ)
          RevMargins   \* margins (worst - thr, micro-dB) the reverse direction may show

VARIABLES lib,        \* the library of the request's transceiver
          stages,     \* configuration of the add/drop stages crossed (profiles as listed, selected profile id or NONE)
          routes,     \* the batch: route of request 1, route of request 2, ... (same ends, transceiver, mode)
          flags,      \* bidirectional flag of every service of the batch as written (<<>>: req.bidir for all): services
                      \*   that differ in this flag are different requests - they are never merged
          si,         \* the spectral-information entries of the library as listed: [dflt, margin]
          spectrum,   \* user-defined spectrum: [carrier -> reciprocal transmitter OSNR of THAT carrier], <<>> when none
          k,          \* index of the request of the batch being served
          revOf,      \* HISTORY of the batch: [route -> margin shown by its reverse direction] for the reverse
                      \*   directions propagated so far; a pristine propagation is a function of the route
          req,        \* [auto |-> BOOLEAN, mode |-> index (fixed mode), bidir |-> BOOLEAN]
          pc,         \* "start", "explore", "reverse", "done"
          explored,   \* set of mode indices already evaluated
          curBr,      \* baud rate of the spectrum currently on the line (0: nothing propagated yet)
          line,       \* reciprocal line figure held by the receiver (raw value)
          rx,         \* reciprocal receiver figure after the last update
          last,       \* index of the mode of the last update (0: none)
          nUpdates,   \* HISTORY: how many times the receiver figures have been recomputed on this path
          rev,        \* margin observed on the reverse direction (NotRun: not propagated; -Inf: infinite penalty)
          out         \* [sel, block]
vars == <<lib, stages, routes, flags, si, spectrum, k, revOf, req, pc, explored, curBr, line, rx, last, nUpdates, rev, out>>
Adds(c) == AddsOf(stages, c)        \* a carrier is identified by its frequency: what a stage contributes may depend on it
route == routes[k]
Bidir == IF flags = <<>> THEN req.bidir ELSE flags[k]        \* what THIS service asked for
\* the transmitter figure of a carrier: its own one in a user-defined spectrum, else the mode's
TxOf(i, c) == IF spectrum = <<>> THEN lib[i].tx ELSE spectrum[c]
AllCarriers(v) == [c \in Carriers |-> v]

-----------------------------------------------------------------------------
NotRun == Inf
WithMargin(m, d) == [m EXCEPT !.worst = IF d <= -Inf THEN -Inf ELSE m.thr + d]

Requests(l) == {[auto |-> TRUE, mode |-> 0, bidir |-> b] : b \in BOOLEAN}
               \cup {[auto |-> FALSE, mode |-> i, bidir |-> b] : i \in Fitting(l), b \in BOOLEAN}

Init == /\ lib \in Libs
        /\ req \in Requests(lib)
        /\ \E sc \in Scenarios(lib) : /\ stages = sc.stages /\ routes = sc.routes /\ flags = sc.flags /\ si = sc.si
                                      /\ spectrum = IF req.auto THEN <<>> ELSE sc.spectrum
        /\ k = 1 /\ revOf = <<>>
        /\ pc = "start" /\ explored = {} /\ curBr = 0 /\ line = AllCarriers(0) /\ rx = AllCarriers(0) /\ last = 0 /\ nUpdates = 0
        /\ rev = NotRun
        /\ out = [sel |-> 0, block |-> NoBlock]

Unexplored == Fitting(lib) \ explored
\* the candidates the exploration may take next: no unexplored fitting mode is larger
Next1 == {i \in Unexplored : \A j \in Unexplored : ~Larger(lib[j], lib[i])}

\* the comparison with the threshold; inside the unjudged band either answer is allowed
Passes(m) == {ok \in BOOLEAN : (ok => ~Infeasible(m)) /\ (~ok => ~Feasible(m))}

Start == /\ pc = "start"
         /\ IF req.auto /\ Fitting(lib) = {}
            THEN /\ out' = [sel |-> 0, block |-> NoFit] /\ pc' = "done"
            ELSE /\ out' = out /\ pc' = "explore"
         /\ UNCHANGED <<lib, stages, routes, flags, si, spectrum, k, revOf, req, explored, curBr, line, rx, last, nUpdates, rev>>

Propagate(b) == /\ pc = "explore" /\ b # curBr
                /\ \E i \in (IF req.auto THEN Next1 ELSE {req.mode} \ explored) : lib[i].br = b
                /\ curBr' = b
                /\ line' = [c \in Carriers |-> LineInv[b] + c]   \* pristine: the group only, not what was explored before
                /\ rx' = [c \in Carriers |-> LineInv[b] + c] /\ last' = 0
                /\ UNCHANGED <<lib, stages, routes, flags, si, spectrum, k, revOf, req, pc, explored, nUpdates, rev, out>>

Update(i) == /\ rx' = [c \in Carriers |-> Composed(line[c], TxOf(i, c), Adds(c))]   \* from the LINE figure of the carrier,
                                                                                  \* with the carrier's own transmitter
             /\ last' = i
             /\ nUpdates' = nUpdates + 1

AfterForward(i, ok) ==     \* outcome bookkeeping once the forward direction of mode i has been judged
    IF ok THEN /\ out' = [sel |-> i, block |-> NoBlock]
               /\ pc' = IF Bidir THEN "reverse" ELSE "done"
    ELSE IF req.auto
         THEN IF Unexplored \ {i} = {} THEN /\ out' = [sel |-> 0, block |-> NoMode] /\ pc' = "done"
                                       ELSE /\ out' = out /\ pc' = "explore"
         ELSE /\ out' = [sel |-> i, block |-> NotFeas] /\ pc' = "done"

Evaluate(i) == /\ pc = "explore" /\ lib[i].br = curBr
               /\ i \in (IF req.auto THEN Next1 ELSE {req.mode} \ explored)
               /\ Update(i)
               /\ explored' = explored \cup {i}
               /\ \E ok \in Passes(lib[i]) : AfterForward(i, ok)
               /\ UNCHANGED <<lib, stages, routes, flags, si, spectrum, k, revOf, req, curBr, line, rev>>

\* the reverse direction of THIS request's route: whatever the batch propagated before, the figures are those of a
\* pristine propagation of that route (the same as before if the batch already went that way, free otherwise)
Reverse == /\ pc = "reverse"
           /\ \E d \in (IF route \in DOMAIN revOf THEN {revOf[route]} ELSE RevMargins) :
                LET m == WithMargin(lib[out.sel], d)
                IN /\ rev' = d
                   /\ revOf' = IF route \in DOMAIN revOf THEN revOf ELSE revOf @@ (route :> d)
                   /\ \E ok \in Passes(m) :
                        out' = IF ok THEN out ELSE [out EXCEPT !.block = NotFeas]
           /\ pc' = "done"
           /\ UNCHANGED <<lib, stages, routes, flags, si, spectrum, k, req, explored, curBr, line, rx, last, nUpdates>>

NextRequest == /\ pc = "done" /\ k < Len(routes)
               /\ k' = k + 1
               /\ pc' = "start" /\ explored' = {} /\ curBr' = 0 /\ line' = AllCarriers(0) /\ rx' = AllCarriers(0) /\ last' = 0 /\ nUpdates' = 0
               /\ rev' = NotRun
               /\ out' = [sel |-> 0, block |-> NoBlock]
               /\ UNCHANGED <<lib, stages, routes, flags, si, spectrum, revOf, req>>

Next == Start \/ (\E b \in DOMAIN LineInv : Propagate(b)) \/ (\E i \in DOMAIN lib : Evaluate(i)) \/ Reverse
        \/ NextRequest
Spec == Init /\ [][Next]_vars

-----------------------------------------------------------------------------
(* The clauses of C13.                                                                                        *)
Done == pc = "done"
RevRan  == rev # NotRun
RevMode == WithMargin(lib[out.sel], rev)

\* automatic mode: the forward outcome obeys every clause of the selection rule
AutoSelection ==
    (Done /\ req.auto) =>
        IF out.block = NotFeas                     \* only a bidirectional request can end like this
        THEN Bidir /\ RevRan /\ AutoAcceptable(lib, [sel |-> out.sel, block |-> NoBlock]) /\ ~Feasible(RevMode)
        ELSE /\ AutoAcceptable(lib, out)
             /\ (Bidir /\ out.block = NoBlock) => (RevRan /\ ~Infeasible(RevMode))

\* fixed mode: not blocked iff feasible, in both directions when bidirectional
FixedModeVerdict ==
    (Done /\ ~req.auto) =>
        /\ out.sel = req.mode
        /\ FixedAcceptable(lib[req.mode], IF RevRan THEN RevMode ELSE lib[req.mode], RevRan, out.block)
        /\ (Bidir /\ out.block = NoBlock) => RevRan

\* a mode with an impairment outside its penalty table is never accepted
InfPenaltyAlwaysBlocks == (Done /\ out.block = NoBlock /\ out.sel # 0) => lib[out.sel].worst > -Inf

\* the receiver figure is line + tx + each add/drop once, however many updates this receiver has seen; what a stage
\* contributes is the profile the configuration selects for it (id 0 included), else the first listed of its kind
\* - per carrier, with the transmitter figure of THAT carrier and, when the profile lists several frequency ranges, the
\* first listed range that contains THAT carrier
CompositionHolds == last # 0 => \A c \in Carriers : rx[c] = line[c] + TxOf(last, c) + SumSeq(AddsOf(stages, c))
\* the threshold a mode is judged against is its required OSNR plus the margin of the DEFAULT SI entry, wherever that
\* entry is listed
ThresholdOfDefaultSI == \A i \in DOMAIN lib : lib[i].thr = Threshold(lib[i].osnr, si)
\* a service that did not ask for the reverse direction is never judged on it, one that did always is
DirectionAsRequested == (Done /\ ~Bidir) => ~RevRan
\* the reverse figures a request is judged on are those of its own route, whatever the batch did before
ReverseOnOwnRoute == RevRan => (route \in DOMAIN revOf /\ rev = revOf[route])
LineIsPristine   == curBr # 0 => \A c \in Carriers : line[c] = LineInv[curBr] + c

\* the rule itself: always some acceptable outcome; unique up to ties / unjudged modes; blocked <=> no feasible mode
\* (they speak about the library alone, so it is enough to evaluate them once per library: in the initial state of
\* its unidirectional automatic request)
OncePerLib == pc = "start" /\ req.auto /\ ~req.bidir /\ k = 1 /\ Len(routes) = 1 /\ flags = <<>> /\ Len(si) = 1 /\ (\A j \in 1..Len(stages) : stages[j].sel = NONE /\ stages[j].profiles = <<>>)
NoUnjudged(l) == \A i \in Fitting(l) : ~Unjudged(l[i])
RuleWellDefined == OncePerLib => AutoAcceptableSet(lib) # {}
SelectionUniqueUpToTies ==
    (OncePerLib /\ NoUnjudged(lib)) => LET acc == AutoAcceptableSet(lib) IN \A o1, o2 \in acc :
        /\ o1.block = o2.block
        /\ (o1.sel # o2.sel => ~Larger(lib[o1.sel], lib[o2.sel]) /\ ~Larger(lib[o2.sel], lib[o1.sel]))
BlockedIffNoFeasible ==
    (OncePerLib /\ NoUnjudged(lib)) =>
       (([sel |-> 0, block |-> NoMode] \in AutoAcceptableSet(lib))
            <=> (Fitting(lib) # {} /\ \A i \in Fitting(lib) : Infeasible(lib[i])))

TypeOK == /\ pc \in {"start", "explore", "reverse", "done"}
          /\ explored \subseteq DOMAIN lib
          /\ out.block \in {NoBlock, NoFit, NoMode, NotFeas}
          /\ nUpdates <= Len(lib)
          /\ k \in 1..Len(routes)
          /\ \A j \in 1..Len(stages) : StageOK(stages[j])
==============================================================================
