"""Check bookkeeping: violations, known findings, replay files, evidence, exit codes.

exit 0: property held on everything explored (known findings are printed as KNOWN-FINDING lines)
exit 1: at least one VIOLATION not listed in known_findings.json
exit 2: machinery failure (TLC crash, model-level invariant violated, vacuity, harness exception)
"""
import hashlib
import json
import os
import sys
import time
import traceback
from pathlib import Path

ROOT = Path(__file__).resolve().parent.parent
EVID = ROOT / 'evidence'
REPLAYS = EVID / 'replays'
KNOWN = ROOT / 'known_findings.json'


class Machinery(Exception):
    pass


def load_known():
    if not KNOWN.exists():
        return []
    return json.loads(KNOWN.read_text())['findings']


class Check:
    def __init__(self, pid, tier='quick', seed=None, replay=None):
        self.pid = pid
        self.tier = tier
        self.seed = int(os.environ.get('VERIF_SEED', '0') if seed is None else seed)
        self.t0 = time.time()
        self.states = 0
        self.transitions = 0
        self.traces = 0
        self.evaluations = 0
        self.nontrivial = set()
        self.samples = []
        self.assumptions = []
        self.cov = {}
        self.violations = []       # (signature, detail dict)
        self.mc_runs = []
        self.replay = replay
        self.known = [k for k in load_known() if k['property'] == pid and k.get('status') == 'finding']
        self.exhaustive = False
        self.mutant = os.environ.get('VERIF_MUTANT')

    # ---- bookkeeping --------------------------------------------------------------------------------------------
    def add_mc(self, name, res, require_ok=True):
        """register an exhaustive / simulation TLC run of the bounded model (B1)"""
        self.mc_runs.append(dict(model=name, **res.as_dict()))
        self.states += res.distinct
        self.transitions += res.generated
        if require_ok and not res.ok:
            what = f'invariant/property {res.violated} violated IN THE MODEL' if res.violated else res.error
            raise Machinery(f'TLC run {name} failed: {what}\n{res.out[-3000:]}')

    def sample(self, obj, limit=4):
        if len(self.samples) < limit:
            self.samples.append(obj)

    def case(self, key=None, nontrivial=True):
        self.evaluations += 1
        if nontrivial and key is not None:
            if len(self.nontrivial) < 2_000_000:
                self.nontrivial.add(key if isinstance(key, (str, int, tuple)) else json.dumps(key, sort_keys=True))

    def violation(self, signature, detail):
        """signature: stable string naming the class of failing input (used for known-finding matching)"""
        self.violations.append((signature, detail))

    def assume(self, text):
        if text not in self.assumptions:
            self.assumptions.append(text)

    # ---- finish ---------------------------------------------------------------------------------------------------
    def finish(self, extra_cov=None):
        EVID.mkdir(exist_ok=True)
        rdir = REPLAYS / self.pid
        rdir.mkdir(parents=True, exist_ok=True)
        for f in rdir.glob('*.json'):
            f.unlink()
        by_sig = {}
        for sig, det in self.violations:
            by_sig.setdefault(sig, []).append(det)
        new = 0
        lines = []
        for sig, dets in by_sig.items():
            known = next((k for k in self.known if k['signature'] == sig), None)
            if known:
                lines.append(f'KNOWN-FINDING: property={self.pid} {known["what"]} [{len(dets)} case(s)]')
                continue
            new += 1
            h = hashlib.sha1(sig.encode()).hexdigest()[:10]
            path = rdir / f'{h}.json'
            path.write_text(json.dumps(dict(property=self.pid, signature=sig, count=len(dets), cases=dets[:5]),
                                       indent=1, default=str))
            lines.append(f'VIOLATION property={self.pid} replay={path}  # {sig} ({len(dets)} case(s))')
        cov = dict(states=self.states, transitions=self.transitions, traces_validated_against_impl=self.traces,
                   samples=self.samples or ['(none)'], evaluations=self.evaluations,
                   distinct_nontrivial=len(self.nontrivial), exhaustive=self.exhaustive, model_runs=self.mc_runs)
        cov.update(self.cov)
        cov.update(extra_cov or {})
        ev = dict(property_id=self.pid, tier=self.tier, seed=self.seed, level='model_checking', coverage=cov,
                  assumptions=self.assumptions, wall_s=round(time.time() - self.t0, 2),
                  violations=new)
        if self.mutant:
            ev['mutant'] = self.mutant
            (EVID / 'selftest').mkdir(exist_ok=True)
            (EVID / 'selftest' / f'{self.pid}.{self.mutant}.json').write_text(json.dumps(ev, indent=1, default=str))
        else:
            (EVID / f'{self.pid}.json').write_text(json.dumps(ev, indent=1, default=str))
        for ln in lines:
            print(ln)
        print(f'{self.pid} {self.tier}: states={self.states} transitions={self.transitions} traces={self.traces} '
              f'evaluations={self.evaluations} violations={new} known={len(by_sig) - new} '
              f'wall={ev["wall_s"]}s')
        return 1 if new else 0


def main_wrapper(fn, pid):
    """run a check function, mapping exceptions to exit 2"""
    try:
        return fn()
    except Machinery as ex:
        print(f'MACHINERY-FAILURE property={pid}: {ex}', file=sys.stderr)
        return 2
    except Exception:                                            # noqa
        print(f'MACHINERY-FAILURE property={pid}: harness exception', file=sys.stderr)
        traceback.print_exc()
        return 2
