"""Helpers shared by the C08 / C17 checks: concretise a TLC-enumerated design case (abstract input graph + Span
settings) into topology JSON + equipment, run the real auto-design, and project networks / exported documents to the
integer-and-string records judged by spec/Trace_Design.tla.  Python here only encodes and projects; every verdict is
computed by TLC."""
import copy
import json
import math
import re
import traceback
from functools import lru_cache
from pathlib import Path

from harness.gnpy_util import EX, TD, NONE, udb

UDB = 1_000_000
RAMAN_OPERATIONAL = {'temperature': 283,
                     'raman_pumps': [{'power': 224.403e-3, 'frequency': 205e12, 'propagation_direction': 'counterprop'},
                                     {'power': 231.135e-3, 'frequency': 201e12, 'propagation_direction': 'counterprop'}]}


def _opt(v):
    """micro-dB integer from the model -> dB float / None"""
    return None if v == NONE else v / UDB


def _operational(u):
    op = {}
    if u['gain'] != NONE:
        op['gain_target'] = u['gain'] / UDB
        op['tilt_target'] = 0
    if u['dp'] != NONE:
        op['delta_p'] = u['dp'] / UDB
    if u['voa'] != NONE:
        op['out_voa'] = u['voa'] / UDB
    return op


# ------------------------------------------------------------------------------------------- TLC case -> real inputs
def render_topology(case):
    """abstract input graph emitted by MC_DesignStructure.Emit -> legacy topology JSON"""
    els, cx = [], []
    g = case['g']
    for e in g:
        t = e['t']
        d = {'uid': e['n'], 'type': t}
        if t in ('Fiber', 'RamanFiber'):
            d['type_variety'] = e['v']
            d['params'] = {'length': e['l'] / 1000, 'length_units': 'km', 'loss_coef': e['c'] / 1000,
                           'con_in': _opt(e['ci']), 'con_out': _opt(e['co'])}
            if e.get('ai', 0) not in (0, NONE):
                d['params']['att_in'] = e['ai'] / UDB
            o = e.get('o')
            if o == 'pmd':                                     # user PMD coefficient (library SSMF: 1.265e-15)
                d['params']['pmd_coef'] = 3e-15
            elif o == 'lumped':                                # a lumped loss in the middle of the fibre
                d['params']['lumped_losses'] = [{'position': e['l'] / 2000, 'loss': 1.5}]
            elif o == 'dispfreq':                              # chromatic dispersion given per frequency
                d['params']['dispersion_per_frequency'] = {'value': [1.6e-05, 1.67e-05, 1.75e-05],
                                                           'frequency': [191e12, 193.5e12, 196.5e12]}
            elif o == 'disp':                                  # dispersion / effective area other than the library type
                d['params'].update(dispersion=2.0e-05, effective_area=70e-12)
            if e.get('ct'):                                    # loss coefficient given per frequency (MHz, mdB/km)
                d['params']['loss_coef'] = {'value': [v / 1000 for _, v in e['ct']],
                                            'frequency': [f * 1e6 for f, _ in e['ct']]}
            if t == 'RamanFiber':
                d['operational'] = copy.deepcopy(RAMAN_OPERATIONAL)
        elif t == 'Roadm' and e.get('o') == 'impair':           # element-level impairment parameters of a ROADM
            d['params'] = {'add_drop_osnr': 30, 'pmd': 3e-12, 'pdl': 0.5}
        elif t == 'Fused':
            d['params'] = {'loss': e['lo'] / UDB}
        elif t == 'Edfa':
            u = e['u'][0]
            if u['variety']:
                d['type_variety'] = u['variety']
            op = _operational(u)
            if op:
                d['operational'] = op
        elif t == 'Multiband_amplifier':                      # user multiband site: undescribed, or one entry per band
            if e['v']:
                d['type_variety'] = e['v']
            if e['u']:
                d['amplifiers'] = [{'type_variety': u['variety'], 'operational': _operational(u)} for u in e['u']]
        if t == 'Roadm' and case['s'].get('bands', 1) == 2:       # C + a narrow L design band on every degree
            d.setdefault('params', {})['design_bands'] = [
                {'f_min': 191.3e12, 'f_max': 196.0e12, 'spacing': 50e9}, {'f_min': 187.4e12, 'f_max': 190.0e12, 'spacing': 50e9}]
        els.append(d)
    for e in g:
        for j in e['s']:
            cx.append({'from_node': e['n'], 'to_node': g[j - 1]['n']})
    return {'elements': els, 'connections': cx}


# ------------------------------------------------------------------------- DesignLifecycle document -> real inputs
# ROADM equalisation flavours: (default key, default value, per-degree key, per-degree value); the reference carrier
# (32 Gbaud in a 50 GHz slot) leaves at -20 dBm under each default and about 1 dB higher under each per-degree target
EQUALISATION = {'power': ('target_pch_out_db', -20, 'per_degree_pch_out_db', -19),
                'psd': ('target_psd_out_mWperGHz', 3.125e-4, 'per_degree_psd_out_mWperGHz', 4.0e-4),
                'psw': ('target_out_mWperSlotWidth', 2.0e-4, 'per_degree_psd_out_mWperSlotWidth', 2.5e-4)}
LOW_GAIN_ONLY = ['std_low_gain']


def render_line(doc):
    """document of spec/DesignLifecycle.tla (emitted by MC_DesignLifecycle.Emit) -> legacy topology JSON:
        trx A - roadm A - Edfa AB1 - Fiber AB2 - Edfa AB3 - roadm B - trx B     (the modelled line; B -> A: a plain fibre)
    roadm A has a second degree (plain fibres to and from roadm C) that never has a target of its own.  One model unit is
    rendered as 1 dB (5 km of fibre); a setting the document leaves open (NONE) is absent from the JSON; an amplifier whose model is `known`
    names std_medium_gain; `restrict`: roadm A only permits std_low_gain as booster, roadm B as preamplifier."""
    def loc(city):
        return {'location': {'latitude': 0.0, 'longitude': 0.0, 'city': city, 'region': 'r'}}

    def amp(uid, slot):
        d = {'uid': uid, 'type': 'Edfa', 'metadata': loc(uid[-3])}
        if slot['known']:
            d['type_variety'] = 'std_medium_gain'
        op = {}
        if slot['gain'] != NONE:
            op['gain_target'], op['tilt_target'] = float(slot['gain']), 0
        if slot['dp'] != NONE:
            op['delta_p'] = float(slot['dp'])
        if slot['voa'] != NONE:
            op['out_voa'] = float(slot['voa'])
        if op:
            d['operational'] = op
        return d

    def fibre(uid, km, con_out=None, att_in=0):
        d = {'uid': uid, 'type': 'RamanFiber' if doc['raman'] and uid == 'Fiber AB2' else 'Fiber', 'type_variety': 'SSMF',
             'metadata': loc(uid[-3:-1]),
             'params': {'length': km, 'length_units': 'km', 'loss_coef': 0.2, 'con_in': None, 'con_out': con_out}}
        if att_in:
            d['params']['att_in'] = att_in
        if d['type'] == 'RamanFiber':
            d['operational'] = copy.deepcopy(RAMAN_OPERATIONAL)
            d['params'].update(con_in=0.5, con_out=0.5 if con_out is None else con_out)
        return d
    r = doc['roadm']
    pa, pb = {}, {}
    if r['def'] != 'power':                                      # power equalisation is the library's default
        pa[EQUALISATION[r['def']][0]] = EQUALISATION[r['def']][1]
    if r['deg'] != 'none':
        pa[EQUALISATION[r['deg']][2]] = {'Edfa AB1': EQUALISATION[r['deg']][3]}
    if r['restrict']:
        pa['restrictions'] = {'preamp_variety_list': [], 'booster_variety_list': list(LOW_GAIN_ONLY)}
        pb['restrictions'] = {'preamp_variety_list': list(LOW_GAIN_ONLY), 'booster_variety_list': []}
    els = [{'uid': f'trx {x}', 'type': 'Transceiver', 'metadata': loc(x)} for x in 'ABC']
    for x, prm in (('A', pa), ('B', pb), ('C', {})):
        e = {'uid': f'roadm {x}', 'type': 'Roadm', 'metadata': loc(x)}
        if prm:
            e['params'] = prm
        els.append(e)
    els += [amp('Edfa AB1', doc['amps'][0]),
            fibre('Fiber AB2', doc['base'] * 5, None if doc['conOut'] == NONE else float(doc['conOut']), float(doc['attIn'])),
            amp('Edfa AB3', doc['amps'][1]), fibre('Fiber BA1', 80), fibre('Fiber AC1', 80), fibre('Fiber CA1', 80)]

    def chain(*uids):
        return [{'from_node': a, 'to_node': b} for a, b in zip(uids, uids[1:])]
    cx = chain('trx A', 'roadm A', 'Edfa AB1', 'Fiber AB2', 'Edfa AB3', 'roadm B', 'trx B') + \
        chain('trx B', 'roadm B', 'Fiber BA1', 'roadm A', 'trx A') + \
        chain('roadm A', 'Fiber AC1', 'roadm C', 'trx C') + chain('trx C', 'roadm C', 'Fiber CA1', 'roadm A')
    return {'elements': els, 'connections': cx}


def line_settings(cfg):
    """Span settings record of DesignLifecycle (one unit = 1 dB) -> the settings record equipment_for() takes"""
    return dict(padding=cfg['padding'] * UDB, eol=cfg['eol'] * UDB, maxLen=150000, powerMode=bool(cfg['powerMode']),
                conIn=300000, conOut=400000)


@lru_cache(maxsize=None)
def _base_eqpt():
    return json.loads((EX / 'eqpt_config.json').read_text())


_EQ_CACHE = {}


@lru_cache(maxsize=None)
def _other_eqpt():
    """another shipped library that defines amplifiers of the same names with other characteristics"""
    return json.loads((TD / 'eqpt_config.json').read_text())


_BASE_EQ = {}


def equipment_base(library='example-data'):
    """the parsed library (example-data/eqpt_config.json; 'tests-data': tests/data/eqpt_config.json; 'variant': the
    example-data library with a noisier std_low_gain - same amplifier names, other noise figures) with the automatic output-VOA optimisation enabled on two amplifier models; parsed once per process
    (call it before forking workers)"""
    if library not in _BASE_EQ:
        import gnpy.tools.json_io as jio
        d = copy.deepcopy(_other_eqpt() if library == 'tests-data' else
                          json.loads((TD / 'eqpt_config_multiband.json').read_text()) if library == 'multiband' else
                          _base_eqpt())
        for a in d['Edfa']:                                    # exercise the automatic output-VOA optimisation
            if a['type_variety'] in ('std_low_gain', 'std_medium_gain'):
                a['out_voa_auto'] = True
            if library == 'multiband':
                # this test library freezes the power rule (delta_power_range_db [0, 0, 0.5]); use the range of the example
                # libraries so that the designed delta_p follows the span loss
                d['Span'][0]['delta_power_range_db'] = [-2, 3, 0.5]
            if library == 'variant' and a['type_variety'] == 'std_low_gain':
                # a library with the same amplifier names in which one model is much noisier (another vendor's data)
                a['nf_min'], a['nf_max'] = a['nf_min'] + 4, a['nf_max'] + 4
        _BASE_EQ[library] = jio._equipment_from_json(d, jio.DEFAULT_EXTRA_CONFIG)
    return _BASE_EQ[library]


def equipment_for(s, library='example-data'):
    """Span / SI settings of a case -> equipment library: a copy of equipment_base(library) whose Span and SI entries
    carry the case's values (what loading the modified eqpt_config JSON gives)"""
    band = tuple(s.get('siBand') or ())
    units = s.get('lenUnits', 'km')
    if s.get('bands', 1) == 2 and library == 'example-data':
        library, band = 'multiband', ()       # C+L cases: tests/data/eqpt_config_multiband.json with its own SI band
    power = s.get('power', 0)
    key = (s['padding'], s['eol'], s['maxLen'], s['powerMode'], s['conIn'], s['conOut'], band, units, library, power)
    if key not in _EQ_CACHE:
        eq = copy.deepcopy(equipment_base(library))
        sp = eq['Span']['default']
        sp.padding, sp.EOL = s['padding'] / UDB, s['eol'] / UDB
        sp.max_length, sp.length_units = (s['maxLen'] if units == 'm' else s['maxLen'] / 1000), units
        sp.power_mode, sp.con_in, sp.con_out = bool(s['powerMode']), s['conIn'] / UDB, s['conOut'] / UDB
        if power:                                              # design power (reference channel power) in 0.1 dBm
            eq['SI']['default'].power_dbm = power / 10
            if eq['SI']['default'].tx_power_dbm is not None:
                eq['SI']['default'].tx_power_dbm = power / 10
        if band:                                               # SI / design band in MHz
            eq['SI']['default'].f_min, eq['SI']['default'].f_max = band[0] * 1e6, band[1] * 1e6
        _EQ_CACHE[key] = eq
    return _EQ_CACHE[key]


def settings_of(equipment, unit=100.0):
    """Span settings of a real equipment library as the spec's settings record (lengths in 1/unit metres: cm)"""
    from gnpy.core.utils import convert_length
    sp = equipment['Span']['default']
    return dict(padding=udb(sp.padding), eol=udb(sp.EOL), conIn=udb(sp.con_in), conOut=udb(sp.con_out),
                maxLen=int(round(convert_length(sp.max_length, sp.length_units) * unit)),
                powerMode=bool(sp.power_mode), lib=sorted(equipment['Edfa'].keys()), insert=True)


# ------------------------------------------------------------------------------------------------- network projection
_SPLIT = re.compile(r'^(.*)_\((\d+)/(\d+)\)$')


def _sub(amp):
    return dict(variety=amp.params.type_variety or '', gain=udb(amp.effective_gain), voa=udb(amp.out_voa),
                dp=udb(amp.delta_p))


def project_network(net, input_names=None, unit=100.0):
    """see _project_network; a failure of the projection itself is a machinery error, never a finding"""
    from harness.core import Machinery
    try:
        return _project_network(net, input_names, unit)
    except Exception as e:                                       # noqa
        raise Machinery(f'projection failed: {type(e).__name__}: {e}') from e


def _project_network(net, input_names=None, unit=100.0):
    """networkx DiGraph of gnpy elements -> list of element records of spec/DesignGraph.tla (1-based succ/pred).
    `origin` of a fibre whose uid is not an input uid but reads <input uid>_(i/k) is that input uid (encoding only:
    whether the spans really are a correct split is decided by SplitIsEqualAndConservative)."""
    import numpy as np
    from gnpy.core import elements as E
    nodes = list(net.nodes())
    idx = {id(n): i + 1 for i, n in enumerate(nodes)}
    out = []
    for n in nodes:
        t = type(n).__name__
        r = dict(name=n.uid, type=t, succ=[idx[id(x)] for x in net.successors(n)],
                 pred=[idx[id(x)] for x in net.predecessors(n)], len=0, coef=NONE, variety='', conIn=NONE, conOut=NONE,
                 attIn=NONE, loss=0, sub=[], origin='', coefTab=[], opt='', phys=[])
        if isinstance(n, E.Fiber):
            p = n.params
            r['len'] = int(round(p.length * unit))
            lc = np.atleast_1d(p.loss_coef)
            r['coef'] = int(round(float(lc[0]) * 1e9)) if lc.size == 1 else NONE      # dB/m -> micro-dB/km
            if lc.size > 1:                                    # per frequency: [[MHz, micro-dB/km], ...]
                fr = np.atleast_1d(p.f_loss_ref)
                r['coefTab'] = [[int(round(float(f) / 1e6)), int(round(float(v) * 1e9))] for f, v in zip(fr, lc)] \
                    if fr.size == lc.size else [[NONE, int(round(float(v) * 1e9))] for v in lc]
            r['variety'] = n.type_variety or ''
            r['conIn'], r['conOut'], r['attIn'] = udb(p.con_in), udb(p.con_out), udb(p.att_in)
            if p.con_in is not None and p.con_out is not None:
                r['loss'] = udb(float(n.loss))
            disp, fref = np.atleast_1d(p.dispersion), np.atleast_1d(p.f_dispersion_ref)
            r['phys'] = [int(round(float(p.pmd_coef) * 1e18)), int(bool(getattr(p, 'pmd_coef_defined', False))),
                         int(disp.size), int(fref.size)] + [int(round(float(v) * 1e9)) for v in disp] + \
                        [int(round(float(v) / 1e6)) for v in fref] + \
                        [int(round(float(p.gamma) * 1e9)), int(round(float(p._effective_area) * 1e15)),
                         len(p.lumped_losses)]
            if input_names is not None and n.uid not in input_names:
                m = _SPLIT.match(n.uid)
                if m and m.group(1) in input_names:
                    r['origin'] = m.group(1)
        elif isinstance(n, E.Fused):
            r['loss'] = udb(n.loss)
        elif isinstance(n, E.Edfa):
            r['variety'] = n.params.type_variety or ''
            r['sub'] = [_sub(n)]
        elif isinstance(n, E.Multiband_amplifier):
            r['variety'] = n.params.type_variety or ''
            r['sub'] = [_sub(a) for a in n.amplifiers.values()]
        out.append(r)
    return out


# -------------------------------------------------------------------------------------------------- export projection
def _scale(v):
    a = abs(v)
    return 1e6 if a < 2e3 else 1e3 if a < 2e6 else 1.0 if a < 2e9 else 1e-6


def _leaves(obj, path, strs, nums, scales, ekey):
    if isinstance(obj, dict):
        for k in sorted(obj):
            _leaves(obj[k], f'{path}/{k}', strs, nums, scales, ekey)
    elif isinstance(obj, (list, tuple)):
        for i, v in enumerate(obj):
            _leaves(v, f'{path}[{i}]', strs, nums, scales, ekey)
    elif obj is None:
        strs.append([path, 'null'])
    elif isinstance(obj, bool):
        strs.append([path, 'true' if obj else 'false'])
    elif isinstance(obj, (int, float)) or hasattr(obj, '__float__'):
        v = float(obj)
        if math.isnan(v) or math.isinf(v):
            strs.append([path, repr(v)])
            return
        sc = scales.setdefault((ekey, path), _scale(v))
        x = v * sc
        nums.append([path, int(round(x)) if abs(x) < 2e9 else (2_000_000_000 if x > 0 else -2_000_000_000)])
    else:
        strs.append([path, str(obj)])


def project_export(doc, scales):
    """network_to_json document -> [el: [{name, type, strs, nums}], cx: [[from, to]]], elements sorted by uid, leaves by
    path; numeric leaves scaled to integers (values below 2000 - every dB quantity - in 1e-6 units, i.e. micro-dB).
    `scales` remembers the scale chosen for (uid, path) on the first export so that later exports use the same."""
    els = []
    for e in sorted(doc['elements'], key=lambda x: str(x.get('uid'))):
        strs, nums = [], []
        body = {k: v for k, v in e.items() if k not in ('uid', 'type')}
        _leaves(body, '', strs, nums, scales, e.get('uid'))
        strs.sort()
        nums.sort()
        els.append(dict(name=str(e.get('uid')), type=str(e.get('type')), strs=strs, nums=nums))
    cx = sorted([str(c['from_node']), str(c['to_node'])] for c in doc['connections'])
    return dict(el=els, cx=cx)


# ------------------------------------------------------------------------------------------------------- running gnpy
def sim_snapshot():
    """SimParams as integers / strings (the record judged by Trace_Design.SimParamsUnchanged)"""
    from gnpy.core.parameters import SimParams
    r = SimParams._shared_dict['raman_params']
    n = SimParams._shared_dict['nli_params']
    cc = n.computed_channels
    return dict(flag=bool(r.flag), method=str(r.method), order=int(r.order),
                resultRes=int(round(r.result_spatial_resolution)), solverRes=int(round(r.solver_spatial_resolution)),
                nli=str(n.method), dispTol=int(round(n.dispersion_tolerance * 1000)),
                phaseTol=int(round(n.phase_shift_tolerance * 1000)),
                cc=[int(c) for c in cc] if cc is not None else [NONE],
                ncc=NONE if n.computed_number_of_channels is None else int(n.computed_number_of_channels),
                ramanId=0, nliId=0)


def set_sim(sp):
    """abstract SimParams setting enumerated by TLC -> SimParams.set_params"""
    from gnpy.core.parameters import SimParams
    SimParams.set_params({
        'raman_params': {'flag': bool(sp['flag']), 'method': sp['method'], 'order': sp['order'],
                         'result_spatial_resolution': float(sp['resultRes']),
                         'solver_spatial_resolution': float(sp['solverRes'])},
        'nli_params': {'method': sp['nli'], 'computed_channels': None if sp['cc'] == [NONE] else list(sp['cc']),
                       'computed_number_of_channels': None if sp['ncc'] == NONE else sp['ncc']}})


def reset_sim():
    from gnpy.core.parameters import SimParams
    SimParams.set_params({})


def design(doc, equipment, **kw):
    """load + designed_network on a private copy of a topology document; returns (input network projection source,
    designed network, req, ref)"""
    from gnpy.tools.json_io import network_from_json
    from gnpy.tools.worker_utils import designed_network
    net = network_from_json(copy.deepcopy(doc), equipment)
    names = {n.uid for n in net.nodes()}
    before = project_network(net, None, kw.pop('unit', 100.0))
    net, req, ref = designed_network(equipment, net, **kw)
    return before, names, net, req, ref


def n_procs():
    import os
    return max(2, min(8, int(os.environ.get('VERIF_TLC_WORKERS', '16'))))      # python workers are lighter than TLC's


def parallel_map(fn, items, procs=None):
    """map fn over items in forked worker processes (monkey-patched mutants are inherited by the fork); order kept"""
    import multiprocessing as mp
    procs = procs or n_procs()
    items = list(items)
    if procs <= 1 or len(items) < 8:
        return [fn(x) for x in items]
    with mp.get_context('fork').Pool(procs) as pool:
        return pool.map(fn, items, chunksize=1 if len(items) < 400 else max(1, len(items) // (procs * 16)))


def as_loadable(doc):
    """what load_network() would hand to network_from_json for this document: documents that carry the YANG-style
    per-frequency loss list need gnpy's own yang_to_legacy conversion (the only shipped case is
    tests/data/network_per_frequency_loss_expected.json); every other document is used as it is"""
    if 'loss_coef_per_frequency' in json.dumps(doc):
        from gnpy.tools.convert_legacy_yang import yang_to_legacy
        return yang_to_legacy(copy.deepcopy(doc))
    return doc


def exc_text(e):
    return f'{type(e).__name__}: {e}', ''.join(traceback.format_exception(type(e), e, e.__traceback__)[-6:])


def reference_propagation(net, req, equipment, src=None, dst=None):
    """propagate the reference channel set (the req returned by designed_network) with the real propagate() between two
    transceivers of the designed network; returns the projected result vector (micro-dB): GSNR, OSNR and received
    power, PMD, CD, latency and PDL of the first / middle / last channel, and (source uid, destination uid, number of elements crossed)"""
    import networkx as nx
    import numpy as np
    from gnpy.core import elements as E
    from gnpy.core.utils import watt2dbm
    from gnpy.topology.request import propagate
    trx = sorted((n for n in net.nodes() if isinstance(n, E.Transceiver)), key=lambda n: n.uid)
    by = {n.uid: n for n in trx}
    path = None
    if src and dst:
        path = nx.dijkstra_path(net, by[src], by[dst])
    else:
        for a in trx:
            for b in trx:
                if a is not b and nx.has_path(net, a, b):
                    path = nx.dijkstra_path(net, a, b)
                    break
            if path:
                break
    if path is None:
        return None, None
    if any(isinstance(n, E.RamanFiber) for n in path):
        # a Raman fibre can only be propagated with the Raman solver switched on (gnpy: --sim-params)
        from gnpy.core.parameters import SimParams
        keep = {'raman_params': SimParams._shared_dict['raman_params'].to_json(),
                'nli_params': SimParams._shared_dict['nli_params'].to_json()}
        SimParams.set_params({'raman_params': {'flag': True, 'result_spatial_resolution': 10e3,
                                               'solver_spatial_resolution': 2000}})
        try:
            si = propagate(path, req, equipment)
        finally:
            SimParams.set_params(keep)
    else:
        si = propagate(path, req, equipment)
    n = si.number_of_channels
    pick = sorted({0, n // 2, n - 1})
    def clip(x):
        return int(max(-2e9, min(2e9, round(x))))
    with np.errstate(divide='ignore', invalid='ignore'):
        vec = [udb(float(si.gsnr_db[k])) for k in pick] + [udb(float(si.snr_lin_db[k])) for k in pick] + \
              [udb(float(watt2dbm(si.pch[k]))) for k in pick]
        # accumulated linear impairments: PMD in attoseconds, CD in 1e-6 of the SI unit, latency in ns, PDL in micro-dB
        vec += [clip(float(si.pmd[k]) * 1e18) for k in pick] + [clip(float(si.chromatic_dispersion[k]) * 1e6) for k in pick] + \
               [clip(float(si.latency[k]) * 1e9) for k in pick] + [udb(float(si.pdl[k])) for k in pick]
    return vec, (path[0].uid, path[-1].uid, len(path))


# ------------------------------------------------------------------------------ designs in other interpreter processes
def twin_main():
    """entry point of a fresh interpreter (started with its own PYTHONHASHSEED): reads a JSON list of TLC cases on stdin,
    designs each with the real code and prints the list of exported documents (or {"error": ...})"""
    import sys
    from gnpy.tools.json_io import network_to_json
    out = []
    for c in json.load(sys.stdin):
        try:
            _, _, net, _, _ = design(render_topology(c), equipment_for(c['s']),
                                     no_insert_edfas=not c['s'].get('insert', True))
            out.append(json.loads(json.dumps(network_to_json(net))))
        except Exception as e:                                   # noqa
            out.append({'error': exc_text(e)[0]})
    sys.stdout.write('TWIN-RESULT ' + json.dumps(out) + '\n')


def designs_in_fresh_interpreters(cases, hash_seeds):
    """{seed: [export per case]}: every seed is one new python process (PYTHONHASHSEED = seed) designing all the cases"""
    import os
    import subprocess
    import sys
    from harness.core import Machinery
    procs = {}
    for seed in hash_seeds:
        env = dict(os.environ, PYTHONHASHSEED=str(seed))
        procs[seed] = subprocess.Popen([sys.executable, '-c', 'from harness.design_util import twin_main; twin_main()'],
                                       stdin=subprocess.PIPE, stdout=subprocess.PIPE, stderr=subprocess.PIPE, env=env,
                                       text=True, cwd=str(Path(__file__).resolve().parent.parent))
    res = {}
    data = json.dumps(cases)
    for seed, p in procs.items():
        out, err = p.communicate(data, timeout=1800)
        line = next((ln for ln in out.splitlines() if ln.startswith('TWIN-RESULT ')), None)
        if line is None:
            raise Machinery(f'interpreter with PYTHONHASHSEED={seed} gave no result: {err[-1500:]}')
        res[seed] = json.loads(line[len('TWIN-RESULT '):])
    return res
