"""Transmission flow (spec/Transmission.tla): real runs of worker_utils.transmission_simulation - design, then for every
step of the power range redesign + propagate - recorded per (network, mode) and judged by Trace_Transmission: the budget
closes at every step, a step's result is a function of its power alone (sweep order irrelevant), the 0 dB step is the
nominal design, a single step keeps the design, gain mode has no sweep, the reported powers follow the range."""
import json
import random

from harness import tlc
from harness.core import Machinery
from harness.gnpy_util import EX, line_or_mesh_json, udb, NONE
from harness.pipeline import sim_digest

RANGES = [[-2, 4, 2], [4, -2, -2], [2, -2, 2], [-2, 2, -2], [2, 2, 1], [0, 2, 2]]
LINES = {'quick': [[50, 80, 120], [30, 100]],
         'thorough': [[50, 80, 120], [30, 100], [140], [20, 20, 20, 60], [95, 95], [110, 45, 75]]}


def star_json(spans):
    """A - B - C plus a third degree B - D; the boosters of ROADM B are named, so that it can carry per-degree targets"""
    js = line_or_mesh_json(['A', 'B', 'C', 'D'], [('A', 'B', spans[0]), ('B', 'C', spans[1]), ('B', 'D', spans[2 % len(spans)])])
    targets = {}
    for k, y in enumerate(('A', 'C', 'D')):
        uid = f'booster B{y}'
        js['elements'].append({'uid': uid, 'type': 'Edfa', 'type_variety': 'std_medium_gain'})
        for c in js['connections']:
            if c['from_node'] == 'roadm B' and c['to_node'] == f'fiber (B -> {y})':
                c['to_node'] = uid
        js['connections'].append({'from_node': uid, 'to_node': f'fiber (B -> {y})'})
        targets[uid] = -20.0 - k
    rb = next(e for e in js['elements'] if e['uid'] == 'roadm B')
    rb['params'] = {'per_degree_pch_out_db': targets}
    return js


def _outside(net, path):
    """digest of everything a redesign of `path` has no business with: every element's exported settings except the
    amplifiers of the path (ROADMs of the path included: their other degrees must keep their targets)"""
    from gnpy.core.elements import Edfa
    from harness.pipeline import digest
    on = {e.uid for e in path if isinstance(e, Edfa)}
    return digest(sorted((e.uid, json.dumps(e.to_json, sort_keys=True, default=str)) for e in net.nodes() if e.uid not in on))


def _one_run(spans, rng, power_mode, fiber_type='SSMF', star=False, autovoa=False):
    from gnpy.tools.json_io import network_from_json, load_equipments_and_configs
    from gnpy.tools.worker_utils import designed_network, transmission_simulation
    from gnpy.core.elements import Edfa
    from gnpy.core.utils import watt2dbm
    import numpy as np
    eq = load_equipments_and_configs(EX / 'eqpt_config.json', [], [])
    eq['SI']['default'].power_range_db = list(rng)
    eq['Span']['default'].power_mode = power_mode
    if autovoa:                       # library option out_voa_auto on every amplifier model (no shipped library uses it)
        for a in eq['Edfa'].values():
            a.out_voa_auto = True
    sites = [chr(65 + i) for i in range(len(spans) + 1)]
    if star:
        js, dest = star_json(spans), 'trx C'
    else:
        js = line_or_mesh_json(sites, [(sites[i], sites[i + 1], km) for i, km in enumerate(spans)], fiber_type=fiber_type)
        dest = f'trx {sites[-1]}'
    net = network_from_json(js, eq)
    net, req, ref = designed_network(eq, net, source='trx A', destination=dest)
    pref = float(watt2dbm(ref.power))
    from gnpy.topology.request import compute_constrained_path
    out0 = _outside(net, compute_constrained_path(net, req))
    path, props, powers, _ = transmission_simulation(eq, net, req, ref)
    out1 = _outside(net, path)
    steps = []
    for p, pr in zip(powers, props):
        amps = [e for e in pr if isinstance(e, Edfa)]
        steps.append(dict(dp=udb(float(p) - pref),
                          amps=[dict(gain=udb(e.effective_gain), dp=udb(e.delta_p), voa=udb(e.out_voa or 0),
                                     out=udb(float(np.mean(e.pch_out_dbm)))) for e in amps],
                          gsnr=udb(float(np.mean(pr[-1].snr_01nm)))))
    return dict(range=[udb(x) for x in rng], powers=[udb(float(p)) for p in powers], steps=steps,
                outside0=out0, outside1=out1), udb(pref)


def record_case(name, spans, power_mode, ranges, fiber_type='SSMF', star=False, autovoa=False):
    sim0 = sim_digest()
    nominal, pref = _one_run(spans, [0, 0, 1], power_mode, fiber_type, star, autovoa)
    runs = []
    for rng in ranges:
        run, _ = _one_run(spans, rng, power_mode, fiber_type, star, autovoa)
        runs.append(run)
    return dict(name=name, mode=1 if power_mode else 0, pref=pref, nominal=nominal['steps'][0], runs=runs,
                sim0=sim0, sim1=sim_digest())


def judge(cases, chk, kind='sweep'):
    data = '\n'.join(json.dumps(c) for c in cases) + '\n'
    res = tlc.run('Trace_Transmission', extra_files={'trace.ndjson': data}, env={'TRACE_FILE': 'trace.ndjson'},
                  workers=1, timeout=900, tag='sweep-trace')
    if not res.ok:
        raise Machinery(f'Trace_Transmission failed: {res.error or res.violated}\n{res.out[-2000:]}')
    chk.states += res.distinct
    chk.transitions += res.generated
    verdicts = {v['name']: v for v in res.emitted}
    ok = 0
    for c in cases:
        v = verdicts.get(c['name'])
        if v is None or v['n'] != len(c['runs']):
            raise Machinery(f'Trace_Transmission: no verdict for {c["name"]}')
        if v['viol']:
            for clause in v['viol']:
                chk.violation(f'{kind}|{clause}|{"power" if c["mode"] else "gain"}-mode',
                              dict(case=c['name'], clause=clause, ranges=[r['range'] for r in c['runs']],
                                   runs=c['runs'], nominal=c['nominal']))
        else:
            ok += 1
    return ok


def run(chk, kind='B3|sweep'):
    """B1 of Transmission.tla + recorded sweeps judged by Trace_Transmission"""
    r = tlc.run('MC_Transmission', timeout=900, tag='sweep-mc')
    chk.add_mc('MC_Transmission (power sweep: design, redesign per step, propagate)', r)
    rng = random.Random(chk.seed)
    cases = []
    try:
        for k, spans in enumerate(LINES[chk.tier]):
            ranges = RANGES if chk.tier == 'thorough' else [RANGES[0], RANGES[1], RANGES[4]] if k == 0 else [RANGES[2], RANGES[5]]
            cases.append(record_case(f'line-{"-".join(map(str, spans))}-power', spans, True, ranges))
            if chk.tier == 'thorough' or k == 0:
                cases.append(record_case(f'line-{"-".join(map(str, spans))}-gain', spans, False, [RANGES[0]]))
        cases.append(record_case('star-60-90-40-power', [60, 90, 40], True, [RANGES[0], RANGES[1]], star=True))
        # amplifier models that optimise their output VOA: every step of the sweep designs the same amplifiers again
        for spans in LINES[chk.tier][:2 if chk.tier == 'thorough' else 1]:
            cases.append(record_case(f'line-{"-".join(map(str, spans))}-power-autovoa', spans, True,
                                     [RANGES[1]] if chk.tier == 'quick' else [RANGES[0], RANGES[1]], autovoa=True))
        if chk.tier == 'thorough':
            for k in range(4):
                spans = [rng.randrange(15, 150) for _ in range(rng.randrange(1, 5))]
                cases.append(record_case(f'line-{"-".join(map(str, spans))}-power', spans, True,
                                         rng.sample(RANGES, 3), fiber_type=rng.choice(['SSMF', 'NZDF', 'LOF'])))
    except Machinery:
        raise
    except Exception as e:                                          # noqa
        chk.violation(f'{kind}|exception|{type(e).__name__}', dict(exception=f'{type(e).__name__}: {e}'))
        return
    ok = judge(cases, chk, kind)
    chk.traces += ok
    for c in cases:
        chk.case(('sweep', c['name']), nontrivial=True)
    chk.cov['sweep_cases'] = len(cases)
    chk.cov['sweep_steps'] = sum(len(r['steps']) for c in cases for r in c['runs'])
    worst = 0
    for c in cases:
        if c['mode']:
            for r in c['runs']:
                if len(r['steps']) > 1:
                    for s in r['steps']:
                        for a in s['amps']:
                            worst = max(worst, abs(a['out'] - (c['pref'] + s['dp'] + a['dp'] - a['voa'])))
    chk.cov['sweep_budget_worst_udb'] = worst
    chk.cov['sweep_amplifier_steps_with_output_voa'] = sum(
        1 for c in cases for r in c['runs'] for s in r['steps'] for a in s['amps'] if a['voa'] > 0)
    chk.cov['sweep_budget_tol_udb'] = 300000
