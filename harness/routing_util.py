"""Shared machinery of the C11 / C12 checks (routing and disjunction).

spec -> code (B2): MC_Routing enumerates (mesh, batch) cases and prints one JSON line per case; every mesh becomes a
legacy topology JSON, is auto-designed once and serves all its batches through the REAL pipeline functions in the order
worker_utils.planning() uses them (build_oms_list, requests_from_json, correct_json_route_list, disjunctions_from_json,
deduplicate_disjunctions, requests_aggregation, compute_path_dsjctn, find_reversed_path).  What comes back is only
PROJECTED here (element list -> sites, per-hop fibre identities as the generator of the topology knows them, counts);
the verdict is computed by TLC with spec/Trace_Routing.tla.

code -> spec (B3): the same projection and the same judgement for shipped networks (mesh V2 with its services file
through the real planning(), seeded batches, CORONET).
"""
import copy
import json
import multiprocessing as mp
import os
import signal
import traceback
from concurrent.futures import ThreadPoolExecutor
from itertools import combinations

from harness import tlc
from harness.core import Machinery
from harness.gnpy_util import equipment, line_or_mesh_json, designed, EX

C11_CLAUSES = {'RealRoute', 'LoopFree', 'StrictHopsCrossed', 'ReverseMirrors', 'IncludesInOrder', 'ShortestFeasible',
               'LooseDroppedShortest', 'BlockedExactly', 'BlockingReason', 'EndsAtTransceivers', 'ElementsFollowEdges',
               'NoElementTwice', 'ReverseIsReal'}
C12_BATCH_CLAUSES = {'GroupsLinkDisjoint', 'GroupedAreRouted', 'ErrorOnlyForGroups', 'PairComplete',
                     'ErrorWhenNoSolution'}
# for a request inside a group C12 also needs its route to be a real, loop-free route honouring the STRICT hops
C12_MEMBER_CLAUSES = {'RealRoute', 'LoopFree', 'StrictHopsCrossed', 'ElementsFollowEdges', 'NoElementTwice',
                      'EndsAtTransceivers'}

EMPTY_OBS = dict(src=0, dst=0, sites=[], hops=[], nel=0, nuniq=0, contig=0)
LINE = 1000                      # Routing.tla: LineEl(<<a, b, k>>) == 1000000 * k + 1000 * a + b
PAR = 1000000
GHOST = (900, 1000)              # Routing.tla: Unknown(c) - an include node that is not in the topology


def nworkers():
    return max(1, int(os.environ.get('VERIF_TLC_WORKERS', '16')))


# ------------------------------------------------------------------------------------------------ case generation
def npairs(n):
    return n * (n - 1) // 2


BASE = 5                         # MC_Routing: link digit 0 none, 1 patch (0 km, amplifier only), 2..4 = 50 / 140 / 300 km
KINDS = BASE - 1


def mesh_id(n, links):
    """links: {(a, b): digit 1..4} with a < b -> the base-5 number MC_Routing.GraphOf decodes"""
    m = 0
    for (a, b), dgt in links.items():
        lo, hi = min(a, b), max(a, b)
        k = ((lo - 1) * (2 * n - lo)) // 2 + (hi - lo - 1)
        m += dgt * BASE ** k
    return m


def stratified_meshes(n, count, rng, doubled=True):
    """seeded sample of mesh ids, stratified by number of links (every stratum represented, none above its size)"""
    pairs = list(combinations(range(1, n + 1), 2))
    strata = list(range(len(pairs) + 1))
    out = set()
    share = max(1, count // len(strata))
    for k in strata:
        size = KINDS ** k * len(list(combinations(range(len(pairs)), k))) if len(pairs) <= 10 else 10 ** 9
        want = min(share, size)
        tries = 0
        got = set()
        while len(got) < want and tries < 50 * want:
            tries += 1
            chosen = rng.sample(pairs, k)
            got.add(mesh_id(n, {p: rng.randint(1, KINDS) for p in chosen}))
        out |= got
    # top up with dense-ish meshes (most of the space) until count is reached
    tries = 0
    while len(out) < count and tries < 100 * count:
        tries += 1
        k = rng.randint(max(1, len(pairs) // 2), len(pairs))
        out.add(mesh_id(n, {p: rng.randint(1, KINDS) for p in rng.sample(pairs, k)}))
    # every third mesh gets a second, parallel link pair between two of its linked sites (MC_Routing: Doubling)
    res = []
    for i, m in enumerate(sorted(out)):
        linked = [j for j in range(len(pairs)) if (m // BASE ** j) % BASE]
        if doubled and i % 3 == 2 and linked:
            m += (rng.choice(linked) + 1) * BASE ** len(pairs)
        res.append(m)
    return sorted(res)


def sample_module(ids):
    body = ', '.join(str(i) for i in ids)
    return f'---- MODULE RoutingSample ----\nSampleMeshIds == {{{body}}}\n====\n'


SANITY = ('SubsequenceFormsAgree', 'DeviationsAreRejected', 'PairDeviationsAreRejected',
          'RelaxableDeviationsAreRejected')


def mc_cfg(emit=False, sanity=True, grid=False, **kw):
    """cfg text of MC_Routing with the given constants; emit=True: generation run (only the Emit 'invariant');
    sanity=False: only the clauses of the properties and JudgeAcceptsModel (the model-level sanity invariants of the
    judgement are checked exhaustively on 3 sites and on the sampled 4-site meshes)"""
    vals = dict(NSites=4, UseSample='FALSE', OneSrcDst='TRUE', Thin=1, LinePer=6, TwinPer=1, PairPer=8, TriplePer=2,
                OverlapPer=2, GroupsExhaustive='FALSE', Doubling='FALSE', PairsFirstAll='TRUE', GridCols=0, Salt=0)
    for k, v in kw.items():
        if k not in vals:
            raise Machinery(f'unknown MC_Routing constant {k}')
        vals[k] = ('TRUE' if v else 'FALSE') if isinstance(v, bool) else v
    base = (tlc.SPEC / 'MC_Routing.cfg').read_text().splitlines()
    out = []
    for ln in base:
        s = ln.strip()
        key = s.split('=')[0].strip() if '=' in s and '<-' not in s else None
        if key in vals:
            out.append(f'  {key} = {vals[key]}')
        elif grid and s.startswith('Graphs <-'):
            out.append('  Graphs <- MCGridGraphs')
        elif grid and s.startswith('BatchesOf <-'):
            out.append('  BatchesOf <- MCGridBatchesOf')
        elif s.startswith('INVARIANT') and (emit or (not sanity and s.split()[-1] in SANITY)):
            continue
        else:
            out.append(ln)
    if emit:
        out.append('INVARIANT Emit')
    return '\n'.join(out) + '\n'


def parallel(*thunks):
    """run independent TLC invocations side by side (each gets a share of the workers)"""
    with ThreadPoolExecutor(max_workers=len(thunks)) as ex:
        futs = [ex.submit(t) for t in thunks]
        return [f.result() for f in futs]


def background(thunk):
    """start a long TLC run now, collect it later with .result()"""
    ex = ThreadPoolExecutor(max_workers=1)
    fut = ex.submit(thunk)
    ex.shutdown(wait=False)
    return fut


def pipelined(parts, produce, consume):
    """consume(produce(part)) for every part, producing the next part while the current one is consumed"""
    nxt = background(lambda: produce(parts[0])) if parts else None
    for k in range(len(parts)):
        cur = nxt.result()
        nxt = background(lambda q=parts[k + 1]: produce(q)) if k + 1 < len(parts) else None
        consume(cur)


def share(n):
    return max(1, nworkers() // n)


def generate(chk, ids, tag, workers=None, grid=False, **consts):
    """run the generation configuration of MC_Routing on the given mesh ids; returns {mesh id: job}"""
    r = tlc.run('MC_Routing', cfg_text=mc_cfg(emit=True, grid=grid, UseSample=True, **consts), workers=workers,
                extra_modules={'RoutingSample': sample_module(ids)}, timeout=1800, tag=tag)
    if not r.ok:
        raise Machinery(f'generation run {tag} failed: {r.error or r.violated}\n{r.out[-2000:]}')
    chk.mc_runs.append(dict(model=f'MC_Routing generation {tag}', **r.as_dict()))
    jobs = {}
    for c in r.emitted:
        j = jobs.setdefault(c['mesh'], dict(mesh=c['mesh'], n=c['n'], links=sorted(c['links']), batches=[]))
        b = c['batch']
        b['info'] = c['info']
        b['div'] = c['div']
        j['batches'].append(b)
    for j in jobs.values():
        j['batches'].sort(key=lambda b: json.dumps([b['reqs'], b['groups'], b.get('relax', [])], sort_keys=True))
    return jobs


# ------------------------------------------------------------------------------------------------- describing cases
def elkind(c):
    return 'ghost' if GHOST[0] < c < GHOST[1] else 'line' if c > LINE else 'roadm'


def shape(req):
    """class of an include list: which kinds of element it names and how it is labelled"""
    if not req['inc']:
        return '-'
    kinds = {elkind(c) for c in req['inc']}
    lab = set(req['strict'])
    return ('+'.join(sorted(kinds)) + f'x{len(req["inc"])}:' +
            ('STRICT' if lab == {1} else 'LOOSE' if lab == {0} else 'MIXED'))


def group_shape(b):
    """class of the include lists of the grouped requests of a batch, taken together"""
    grouped = sorted({i for g in b['groups'] for i in g})
    kinds, labs = set(), set()
    for i in grouped:
        r = b['reqs'][i - 1]
        kinds |= {elkind(c) for c in r['inc']}
        labs |= set(r['strict'])
    if not kinds:
        return '-'
    return '+'.join(sorted(kinds)) + ':' + ('STRICT' if labs == {1} else 'LOOSE' if labs == {0} else 'MIXED')


def relax_of(b):
    """per synchronisation vector of the batch: 1 when it is written `relaxable: true`"""
    return list(b.get('relax') or [0] * len(b['groups']))


def kind(b):
    g = b['groups']
    n = len(b['reqs'])
    if not g:
        if n == 1:
            return 'single'
        if n == 2 and b['reqs'][0] == b['reqs'][1]:
            return 'twins'
        if n == 2 and all(b['reqs'][0][k] == b['reqs'][1][k] for k in ('s', 'd', 'inc')):
            return 'near-twins'
        return f'{n}-free'
    gs = {frozenset(x) for x in g}
    grouped = set().union(*gs)
    if any(relax_of(b)):
        return 'overlapping-pairs+relaxable' if len(gs) > 1 else 'group+relaxable'
    if len(gs) == 1:
        base = {2: 'pair', 3: 'triple'}.get(len(next(iter(gs))), 'group')
        if len(g) > 1:
            base += '(stated twice)'
        if len(grouped) < n:
            base += '+free'
        return base
    return 'overlapping-pairs'


# --------------------------------------------------------------------------------------------------- real-code side
def innermost_gnpy_frame(e):
    """'file.py:function' of the deepest frame of the traceback that lies in gnpy (names the class of a crash)"""
    where = 'outside-gnpy'
    for fr in traceback.extract_tb(e.__traceback__):
        if '/gnpy/' in fr.filename:
            where = f'{fr.filename.rsplit("/", 1)[-1]}:{fr.name}'
    return where


class Timeout(Exception):
    pass


def _alarm(signum, frame):
    raise Timeout()


class NetBench:
    """a designed network plus the generator's view of it: site numbers, arc of every fibre"""

    def __init__(self, net, eq, roadm_site, trx_site, line_arc, trx_of_site, roadm_of_site):
        """line_arc: uid of every line element the GENERATOR of the topology created -> (a, b, k) of its arc"""
        from gnpy.topology.spectrum_assignment import build_oms_list
        from gnpy.core.elements import Fiber
        self.net, self.eq = net, eq
        self.oms_list = build_oms_list(net, eq)          # as planning(): gives every line element its .oms
        self.roadm_site, self.trx_site = roadm_site, trx_site
        self.trx_of_site, self.roadm_of_site = trx_of_site, roadm_of_site
        # elements of the designed network that the generator created (spans of a split fibre keep the original
        # uid as prefix); amplifiers inserted by auto-design carry no identity
        self.fibre_code = {}                             # uid -> LineEl code
        self.fibres_of_arc = {}                          # arc -> uids usable as include nodes (fibres first)
        base = sorted(line_arc, key=len, reverse=True)
        others = {}
        for el in net.nodes():
            if isinstance(el, Fiber):
                b = next((u for u in base if el.uid == u or el.uid.startswith(u + '_(')), None)
            else:
                b = el.uid if el.uid in line_arc else None
            if b is not None:
                a = line_arc[b]
                self.fibre_code[el.uid] = PAR * a[2] + LINE * a[0] + a[1]
                (self.fibres_of_arc if isinstance(el, Fiber) else others).setdefault(a, []).append(el.uid)
        for a, v in others.items():
            self.fibres_of_arc.setdefault(a, v)          # a fibre-less arc is named by its own amplifier / fused
        for v in self.fibres_of_arc.values():
            v.sort()

    # ---- projections (no judgement here)
    def project(self, path):
        from gnpy.core.elements import Roadm, Transceiver, Fiber
        if not path:
            return dict(EMPTY_OBS)
        first, last = path[0], path[-1]
        ob = dict(src=self.trx_site.get(first.uid, 0) if isinstance(first, Transceiver) else 0,
                  dst=self.trx_site.get(last.uid, 0) if isinstance(last, Transceiver) else 0,
                  sites=[], hops=[], nel=len(path), nuniq=len({e.uid for e in path}),
                  contig=int(all(self.net.has_edge(u, v) for u, v in zip(path, path[1:]))))
        seg = None
        for k, e in enumerate(path):
            if isinstance(e, Roadm):
                site = self.roadm_site.get(e.uid, 0)
                if seg is not None:
                    seg['b'] = site
                    ob['hops'].append(seg)
                ob['sites'].append(site)
                seg = dict(a=site, b=0, ids=[], len=0.0)
            elif isinstance(e, Transceiver) and k in (0, len(path) - 1):
                continue
            else:
                if seg is None:                      # a line element before the first ROADM: not a route of this kind
                    seg = dict(a=0, b=0, ids=[], len=0.0)
                if isinstance(e, Fiber):
                    seg['ids'].append(self.fibre_code.get(e.uid, 0))
                    seg['len'] += e.params.length
                elif isinstance(e, Transceiver):
                    seg['ids'].append(0)             # a transceiver in the middle of a route
                elif e.uid in self.fibre_code:
                    seg['ids'].append(self.fibre_code[e.uid])
        if seg is not None and (seg['ids'] or seg['a'] == 0):
            ob['hops'].append(seg)                   # line elements after the last ROADM
        for h in ob['hops']:
            x = h['len'] / self.unit
            h['len'] = int(round(x))
            self.maxdev = max(self.maxdev, abs(x - h['len']))
        return ob

    unit = 1000.0        # metres per length unit of the trace (km for the generated meshes)
    maxdev = 0.0         # largest distance of an observed hop length from a whole length unit

    def uid_of(self, code, pick=0):
        if GHOST[0] < code < GHOST[1]:
            return f'no such element {code}'
        if code > LINE:
            spans = self.fibres_of_arc.get(((code % PAR) // LINE, code % LINE, code // PAR))
            if not spans:
                raise Machinery(f'no line element for include code {code}')
            return spans[pick % len(spans)]
        return self.roadm_of_site[code]

    def arc_elements(self, uid):
        """all the line elements of the ROADM-to-ROADM chain that holds uid, in the order a signal crosses them
        (walked on the designed graph itself: a line element has one predecessor and one successor)"""
        from gnpy.core.elements import Roadm
        nodes = getattr(self, '_nodes', None)
        if nodes is None:
            nodes = self._nodes = {n.uid: n for n in self.net.nodes()}
        el = nodes[uid]
        chain = [el]
        while True:
            prev = next(iter(self.net.predecessors(chain[0])))
            if isinstance(prev, Roadm) or len(chain) > 400:
                break
            chain.insert(0, prev)
        while True:
            nxt = next(iter(self.net.successors(chain[-1])))
            if isinstance(nxt, Roadm) or len(chain) > 800:
                break
            chain.append(nxt)
        return [e.uid for e in chain]

    def hops_of(self, r, style=0):
        """the route objects of one request: [(uid, 'STRICT' | 'LOOSE'), ...].  A hop of the specification naming a
        line element of an arc is written either as one element of that arc or - every other style - element by
        element, as the run of ALL the elements of that arc in the order they are crossed (same hop type): crossing
        the arc and crossing all its elements in order are the same thing."""
        out = []
        for i, (c, st) in enumerate(zip(r['inc'], r['strict'])):
            uid = self.uid_of(c, style + i)
            lab = 'STRICT' if st else 'LOOSE'
            if c > LINE and (style // 3) % 2 == 1:
                out += [(u, lab) for u in self.arc_elements(uid)]
            else:
                out.append((uid, lab))
        return out

    # how the end points of a request appear in its own include list (style % 7): the list may be opened by the source
    # transceiver and / or closed by the destination transceiver, each with a hop type of its own - the clean-up
    # removes them silently, the request is the same (Routing.tla, head of the module)
    ENDS = {1: (None, 'STRICT'), 2: ('STRICT', 'STRICT'), 4: ('LOOSE', None), 5: (None, 'LOOSE')}

    def route_objects(self, r, style=0):
        """hops_of(r) as the user may write them: with the request's own end points around the list"""
        hops = self.hops_of(r, style)
        first, last = self.ENDS.get(style % 7, (None, None))
        if first:
            hops = [(self.trx_of_site[r['s']], first)] + hops
        if last:
            hops = hops + [(self.trx_of_site[r['d']], last)]
        return hops

    def service_json(self, b, bidir=True, style=0):
        """the batch as a service file.  The order of the route objects is carried by their `index` only: the indices
        are increasing but start at 0, 8 or 98 (style), and the objects are written in reverse order every other
        style.  A synchronisation vector states the diversity the batch asks for (b['div'], default 'node link')
        and whether it is relaxable (b['relax'], default: not)."""
        reqs = []
        base = (0, 8, 98)[style % 3]
        for k, r in enumerate(b['reqs']):
            s, d = self.trx_of_site[r['s']], self.trx_of_site[r['d']]
            j = {'request-id': f'r{k + 1}', 'source': s, 'destination': d, 'src-tp-id': s, 'dst-tp-id': d,
                 'bidirectional': bidir,
                 'path-constraints': {'te-bandwidth': {'technology': 'flexi-grid', 'trx_type': 'Voyager',
                                                       'trx_mode': 'mode 1', 'spacing': 50e9,
                                                       'path_bandwidth': 100e9}}}
            hops = self.route_objects(r, style)
            if hops:
                objs = [{'explicit-route-usage': 'route-include-ero', 'index': base + i,
                         'num-unnum-hop': {'node-id': uid, 'link-tp-id': 'link-tp-id is not used', 'hop-type': lab}}
                        for i, (uid, lab) in enumerate(hops)]
                j['explicit-route-objects'] = {'route-object-include-exclude': objs[::-1] if style % 2 else objs}
            reqs.append(j)
        data = {'path-request': reqs}
        if b['groups']:
            div = b.get('div') or ['node link'] * len(b['groups'])
            relax = relax_of(b)
            data['synchronization'] = [
                {'synchronization-id': f'g{k + 1}',
                 'svec': {'relaxable': bool(relax[k]), 'disjointness': div[k],
                          'request-id-number': [f'r{i}' for i in g]}} for k, g in enumerate(b['groups'])]
        return data

    def api_objects(self, b, bidir=True, style=0):
        """the batch as objects built through the API: PathRequest(**params) - WITHOUT nodes_list / loose_list when
        the request has no include list - and Disjunction(**params)"""
        from gnpy.core.equipment import trx_mode_params
        from gnpy.topology.request import PathRequest, Disjunction
        rqs = []
        for k, r in enumerate(b['reqs']):
            params = {'request_id': f'r{k + 1}', 'source': self.trx_of_site[r['s']],
                      'destination': self.trx_of_site[r['d']], 'bidir': bidir, 'trx_type': 'Voyager',
                      'trx_mode': 'mode 1', 'format': 'mode 1', 'spacing': 50e9, 'path_bandwidth': 100e9,
                      'nb_channel': 80, 'power': 1e-3, 'tx_power': 1e-3,
                      'effective_freq_slot': [{'N': None, 'M': None}]}
            params.update(trx_mode_params(self.eq, 'Voyager', 'mode 1', True))
            hops = self.route_objects(r, style)
            if hops:
                params['nodes_list'] = [u for u, _ in hops]
                params['loose_list'] = [lab for _, lab in hops]
            rqs.append(PathRequest(**params))
        div = b.get('div') or ['node link'] * len(b['groups'])
        relax = relax_of(b)
        dsjn = [Disjunction(disjunction_id=f'g{k + 1}', relaxable=bool(relax[k]), link_diverse='link' in div[k],
                            node_diverse='node' in div[k], disjunctions_req=[f'r{i}' for i in g])
                for k, g in enumerate(b['groups'])]
        return rqs, dsjn

    def run_batch(self, b, bidir=True, pick=0, limit=None):
        """the real pipeline on one batch -> event for Trace_Routing (or {'exc': ...}); pick selects how the batch is
        written: every fifth through the API objects, the others as a service file (index base, order, expansion)"""
        ids = [f'r{k + 1}' for k in range(len(b['reqs']))]
        again = pick % 9 == 7           # what-if loop: the same request objects are cleaned and routed a second time
        if pick % 5 == 4:
            return self.run_service(None, ids, b, limit, api=lambda: self.api_objects(b, bidir, pick), again=again)
        return self.run_service(self.service_json(b, bidir, pick), ids, b, limit, again=again)

    def run_service(self, data, ids, b, limit=None, api=None, again=False):
        """again: the PathRequest / Disjunction objects go through correct_json_route_list and compute_path_dsjctn
        a second time (the first computation leaves the destination at the end of every include list) and the SECOND
        answer is the one that is judged: it must be an answer to the same batch"""
        from gnpy.tools.json_io import requests_from_json, disjunctions_from_json
        from gnpy.topology.request import (correct_json_route_list, deduplicate_disjunctions, requests_aggregation,
                                           compute_path_dsjctn, find_reversed_path)
        from gnpy.core.exceptions import DisjunctionError
        ev = dict(reqs=[{k: r[k] for k in ('s', 'd', 'inc', 'strict')} for r in b['reqs']], groups=b['groups'],
                  relax=relax_of(b), err=0, res=[])
        import threading
        if threading.current_thread() is not threading.main_thread():
            limit = None                                          # alarms exist in the main thread only
        if limit:
            signal.signal(signal.SIGALRM, _alarm)
            signal.alarm(limit)
        try:
            if api is not None:
                rqs, dsjn = api()
            else:
                rqs, dsjn = requests_from_json(data, self.eq), disjunctions_from_json(data)
            rqs = correct_json_route_list(self.net, rqs)
            dsjn = deduplicate_disjunctions(dsjn)
            rqs, dsjn = requests_aggregation(rqs, dsjn)
            try:
                pths = compute_path_dsjctn(self.net, self.eq, rqs, dsjn)
                if again:
                    rqs = correct_json_route_list(self.net, rqs)
                    pths = compute_path_dsjctn(self.net, self.eq, rqs, dsjn)
            except DisjunctionError:
                ev['err'] = 1
                return ev
        except Timeout:
            return dict(skip='timeout')
        except Exception as e:                                    # noqa: an exception on a valid batch is a finding
            return dict(exc=f'{type(e).__name__}: {e}', tb=traceback.format_exc()[-1500:], reqs=ev['reqs'],
                        groups=ev['groups'], where=innermost_gnpy_frame(e))
        finally:
            if limit:
                signal.alarm(0)
        for rid in ids:
            k = next((i for i, rq in enumerate(rqs) if rid in str(rq.request_id).split(' | ')), None)
            if k is None:
                return dict(exc=f'request {rid} disappeared from the list returned by requests_aggregation',
                            reqs=ev['reqs'], groups=ev['groups'], tb='')
            rq, pth = rqs[k], pths[k]
            if pth:
                try:
                    rev = find_reversed_path(pth)
                except Exception as e:                            # noqa: judged by ReverseMirrors (empty reverse)
                    rev = []
                    ev.setdefault('notes', []).append(f'find_reversed_path: {type(e).__name__}: {e}')
                ev['res'].append(dict(st='path', p=self.project(pth), rev=self.project(rev)))
            else:
                ev['res'].append(dict(st=str(getattr(rq, 'blocking_reason', 'EMPTY_PATH_WITHOUT_REASON')),
                                      p=dict(EMPTY_OBS), rev=dict(EMPTY_OBS)))
        return ev


def mesh_json(n, arcs, variant=0, passive=True, raman_every=8):
    """legacy topology JSON of a generated mesh: Transceiver + Roadm per site; per arc <<a, b, k>> one fibre of km
    kilometres, or - for a 0 km PATCH - one amplifier only (two ROADMs back to back: an OMS without any fibre).
    Topology files describe a fibre link in several ways; which one an arc gets is drawn from variant, the graph is
    the same:   0 the bare fibre (auto-design equips it)        1 the fibre followed by an amplifier written in the file
                2 a RamanFiber span with its amplifier (spans that auto-design does not split: <= 140 km; in one
                  mesh out of raman_every, elsewhere as 1)
                3 a PASSIVE link, Fused - fibre - Fused: no amplifier at all in the OMS (50 km links only)"""
    data = line_or_mesh_json([str(k) for k in range(1, n + 1)], [])
    line_arc = {}
    amp = {'type': 'Edfa', 'type_variety': 'std_medium_gain',
           'operational': {'gain_target': None, 'tilt_target': 0, 'out_voa': None}}
    pumps = [{'power': 0.2, 'frequency': 205e12, 'propagation_direction': 'counterprop'}]
    amplified = False
    for a, b, km, k in arcs:
        tag = f'({a} -> {b})' + (' second' if k else '')
        style = (variant // 7 + 3 * a + 5 * b + k) % 4
        chain = []
        if km > 0:
            fibre = dict(uid=f'fiber {tag}', type='Fiber', type_variety='SSMF',
                         params={'length': km, 'length_units': 'km', 'loss_coef': 0.2, 'con_in': None, 'con_out': None})
            if style == 2 and km <= 140 and variant % raman_every == 1:   # (designing Raman spans is slow)
                fibre.update(type='RamanFiber', operational={'temperature': 283, 'raman_pumps': pumps})
                fibre['params'].update(con_in=0.5, con_out=0.5)      # a RamanFiber needs its connector losses
                chain += [fibre, dict(amp, uid=f'amplifier after fiber {tag}')]
            elif style == 3 and km <= 50 and passive:
                chain += [dict(uid=f'fused before fiber {tag}', type='Fused', params={'loss': 0}), fibre,
                          dict(uid=f'fused after fiber {tag}', type='Fused', params={'loss': 0})]
            elif style in (1, 2):
                chain += [fibre, dict(amp, uid=f'amplifier after fiber {tag}')]
            else:
                chain.append(fibre)
        else:
            chain.append(dict(amp, uid=f'patch edfa {tag}'))
        amplified = amplified or not any(e['type'] == 'Fused' for e in chain)
        data['elements'] += chain
        hops = [f'roadm {a}'] + [e['uid'] for e in chain] + [f'roadm {b}']
        data['connections'] += [{'from_node': u, 'to_node': v} for u, v in zip(hops, hops[1:])]
        for e in chain:
            line_arc[e['uid']] = (a, b, k)
    if passive and not amplified:
        # every link would be passive: the network would hold no amplifier at all, which build_oms_list does not
        # accept (spectrum matters, not routing) - write the links the usual way instead
        return mesh_json(n, arcs, variant, passive=False, raman_every=raman_every)
    return data, line_arc


def mesh_bench(n, arcs, variant=0, raman_every=8):
    """generated mesh: sites '1'..'n'; arcs = [[a, b, km, k], ...] both directions listed"""
    eq = equipment()
    data, line_arc = mesh_json(n, arcs, variant, raman_every=raman_every)
    net, _, _ = designed(data, eq)
    return NetBench(net, eq, {f'roadm {k}': k for k in range(1, n + 1)}, {f'trx {k}': k for k in range(1, n + 1)},
                    line_arc, {k: f'trx {k}' for k in range(1, n + 1)}, {k: f'roadm {k}' for k in range(1, n + 1)})


def run_mesh_job(job):
    """worker: design the mesh once, replay all its batches; returns (trace, exceptions)"""
    try:
        bench = mesh_bench(job['n'], job['links'], job['mesh'], job.get('raman_every', 8))
    except Exception as e:                                        # noqa
        return None, [dict(stage='design', mesh=job['mesh'], exc=f'{type(e).__name__}: {e}',
                           tb=traceback.format_exc()[-1500:])]
    evs, meta, excs = [], [], []
    skipped = 0
    for k, b in enumerate(job['batches']):
        # lattices: the search of the real code may be long (hundreds of candidate routes): time limit, then unjudged
        ev = bench.run_batch(b, bidir=True, pick=job['mesh'] + k + job.get('offset', 0), limit=20 if job['n'] >= 10 else None)
        if 'skip' in ev:
            skipped += 1
            continue
        if 'exc' in ev:
            excs.append(dict(stage='routing', mesh=job['mesh'], batch=b, exc=ev['exc'], tb=ev['tb'],
                             where=ev.get('where', '?')))
            continue
        evs.append(ev)
        meta.append(b)
    trace = dict(name=f'mesh{job["n"]}:{job["mesh"]}' + (f':{job["offset"]}' if 'offset' in job else ''), n=job['n'],
                 links=job['links'], opt=1, tol=0, ev=evs, skipped=skipped,
                 dev=int(round(bench.maxdev * 1e9)))            # in 1e-9 km
    return (trace, meta), excs


def replay_jobs(jobs):
    """run all mesh jobs (process pool, fork: in-process mutants are inherited)"""
    jobs = list(jobs)
    w = min(nworkers(), len(jobs)) or 1
    if w <= 1:
        return [run_mesh_job(j) for j in jobs]
    equipment()                                                   # load once, children inherit
    with mp.get_context('fork').Pool(w) as pool:
        return pool.map(run_mesh_job, jobs, chunksize=max(1, len(jobs) // (8 * w)))


# ------------------------------------------------------------------------------------------------------ judgement
def judge(traces, chk, tag, events_per_run=None):
    """second TLC pass: Trace_Routing over the recorded traces -> {trace name: [[event, request, clause], ...]}"""
    for t in traces:
        for e in t['ev']:
            e.pop('notes', None)
    if events_per_run is None:          # one TLC process per worker, but not below what amortises a JVM start
        total = sum(len(t['ev']) + 1 for t in traces)
        events_per_run = max(1500, -(-total // nworkers()))
    chunks, cur, n = [], [], 0
    for t in traces:
        cur.append(t)
        n += len(t['ev']) + 1
        if n >= events_per_run:
            chunks.append(cur)
            cur, n = [], 0
    if cur:
        chunks.append(cur)

    def one(ch):
        data = '\n'.join(json.dumps(t) for t in ch) + '\n'
        return tlc.run('Trace_Routing', extra_files={'trace.ndjson': data}, env={'TRACE_FILE': 'trace.ndjson'},
                       workers=1, timeout=1800, tag=tag, heap='2g')
    with ThreadPoolExecutor(max_workers=nworkers()) as ex:
        results = list(ex.map(one, chunks))
    verdicts = {}
    for ch, res in zip(chunks, results):
        if not res.ok:
            raise Machinery(f'trace judgement failed: {res.error or res.violated}\n{res.out[-2500:]}')
        chk.states += res.distinct
        chk.transitions += res.generated
        got = {v['name']: v for v in res.emitted}
        for t in ch:
            v = got.get(t['name'])
            if v is None:
                raise Machinery(f'no verdict for trace {t["name"]}')
            if v['n'] != len(t['ev']):
                raise Machinery(f'trace {t["name"]}: {v["n"]}/{len(t["ev"])} events consumed')
            verdicts[t['name']] = v['viol']
    return verdicts


def relevant(clause, req_idx, batch, pid):
    """which property a failed clause is reported under"""
    grouped = set()
    for g in batch['groups']:
        grouped |= set(g)
    if req_idx == 0:
        return pid == 'C12' and clause in C12_BATCH_CLAUSES
    if req_idx in grouped:
        return clause in (C12_MEMBER_CLAUSES if pid == 'C12' else C11_CLAUSES)
    return pid == 'C11' and clause in C11_CLAUSES


# when one request fails several clauses it is reported once, under the first of these (all are listed in the detail)
PRIORITY = ['RealRoute', 'ElementsFollowEdges', 'LoopFree', 'NoElementTwice', 'EndsAtTransceivers',
            'GroupsLinkDisjoint', 'GroupedAreRouted', 'ErrorOnlyForGroups', 'PairComplete', 'ErrorWhenNoSolution',
            'StrictHopsCrossed', 'IncludesInOrder', 'BlockedExactly', 'BlockingReason', 'ShortestFeasible',
            'LooseDroppedShortest', 'ReverseMirrors', 'ReverseIsReal']


def report(chk, pid, trace, meta, viols, origin):
    """turn TLC's verdict on one trace into violations; returns the number of batches without violation"""
    bad = {}
    for ev_idx, req_idx, clause in viols:
        b = meta[ev_idx - 1]
        if clause not in PRIORITY:
            raise Machinery(f'unknown clause {clause} in the verdict of {trace["name"]}')
        if relevant(clause, req_idx, b, pid):
            bad.setdefault(ev_idx, {}).setdefault(req_idx, set()).add(clause)
    for ev_idx, per_req in bad.items():
        b, ev = meta[ev_idx - 1], trace['ev'][ev_idx - 1]
        info = b.get('info', {})
        for req_idx, clauses in sorted(per_req.items()):
            clause = min(clauses, key=PRIORITY.index)
            if req_idx:
                r = b['reqs'][req_idx - 1]
                where = 'grouped' if any(req_idx in g for g in b['groups']) else 'free'
                sig = f'{origin}|{clause}|{where}|inc={shape(r)}'
            else:
                sig = f'{origin}|{clause}|{kind(b).split("+")[0].split("(")[0]}|inc={group_shape(b)}'
                if any(relax_of(b)):
                    sig += '|with-relaxable-vector'
            chk.violation(sig, dict(network=trace['name'], links=trace['links'],
                                    batch={k: b[k] for k in ('reqs', 'groups', 'relax') if k in b}, oracle=info,
                                    clause=clause,
                                    all_failed_clauses=sorted(clauses), request=req_idx, observed=ev))
    return len(meta) - len(bad)


def report_exceptions(chk, excs, origin):
    for x in excs:
        if x['stage'] == 'design':
            chk.violation(f'{origin}|exception-in-design|{x["exc"].split(":")[0]}', x)
        else:
            b = x['batch']
            chk.violation(f'{origin}|exception|{x["exc"].split(":")[0]}|{x.get("where", "?")}',
                          dict(mesh=x['mesh'], kind=kind(b), include_lists=[shape(r) for r in b['reqs']],
                               batch={k: b[k] for k in ('reqs', 'groups', 'relax') if k in b}, exception=x['exc'],
                               traceback=x['tb']))


def b2(chk, pid, jobs, origin='B2', keep=lambda b: True, extra=None, raman_every=8):
    """replay the generated jobs into the real code and judge them; returns statistics.
    extra = (traces, metas) recorded elsewhere (B3): judged in the same TLC pass, reported under 'B3'"""
    jobs = [dict(j, batches=[b for b in j['batches'] if keep(b)], raman_every=raman_every) for j in jobs.values()]
    jobs = [j for j in jobs if j['batches']]
    # a lattice serves few requests per process: its batches are spread over several jobs
    jobs = [j for j in jobs if j['n'] < 10] + [dict(j, batches=j['batches'][o:o + 3], offset=o)
                                                for j in jobs if j['n'] >= 10 for o in range(0, len(j['batches']), 3)]
    import time
    t0 = time.time()
    out = replay_jobs(jobs)
    t_replay = time.time() - t0
    traces, metas = [], {}
    nexc = 0
    for res, excs in out:
        report_exceptions(chk, excs, origin)
        nexc += len(excs)
        if res is not None:
            t, m = res
            traces.append(t)
            metas[t['name']] = m
    t0 = time.time()
    xtr, xmeta = extra or ([], {})
    verdicts = judge(traces + list(xtr), chk, f'{pid.lower()}-trace')
    for t in xtr:
        chk.traces += report(chk, pid, t, xmeta[t['name']], verdicts[t['name']], 'B3')
        for b in xmeta[t['name']]:
            chk.case((t['name'], str(b['reqs']), str(b['groups'])), nontrivial=True)
    stats = dict(meshes=len(traces), batches=0, requests=0, conform=0, exceptions=nexc, verdicts={}, kinds={},
                 errors=0, strong=0, noweak=0, replay_s=round(t_replay, 1), judgement_s=round(time.time() - t0, 1))
    stats['max_hop_length_deviation_1e-9km'] = max([t.get('dev', 0) for t in traces] or [0])
    stats['skipped_timeouts'] = sum(t.get('skipped', 0) for t in traces)
    for t in traces:
        m = metas[t['name']]
        ok = report(chk, pid, t, m, verdicts[t['name']], origin)
        stats['conform'] += ok
        chk.traces += ok
        for b, ev in zip(m, t['ev']):
            stats['batches'] += 1
            stats['requests'] += len(b['reqs'])
            stats['kinds'][kind(b)] = stats['kinds'].get(kind(b), 0) + 1
            stats['errors'] += ev['err']
            stats['strong'] += b['info'].get('strong', 0)
            stats['noweak'] += int(bool(b['groups']) and not b['info'].get('weak', 0))
            stats['relaxable_unmet'] = stats.get('relaxable_unmet', 0) + int(bool(b['info'].get('unmet', 0)))
            stats['routes_behind_100_candidates'] = stats.get('routes_behind_100_candidates', 0) + \
                sum(1 for x in b['info'].get('shorter', []) if x >= 100)
            for v in b['info'].get('verdict', []):
                stats['verdicts'][v] = stats['verdicts'].get(v, 0) + 1
            chk.case((t['name'], json.dumps([b['reqs'], b['groups'], relax_of(b)])),
                     nontrivial=bool(b['groups']) or any(r['inc'] for r in b['reqs']))
    return stats, traces, metas


def replay(chk, pid):
    """bin/verif check <ID> --replay FILE: re-run the cases of a replay file (generated meshes) and judge them again"""
    data = json.loads(open(chk.replay).read())
    jobs = {}
    for k, c in enumerate(data.get('cases', [])):
        name = c.get('network', '')
        if not name.startswith('mesh') or ':' not in name or not name[4:name.index(':')].isdigit():
            print(f'replay: case {k} is on a shipped network ({name}); re-run the check to reproduce it')
            continue
        n, mesh = int(name[4:name.index(':')]), int(name.split(':')[1])
        j = jobs.setdefault((n, mesh), dict(mesh=mesh, n=n, links=c['links'], batches=[]))
        j['batches'].append(dict(c['batch'], info=c.get('oracle') or {'verdict': [None] * len(c['batch']['reqs'])}))
    if not jobs:
        raise Machinery(f'nothing to replay in {chk.replay}')
    stats, traces, _ = b2(chk, pid, jobs, origin='B2', keep=lambda b: True)
    chk.cov['replayed'] = stats
    chk.sample(dict(kind='replayed case', network=traces[0]['name'], first_event=traces[0]['ev'][0]))
    chk.cov['rule'] = 'cases of a replay file re-run through the real pipeline and judged by Trace_Routing'


def merge_stats(a, b):
    """add the counters of two b2() statistics"""
    if a is None:
        return b
    out = dict(a)
    for k, v in b.items():
        if isinstance(v, dict):
            out[k] = dict(a.get(k, {}))
            for kk, vv in v.items():
                out[k][kk] = out[k].get(kk, 0) + vv
        elif k.startswith('max_'):
            out[k] = max(a.get(k, 0), v)
        else:
            out[k] = round(a.get(k, 0) + v, 1)
    return out


def slices(ids, size):
    return [ids[i:i + size] for i in range(0, len(ids), size)]


# ------------------------------------------------------------------------------------------ shipped networks (B3)
def json_links(data):
    """ROADM-to-ROADM chains of a legacy topology JSON, walked on the JSON itself (independent of gnpy's OMS):
    returns (roadm uid -> site, trx uid -> site, fibre uid -> (a, b), arcs [[a, b, metres]])"""
    ty = {e['uid']: e for e in data['elements']}
    out = {}
    for c in data['connections']:
        out.setdefault(c['from_node'], []).append(c['to_node'])
    roadms = sorted(u for u, e in ty.items() if e['type'] == 'Roadm')
    site = {u: k + 1 for k, u in enumerate(roadms)}
    trx_site = {}
    for u, e in ty.items():
        if e['type'] == 'Transceiver':
            nb = [v for v in out.get(u, []) if v in site]
            if len(nb) == 1:
                trx_site[u] = site[nb[0]]
    fibre_arc, arcs = {}, []
    for u in roadms:
        for v in out.get(u, []):
            if ty[v]['type'] == 'Transceiver':
                continue
            chain, w, metres = [], v, 0.0
            while ty[w]['type'] != 'Roadm':
                chain.append(w)
                if ty[w]['type'] == 'Fiber':
                    p = ty[w]['params']
                    metres += p['length'] * (1000.0 if p.get('length_units', 'km') == 'km' else 1.0)
                nxt = out.get(w, [])
                if len(nxt) != 1 or len(chain) > 500:
                    raise Machinery(f'{w}: not a simple chain between ROADMs')
                w = nxt[0]
            a = (site[u], site[w], 0)
            if any(x[0] == a[0] and x[1] == a[1] for x in arcs):
                raise Machinery(f'parallel links {u} -> {w} in a shipped topology: not handled by json_links')
            arcs.append([a[0], a[1], int(round(metres)), 0])
            for f in chain:
                fibre_arc[f] = a
    return site, trx_site, fibre_arc, arcs


def shipped_bench(fname, unit=1.0):
    """a shipped topology, designed with the shipped equipment library (legacy loader)"""
    from gnpy.tools.json_io import load_json, network_from_json
    from gnpy.tools.worker_utils import designed_network
    eq = equipment()
    data = load_json(EX / fname)
    site, trx_site, fibre_arc, arcs = json_links(data)
    net = network_from_json(copy.deepcopy(data), eq)
    net, _, _ = designed_network(eq, net)
    inv_trx = {}
    for u, s in sorted(trx_site.items()):
        inv_trx.setdefault(s, u)
    bench = NetBench(net, eq, site, trx_site, fibre_arc, inv_trx, {s: u for u, s in site.items()})
    bench.unit = unit
    bench.arcs = [[a, b, int(round(m / unit)), k] for a, b, m, k in arcs]
    bench.nsites = len(site)
    return bench


def random_batches(bench, rng, count, groups=True, on_route=False, max_inc=2):
    """seeded batches on a shipped network (case generation only; nothing here judges)"""
    import networkx as nx
    sites = sorted(bench.trx_of_site)
    arcs = [(a, b) for a, b, _, _ in bench.arcs]
    g = nx.DiGraph()
    g.add_weighted_edges_from([x[:3] for x in bench.arcs])
    out = []
    for k in range(count):
        def one():
            s, d = rng.sample(sites, 2)
            inc = []
            if on_route:
                # large graphs: only include lists taken from the shortest route (an unsatisfiable list makes
                # shortest_simple_paths enumerate the whole graph)
                try:
                    sp = nx.dijkstra_path(g, s, d)
                except nx.NetworkXNoPath:
                    sp = [s, d]
                mid = sp[1:-1]
                kind_ = rng.choice(['none', 'roadm', 'roadms', 'line'])
                if kind_ == 'roadm' and mid:
                    inc = [rng.choice(mid)]
                elif kind_ == 'roadms' and len(mid) >= 2:
                    i, j = sorted(rng.sample(range(len(mid)), 2))
                    inc = [mid[i], mid[j]]
                elif kind_ == 'line' and len(sp) >= 2:
                    i = rng.randrange(len(sp) - 1)
                    inc = [LINE * sp[i] + sp[i + 1]]
            else:
                for _ in range(min(max_inc, rng.choice([0, 0, 1, 1, 2]))):
                    if rng.random() < 0.3:
                        a, b = rng.choice(arcs)
                        c = LINE * a + b
                    else:
                        c = rng.choice(sites)
                    if c not in inc:
                        inc.append(c)
            return dict(s=s, d=d, inc=inc, strict=[rng.randint(0, 1) for _ in inc])
        r1 = one()
        if groups and k % 2 == 1:
            r2 = one()
            if rng.random() < 0.6:
                r2['s'], r2['d'] = r1['s'], r1['d']
            if k % 6 == 5:
                r3 = one()
                out.append(dict(reqs=[r1, r2, r3], groups=[[1, 2], [2, 3]] if k % 12 == 11 else [[1, 2, 3]]))
                if k % 24 == 23:                      # one of the two overlapping vectors is written relaxable
                    out[-1]['relax'] = [(k // 24) % 2, 1 - (k // 24) % 2]
            else:
                out.append(dict(reqs=[r1, r2], groups=[[1, 2]], div=[rng.choice(['node link', 'link', 'node'])]))
        else:
            out.append(dict(reqs=[r1], groups=[]))
    return out


def planning_trace(bench, services_file, name):
    """the shipped services through the REAL planning(); compute_path_dsjctn is observed by a wrapper"""
    import gnpy.tools.worker_utils as wu
    from gnpy.tools.json_io import load_json
    from gnpy.topology.request import find_reversed_path
    from gnpy.core.exceptions import DisjunctionError
    data = load_json(EX / services_file)
    orig = wu.compute_path_dsjctn
    box = {}

    def code_of(uid):
        if uid in bench.roadm_site:
            return bench.roadm_site[uid]
        if uid in bench.fibre_code:
            return bench.fibre_code[uid]
        return None

    def wrapper(network, equipment_, rqs, dsjn):
        reqs = []
        ids = [str(r.request_id) for r in rqs]
        for r in rqs:
            inc = [code_of(u) for u in r.nodes_list]
            reqs.append(dict(s=bench.trx_site[r.source], d=bench.trx_site[r.destination], inc=inc,
                             strict=[int(h == 'STRICT') for h in r.loose_list], id=str(r.request_id)))
        groups = [[ids.index(str(x)) + 1 for x in d.disjunctions_req] for d in dsjn]
        box.update(reqs=reqs, groups=groups, relax=[int(d.relaxable is not False) for d in dsjn])
        try:
            pths = orig(network, equipment_, rqs, dsjn)
        except DisjunctionError:
            box['err'] = 1
            raise
        box['err'] = 0
        box['res'] = []
        for r, p in zip(rqs, pths):
            if p:
                box['res'].append(dict(st='path', p=bench.project(p), rev=bench.project(find_reversed_path(p))))
            else:
                box['res'].append(dict(st=str(getattr(r, 'blocking_reason', 'EMPTY_PATH_WITHOUT_REASON')),
                                       p=dict(EMPTY_OBS), rev=dict(EMPTY_OBS)))
        return pths
    wu.compute_path_dsjctn = wrapper
    try:
        try:
            wu.planning(bench.net, bench.eq, data)
        except DisjunctionError:
            pass
    finally:
        wu.compute_path_dsjctn = orig
    if 'reqs' not in box:
        raise Machinery(f'{name}: planning() never reached compute_path_dsjctn')
    # requests whose include list names elements the generator does not know (amplifiers, fused) are not judged
    if any(c is None for r in box['reqs'] for c in r['inc']):
        raise Machinery(f'{name}: include node outside ROADMs/fibres in the shipped services')
    ev = dict(reqs=[{k: r[k] for k in ('s', 'd', 'inc', 'strict')} for r in box['reqs']], groups=box['groups'],
              relax=box['relax'], err=box['err'], res=box.get('res', []))
    return ev
