"""Shared by C16 (c16.py) and C19 (c19.py): benches (equipment + topology variants), request builders, the planning
recorder, integer/string projections of requests / receivers / response JSON / CSV rows, and the trace builder whose
output is judged by spec/Trace_Planning.tla.

Nothing in here decides whether an observation is right: it runs the real code, captures, and projects.
  * micro-dB integers for receiver figures (udb), centi-units for what the response / CSV state (2 decimals),
  * nW for powers, 10 Mbit/s (= centi-Gbit/s) for bandwidths, strings for names (only ever compared with strings),
  * NONE (-9999) = "not evaluated / not applicable", MISSING (-9998) = key absent from the document, +/-INF sentinels.
"""
import ast
import contextlib
import copy
import csv
import io
import json
import math
import zlib
from functools import lru_cache

import numpy as np

from harness.gnpy_util import EX, TD, INF, NONE, udb

MISSING = -9998
JOIN = ' | '

METRIC_KEYS = ('snrbw', 'snr01', 'osnrbw', 'osnr01', 'snrmin', 'snrmax', 'pdl', 'cd', 'pmd')
JSON_METRIC = {'snrbw': 'SNR-bandwidth', 'snr01': 'SNR-0.1nm', 'osnrbw': 'OSNR-bandwidth', 'osnr01': 'OSNR-0.1nm',
               'snrmin': 'lowest_SNR-0.1nm', 'snrmax': 'biggest_SNR-0.1nm', 'pdl': 'PDL_penalty',
               'cd': 'CD_penalty', 'pmd': 'PMD_penalty', 'power': 'reference_power', 'bw': 'path_bandwidth'}
CSV_METRIC = {'osnr01': 'OSNR-0.1nm (average)', 'snr01': 'SNR-0.1nm (average)', 'snrbw': 'SNR-bandwidth (average)',
              'snrmin': 'SNR-0.1nm (min)', 'snrmax': 'SNR-0.1nm (max)', 'pdl': 'PDL_penalty', 'cd': 'CD_penalty',
              'pmd': 'PMD_penalty'}
NO_M = dict({k: NONE for k in METRIC_KEYS}, power=NONE, bw=NONE)
NO_RX = dict({k: NONE for k in METRIC_KEYS}, part=0)    # part: some but not all carriers out of tolerance (coverage only)
NO_REV = {k: NONE for k in CSV_METRIC}


# ------------------------------------------------------------------------------------------------------ benches
VERIF_TRX = [
    # many narrow carriers: total power well above the design reference, amplifiers en route clamp their gain
    # its first explored mode (d2) fails BECAUSE OF a chromatic-dispersion penalty, the second (d1) defines no penalty
    {'type_variety': 'VerifDense', 'frequency': {'min': 191.35e12, 'max': 196.1e12}, 'mode': [
        {'format': 'd2', 'baud_rate': 22e9, 'OSNR': 9, 'bit_rate': 100e9, 'roll_off': 0.15, 'tx_osnr': 40,
         'min_spacing': 25e9, 'cost': 3,
         'penalties': [{'chromatic_dispersion': -1e3, 'penalty_value': 0}, {'chromatic_dispersion': 100, 'penalty_value': 14},
                       {'chromatic_dispersion': 400e3, 'penalty_value': 16}]},
        {'format': 'd1', 'baud_rate': 22e9, 'OSNR': 9, 'bit_rate': 50e9, 'roll_off': 0.15, 'tx_osnr': 40,
         'min_spacing': 25e9, 'cost': 2}]},
    # a library type mixing a mode WITH impairment penalties (p1: small CD / PMD penalties, feasible) and one WITHOUT
    {'type_variety': 'VerifMixed', 'frequency': {'min': 191.35e12, 'max': 196.1e12}, 'mode': [
        {'format': 'p1', 'baud_rate': 32e9, 'OSNR': 11, 'bit_rate': 100e9, 'roll_off': 0.15, 'tx_osnr': 40,
         'min_spacing': 37.5e9, 'cost': 1,
         'penalties': [{'chromatic_dispersion': -1e3, 'penalty_value': 0}, {'chromatic_dispersion': 100, 'penalty_value': 0.4},
                       {'chromatic_dispersion': 400e3, 'penalty_value': 2.5},
                       {'pmd': 0, 'penalty_value': 0}, {'pmd': 100, 'penalty_value': 1}]},
        {'format': 'p2', 'baud_rate': 32e9, 'OSNR': 13, 'bit_rate': 50e9, 'roll_off': 0.15, 'tx_osnr': 40,
         'min_spacing': 37.5e9, 'cost': 1}]},
    # a CD tolerance that ends INSIDE the per-carrier spread of accumulated dispersion of the Lannion-Lorient route of the
    # crafted bench (1686..2572 ps/nm): the penalty is infinite for part of the carriers only
    {'type_variety': 'VerifEdge', 'frequency': {'min': 191.35e12, 'max': 196.1e12}, 'mode': [
        {'format': 'e1', 'baud_rate': 32e9, 'OSNR': 11, 'bit_rate': 100e9, 'roll_off': 0.15, 'tx_osnr': 40,
         'min_spacing': 37.5e9, 'cost': 1,
         'penalties': [{'chromatic_dispersion': -1e3, 'penalty_value': 0}, {'chromatic_dispersion': 2100, 'penalty_value': 0.5}]}]},
    # a fine ladder of modes at one baud rate (thresholds every 0.1 dB over the whole GSNR range of the benches, bit rate
    # growing with the threshold): the automatically selected mode is then a fine-grained function of the request's OWN
    # worst-channel GSNR - two requests that differ in anything the GSNR depends on (the size of the comb: 0.1 .. 0.4 dB
    # measured on the benches) select different modes when each is computed alone
    {'type_variety': 'VerifLadder', 'frequency': {'min': 191.35e12, 'max': 196.1e12}, 'mode': [
        {'format': f'L{k:03d}', 'baud_rate': 32e9, 'OSNR': round(8 + 0.1 * k, 1), 'bit_rate': 50e9 + 1e9 * k,
         'roll_off': 0.15, 'tx_osnr': 40, 'min_spacing': 37.5e9, 'cost': 1} for k in range(201)]},
    # thresholds no path of the benches reaches: NO_FEASIBLE_MODE (automatic) and MODE_NOT_FEASIBLE (forced)
    {'type_variety': 'VerifHard', 'frequency': {'min': 191.35e12, 'max': 196.1e12}, 'mode': [
        {'format': 'h1', 'baud_rate': 32e9, 'OSNR': 30, 'bit_rate': 100e9, 'roll_off': 0.15, 'tx_osnr': 40,
         'min_spacing': 37.5e9, 'cost': 1},
        {'format': 'h2', 'baud_rate': 64e9, 'OSNR': 35, 'bit_rate': 400e9, 'roll_off': 0.15, 'tx_osnr': 40,
         'min_spacing': 75e9, 'cost': 3},
        {'format': 'h3', 'baud_rate': 64e9, 'OSNR': 33, 'bit_rate': 300e9, 'roll_off': 0.15, 'tx_osnr': 40,
         'min_spacing': 75e9, 'cost': 3}]},
]


@lru_cache(maxsize=None)
def bench_equipment(name):
    """'ex' = gnpy/example-data/eqpt_config.json, 'td' = tests/data/eqpt_config.json (+ its advanced amplifier config);
    both with the Verif* transceiver types appended (library data only, no code is touched)"""
    import gnpy.tools.json_io as jio
    if name == 'ex':
        ej = jio.load_json(EX / 'eqpt_config.json')
        extra = jio.DEFAULT_EXTRA_CONFIG
    elif name == 'td':
        ej = jio.load_json(TD / 'eqpt_config.json')
        extra = {'std_medium_gain_advanced_config.json': jio.load_json(TD / 'std_medium_gain_advanced_config.json')}
    elif name == 'ex-plain':
        return jio.load_equipment(EX / 'eqpt_config.json')
    elif name.endswith('-op'):
        # an operator's library: the SAME transponder type / mode names with other figures (OSNR +1.5 dB, cost 2c+1)
        base = bench_equipment(name[:-3])
        eq = copy.deepcopy(base)
        for t in eq['Transceiver'].values():
            for m in t.mode:
                m['OSNR'] = m['OSNR'] + 1.5
                m['cost'] = 2 * m['cost'] + 1
        return eq
    else:
        raise KeyError(name)
    ej['Transceiver'] = ej['Transceiver'] + copy.deepcopy(VERIF_TRX)
    return jio._equipment_from_json(ej, extra)


# Raman-pumped spans ('<bench>+raman'): counter-propagating pumps sit at one site and feed the long spans that END there.
# The benches run such a network under the DEFAULT process-wide simulation parameters (Raman solver off: what an API
# user gets without a sim-params file, or with one that leaves the flag off)
RAMAN_SITE = {'meshV2': 'Lorient_KMA'}
RAMAN_MIN_KM = 60
RAMAN_OPERATIONAL = {'temperature': 283,
                     'raman_pumps': [{'power': 0.2, 'frequency': 205e12, 'propagation_direction': 'counterprop'},
                                     {'power': 0.2, 'frequency': 201e12, 'propagation_direction': 'counterprop'}]}


def with_raman_spans(t, site):
    """a copy of topology `t` in which every fibre span of RAMAN_MIN_KM or more whose next element sits at `site` is a
    RamanFiber"""
    t = copy.deepcopy(t)
    city = {e['uid']: e.get('metadata', {}).get('location', {}).get('city') for e in t['elements']}
    ends_at = {c['from_node'] for c in t['connections'] if city.get(c['to_node']) == site}
    n = 0
    for e in t['elements']:
        if e['type'] == 'Fiber' and e['uid'] in ends_at and e['params']['length'] >= RAMAN_MIN_KM:
            e['type'] = 'RamanFiber'
            e['params'].update(con_in=0.5, con_out=0.5)
            e['operational'] = copy.deepcopy(RAMAN_OPERATIONAL)
            n += 1
    if not n:
        raise KeyError(f'no span of {RAMAN_MIN_KM} km or more ends at {site}')
    return t


@lru_cache(maxsize=None)
def _topo(name):
    from gnpy.tools.json_io import load_gnpy_json
    if name.endswith('+raman'):
        return with_raman_spans(_topo(name[:-len('+raman')]), RAMAN_SITE[name.split('+')[0]])
    if name in ('meshV2', 'meshV2+island'):
        t = load_gnpy_json(EX / 'meshTopologyExampleV2.json')
        if name.endswith('island'):          # an unreachable site, so that NO_PATH can be realised; fibres with a
            for e in t['elements']:          # dispersion slope (0.07 ps/nm2/km), so that accumulated CD differs per carrier
                if e['type'] == 'Fiber':
                    e.setdefault('params', {})['dispersion_slope'] = 70.0
            loc = {'location': {'city': 'Island', 'region': '', 'latitude': 0, 'longitude': 0}}
            t['elements'] += [{'uid': 'trx Island', 'type': 'Transceiver', 'metadata': loc},
                              {'uid': 'roadm Island', 'type': 'Roadm', 'metadata': loc}]
            t['connections'] += [{'from_node': 'trx Island', 'to_node': 'roadm Island'},
                                 {'from_node': 'roadm Island', 'to_node': 'trx Island'}]
        return t
    if name == 'testTopology':
        return load_gnpy_json(TD / 'testTopology_expected.json')
    if name == 'CORONET':
        return load_gnpy_json(TD / 'CORONET_Global_Topology_expected.json')
    if name == 'ila':                       # workbook topology with in-line amplifier sites (one amplifier per direction)
        from gnpy.tools.convert import xls_to_json_data
        return xls_to_json_data(TD / 'ila_constraint.xlsx')
    raise KeyError(name)


class _BenchEqpt(dict):
    def __getitem__(self, bench):
        base = bench.split('@')[0]
        if base.endswith('%op'):                        # 'bench%op': the same topology under the operator's library
            return dict.__getitem__(self, base[:-3]) + '-op'
        return dict.__getitem__(self, base)


BENCH_EQPT = _BenchEqpt({'meshV2': 'ex', 'meshV2+island': 'ex', 'testTopology': 'td', 'CORONET': 'ex', 'ila': 'ex',
                         'meshV2+raman': 'ex', 'meshV2+island+raman': 'ex'})

# process-wide simulation parameters a bench runs under: 'bench@sim'.  '' = the defaults (analytic GN model);
# the GGN variants evaluate the NLI on a few channels spread over the propagated comb and interpolate
SIMS = {'': {},
        'ggn': {'nli_params': {'method': 'ggn_approx', 'dispersion_tolerance': 1, 'phase_shift_tolerance': 0.1,
                               'computed_number_of_channels': 4}},
        'ggnss': {'nli_params': {'method': 'ggn_spectrally_separated', 'dispersion_tolerance': 4,
                                 'phase_shift_tolerance': 0.1, 'computed_number_of_channels': 3}}}


def split_bench(bench):
    base, _, sim = bench.partition('@')
    return base.replace('%op', ''), sim


def set_sim(sim):
    from gnpy.core.parameters import SimParams
    SimParams.set_params(copy.deepcopy(SIMS[sim]))


def sim_digest():
    """the process-wide SimParams projected to one integer per parameter group"""
    from gnpy.core.parameters import SimParams
    s = SimParams()
    out = []
    for grp in (s.nli_params, s.raman_params):
        try:
            out.append(crc(grp.to_json()))
        except Exception:                                           # noqa
            out.append(crc({k: repr(v) for k, v in vars(grp).items()}))
    return out


def fresh_network(bench):
    """a freshly loaded and designed network (never shared between two planning runs), under freshly set SimParams"""
    from gnpy.tools.json_io import network_from_json
    from gnpy.tools.worker_utils import designed_network
    base, sim = split_bench(bench)
    set_sim(sim)
    eq = bench_equipment(BENCH_EQPT[bench])
    if base.endswith('+raman'):
        # the design estimates the gain of every Raman-pumped span with the numerical solver (0.4 s per span): such a
        # bench is loaded and designed ONCE per process and library; every run gets its own deep copy of that network
        return copy.deepcopy(_designed_once(base, BENCH_EQPT[bench], sim)), eq
    net = network_from_json(copy.deepcopy(_topo(base)), eq)
    net, _, _ = designed_network(eq, net)
    return net, eq


@lru_cache(maxsize=None)
def _designed_once(base, eqname, sim):
    from gnpy.tools.json_io import network_from_json
    from gnpy.tools.worker_utils import designed_network
    set_sim(sim)
    eq = bench_equipment(eqname)
    net = network_from_json(copy.deepcopy(_topo(base)), eq)
    net, _, _ = designed_network(eq, net)
    return net


def crc(obj):
    return zlib.crc32(json.dumps(obj, sort_keys=True, default=repr).encode()) & 0x7fffffff


def oms_digest(net):
    """the element list of every OMS the network's line elements point to (one integer per OMS, in oms_id order)"""
    seen = {}
    for n in net.nodes():
        o = getattr(n, 'oms', None)
        if o is not None and o.oms_id not in seen:
            seen[o.oms_id] = crc([e.uid for e in o.el_list])
    return [seen[k] for k in sorted(seen)]


def net_digest(net):
    """network_to_json projected to one 31-bit integer per element (in export order) + one for the connections"""
    from gnpy.tools.json_io import network_to_json
    j = network_to_json(net)
    return [crc(e) for e in j['elements']] + [crc(j['connections'])], [e['uid'] for e in j['elements']] + ['<connections>']


# ----------------------------------------------------------------------------------------------- request builder
def rq(rid, src, dst, typ='Voyager', mode='mode 1', spacing=50e9, nch=None, power=None, bw=100e9, bidir=False,
       slots=None, route=None, strict=True, tx_power=None):
    r = {'request-id': str(rid), 'source': f'trx {src}', 'destination': f'trx {dst}', 'src-tp-id': f'trx {src}',
         'dst-tp-id': f'trx {dst}', 'bidirectional': bidir,
         'path-constraints': {'te-bandwidth': {
             'technology': 'flexi-grid', 'trx_type': typ, 'trx_mode': mode,
             'effective-freq-slot': [{'N': a, 'M': b} for a, b in (slots or [(None, None)])], 'spacing': spacing,
             'max-nb-of-channel': nch, 'output-power': power, 'path_bandwidth': bw}}}
    if tx_power is not None:
        r['path-constraints']['te-bandwidth']['tx_power'] = tx_power
    if route:
        r['explicit-route-objects'] = {'route-object-include-exclude': [
            {'explicit-route-usage': 'route-include-ero', 'index': k,
             'num-unnum-hop': {'node-id': n, 'link-tp-id': 'link-tp-id is not used', 'hop-type': 'STRICT' if strict else 'LOOSE'}}
            for k, n in enumerate(route)]}
    return r


# ------------------------------------------------------------------------------------------ seeded random batches
SITES = {'meshV2+island': ['Lannion_CAS', 'Lorient_KMA', 'Vannes_KBE', 'Rennes_STA', 'Brest_KLA'],
         'testTopology': ['a', 'b', 'c', 'd', 'e', 'f', 'g', 'h', 'Lannion_CAS', 'Lorient_KMA', 'Vannes_KBE']}
TRX = {'meshV2+island': [('Voyager', 'mode 1', 50e9), ('Voyager', None, 75e9), ('Voyager', None, 50e9),
                         ('Voyager', 'mode 2', 75e9), ('vendorA_trx-type1', 'mode 1', 50e9),
                         ('vendorA_trx-type1', None, 75e9), ('VerifHard', None, 75e9), ('VerifHard', 'h1', 50e9),
                         ('VerifDense', 'd1', 25e9), ('Voyager', None, 30e9), ('VerifDense', None, 25e9),
                         ('VerifMixed', 'p1', 50e9), ('VerifMixed', 'p2', 50e9), ('VerifMixed', None, 50e9),
                         ('VerifEdge', 'e1', 50e9)],
       'testTopology': [('Voyager', 'mode 1', 50e9), ('Voyager', None, 75e9), ('Voyager', None, 62.5e9),
                        ('Voyager', 'mode 2', 75e9), ('vendorA_trx-type1', 'PS_SP64_1', 50e9),
                        ('vendorA_trx-type1', None, 75e9), ('Voyager_16QAM', '16QAM', 50e9), ('VerifHard', None, 75e9),
                        ('VerifHard', 'h1', 50e9), ('VerifDense', 'd1', 25e9), ('Voyager', None, 30e9),
                        ('VerifDense', None, 25e9), ('VerifMixed', 'p1', 50e9), ('VerifMixed', 'p2', 50e9),
                        ('VerifMixed', None, 50e9)]}


SITES['meshV2+island+raman'], TRX['meshV2+island+raman'] = SITES['meshV2+island'], TRX['meshV2+island']


def include_candidates(bench):
    """every ROADM / amplifier / fused node the topology file names (both directions of every link): an include list
    drawn from them is satisfiable, unsatisfiable (wrong direction, impossible order) or explicit, as it comes"""
    return [e['uid'] for e in _topo(split_bench(bench)[0])['elements'] if e['type'] in ('Roadm', 'Edfa', 'Fused')]


def variants(base, rng=None, eq=None):
    """requests that differ from `base` in exactly ONE attribute the user can tell apart, by a small amount: they are
    different requests (never to be merged, each reported with its own figures) that routing / aggregation shortcuts
    keyed on too few attributes would confuse"""
    out = []

    def v(tag, f):
        r = copy.deepcopy(base)
        r['request-id'] = f'{base["request-id"]}~{tag}'
        f(r, r['path-constraints']['te-bandwidth'])
        out.append(r)
    v('txp', lambda r, tb: tb.update(tx_power=(tb.get('tx_power') or 1e-4) * 0.01))        # < 0.1 mW apart, 20 dB apart
    v('pow', lambda r, tb: tb.update({'output-power': (tb.get('output-power') or 1e-3) + 2e-5}))
    v('bidir', lambda r, tb: r.update(bidirectional=not r['bidirectional']))
    v('nch', lambda r, tb: tb.update({'max-nb-of-channel': (tb.get('max-nb-of-channel') or 61) - 1}))
    v('spacing', lambda r, tb: tb.update(spacing=tb['spacing'] + 12.5e9))
    tb0 = base['path-constraints']['te-bandwidth']
    if tb0.get('trx_mode') is not None:
        v('auto', lambda r, tb: tb.update(trx_mode=None))                                  # the same, mode left open
        if eq is not None:
            others = [m['format'] for m in eq['Transceiver'][tb0['trx_type']].mode
                      if m['format'] != tb0['trx_mode'] and m['min_spacing'] <= tb0['spacing']]
            if others:
                v('mode', lambda r, tb: tb.update(trx_mode=others[0]))                     # another mode of the type
    ero = base.get('explicit-route-objects', {}).get('route-object-include-exclude')
    if ero:
        def flip(r, tb):
            for e in r['explicit-route-objects']['route-object-include-exclude']:
                h = e['num-unnum-hop']
                h['hop-type'] = 'LOOSE' if h['hop-type'] == 'STRICT' else 'STRICT'
        v('hop', flip)
        v('noinc', lambda r, tb: r.pop('explicit-route-objects'))
    if rng is not None:
        return [rng.choice(out)]
    # by a LARGE amount (listed last and only in the deterministic batches, so that the seeded batches stay what they were):
    # a comb a third as wide - a lighter load, so other figures and, with a fine mode ladder, another selected mode
    v('comb', lambda r, tb: tb.update({'max-nb-of-channel': max(1, (tb.get('max-nb-of-channel') or 60) // 3)}))
    return out


def near_identical(bench, light=False):
    """batches made of a base request followed by its one-attribute variants: a plain forced-mode request with an
    explicit transceiver power, a STRICT include list no route can honour (an amplifier of the opposite direction /
    nodes in an impossible order), a STRICT include list that can be honoured, an automatic-mode bidirectional one"""
    if split_bench(bench)[1]:
        # non-default simulation parameters (GGN: seconds per span): one-span routes, the variants that change the comb
        # or the direction; forced mode and bidirectional automatic mode
        a, b = ('Vannes_KBE', 'Lorient_KMA') if bench.startswith('meshV2') else ('a', 'b')
        bases = [rq('A', a, b, tx_power=1e-4, power=1e-3, bw=200e9),
                 rq('C', b, a, mode=None, spacing=75e9, bidir=True, bw=300e9)]
        keep = {'A': ('spacing', 'nch', 'bidir'), 'C': ('spacing',) if light else ('spacing', 'nch', 'bidir')}
        return [(f'near-identical-{x["request-id"]}',
                 loadable(bench, [x] + [v for v in variants(x) if v['request-id'].split('~')[1] in keep[x['request-id']]]))
                for x in bases]
    if bench.startswith('meshV2'):
        bases = [rq('A', 'Lannion_CAS', 'Lorient_KMA', tx_power=1e-4, power=1e-3, bw=200e9),
                 rq('D', 'Brest_KLA', 'Lorient_KMA', typ='VerifMixed', mode='p1', bw=200e9),    # mode WITH penalties
                 rq('B', 'Lorient_KMA', 'Lannion_CAS', route=['west edfa in Lorient_KMA to Loudeac'], bw=100e9),
                 rq('C', 'Brest_KLA', 'Rennes_STA', route=['roadm Vannes_KBE'], mode=None, spacing=75e9, bidir=True,
                    bw=300e9),
                 # automatic mode over a fine ladder of thresholds: base and variants share transponder type, spacing and
                 # route, and each selects the mode its OWN comb and transceiver power allow
                 rq('E', 'Vannes_KBE', 'Lannion_CAS', typ='VerifLadder', mode=None, tx_power=1e-3, bw=200e9)]
    else:
        bases = [rq('A', 'a', 'g', typ='Voyager', mode='mode 1', tx_power=1e-4, power=1e-3, bw=200e9),
                 rq('D', 'c', 'g', typ='VerifMixed', mode='p1', bw=200e9),
                 rq('B', 'a', 'h', route=['roadm g', 'roadm a', 'roadm g'], bw=100e9),
                 rq('C', 'f', 'b', route=['roadm c'], mode=None, spacing=75e9, bidir=True, bw=300e9),
                 rq('E', 'a', 'h', typ='VerifLadder', mode=None, tx_power=1e-3, bw=200e9)]
    eq = bench_equipment(BENCH_EQPT[bench])
    return [(f'near-identical-{b["request-id"]}', loadable(bench, [b] + variants(b, eq=eq))) for b in bases]


@lru_cache(maxsize=None)
def route_table(bench):
    """shortest route between every ordered pair of transceivers of the designed bench: [(uid, element class), ...]"""
    import networkx as nx
    from gnpy.core.elements import Transceiver
    try:
        net, _ = fresh_network(split_bench(bench)[0])
    finally:
        set_sim('')
    trx = [n for n in net.nodes() if isinstance(n, Transceiver)]
    out = {}
    for a in trx:
        for b in trx:
            if a is not b:
                try:
                    out[(a.uid, b.uid)] = [(e.uid, type(e).__name__) for e in nx.dijkstra_path(net, a, b, weight='weight')]
                except nx.NetworkXNoPath:
                    pass
    return out


def oms_segments(route):
    """the line elements of a route grouped per OMS (between two ROADMs)"""
    segs, cur = [], []
    for uid, kind in route:
        if kind == 'Roadm':
            if cur:
                segs.append(cur)
            cur = []
        elif kind != 'Transceiver':
            cur.append((uid, kind))
    return segs


def explicit_route_batches(bench):
    """include lists that name LINE elements (fibres, amplifiers) of the request's own route - the route is then built
    from the OMS element lists themselves (explicit_path) - next to bidirectional requests whose reverse direction runs
    through those very OMS and beyond: X one-OMS explicit route s->m, XL the same LOOSE, X2 explicit route over every
    OMS s->d, Y bidirectional d->s (its reverse crosses the first OMS of X and continues), Z bidirectional m->s"""
    table = route_table(bench)
    out = []
    for (s, d), route in sorted(table.items()):
        roadms = [u for u, k in route if k == 'Roadm']
        segs = oms_segments(route)
        if len(roadms) < 3 or len(segs) < 2:
            continue
        mid = 'trx ' + roadms[1][len('roadm '):]
        if (s, mid) not in table or [u for u, k in table[(s, mid)] if k == 'Roadm'] != roadms[:2]:
            continue
        site = lambda u: u[len('trx '):]                                                    # noqa
        fibre = next((u for u, k in segs[0] if k == 'Fiber'), segs[0][0][0])
        per_oms = [next((u for u, k in seg if k in ('Edfa', 'Fiber')), seg[0][0]) for seg in segs]
        reqs = [rq('X', site(s), site(mid), route=[fibre], bw=100e9),
                rq('Y', site(d), site(s), bidir=True, bw=200e9),
                rq('X2', site(s), site(d), route=per_oms, bw=100e9, mode=None, spacing=75e9),
                rq('XL', site(s), site(mid), route=[fibre], strict=False, bw=300e9, bidir=True),
                rq('Z', site(mid), site(s), bidir=True, mode=None, spacing=75e9, bw=100e9)]
        out.append((f'explicit-route-{len(out)}', loadable(bench, reqs)))
        if len(out) == 2:
            break
    return out


SHEET_COLUMNS = ('route id', 'Source', 'Destination', 'TRX type', 'Mode', 'System: spacing', 'System: input power (dBm)',
                 'System: nb of channels', 'routing: disjoint from', 'routing: path', 'routing: is loose?', 'path bandwidth')


def sheet_rows():
    """service-sheet rows on the `ila` workbook: route constraints naming in-line amplifier SITES (the sheet entry point
    resolves a site name to the amplifier of the direction the request crosses it in), both directions, strict / loose"""
    def row(rid, s, d, path, loose, mode=None, bw=100):
        return (rid, s, d, 'Voyager', mode, 100 if mode is None else 50, None, None, None, path, loose, bw)
    return {'e12': row('e12', 'node1', 'node2', 'node1 | siteE | node2', 'no'),
            'e21': row('e21', 'node2', 'node1', 'node2 | siteE | node1', 'no'),
            'f12': row('f12', 'node1', 'node2', 'siteF', 'yes', mode='mode 1', bw=200),
            'f21': row('f21', 'node2', 'node1', 'siteF | node1', 'no', mode='mode 1'),
            'e21b': row('e21b', 'node2', 'node1', 'siteE', 'yes', bw=300),
            'ab': row('ab', 'node1', 'node2', 'siteA | siteB', 'no', mode='mode 1'),
            'ba': row('ba', 'node2', 'node1', 'siteB | siteA', 'no', mode='mode 1')}


def sheet_builder(rows):
    """ids (in order) -> the service data the XLSX entry point (json_io.load_requests on a workbook) produces for a sheet
    holding exactly those rows"""
    import tempfile
    import openpyxl
    from pathlib import Path
    from harness.tlc import BUILD
    from gnpy.tools.json_io import load_requests

    cache = {}

    def template():
        """the sheets of the shipped workbook as lists of rows (read once); the Service sheet up to its header row"""
        if not cache:
            wb = openpyxl.load_workbook(TD / 'ila_constraint.xlsx', read_only=True)
            for ws in wb:
                rws = [list(r) for r in ws.iter_rows(values_only=True)]
                width = max((max((i + 1 for i, v in enumerate(r) if v is not None), default=0) for r in rws), default=0)
                rws = [r[:width] for r in rws]
                if ws.title == 'Service':
                    hdr = next(i for i, r in enumerate(rws) if r and r[0] == 'route id')
                    rws = rws[:hdr + 1]
                cache[ws.title] = rws
        return cache

    def build(ids):
        BUILD.mkdir(exist_ok=True)
        tmp = Path(tempfile.mkdtemp(prefix='sheet-', dir=BUILD))
        try:
            wb = openpyxl.Workbook()
            wb.remove(wb.active)
            for title, rws in template().items():
                ws = wb.create_sheet(title)
                for r in rws:
                    ws.append(r)
                if title == 'Service':
                    for i in ids:
                        ws.append(list(rows[i]))
            f = tmp / 'batch.xlsx'
            wb.save(f)
            try:
                net, eq = fresh_network('ila')
            finally:
                set_sim('')
            return load_requests(f, eq, bidir=False, network=net, network_filename=f)
        finally:
            import shutil
            shutil.rmtree(tmp, ignore_errors=True)
    return build


def sync_batches(bench):
    """batches whose requests are tied by synchronization vectors with several feasible disjoint combinations: two
    requests with the same ends, two with a common source, a chain of two vectors.  The vectors list the requests in
    one fixed order, whatever the order of the path-request list"""
    def vec(sid, ids):
        return {'synchronization-id': sid, 'svec': {'relaxable': False, 'disjointness': 'node link',
                                                    'request-id-number': list(ids)}}
    if split_bench(bench)[0].startswith('meshV2'):
        a, b, c, d = 'Lannion_CAS', 'Lorient_KMA', 'Brest_KLA', 'Rennes_STA'
    else:
        a, b, c, d = 'a', 'g', 'f', 'b'
    return [
        ('sync-same-ends', {'path-request': [rq('r1', a, b), rq('r2', a, b)], 'synchronization': [vec('s', ['r1', 'r2'])]}),
        ('sync-common-source', {'path-request': [rq('r1', c, b, bw=200e9), rq('r2', c, d, mode=None, spacing=75e9)],
                                'synchronization': [vec('s', ['r1', 'r2'])]}),
        ('sync-chain', {'path-request': [rq('r1', a, b), rq('r2', c, d, bidir=True), rq('r3', a, d), rq('r4', a, d)],
                        'synchronization': [vec('s1', ['r1', 'r2']), vec('s2', ['r3', 'r2'])]}),
        ('sync-two-vectors', {'path-request': [rq('r1', a, b), rq('r2', a, d, bidir=True), rq('r3', c, d), rq('r4', a, d)],
                              'synchronization': [vec('s1', ['r1', 'r2']), vec('s2', ['r3', 'r4'])]}),
    ]


def random_batch(rng, bench, tag, n):
    """seeded batch: every transponder situation of the bench library, free / fixed / multi / insufficient slots,
    uni- and bidirectional, loose / strict include lists over every node of the topology file, identical copies to be
    aggregated and one-attribute variants of earlier requests that must NOT be"""
    base_bench = split_bench(bench)[0]
    sites, trx = SITES[base_bench], TRX[base_bench]
    inc = include_candidates(bench)
    out = []
    for i in range(n):
        if out and rng.random() < 0.2:
            r = variants(rng.choice(out), rng)[0]
            r['request-id'] = f'{tag}{i}'
            out.append(r)
            continue
        if out and rng.random() < 0.25:
            r = copy.deepcopy(rng.choice(out))
            r['request-id'] = f'{tag}{i}'
            r['path-constraints']['te-bandwidth']['path_bandwidth'] = rng.choice([100e9, 200e9, 400e9])
            out.append(r)
            continue
        s, d = rng.sample(sites + (['Island'] if '+island' in base_bench and rng.random() < 0.1 else []), 2)
        typ, mode, spacing = rng.choice(trx)
        pcm = int(-(-spacing // 12.5e9))
        n0 = rng.randrange(-200, 300, 4)
        kind = rng.choice(['free', 'free', 'free', 'fixNM', 'two', 'fixM', 'small'])
        nb = rng.choice([1, 1, 2, 3])
        slots = {'free': None, 'fixNM': [(n0, nb * pcm)], 'two': [(n0, nb * pcm), (n0 + 100, nb * pcm)],
                 'fixM': [(None, nb * pcm)], 'small': [(None, pcm)]}[kind]
        bw = {'two': 2 * nb, 'small': 9}.get(kind, nb) * 100e9
        route = rng.sample(inc, rng.choice([1, 1, 2])) if rng.random() < 0.25 else None
        own = route_table(bench).get((f'trx {s}', f'trx {d}'))
        if own and rng.random() < 0.2:                  # line elements of the request's own route, in route order
            segs = oms_segments(own)
            picks = [rng.choice(seg)[0] for seg in segs if seg]
            route = picks if rng.random() < 0.5 else picks[:1]
        out.append(rq(f'{tag}{i}', s, d, typ=typ, mode=mode, spacing=spacing, bw=bw, bidir=rng.random() < 0.4,
                      slots=slots, route=route, strict=rng.random() < 0.5,
                      power=rng.choice([None, 0.001, 0.0015848931924611134])))
    return out


def loadable(bench, reqs):
    """keep what the loader accepts alone (ServiceError = a legitimate refusal of the request, not judged here)"""
    from gnpy.tools.json_io import requests_from_json
    from gnpy.core.exceptions import ServiceError, EquipmentConfigError
    eq = bench_equipment(BENCH_EQPT[bench])
    keep = []
    for r in reqs:
        try:
            requests_from_json({'path-request': [copy.deepcopy(r)]}, eq)
            keep.append(r)
        except (ServiceError, EquipmentConfigError):
            continue
    return keep


def cw(x):
    """bit/s -> 10 Mbit/s units (centi-Gbit/s)"""
    return int(round(float(x) / 1e7))


def nw(x):
    return int(round(float(x) * 1e9))


def input_table(data, eq):
    """the requests as the user wrote them (JSON form), projected; `key` collects every field that distinguishes two
    requests for the user (two requests may only be reported together when their keys are equal)"""
    from gnpy.tools.json_io import requests_from_json
    si = eq['SI']['default']
    sync = data.get('synchronization', [])
    out = []
    for r in data['path-request']:
        tb = r['path-constraints']['te-bandwidth']
        rid = str(r['request-id'])
        p = tb.get('output-power')
        if p is None:
            p = 10 ** (si.power_dbm / 10) * 1e-3
        ero = r.get('explicit-route-objects', {}).get('route-object-include-exclude', [])
        syn = sorted({x for s in sync if rid in s['svec']['request-id-number'] for x in s['svec']['request-id-number']
                      if x != rid})         # the requests it must be disjoint from
        try:            # the loader's resolved view of the request (defaults filled in, channel count computed)
            q = requests_from_json({'path-request': [copy.deepcopy(r)]}, eq)[0]
            res = [q.source, q.destination, q.tsp, q.tsp_mode, q.baud_rate, q.nodes_list, q.loose_list, q.spacing,
                   q.power, q.nb_channel, q.f_min, q.f_max, q.format, q.OSNR, q.roll_off, q.tx_power, q.tx_osnr]
        except Exception:                                                   # noqa: fall back to the raw fields
            res = [r['source'], r['destination'], tb['trx_type'], tb.get('trx_mode'), tb['spacing'],
                   tb.get('max-nb-of-channel'), p, tb.get('tx_power'),
                   [(e['num-unnum-hop']['node-id'], e['num-unnum-hop']['hop-type']) for e in ero]]
        key = json.dumps([res, syn, bool(r['bidirectional'])], sort_keys=True, default=repr)
        out.append(dict(id=rid, bw=cw(tb.get('path_bandwidth', 0)), key=key, bidir=bool(r['bidirectional']),
                        type=tb['trx_type'], mode=tb.get('trx_mode') or '', power=nw(p), powerudbm=udb(10 * math.log10(p * 1e3))))
    return out


# ------------------------------------------------------------------------------------------------------ recorder
def rx_figures(trx):
    """what the receiving Transceiver holds right after a propagation, in micro-dB"""
    def pen(k):
        if k not in trx.penalties:
            return NONE
        return udb(float(np.mean(trx.penalties[k])))            # infinite as soon as one carrier is out of tolerance
    if trx.snr is None:
        return dict(NO_RX)
    return dict(snrbw=udb(float(np.mean(trx.snr))), snr01=udb(float(np.mean(trx.snr_01nm))),
                osnrbw=udb(float(np.mean(trx.osnr_ase))), osnr01=udb(float(np.mean(trx.osnr_ase_01nm))),
                snrmin=udb(float(np.min(trx.snr_01nm))), snrmax=udb(float(np.max(trx.snr_01nm))),
                pdl=pen('pdl'), cd=pen('chromatic_dispersion'), pmd=pen('pmd'),
                part=int(any(0 < int(np.isinf(np.atleast_1d(v)).sum()) < np.atleast_1d(v).size
                             for v in trx.penalties.values())))


class PlanRecorder(contextlib.AbstractContextManager):
    """Observes one planning() run (wrappers only, the originals do all the work):
       routing      -> the computed route of every request (uid list), in table order
       propagation  -> per request and direction, the receiver's figures at the return of its own propagation
                       and the mode the automatic selection returned
       assignment   -> per request the OMS its path (both directions) uses, and N / M / blocking reason at the return
       every stage  -> the blocking reason found on the request when a stage starts / returns (`raised`, in order)"""

    def __init__(self):
        self.order = []        # id(rq) in table order
        self.route = {}        # id(rq) -> [uid]
        self.fwd = {}          # id(rq) -> rx figures (last forward propagation)
        self.rev = {}
        self.sel = {}          # id(rq) -> format returned by the automatic mode selection ('' when it returned None)
        self.oms = {}
        self.nm = {}
        self.reason = {}
        self.routeRev = {}     # id(rq) -> [uid] of the propagated reverse path
        self.omsB = []         # element lists of the OMS (one integer each) when routing starts
        self.raised = {}       # id(rq) -> blocking reasons in the order they were first observed on the request
        self.red = []          # one record per redesign (planning(redesign=True)): request id, indices (export order) of
        #                        the elements it was given, indices of the elements whose exported settings changed, and
        #                        the digests of the elements it was given when it returned
        self.net = None        # the network the redesigns are observed on (set by run_batch)
        self._saved = []
        self._keep = []

    def __enter__(self):
        import gnpy.topology.request as R
        import gnpy.tools.worker_utils as W
        from gnpy.topology.spectrum_assignment import build_path_oms_id_list
        rec = self
        o_prop, o_opt, o_route, o_assign = R.propagate, R.propagate_and_optimize_mode, W.compute_path_dsjctn, \
            W.pth_assign_spectrum

        def see(req):
            r = getattr(req, 'blocking_reason', '') or ''
            lst = rec.raised.setdefault(id(req), [])
            if r and (not lst or lst[-1] != r):
                lst.append(r)

        def propagate(path, req, equipment):
            see(req)
            out = o_prop(path, req, equipment)
            see(req)
            if path:
                (rec.fwd if path[0].uid == req.source else rec.rev)[id(req)] = rx_figures(path[-1])
                if path[0].uid != req.source:
                    rec.routeRev[id(req)] = [e.uid for e in path]
            return out

        def propagate_and_optimize_mode(path, req, equipment):
            out = o_opt(path, req, equipment)
            see(req)
            pth, mode = out
            rec.sel[id(req)] = mode['format'] if mode else ''
            if pth:
                rec.fwd[id(req)] = rx_figures(pth[-1])
            return out

        def compute_path_dsjctn(network, equipment, pathreqlist, disjunctions_list):
            rec.omsB = oms_digest(network)
            out = o_route(network, equipment, pathreqlist, disjunctions_list)
            rec.order = [id(r) for r in pathreqlist]
            rec._keep = list(pathreqlist)
            for r, p in zip(pathreqlist, out):
                rec.route[id(r)] = [e.uid for e in p]
                see(r)
            return out

        o_design = R.network_module.design_network

        def design_network(reference_channel, network, equipment, *a, **kw):
            # only reached through compute_path_with_disjunction(redesign=True): `network` is the subgraph of one route
            if rec.net is None:
                return o_design(reference_channel, network, equipment, *a, **kw)
            before, uids = net_digest(rec.net)
            out = o_design(reference_channel, network, equipment, *a, **kw)
            after, _ = net_digest(rec.net)
            pos = {u: k + 1 for k, u in enumerate(uids)}
            given = sorted(pos[n.uid] for n in network.nodes() if n.uid in pos)
            rec.red.append(dict(id=str(getattr(reference_channel, 'request_id', '')), given=given,
                                changed=[k + 1 for k, (x, y) in enumerate(zip(before, after)) if x != y],
                                post=[after[k - 1] for k in given]))
            return out

        def pth_assign_spectrum(pths, rqs, oms_list, rpths, policy='first_fit'):
            for p, r, rp in zip(pths, rqs, rpths):
                see(r)
                rec.oms[id(r)] = sorted(build_path_oms_id_list(p + rp)) if p else []
            out = o_assign(pths, rqs, oms_list, rpths, policy=policy)
            for r in rqs:
                n, m = getattr(r, 'N', None), getattr(r, 'M', None)
                rec.nm[id(r)] = [[NONE if a is None else int(a), NONE if b is None else int(b)]
                                 for a, b in zip(n or [], m or [])]
                see(r)
                rec.reason[id(r)] = getattr(r, 'blocking_reason', '') or ''
            return out

        class _NM:                      # request.py calls network_module.design_network: shadow that one name only
            def __getattr__(self_, k):
                return design_network if k == 'design_network' else getattr(o_nm, k)
        o_nm = R.network_module
        self._saved.append((R, 'network_module', o_nm))
        R.network_module = _NM()
        for mod, name, new, old in ((R, 'propagate', propagate, o_prop),
                                    (R, 'propagate_and_optimize_mode', propagate_and_optimize_mode, o_opt),
                                    (W, 'compute_path_dsjctn', compute_path_dsjctn, o_route),
                                    (W, 'pth_assign_spectrum', pth_assign_spectrum, o_assign)):
            self._saved.append((mod, name, old))
            setattr(mod, name, new)
        return self

    def __exit__(self, *exc):
        for mod, name, old in reversed(self._saved):
            setattr(mod, name, old)
        self._saved = []
        return False


# -------------------------------------------------------------------------------------- response / CSV projections
def centi(v):
    if v is None:
        return MISSING
    if isinstance(v, str):
        if v == 'not evaluated' or v == '':
            return NONE
        if v == 'Infinity':
            return INF
        v = float(v)
    if isinstance(v, bool):
        return int(v)
    if math.isinf(v):
        return INF if v > 0 else -INF
    return int(round(float(v) * 100))


def proj_metric(lst):
    vals = {e['metric-type']: e['accumulative-value'] for e in lst}
    m = {k: centi(vals.get(JSON_METRIC[k])) for k in METRIC_KEYS}
    m['power'] = nw(vals['reference_power']) if 'reference_power' in vals else MISSING
    m['bw'] = cw(vals['path_bandwidth']) if 'path_bandwidth' in vals else MISSING
    return m


def proj_entry(e):
    """one element of response['response'] -> homogeneous record of strings / integers"""
    top = sorted(k for k in e if k != 'response-id')
    d = dict(idstr=str(e['response-id']), ids=str(e['response-id']).split(JOIN), top=top, npkeys=[], reason='',
             hasProps=False, objs=[], metric=dict(NO_M), hasZA=False, za=dict(NO_M))
    props = None
    if 'no-path' in e:
        d['npkeys'] = sorted(e['no-path'])
        d['reason'] = str(e['no-path'].get('no-path', ''))
        props = e['no-path'].get('path-properties')
    if 'path-properties' in e:
        props = e['path-properties']
    if props is not None:
        d['hasProps'] = True
        d['metric'] = proj_metric(props.get('path-metric', []))
        if 'z-a-path-metric' in props:
            d['hasZA'] = True
            d['za'] = proj_metric(props['z-a-path-metric'])
        for pro in props.get('path-route-objects', []):
            inner = pro['path-route-object']
            o = dict(k='?', idx=int(inner.get('index', MISSING)), uid='', nm=[], type='', mode='')
            if 'num-unnum-hop' in inner:
                o.update(k='hop', uid=str(inner['num-unnum-hop']['node-id']))
            elif 'label-hop' in inner:
                o.update(k='label', nm=[[NONE if x['N'] is None else int(x['N']), NONE if x['M'] is None else int(x['M'])]
                                        for x in inner['label-hop']])
            elif 'transponder' in inner:
                o.update(k='trx', type=str(inner['transponder']['transponder-type'] or ''),
                         mode=str(inner['transponder']['transponder-mode'] or ''))
            d['objs'].append(o)
    return d


def parse_spectrum(s):
    """'[-272, 4], [8, 8]' -> [[-272, 8], [4, 8]]; several distinct label sets are joined with ' | ' by the writer"""
    if not s:
        return []
    out = []
    for part in s.split(JOIN):
        ns, ms = ast.literal_eval('(' + part + ')')
        out += [[NONE if a is None else int(a), NONE if b is None else int(b)] for a, b in zip(ns, ms)]
    return out


def proj_row(r):
    d = dict(idstr=r['response-id'], src=r['source'], dst=r['destination'], bw=centi(r['path_bandwidth']),
             passf=r['Pass?'], nbtsp=centi(r['nb of tsp pairs']), cost=centi(r['total cost']),
             type=r['transponder-type'], mode=r['transponder-mode'], bitrate=centi(r['bit rate']),
             thr=centi(r['min required OSNR (inc. margin)']), baud=centi(r['baud rate (Gbaud)']),
             power=centi(r['input power (dBm)']), path=r['path'].split(JOIN) if r['path'] else [],
             nm=parse_spectrum(r['spectrum (N,M)']),
             m={k: centi(r[v]) for k, v in CSV_METRIC.items()},
             rev={k: centi(r['reversed path ' + v]) for k, v in CSV_METRIC.items()})
    return d


def csv_rows(response, eq):
    from gnpy.topology.request import jsontocsv
    f = io.StringIO()
    jsontocsv(response, eq, f)
    f.seek(0)
    return [proj_row(r) for r in csv.DictReader(f)]


def mode_info(eq, typ, mode):
    """library figures of (type, mode) in centi-units; all NONE when the pair does not exist"""
    try:
        m = next(m for m in eq['Transceiver'][typ].mode if m['format'] == mode)
    except (KeyError, StopIteration):
        return dict(osnr=NONE, baud=NONE, bitrate=NONE, cost=NONE, margin=centi(eq['SI']['default'].sys_margins))
    return dict(osnr=centi(m['OSNR']), baud=centi(m['baud_rate'] * 1e-9), bitrate=centi(m['bit_rate'] * 1e-9),
                cost=centi(m['cost']), margin=centi(eq['SI']['default'].sys_margins))


# ------------------------------------------------------------------------------------------------ one planning run
class Run:
    """everything observed about one planning() call"""


def api_requests(data, eq):
    """the batch built through the API: PathRequest(**params) with the loader's resolved values, optional keys the
    user did not give (no include list -> no nodes_list / loose_list) left to the class defaults"""
    from gnpy.tools.json_io import requests_from_json
    from gnpy.topology.request import PathRequest
    out = []
    for q in requests_from_json(copy.deepcopy(data), eq):
        params = dict(request_id=q.request_id, source=q.source, destination=q.destination, bidir=q.bidir,
                      trx_type=q.tsp, trx_mode=q.tsp_mode, format=q.format, baud_rate=q.baud_rate, bit_rate=q.bit_rate,
                      roll_off=q.roll_off, OSNR=q.OSNR, penalties=q.penalties, path_bandwidth=q.path_bandwidth,
                      f_min=q.f_min, f_max=q.f_max, spacing=q.spacing, min_spacing=q.min_spacing, cost=q.cost,
                      nb_channel=q.nb_channel, power=q.power, equalization_offset_db=q.offset_db, tx_power=q.tx_power,
                      tx_osnr=q.tx_osnr,
                      effective_freq_slot=[{'N': n, 'M': m} for n, m in zip(q.N, q.M)] if hasattr(q, 'N') else None)
        if q.nodes_list:
            params.update(nodes_list=list(q.nodes_list), loose_list=list(q.loose_list))
        out.append(PathRequest(**params))
    return out


def planning_cli(bench, data, suffix='json'):
    """the command-line entry point: cli_examples.path_requests_run([topology, services, -e library, -o result.<suffix>])
    on files written for the occasion; returns what it saved (the parsed JSON document, or the CSV text)"""
    import contextlib
    import io
    import shutil
    import tempfile
    from pathlib import Path
    import gnpy.tools.json_io as jio
    import gnpy.tools.cli_examples as C
    from harness.tlc import BUILD
    if BENCH_EQPT[bench] != 'ex':
        raise KeyError('command-line runs use the example-data library (default extra configs)')
    BUILD.mkdir(exist_ok=True)
    tmp = Path(tempfile.mkdtemp(prefix='cli-', dir=BUILD))
    try:
        ej = jio.load_json(EX / 'eqpt_config.json')
        ej['Transceiver'] = ej['Transceiver'] + copy.deepcopy(VERIF_TRX)
        jio.save_json(ej, tmp / 'eqpt.json')
        jio.save_json(_topo(split_bench(bench)[0]), tmp / 'topology.json')
        jio.save_json(data, tmp / 'services.json')
        out = tmp / f'result.{suffix}'
        with contextlib.redirect_stdout(io.StringIO()), contextlib.redirect_stderr(io.StringIO()):
            try:
                C.path_requests_run([str(tmp / 'topology.json'), str(tmp / 'services.json'), '-e', str(tmp / 'eqpt.json'),
                                     '-o', str(out)])
            except SystemExit as ex:
                raise RuntimeError(f'ServiceError: command line exited with {ex.code}')
        return jio.load_json(out) if suffix == 'json' else out.read_text(encoding='utf-8')
    finally:
        shutil.rmtree(tmp, ignore_errors=True)


def planning_api(network, eq, data):
    """the steps of worker_utils.planning() on requests built through the API (module attributes looked up at call
    time, so recorders and in-process mutants apply)"""
    import gnpy.tools.worker_utils as W
    oms_list = W.build_oms_list(network, eq)
    rqs = api_requests(data, eq)
    W.check_request_path_ids(rqs)
    rqs = W.correct_json_route_list(network, rqs)
    dsjn = W.deduplicate_disjunctions(W.disjunctions_from_json(data))
    rqs, dsjn = W.requests_aggregation(rqs, dsjn)
    pths = W.compute_path_dsjctn(network, eq, rqs, dsjn)
    ppths, rpths, rppths = W.compute_path_with_disjunction(network, eq, rqs, pths)
    W.pth_assign_spectrum(pths, rqs, oms_list, rpths)
    result = [W.ResultElement(rq_, p, rp) for rq_, p, rp in zip(rqs, ppths, rppths)]
    return oms_list, ppths, rppths, rqs, dsjn, result


REFUSALS = ('ServiceError', 'DisjunctionError')       # the code's legitimate "I will not compute this batch"


def run_batch(bench, data, name, want_csv=True, via='json', warm=None, redesign=False):
    """planning() on a fresh network under freshly set SimParams, recorded.  via='api': same steps, requests built with
    PathRequest(**params); via='cli': the command-line entry point on files, judged on the documents it SAVES.  Returns a Run with: inputs, entries (per response entry: outcome `o` assembled from the
    captures, projected response entry `e`, CSV row `row`), netB/netA and simB/simA digests, response (raw), exc"""
    from gnpy.tools.worker_utils import planning
    from gnpy.tools.json_io import results_to_json
    from gnpy.tools.cli_examples import _path_result_json
    try:
        return _run_batch(bench, data, name, want_csv, via, planning, results_to_json, _path_result_json, warm, redesign)
    finally:
        set_sim('')


def _run_batch(bench, data, name, want_csv, via, planning, results_to_json, _path_result_json, warm=None, redesign=False):
    net, eq = fresh_network(bench)
    run = Run()
    run.name, run.bench, run.data = name, bench, data
    run.inputs = input_table(data, eq)
    set_sim(split_bench(bench)[1])              # input_table / design must not be what is observed
    run.netB, run.net_uids = net_digest(net)
    run.warm_changed = False
    if warm:
        # the designed network has been USED before: these requests were simulated one by one on the network's own
        # elements (what the single-path simulation does).  Judged only if that left the exported settings untouched.
        import gnpy.topology.request as R
        from gnpy.tools.json_io import requests_from_json
        for q in requests_from_json({'path-request': copy.deepcopy(warm)}, eq):
            q.nodes_list.append(q.destination)
            q.loose_list.append('STRICT')
            pth = R.compute_constrained_path(net, q)
            if pth and q.baud_rate is not None:
                R.propagate(pth, q, eq)
        after, _ = net_digest(net)
        run.warm_changed = after != run.netB
        run.netB = after
    run.simB = sim_digest()
    run.exc = None
    run.refused = False
    rec = PlanRecorder()
    rec.net = net if redesign else None
    run.redesign, run.red = bool(redesign), rec.red
    try:
        with rec:
            if redesign:          # the pipeline variant --redesign-per-request (legacy JSON entry point only)
                _, _, _, rqs, _, result = planning(net, eq, copy.deepcopy(data), redesign=True)
            elif via == 'cli':
                response = response2 = planning_cli(bench, copy.deepcopy(data), 'json')     # the document it SAVED
                rqs = list(rec._keep)                                                       # the request table it used
            elif via == 'api':
                _, _, _, rqs, _, result = planning_api(net, eq, copy.deepcopy(data))
            else:
                _, _, _, rqs, _, result = planning(net, eq, copy.deepcopy(data))
        if via != 'cli':
            response = results_to_json(result)
            response2 = _path_result_json(result)
    except Exception as ex:                                           # noqa: an exception here is reported by the caller
        import traceback
        run.exc = f'{type(ex).__name__}: {ex}'
        run.refused = type(ex).__name__ in REFUSALS
        run.tb = traceback.format_exc()
        run.netA, _ = net_digest(net)
        run.simA = sim_digest()
        run.entries = []
        return run
    run.netA, _ = net_digest(net)
    run.simA = sim_digest()
    omsA = oms_digest(net)                      # the OMS element lists are part of the designed network
    if len(omsA) == len(rec.omsB):
        run.netB, run.netA = run.netB + rec.omsB, run.netA + omsA
        run.net_uids = run.net_uids + [f'<oms {k}>' for k in range(len(omsA))]
    run.response = response
    run.same_writer = response == response2
    run.csv_exc = None
    rows = []
    if want_csv:
        try:
            if via == 'cli':                      # the CSV the command line writes (a second invocation, -o result.csv)
                text = planning_cli(bench, copy.deepcopy(data), 'csv')
                rows = [proj_row(r) for r in csv.DictReader(io.StringIO(text))]
            else:
                rows = csv_rows(response, eq)
        except Exception as ex:                                       # noqa: reported by the caller as a violation
            run.csv_exc = f'{type(ex).__name__}: {ex}'
    by_id = {r['id']: r for r in run.inputs}
    run.entries = []
    for i, (q, ent) in enumerate(zip(rqs, response['response'])):
        k = id(q)
        e = proj_entry(ent)
        members = [by_id[x] for x in e['ids'] if x in by_id]
        first = members[0] if members else dict(type='', mode='', power=NONE, powerudbm=NONE)
        sel = rec.sel.get(k)
        mode = sel if sel is not None else first['mode']
        raised = list(rec.raised.get(k, []))
        o = dict(route=rec.route.get(k, []), reason=raised[0] if raised else '', raised=raised,
                 finalReason=rec.reason.get(k, ''), nm=rec.nm.get(k, []),
                 bidir=any(m['bidir'] for m in members), allbidir=all(m['bidir'] for m in members),
                 type=first['type'], mode=mode, auto=sel is not None,
                 hasRx=k in rec.fwd, rx=rec.fwd.get(k, dict(NO_RX)), hasRev=k in rec.rev, rxRev=rec.rev.get(k, dict(NO_RX)),
                 power=first['power'], powerudbm=first['powerudbm'], mi=mode_info(eq, first['type'], mode),
                 oms=rec.oms.get(k, []), routeRev=rec.routeRev.get(k, []))
        row = rows[i] if i < len(rows) else None
        run.entries.append(dict(o=o, e=e, row=row))
    run.nrows = len(rows)
    return run


def units_by_key(inputs, data):
    """requests that MAY be computed / reported together: identical for the user (same key) or tied by a
    synchronization vector.  Anything else must come out as if computed alone."""
    parent = {r['id']: r['id'] for r in inputs}

    def find(x):
        while parent[x] != x:
            parent[x] = parent[parent[x]]
            x = parent[x]
        return x
    by_key = {}
    for r in inputs:
        by_key.setdefault(r['key'], []).append(r['id'])
    groups = list(by_key.values()) + [s['svec']['request-id-number'] for s in data.get('synchronization', [])]
    for g in groups:
        g = [x for x in g if x in parent]
        for x in g[1:]:
            parent[find(x)] = find(g[0])
    out = {}
    for r in inputs:
        out.setdefault(find(r['id']), []).append(r['id'])
    return list(out.values())


EMPTY_ROW = dict(idstr='', src='', dst='', bw=NONE, passf='', nbtsp=NONE, cost=NONE, type='', mode='', bitrate=NONE,
                 thr=NONE, baud=NONE, power=NONE, path=[], nm=[], m={k: NONE for k in CSV_METRIC}, rev=dict(NO_REV))
NO_CORE = dict(found=False, reason='', route=[], routeRev=[], mode='', metric=dict(NO_M), hasZA=False, za=dict(NO_M),
               rx=dict(NO_RX), rxRev=dict(NO_RX), nm=[], hasRow=False, row=EMPTY_ROW)
NO_C16 = dict(has=False, exp='', cur=NO_CORE, solo=NO_CORE, unit=0, hasRef=False, ref=NO_CORE)


def core_of(ent):
    """the part of one entry C16 compares between two runs"""
    o, e = ent['o'], ent['e']
    return dict(found=True, reason=e['reason'], route=[x['uid'] for x in e['objs'] if x['k'] == 'hop'],
                mode=next((x['mode'] for x in e['objs'] if x['k'] == 'trx'), ''), metric=e['metric'], hasZA=e['hasZA'],
                za=e['za'], rx=o['rx'], rxRev=o['rxRev'], nm=o['nm'], routeRev=o['routeRev'],
                hasRow=ent['row'] is not None, row=ent['row'] or EMPTY_ROW)


def trace_of(run, c16=None, j19=True, soloPost=None):
    """one ndjson line for Trace_Planning.  c16: per entry index -> dict(exp, solo core, unit) or None"""
    ents = []
    for i, ent in enumerate(run.entries):
        x = dict(o=ent['o'], e=ent['e'], hasRow=ent['row'] is not None, row=ent['row'] or EMPTY_ROW,
                 c16=dict(NO_C16))
        if c16 and c16.get(i):
            x['c16'] = dict(has=True, exp=c16[i].get('exp', ''), cur=core_of(ent), solo=c16[i]['solo'] or NO_CORE,
                            unit=c16[i]['unit'], hasRef='ref' in c16[i], ref=c16[i].get('ref') or NO_CORE)
        ents.append(x)
    red = []
    for d in getattr(run, 'red', []):
        sp = (soloPost or {}).get(d['id'])
        red.append(dict(id=d['id'], given=d['given'], changed=d['changed'], post=d['post'], hasSolo=sp is not None,
                        soloPost=sp if sp is not None else []))
    return dict(name=run.name, j16=bool(c16), j19=bool(j19), inputs=run.inputs, ent=ents, nrows=run.nrows,
                netB=run.netB, netA=run.netA, simB=run.simB, simA=run.simA,
                redesign=bool(getattr(run, 'redesign', False)), red=red)


def judge(traces, chk, tag):
    """second TLC pass: Trace_Planning over the recorded runs; returns {name: [[step, clause], ...]}"""
    from harness import tlc
    from harness.core import Machinery
    if not traces:
        return {}
    data = '\n'.join(json.dumps(t) for t in traces) + '\n'
    res = tlc.run('Trace_Planning', extra_files={'trace.ndjson': data}, env={'TRACE_FILE': 'trace.ndjson'}, workers=1,
                  timeout=1500, tag=tag)
    if not res.ok:
        raise Machinery(f'Trace_Planning run failed: {res.error or res.violated}\n{res.out[-3000:]}')
    chk.states += res.distinct
    chk.transitions += res.generated
    verdicts = {v['name']: v for v in res.emitted}
    out = {}
    for t in traces:
        v = verdicts.get(t['name'])
        if v is None:
            raise Machinery(f'no verdict for trace {t["name"]}')
        if v['n'] != len(t['ent']) + 1:
            raise Machinery(f'trace {t["name"]}: {v["n"]} steps consumed, {len(t["ent"]) + 1} expected')
        out[t['name']] = [tuple(x) for x in v['viol']]
    return out
