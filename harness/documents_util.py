"""C18 helpers: abstract documents of spec/Documents.tla <-> JSON documents of gnpy, and projections of loaded objects.

Python here only renders and projects (JSON shape <-> abstract record shape, float <-> (mantissa, scale), loaded
object graph -> value numbers); every comparison that decides a verdict is made by TLC in Trace_Documents.tla.
"""
import copy
import json
import math
from decimal import Decimal

import numpy as np

from harness.gnpy_util import EX, TD

MAXM = 2_000_000_000
DEGS = ('d1', 'd2', 'd3')
EQ_KEY = {'pch': 'target_pch_out_db', 'psd': 'target_psd_out_mWperGHz', 'psw': 'target_out_mWperSlotWidth'}
PD_KEY = {'pch': 'per_degree_pch_out_db', 'psd': 'per_degree_psd_out_mWperGHz', 'psw': 'per_degree_psd_out_mWperSlotWidth'}
TOPO_NS, EQPT_NS, SERV_NS = 'gnpy-network-topology:topology', 'gnpy-eqpt-config:equipment', 'gnpy-path-computation:services'
SPEC_NS, SIM_NS = 'gnpy-spectrum:spectrum', 'gnpy-sim-params:sim-params'
ABSENT = {'t': 'absent', 'm': 0, 's': 0}
MISSING = object()


# ------------------------------------------------------------------------------------------------ libyang context
def cache_yang_context():
    """yang_to_legacy builds a libyang context (schema parsing, ~50-70 ms) on every call; the harness memoises the
    context object so that thousands of documents can be validated by the REAL libyang parser in seconds.
    Only schema loading is shared; parse/validation of every document is still done by gnpy's load_data."""
    import gnpy.tools.yang_convert_utils as u
    if getattr(u._create_context, '_verif_cached', False):
        return
    orig = u._create_context
    cache = {}

    def cached(lib):
        if lib not in cache:
            cache[lib] = orig(lib)
        cache[lib].clean_all_errors()        # error messages of earlier documents must not leak into this one's report
        return cache[lib]
    cached._verif_cached = True
    cached._orig = orig
    u._create_context = cached


def uncache_yang_context():
    import gnpy.tools.yang_convert_utils as u
    if getattr(u._create_context, '_verif_cached', False):
        u._create_context = u._create_context._orig


# ------------------------------------------------------------------------------------------------------- values
def dec_norm(d):
    """Decimal -> (m, s) normal form: value = m * 10^-s, m without trailing zero, 0 -> (0, 0)"""
    if d == 0:
        return 0, 0
    sign, digits, exp = d.normalize().as_tuple()
    m = int(''.join(map(str, digits)))
    return (-m if sign else m), -exp


def to_number(v, as_int):
    """abstract num -> the JSON number a user would write: the double nearest to m * 10^-s (or an int)"""
    d = Decimal(v['m']).scaleb(-v['s'])
    if v['s'] <= 0 and as_int:
        return int(d)
    return float(d)


def put(dst, key, v, as_int=False):
    """write abstract value v under dst[key] in the legacy form (absent -> no key)"""
    if v['t'] == 'absent':
        return
    dst[key] = None if v['t'] == 'null' else to_number(v, as_int)


def pv(x, form, extras, where):
    """JSON leaf -> abstract value.  legacy: number -> num, null -> null.  yang: string -> str, int -> int,
    [null] -> empty.  Whatever else is found is reported with the tag of what it is, so TLC sees the difference."""
    if x is MISSING:
        return dict(ABSENT)
    if x is None:
        return {'t': 'null', 'm': 0, 's': 0}
    if isinstance(x, list) and len(x) == 1 and x[0] is None:
        return {'t': 'empty', 'm': 0, 's': 0}
    if isinstance(x, bool) or isinstance(x, (list, dict)):
        extras.append(f'{where}:not-a-scalar')
        return {'t': 'null', 'm': 0, 's': 0}
    if isinstance(x, str):
        try:
            d = Decimal(x)
            if not d.is_finite():
                raise ValueError
        except Exception:                                           # noqa
            extras.append(f'{where}:unparsable-string')
            return {'t': 'str', 'm': 0, 's': 0}
        t = 'str'
    elif isinstance(x, int):
        d, t = Decimal(x), ('num' if form == 'legacy' else 'int')
    else:
        if not math.isfinite(x):
            extras.append(f'{where}:non-finite')
            return {'t': 'num', 'm': 0, 's': 0}
        d, t = Decimal(repr(float(x))), 'num'
    m, s = dec_norm(d)
    if abs(m) > MAXM or abs(s) > 40:
        extras.append(f'{where}:outside-vocabulary({x!r})')
        m, s = 0, 0
    return {'t': t, 'm': m, 's': s}


def g(d, k):
    return d.get(k, MISSING) if isinstance(d, dict) else MISSING


def leftovers(d, known, extras, where):
    if isinstance(d, dict):
        for k in d:
            if k not in known:
                extras.append(f'{where}/{k}:unexpected-key')


# ------------------------------------------------------------------------------------------- topology: rendering
def meta(city=''):
    return {'location': {'latitude': 0, 'longitude': 0, 'city': city, 'region': ''}}


def render_oper(o, as_int):
    out = {}
    for k in ('gain_target', 'delta_p', 'tilt_target', 'out_voa', 'in_voa'):
        put(out, k, o[k], as_int)
    return out


def render_fiber_params(f, as_int):
    p = {'length_units': 'km'}
    put(p, 'length', f['length'], as_int)
    if f['loss']['form'] == 'scalar':
        put(p, 'loss_coef', f['loss']['v'], as_int)
    else:
        p['loss_coef'] = {'value': [to_number(v, as_int) for v in f['loss']['vals']],
                          'frequency': [to_number(v, as_int) for v in f['loss']['freqs']]}
    for k in ('att_in', 'con_in', 'con_out', 'pmd_coef'):
        put(p, k, f[k], as_int)
    if f['lumped']:
        # the legacy key order puts the loss first (as in the shipped files): the converter must reorder
        p['lumped_losses'] = [{'loss': to_number(x['loss'], as_int), 'position': to_number(x['position'], as_int)}
                              for x in f['lumped']]
    if f['raman']['present']:
        p['raman_coefficient'] = {'g0': [to_number(v, as_int) for v in f['raman']['g0']],
                                  'frequency_offset': [to_number(v, as_int) for v in f['raman']['offsets']]}
        put(p['raman_coefficient'], 'reference_frequency', f['raman']['ref'], as_int)
    return p


def render_band(b, as_int):
    out = {'f_min': to_number(b['f_min'], as_int), 'f_max': to_number(b['f_max'], as_int)}
    put(out, 'spacing', b['spacing'], as_int)
    return out


def render_topology(d, as_int):
    r = d['roadm']
    rp = {'restrictions': {'preamp_variety_list': [], 'booster_variety_list': []}}
    if r['eqtype'] != 'none':
        put(rp, EQ_KEY[r['eqtype']], r['eq'], as_int)
    for ty, key in PD_KEY.items():
        if r['perdeg'][ty]:
            rp[key] = {e['deg']: to_number(e['v'], as_int) for e in r['perdeg'][ty]}
    if r['degbands']:
        rp['per_degree_design_bands'] = {
            e['deg']: [render_band(b, as_int) for b in e['bands']] for e in r['degbands']}
    basic = {'length': 50.0, 'loss_coef': 0.2, 'length_units': 'km', 'att_in': 0, 'con_in': 0.5, 'con_out': 0.5}
    els = [
        {'uid': 'trx A', 'type': 'Transceiver', 'metadata': meta('A')},
        {'uid': 'd3', 'type': 'Transceiver', 'metadata': meta('A')},
        {'uid': 'roadm A', 'type': 'Roadm', 'params': rp, 'metadata': meta('A')},
        {'uid': 'd1', 'type': 'Edfa', 'type_variety': 'std_medium_gain', 'operational': render_oper(d['edfa'], as_int),
         'metadata': meta('A')},
        {'uid': 'fiber', 'type': 'Fiber', 'type_variety': 'SSMF', 'params': render_fiber_params(d['fiber'], as_int),
         'metadata': meta()},
        {'uid': 'fused', 'type': 'Fused', 'metadata': meta()},
        {'uid': 'rfiber', 'type': 'RamanFiber', 'type_variety': 'SSMF',
         'operational': {'raman_pumps': [{'power': to_number(p['power'], as_int), 'frequency': to_number(p['frequency'], as_int),
                                          'propagation_direction': p['dir']} for p in d['rfiber']['pumps']]},
         'params': dict(basic), 'metadata': meta()},
        {'uid': 'pre B', 'type': 'Edfa', 'type_variety': 'std_low_gain',
         'operational': {'gain_target': None, 'delta_p': None, 'tilt_target': 0, 'out_voa': None}, 'metadata': meta('B')},
        {'uid': 'd2', 'type': 'Multiband_amplifier', 'type_variety': 'std_medium_gain_multiband',
         'amplifiers': [{'type_variety': a['variety'], 'operational': render_oper(a['oper'], as_int)} for a in d['mb']],
         'metadata': meta('A')},
        {'uid': 'fiber2', 'type': 'Fiber', 'type_variety': 'SSMF', 'params': dict(basic), 'metadata': meta()},
        {'uid': 'roadm B', 'type': 'Roadm', 'params': {'target_pch_out_db': -20}, 'metadata': meta('B')},
        {'uid': 'trx B', 'type': 'Transceiver', 'metadata': meta('B')},
    ]
    put(els[6]['operational'], 'temperature', d['rfiber']['temperature'], as_int)
    if d['fused']['t'] != 'absent':
        els[5]['params'] = {}
        put(els[5]['params'], 'loss', d['fused'], as_int)
    if not d['mb']:
        del els[8]['amplifiers']
    chain = ['trx A', 'roadm A', 'd1', 'fiber', 'fused', 'rfiber', 'pre B', 'roadm B', 'trx B']
    cx = [{'from_node': a, 'to_node': b} for a, b in zip(chain, chain[1:])]
    cx += [{'from_node': 'roadm A', 'to_node': 'd2'}, {'from_node': 'd2', 'to_node': 'fiber2'},
           {'from_node': 'fiber2', 'to_node': 'roadm B'}, {'from_node': 'roadm A', 'to_node': 'd3'},
           {'from_node': 'd3', 'to_node': 'roadm A'}]
    return {'elements': els, 'connections': cx}


# ------------------------------------------------------------------------------------------ topology: projection
def proj_oper(o, form, ex, w):
    out = {k: pv(g(o, k), form, ex, f'{w}/{k}') for k in ('gain_target', 'delta_p', 'tilt_target', 'out_voa', 'in_voa')}
    leftovers(o, out, ex, w)
    return out


def deg_order(entries):
    return sorted(entries, key=lambda e: (DEGS.index(e['deg']) if e['deg'] in DEGS else 99, e['deg']))


def proj_bands(bs, form, ex, w):
    out = []
    for i, b in enumerate(bs if isinstance(bs, list) else []):
        out.append({'f_min': pv(g(b, 'f_min'), form, ex, f'{w}/{i}/f_min'), 'f_max': pv(g(b, 'f_max'), form, ex, f'{w}/{i}/f_max'),
                    'spacing': pv(g(b, 'spacing'), form, ex, f'{w}/{i}/spacing')})
        leftovers(b, ('f_min', 'f_max', 'spacing'), ex, f'{w}/{i}')
    return out


def proj_roadm(p, form, ex):
    w = 'roadm/params'
    present = [t for t, k in EQ_KEY.items() if k in p]
    if len(present) > 1:
        ex.append(f'{w}:several-equalisations')
    out = {'eqtype': present[0] if present else 'none',
           'eq': pv(p[EQ_KEY[present[0]]], form, ex, f'{w}/{EQ_KEY[present[0]]}') if present else dict(ABSENT)}
    known = set(EQ_KEY.values()) | {'restrictions'}
    if form == 'legacy':
        out['perdeg'] = {}
        for ty, key in PD_KEY.items():
            m = p.get(key, {})
            if not isinstance(m, dict):
                ex.append(f'{w}/{key}:not-a-dictionary')
                m = {}
            out['perdeg'][ty] = deg_order([{'deg': dg, 'v': pv(x, form, ex, f'{w}/{key}/{dg}')} for dg, x in m.items()])
        m = p.get('per_degree_design_bands', {})
        if not isinstance(m, dict):
            ex.append(f'{w}/per_degree_design_bands:not-a-dictionary')
            m = {}
        out['degbands'] = deg_order([{'deg': dg, 'bands': proj_bands(bs, form, ex, f'{w}/per_degree_design_bands/{dg}')}
                                     for dg, bs in m.items()])
        known |= set(PD_KEY.values()) | {'per_degree_design_bands'}
    else:
        ts = []
        lst = p.get('per_degree_power_targets', [])
        if not isinstance(lst, list):
            ex.append(f'{w}/per_degree_power_targets:not-a-list')
            lst = []
        for i, e in enumerate(lst):
            tys = [t for t, k in PD_KEY.items() if k in e]
            if len(tys) != 1 or 'degree_uid' not in e:
                ex.append(f'{w}/per_degree_power_targets/{i}:malformed')
                continue
            leftovers(e, ('degree_uid', PD_KEY[tys[0]]), ex, f'{w}/per_degree_power_targets/{i}')
            ts.append({'deg': e['degree_uid'], 'type': tys[0], 'v': pv(e[PD_KEY[tys[0]]], form, ex, f'{w}/pdt/{i}')})
        # a YANG list keyed by degree_uid is unordered: canonical order = degree order (stable for duplicates)
        out['targets'] = deg_order(ts)
        bt = []
        lst = p.get('per_degree_design_bands_targets', [])
        if not isinstance(lst, list):
            ex.append(f'{w}/per_degree_design_bands_targets:not-a-list')
            lst = []
        for i, e in enumerate(lst):
            if 'degree_uid' not in e:
                ex.append(f'{w}/per_degree_design_bands_targets/{i}:malformed')
                continue
            leftovers(e, ('degree_uid', 'design_bands'), ex, f'{w}/per_degree_design_bands_targets/{i}')
            bt.append({'deg': e['degree_uid'], 'bands': proj_bands(e.get('design_bands', []), form, ex, f'{w}/pdbt/{i}')})
        out['bandtargets'] = deg_order(bt)
        known |= {'per_degree_power_targets', 'per_degree_design_bands_targets'}
    leftovers(p, known, ex, w)
    return out


def proj_fiber(p, form, ex):
    w = 'fiber/params'
    out = {k: pv(g(p, k), form, ex, f'{w}/{k}') for k in ('length', 'att_in', 'con_in', 'con_out', 'pmd_coef')}
    known = {'length', 'att_in', 'con_in', 'con_out', 'pmd_coef', 'length_units', 'lumped_losses', 'raman_coefficient'}
    lc = g(p, 'loss_coef')
    if form == 'legacy':
        known |= {'loss_coef'}
        if isinstance(lc, dict):
            leftovers(lc, ('value', 'frequency'), ex, f'{w}/loss_coef')
            out['loss'] = {'form': 'perfreq', 'v': dict(ABSENT),
                           'freqs': [pv(x, form, ex, f'{w}/loss_coef/frequency') for x in lc.get('frequency', [])],
                           'vals': [pv(x, form, ex, f'{w}/loss_coef/value') for x in lc.get('value', [])]}
        else:
            out['loss'] = {'form': 'scalar', 'v': pv(lc, form, ex, f'{w}/loss_coef'), 'freqs': [], 'vals': []}
    else:
        known |= {'loss_coef', 'loss_coef_per_frequency'}
        pf = g(p, 'loss_coef_per_frequency')
        if pf is not MISSING and lc is not MISSING:
            ex.append(f'{w}:scalar-and-vector-loss')
        if pf is not MISSING:
            items = []
            for i, e in enumerate(pf if isinstance(pf, list) else []):
                leftovers(e, ('frequency', 'loss_coef_value'), ex, f'{w}/loss_coef_per_frequency/{i}')
                items.append({'frequency': pv(g(e, 'frequency'), form, ex, f'{w}/lcpf/{i}/frequency'),
                              'loss_coef_value': pv(g(e, 'loss_coef_value'), form, ex, f'{w}/lcpf/{i}/value')})
            out['loss'] = {'form': 'perfreq', 'v': dict(ABSENT), 'pf': items}
        else:
            out['loss'] = {'form': 'scalar', 'v': pv(lc, form, ex, f'{w}/loss_coef'), 'pf': []}
    out['lumped'] = []
    for i, e in enumerate(p.get('lumped_losses', []) if isinstance(p, dict) else []):
        leftovers(e, ('position', 'loss'), ex, f'{w}/lumped_losses/{i}')
        out['lumped'].append({'position': pv(g(e, 'position'), form, ex, f'{w}/ll/{i}/position'),
                              'loss': pv(g(e, 'loss'), form, ex, f'{w}/ll/{i}/loss')})
    rc = g(p, 'raman_coefficient')
    if rc is MISSING:
        out['raman'] = {'present': False, 'ref': dict(ABSENT)}
        out['raman'].update({'g0': [], 'offsets': []} if form == 'legacy' else {'per': []})
    elif form == 'legacy':
        leftovers(rc, ('g0', 'frequency_offset', 'reference_frequency'), ex, f'{w}/raman_coefficient')
        out['raman'] = {'present': True, 'ref': pv(g(rc, 'reference_frequency'), form, ex, f'{w}/rc/ref'),
                        'g0': [pv(x, form, ex, f'{w}/rc/g0') for x in rc.get('g0', [])],
                        'offsets': [pv(x, form, ex, f'{w}/rc/offset') for x in rc.get('frequency_offset', [])]}
    else:
        leftovers(rc, ('g0_per_frequency', 'reference_frequency'), ex, f'{w}/raman_coefficient')
        per = []
        for i, e in enumerate(rc.get('g0_per_frequency', [])):
            leftovers(e, ('frequency_offset', 'g0'), ex, f'{w}/raman_coefficient/g0_per_frequency/{i}')
            per.append({'frequency_offset': pv(g(e, 'frequency_offset'), form, ex, f'{w}/rc/{i}/offset'),
                        'g0': pv(g(e, 'g0'), form, ex, f'{w}/rc/{i}/g0')})
        out['raman'] = {'present': True, 'ref': pv(g(rc, 'reference_frequency'), form, ex, f'{w}/rc/ref'), 'per': per}
    leftovers(p, known, ex, w)
    return out


def proj_topology(doc, form):
    ex = []
    if form == 'yang':
        if set(doc) != {TOPO_NS}:
            ex.append('top-level:not-a-yang-topology')
        doc = doc.get(TOPO_NS, doc)
    elif 'elements' not in doc:
        ex.append('top-level:not-a-legacy-topology')
    els = {e.get('uid'): e for e in doc.get('elements', [])}
    need = ('roadm A', 'fiber', 'rfiber', 'd1', 'd2', 'fused')
    if any(k not in els for k in need):
        ex.append('elements:missing')
        return None, ex
    out = {'kind': 'topology', 'form': form}
    out['roadm'] = proj_roadm(els['roadm A'].get('params', {}), form, ex)
    out['fiber'] = proj_fiber(els['fiber'].get('params', {}), form, ex)
    op = els['rfiber'].get('operational', {})
    leftovers(op, ('temperature', 'raman_pumps'), ex, 'rfiber/operational')
    pumps = []
    for i, p in enumerate(op.get('raman_pumps', [])):
        leftovers(p, ('power', 'frequency', 'propagation_direction'), ex, f'rfiber/operational/raman_pumps/{i}')
        direction = p.get('propagation_direction', '~absent')
        if form == 'yang' and isinstance(direction, str):
            direction = direction.split(':')[-1]            # identityref carries its module prefix in YANG JSON
        pumps.append({'power': pv(g(p, 'power'), form, ex, f'rfiber/pump/{i}/power'),
                      'frequency': pv(g(p, 'frequency'), form, ex, f'rfiber/pump/{i}/frequency'), 'dir': str(direction)})
    out['rfiber'] = {'temperature': pv(g(op, 'temperature'), form, ex, 'rfiber/temperature'), 'pumps': pumps}
    out['edfa'] = proj_oper(els['d1'].get('operational', {}), form, ex, 'd1/operational')
    out['mb'] = [{'variety': a.get('type_variety', '~absent'),
                  'oper': proj_oper(a.get('operational', {}), form, ex, f'd2/amplifiers/{i}/operational')}
                 for i, a in enumerate(els['d2'].get('amplifiers', []))]
    fp = els['fused'].get('params', MISSING)
    leftovers(fp, ('loss',), ex, 'fused/params')
    out['fused'] = pv(g(fp, 'loss'), form, ex, 'fused/params/loss') if fp is not MISSING else dict(ABSENT)
    out['extra'] = sorted(set(ex))
    return out, ex


# ----------------------------------------------------------------------------------------------------- equipment
def render_equipment(d, as_int):
    n = lambda v: to_number(v, as_int)   # noqa
    span = {'power_mode': True, 'delta_power_range_db': [n(v) for v in d['span']['range']],
            'max_fiber_lineic_loss_for_raman': 0.25, 'target_extended_gain': 2.5, 'max_length': 150, 'length_units': 'km',
            'padding': 10, 'EOL': 0, 'con_in': 0, 'con_out': 0}
    put(span, 'max_loss', d['span']['max_loss'], as_int)
    sis = []
    for s in d['si']:
        e = {'f_min': 191.3e12 if s['name'] == 'default' else 186.0e12, 'f_max': 196.1e12 if s['name'] == 'default' else 190.0e12,
             'baud_rate': 32e9, 'spacing': 50e9, 'power_dbm': 0, 'power_range_db': [n(v) for v in s['range']],
             'roll_off': 0.15, 'tx_osnr': 40, 'sys_margins': 2}
        if s['name'] != 'default':
            e = dict(type_variety=s['name'], **e)
        put(e, 'tx_power_dbm', s['tx_power_dbm'], as_int)
        sis.append(e)
    edfa = {'type_variety': d['edfa']['name'], 'type_def': 'openroadm', 'gain_flatmax': 27, 'gain_min': 0, 'p_max': 22,
            'nf_coef': [n(v) for v in d['edfa']['nf_coef']], 'pmd': 3e-12, 'pdl': 0.7, 'allowed_for_design': True}
    if d['edfa']['others']:
        edfa['other_name'] = list(d['edfa']['others'])
    modes = []
    for i, m in enumerate(d['trx']['modes']):
        mm = {'format': m['name'], 'baud_rate': 32e9 * (i + 1), 'OSNR': 11 + 4 * i, 'bit_rate': 100e9 * (i + 1), 'roll_off': 0.15,
              'tx_osnr': 40, 'min_spacing': 37.5e9 * (i + 1), 'cost': 1}
        if m['penalties']:
            mm['penalties'] = [{p['imp']: n(p['up_to']), 'penalty_value': n(p['penalty_value'])} for p in m['penalties']]
        put(mm, 'equalization_offset_db', m['equalization_offset_db'], as_int)
        if m['others']:
            mm['other_name'] = list(m['others'])
        modes.append(mm)
    trx = {'type_variety': d['trx']['name'], 'frequency': {'min': 191.35e12, 'max': 196.1e12}, 'mode': modes}
    if d['trx']['others']:
        trx['other_name'] = list(d['trx']['others'])
    rf = {'type_variety': 'SSMF', 'dispersion': 1.67e-05, 'effective_area': 83e-12, 'pmd_coef': 1.265e-15}
    if d['reff']['present']:
        rf['raman_efficiency'] = {'cr': [n(v) for v in d['reff']['cr']], 'frequency_offset': [n(v) for v in d['reff']['offsets']]}
    return {
        'Edfa': [edfa, {'type_variety': 'std_low_gain', 'type_def': 'variable_gain', 'gain_flatmax': 16, 'gain_min': 8,
                        'p_max': 23, 'nf_min': 6.5, 'nf_max': 11, 'out_voa_auto': False, 'allowed_for_design': True}],
        'Fiber': [{'type_variety': 'SSMF', 'dispersion': 1.67e-05, 'effective_area': 83e-12, 'pmd_coef': 1.265e-15}],
        'RamanFiber': [rf],
        'Span': [span],
        'Roadm': [{'type_variety': 'default', 'target_pch_out_db': -20, 'add_drop_osnr': 38, 'pmd': 0, 'pdl': 0,
                   'restrictions': {'preamp_variety_list': [], 'booster_variety_list': []}}],
        'SI': sis,
        'Transceiver': [trx]}


def proj_range(e, form, ex, w, lkey, ykey):
    known = {lkey} if form == 'legacy' else {ykey}
    other = ykey if form == 'legacy' else lkey
    if other in e:
        ex.append(f'{w}/{other}:unexpected-key')
    if form == 'legacy':
        r = e.get(lkey, MISSING)
        if not (isinstance(r, list) and len(r) == 3):
            ex.append(f'{w}/{lkey}:missing-or-malformed')
            r = [MISSING] * 3
        return [pv(x, form, ex, f'{w}/{lkey}') for x in r], known
    r = e.get(ykey, MISSING)
    if not isinstance(r, dict):
        ex.append(f'{w}/{ykey}:missing-or-malformed')
        r = {}
    leftovers(r, ('min_value', 'max_value', 'step'), ex, f'{w}/{ykey}')
    return {k: pv(g(r, k), form, ex, f'{w}/{ykey}/{k}') for k in ('min_value', 'max_value', 'step')}, known


def proj_equipment(doc, form):
    ex = []
    if form == 'yang':
        if set(doc) != {EQPT_NS}:
            ex.append('top-level:not-a-yang-equipment')
        doc = doc.get(EQPT_NS, doc)
    out = {'kind': 'equipment', 'form': form}
    try:
        sp = doc['Span'][0]
        rng, _ = proj_range(sp, form, ex, 'Span/0', 'delta_power_range_db', 'delta_power_range_dict_db')
        out['span'] = {'range': rng, 'max_loss': pv(g(sp, 'max_loss'), form, ex, 'Span/0/max_loss')}
        out['si'] = []
        for i, s in enumerate(doc['SI']):
            rng, _ = proj_range(s, form, ex, f'SI/{i}', 'power_range_db', 'power_range_dict_db')
            out['si'].append({'name': s.get('type_variety', 'default'), 'range': rng,
                              'tx_power_dbm': pv(g(s, 'tx_power_dbm'), form, ex, f'SI/{i}/tx_power_dbm')})
        e = doc['Edfa'][0]
        if form == 'legacy':
            nf = [pv(x, form, ex, 'Edfa/0/nf_coef') for x in e.get('nf_coef', [])]
        else:
            nf = []
            for i, c in enumerate(e.get('nf_coef', [])):
                leftovers(c, ('coef_order', 'nf_coef'), ex, f'Edfa/0/nf_coef/{i}')
                if not isinstance(g(c, 'coef_order'), int):
                    ex.append(f'Edfa/0/nf_coef/{i}/coef_order:not-an-integer')
                    continue
                nf.append({'coef_order': c['coef_order'], 'nf_coef': pv(g(c, 'nf_coef'), form, ex, f'Edfa/0/nf_coef/{i}')})
        out['edfa'] = {'name': e.get('type_variety', '~absent'), 'others': list(e.get('other_name', [])), 'nf_coef': nf}
        t = doc['Transceiver'][0]
        modes = []
        for i, m in enumerate(t.get('mode', [])):
            pens = []
            for j, p in enumerate(m.get('penalties', [])):
                imps = [k for k in ('chromatic_dispersion', 'pmd', 'pdl') if k in p]
                if len(imps) != 1:
                    ex.append(f'Transceiver/0/mode/{i}/penalties/{j}:malformed')
                    continue
                leftovers(p, (imps[0], 'penalty_value'), ex, f'Transceiver/0/mode/{i}/penalties/{j}')
                pens.append({'imp': imps[0], 'up_to': pv(p[imps[0]], form, ex, f'mode/{i}/pen/{j}/up_to'),
                             'penalty_value': pv(g(p, 'penalty_value'), form, ex, f'mode/{i}/pen/{j}/value')})
            modes.append({'name': m.get('format', '~absent'), 'others': list(m.get('other_name', [])), 'penalties': pens,
                          'equalization_offset_db': pv(g(m, 'equalization_offset_db'), form, ex, f'mode/{i}/eqoff')})
        out['trx'] = {'name': t.get('type_variety', '~absent'), 'others': list(t.get('other_name', [])), 'modes': modes}
        rf = doc['RamanFiber'][0]
        leftovers(rf, ('type_variety', 'dispersion', 'effective_area', 'pmd_coef', 'raman_efficiency'), ex, 'RamanFiber/0')
        re_ = g(rf, 'raman_efficiency')
        if re_ is MISSING:
            out['reff'] = dict({'present': False}, **({'cr': [], 'offsets': []} if form == 'legacy' else {'per': []}))
        elif form == 'legacy':
            if not isinstance(re_, dict):
                ex.append('RamanFiber/0/raman_efficiency:not-a-dictionary')
                re_ = {}
            leftovers(re_, ('cr', 'frequency_offset'), ex, 'RamanFiber/0/raman_efficiency')
            out['reff'] = {'present': True, 'cr': [pv(x, form, ex, 'reff/cr') for x in re_.get('cr', [])],
                           'offsets': [pv(x, form, ex, 'reff/offset') for x in re_.get('frequency_offset', [])]}
        else:
            per = []
            for i, c in enumerate(re_ if isinstance(re_, list) else []):
                leftovers(c, ('frequency_offset', 'cr'), ex, f'RamanFiber/0/raman_efficiency/{i}')
                per.append({'frequency_offset': pv(g(c, 'frequency_offset'), form, ex, f'reff/{i}/offset'),
                            'cr': pv(g(c, 'cr'), form, ex, f'reff/{i}/cr')})
            out['reff'] = {'present': True, 'per': per}
    except (KeyError, IndexError, TypeError, AttributeError) as e:
        ex.append(f'equipment:not-projectable({type(e).__name__})')
        return None, ex
    out['extra'] = sorted(set(ex))
    return out, ex


def num_text(x):
    """canonical text of a number: 20 and 20.0 are the same value (JSON int vs float), floats bit-exact"""
    if hasattr(x, 'item'):
        x = x.item()
    if isinstance(x, bool):
        return repr(x)
    if isinstance(x, int):
        return repr(float(x)) if abs(x) < 2 ** 53 else repr(x)
    return 'nan' if x != x else repr(x)


def flatten(obj, path, out, depth=0, seen=None):
    """loaded object graph -> {attribute path: canonical text of the value}; floats by repr (bit-exact), arrays whole"""
    if seen is None:
        seen = set()
    if depth > 8:
        out[path] = '<deep>'
        return
    if obj is None or isinstance(obj, (bool, str)):
        out[path] = repr(obj)
    elif isinstance(obj, (int, float, np.floating, np.integer)):
        out[path] = num_text(obj)
    elif isinstance(obj, np.ndarray):
        out[path] = 'array[' + ', '.join(num_text(x) if isinstance(x, (int, float, np.floating, np.integer)) else repr(x)
                                         for x in obj.ravel().tolist()) + ']'
    elif isinstance(obj, dict):
        out[path + '#len'] = str(len(obj))
        for k in obj:
            kk = num_text(k) if isinstance(k, (int, float, np.integer, np.floating)) and not isinstance(k, bool) else k
            flatten(obj[k], f'{path}/{kk}', out, depth + 1, seen)
    elif isinstance(obj, (list, tuple)) and not hasattr(obj, '_fields'):
        if all(x is None or isinstance(x, (bool, int, float, str)) for x in obj):
            out[path] = '[' + ', '.join(num_text(x) if isinstance(x, (int, float)) and not isinstance(x, bool) else repr(x)
                                        for x in obj) + ']'
        else:
            out[path + '#len'] = str(len(obj))
            for i, x in enumerate(obj):
                flatten(x, f'{path}/{i}', out, depth + 1, seen)
    elif hasattr(obj, '_asdict'):
        flatten(obj._asdict(), path, out, depth + 1, seen)
    elif hasattr(obj, '__dict__'):
        if id(obj) in seen:
            out[path] = '<again>'
            return
        seen.add(id(obj))
        out[path + '#class'] = type(obj).__name__
        for k, v in vars(obj).items():
            if callable(v):
                continue
            flatten(v, f'{path}.{k.lstrip("_")}', out, depth + 1, seen)
        seen.discard(id(obj))
    else:
        out[path] = f'<{type(obj).__name__}>' + repr(obj)[:80]


def value_numbers(a, b):
    """two flattened loads -> two aligned integer vectors over the union of their attribute paths (0 = path missing),
    same text <=> same number; plus the path list for reports"""
    paths = sorted(set(a) | set(b))
    ids = {}
    va, vb = [], []
    for p in paths:
        for src, dst in ((a, va), (b, vb)):
            if p in src:
                dst.append(ids.setdefault(src[p], len(ids) + 1))
            else:
                dst.append(0)
    return va, vb, paths


def observed_library(eqpt):
    """equipment dict built by the loader -> entries [cat, key, reports, pid]: the object found under `key` says its
    type_variety is `reports`; pid numbers the distinct parameter sets (everything but the reported name)"""
    out, pids = [], {}
    for cat in ('Edfa', 'Transceiver'):
        for key, obj in eqpt.get(cat, {}).items():
            flat = {}
            flatten(obj, '', flat)
            flat.pop('.type_variety', None)
            sig = json.dumps(flat, sort_keys=True)
            out.append({'cat': cat, 'key': str(key), 'reports': str(getattr(obj, 'type_variety', '~none')),
                        'pid': pids.setdefault((cat, sig), len(pids) + 1)})
    for key, obj in eqpt.get('Transceiver', {}).items():
        for m in obj.mode:
            mm = {k: v for k, v in m.items() if k != 'format'}
            sig = json.dumps(mm, sort_keys=True, default=repr)
            out.append({'cat': 'Mode', 'key': str(m.get('format')), 'reports': str(m.get('format')),
                        'pid': pids.setdefault(('Mode', sig), len(pids) + 1), 'under': str(key)})
    return out


# ------------------------------------------------------------------------------------------------------ services
def render_service(d, as_int):
    reqs = []
    for r in d['reqs']:
        te = {'technology': 'flexi-grid', 'trx_type': 'Voyager'}
        if r['mode'] != '~absent':
            te['trx_mode'] = None if r['mode'] == '~null' else r['mode']
        if r['hasslots']:
            te['effective-freq-slot'] = []
            for s in r['slots']:
                sl = {}
                put(sl, 'N', s['N'], True)
                put(sl, 'M', s['M'], True)
                te['effective-freq-slot'].append(sl)
        put(te, 'spacing', r['spacing'], as_int)
        put(te, 'max-nb-of-channel', r['max_nb'], True)
        put(te, 'output-power', r['power'], as_int)
        put(te, 'path_bandwidth', r['bandwidth'], as_int)
        q = {'request-id': r['id'], 'source': 'trx A', 'destination': 'trx B', 'src-tp-id': 'trx A', 'dst-tp-id': 'trx B',
             'bidirectional': False, 'path-constraints': {'te-bandwidth': te}}
        if r['include']:
            # the list is keyed by `index`: the order of the hops is the order of the indices, not the order in the file.
            # The objects are written last hop first, and the index key last (the converter must move the key first).
            q['explicit-route-objects'] = {'route-object-include-exclude': [
                {'explicit-route-usage': 'route-include-ero',
                 'num-unnum-hop': {'node-id': h['node'], 'link-tp-id': 'link-tp-id is not used', 'hop-type': h['hop']},
                 'index': i} for i, h in reversed(list(enumerate(r['include'])))]}
        reqs.append(q)
    out = {'path-request': reqs}
    if d['sync']:
        out['synchronization'] = [{'synchronization-id': s['id'],
                                   'svec': {'relaxable': s['relaxable'], 'disjointness': 'node link',
                                            'request-id-number': list(s['ids'])}}
                                  for s in d['sync']]
    return out


def proj_service(doc, form):
    ex = []
    if form == 'yang':
        if set(doc) != {SERV_NS}:
            ex.append('top-level:not-a-yang-service')
        doc = doc.get(SERV_NS, doc)
    out = {'kind': 'service', 'form': form, 'reqs': [], 'sync': []}
    try:
        for i, q in enumerate(doc['path-request']):
            te = q['path-constraints']['te-bandwidth']
            w = f'path-request/{i}/te-bandwidth'
            leftovers(te, ('technology', 'trx_type', 'trx_mode', 'effective-freq-slot', 'spacing', 'max-nb-of-channel',
                           'output-power', 'path_bandwidth'), ex, w)
            inc = []
            ero = q.get('explicit-route-objects', {}).get('route-object-include-exclude', [])
            for j, h in enumerate(sorted(ero, key=lambda x: x['index'])):
                if h['index'] != j:
                    ex.append(f'path-request/{i}/include/{j}:index-not-consecutive')
                inc.append({'node': h['num-unnum-hop']['node-id'], 'hop': h['num-unnum-hop']['hop-type']})
            slots = []
            efs = g(te, 'effective-freq-slot')
            for j, s in enumerate(efs if isinstance(efs, list) else []):
                leftovers(s, ('N', 'M'), ex, f'{w}/effective-freq-slot/{j}')
                slots.append({'N': pv(g(s, 'N'), form, ex, f'{w}/slot/{j}/N'), 'M': pv(g(s, 'M'), form, ex, f'{w}/slot/{j}/M')})
            mode = g(te, 'trx_mode')
            mode = '~absent' if mode is MISSING else '~null' if mode is None else \
                '~empty' if mode == [None] else mode if isinstance(mode, str) else '~other'
            out['reqs'].append({'id': str(q['request-id']), 'include': inc, 'hasslots': efs is not MISSING, 'slots': slots,
                                'max_nb': pv(g(te, 'max-nb-of-channel'), form, ex, f'{w}/max-nb'),
                                'power': pv(g(te, 'output-power'), form, ex, f'{w}/output-power'), 'mode': mode,
                                'bandwidth': pv(g(te, 'path_bandwidth'), form, ex, f'{w}/path_bandwidth'),
                                'spacing': pv(g(te, 'spacing'), form, ex, f'{w}/spacing')})
        for s in doc.get('synchronization', []):
            rel = s['svec'].get('relaxable', '~absent')
            if not isinstance(rel, bool):
                ex.append('synchronization/svec/relaxable:not-a-boolean')
                rel = False
            out['sync'].append({'id': str(s['synchronization-id']), 'ids': [str(x) for x in s['svec']['request-id-number']],
                                'relaxable': rel})
    except (KeyError, IndexError, TypeError, AttributeError) as e:
        ex.append(f'service:not-projectable({type(e).__name__})')
        return None, ex
    out['extra'] = sorted(set(ex))
    return out, ex


# ------------------------------------------------------------------------------------------ spectrum, sim-params
def render_spectrum(d, as_int):
    parts = []
    for p in d['parts']:
        e = {}
        for k in ('f_min', 'f_max', 'baud_rate', 'slot_width', 'roll_off', 'delta_pdb', 'tx_osnr', 'tx_power_dbm'):
            put(e, k, p[k], as_int)
        if p['label']:
            e['label'] = p['label']
        parts.append(e)
    return {'spectrum': parts}


def proj_spectrum(doc, form):
    ex = []
    if form == 'yang':
        if set(doc) != {SPEC_NS}:
            ex.append('top-level:not-a-yang-spectrum')
        parts = doc.get(SPEC_NS, [])
    else:
        if set(doc) != {'spectrum'}:
            ex.append('top-level:not-a-legacy-spectrum')
        parts = doc.get('spectrum', [])
    out = {'kind': 'spectrum', 'form': form, 'parts': []}
    keys = ('f_min', 'f_max', 'baud_rate', 'slot_width', 'roll_off', 'delta_pdb', 'tx_osnr', 'tx_power_dbm')
    for i, p in enumerate(parts if isinstance(parts, list) else []):
        leftovers(p, keys + ('label',), ex, f'spectrum/{i}')
        e = {k: pv(g(p, k), form, ex, f'spectrum/{i}/{k}') for k in keys}
        e['label'] = p.get('label', '') if isinstance(p.get('label', ''), str) else '~other'
        out['parts'].append(e)
    out['extra'] = sorted(set(ex))
    return out, ex


def render_simparams(d, as_int):
    nli = {'method': d['method']}
    put(nli, 'dispersion_tolerance', d['dtol'], as_int)
    put(nli, 'phase_shift_tolerance', d['ptol'], as_int)
    if d['channels']:
        nli['computed_channels'] = [to_number(v, True) for v in d['channels']]
    put(nli, 'computed_number_of_channels', d['nchan'], True)
    ram = {'flag': d['flag']}
    put(ram, 'result_spatial_resolution', d['rsr'], as_int)
    put(ram, 'solver_spatial_resolution', d['ssr'], as_int)
    return {'raman_params': ram, 'nli_params': nli}


def proj_simparams(doc, form):
    ex = []
    if form == 'yang':
        if set(doc) != {SIM_NS}:
            ex.append('top-level:not-a-yang-sim-params')
        doc = doc.get(SIM_NS, {})
    ram, nli = doc.get('raman_params', {}), doc.get('nli_params', {})
    leftovers(doc, ('raman_params', 'nli_params'), ex, 'sim-params')
    leftovers(ram, ('flag', 'result_spatial_resolution', 'solver_spatial_resolution'), ex, 'raman_params')
    leftovers(nli, ('method', 'dispersion_tolerance', 'phase_shift_tolerance', 'computed_channels',
                    'computed_number_of_channels'), ex, 'nli_params')
    flag = ram.get('flag')
    if not isinstance(flag, bool):
        ex.append('raman_params/flag:not-a-boolean')
        flag = False
    out = {'kind': 'simparams', 'form': form, 'flag': flag, 'method': (str(nli.get('method', '~absent')).split(':')[-1] if form == 'yang'
                                                                         else str(nli.get('method', '~absent'))),
           'rsr': pv(g(ram, 'result_spatial_resolution'), form, ex, 'rsr'),
           'ssr': pv(g(ram, 'solver_spatial_resolution'), form, ex, 'ssr'),
           'dtol': pv(g(nli, 'dispersion_tolerance'), form, ex, 'dtol'),
           'ptol': pv(g(nli, 'phase_shift_tolerance'), form, ex, 'ptol'),
           'channels': [pv(x, form, ex, 'computed_channels') for x in nli.get('computed_channels', [])],
           'nchan': pv(g(nli, 'computed_number_of_channels'), form, ex, 'nchan')}
    out['extra'] = sorted(set(ex))
    return out, ex


RENDER = {'topology': render_topology, 'equipment': render_equipment, 'service': render_service,
          'spectrum': render_spectrum, 'simparams': render_simparams}
PROJECT = {'topology': proj_topology, 'equipment': proj_equipment, 'service': proj_service,
           'spectrum': proj_spectrum, 'simparams': proj_simparams}


def reorder_keyed_lists(kind, yang):
    """the same YANG document with its keyed lists listed in another order (the lists whose legacy form is indexed by
    the key: nf_coef by coef_order, per-degree targets / bands by degree_uid, route objects by index)"""
    y = copy.deepcopy(yang)
    if kind == 'equipment':
        for e in y.get(EQPT_NS, {}).get('Edfa', []):
            if isinstance(e.get('nf_coef'), list):
                e['nf_coef'] = e['nf_coef'][::-1]
    elif kind == 'topology':
        for e in y.get(TOPO_NS, {}).get('elements', []):
            for k in ('per_degree_power_targets', 'per_degree_design_bands_targets'):
                if isinstance(e.get('params', {}).get(k), list):
                    e['params'][k] = e['params'][k][::-1]
    elif kind == 'service':
        for q in y.get(SERV_NS, {}).get('path-request', []):
            ero = q.get('explicit-route-objects', {})
            if isinstance(ero.get('route-object-include-exclude'), list):
                ero['route-object-include-exclude'] = ero['route-object-include-exclude'][::-1]
    return y


def reorder_vector_lists(kind, yang):
    """the same YANG topology with the keyed lists that become parallel vectors in the legacy form (g0_per_frequency,
    loss_coef_per_frequency) listed in another order"""
    y = copy.deepcopy(yang)
    if kind == 'topology':
        for e in y.get(TOPO_NS, {}).get('elements', []):
            par = e.get('params', {})
            if isinstance(par.get('loss_coef_per_frequency'), list):
                par['loss_coef_per_frequency'] = par['loss_coef_per_frequency'][::-1]
            rc = par.get('raman_coefficient')
            if isinstance(rc, dict) and isinstance(rc.get('g0_per_frequency'), list):
                rc['g0_per_frequency'] = rc['g0_per_frequency'][1:] + rc['g0_per_frequency'][:1]
    return y


IDENTITY_MODULE = {'topology': 'gnpy-network-topology', 'equipment': 'gnpy-eqpt-config', 'simparams': 'gnpy-sim-params'}


def qualify_identities(kind, yang):
    """the same YANG document with its identityref leaves written with their module name (RFC 7951 allows both
    spellings inside the defining module; the shipped YANG test data qualify `type` and `type_def` this way)"""
    y = copy.deepcopy(yang)
    mod = IDENTITY_MODULE.get(kind)
    if mod is None:
        return y

    def q(d, k):
        if isinstance(d, dict) and isinstance(d.get(k), str) and ':' not in d[k]:
            d[k] = f'{mod}:{d[k]}'
    if kind == 'topology':
        for e in y.get(TOPO_NS, {}).get('elements', []):
            q(e, 'type')
            q(e.get('params'), 'length_units')
            for p in (e.get('operational') or {}).get('raman_pumps', []) or []:
                q(p, 'propagation_direction')
    elif kind == 'equipment':
        for e in y.get(EQPT_NS, {}).get('Edfa', []):
            q(e, 'type_def')
    elif kind == 'simparams':
        q(y.get(SIM_NS, {}).get('nli_params'), 'method')
        q(y.get(SIM_NS, {}).get('raman_params'), 'method')
    return y


def placeholder(kind, form):
    """what the trace carries when a conversion raised or its output could not be projected at all"""
    return {'kind': kind, 'form': form, 'extra': ['~no-document']}


# ------------------------------------------------------------------------------------------- generic leaf view (B3)
def leaves(doc, precision, path='', key=None, out=None):
    """generic JSON document -> {path: (tag, m, s, in_precision)} for B3 on shipped files (no vocabulary)"""
    if out is None:
        out = {}
    if isinstance(doc, dict):
        if not doc:
            out[path + '{}'] = ('emptydict', 0, 0, True)
        for k, v in doc.items():
            leaves(v, precision, f'{path}/{k}', k, out)
    elif isinstance(doc, list):
        if doc == [None]:
            out[path] = ('null', 0, 0, True)             # [null] and null are the two spellings of "no value"
        else:
            if not doc:
                out[path + '[]'] = ('emptylist', 0, 0, True)
            for i, v in enumerate(doc):
                leaves(v, precision, f'{path}/{i}', key, out)
    elif doc is None:
        out[path] = ('null', 0, 0, True)
    elif isinstance(doc, bool):
        out[path] = ('bool', int(doc), 0, True)
    elif isinstance(doc, (int, float)):
        if isinstance(doc, float) and not math.isfinite(doc):
            out[path] = ('nonfinite', 0, 0, False)
        else:
            m, s = dec_norm(Decimal(repr(doc)))
            p = precision.get(key, 2)
            out[path] = ('num', m, s, p < 0 or s <= p)
    else:
        p = precision.get(key, None)
        if p is not None and p >= 0:
            try:
                m, s = dec_norm(Decimal(doc))
                out[path] = ('num', m, s, s <= p)
                return out
            except Exception:                           # noqa
                pass
        out[path] = ('text:' + str(doc), 0, 0, True)
    return out


# ------------------------------------------------------------------------------- domain self-check of a document
FIELD_KEY = {'freqs': 'frequency', 'vals': 'loss_coef_value', 'ref': 'reference_frequency', 'offsets': 'frequency_offset',
             'max_nb': 'max_nb_of_channel', 'bandwidth': 'path_bandwidth', 'rsr': 'result_spatial_resolution',
             'ssr': 'solver_spatial_resolution', 'dtol': 'dispersion_tolerance', 'ptol': 'phase_shift_tolerance',
             'channels': 'computed_channels', 'nchan': 'computed_number_of_channels', 'fused': 'loss'}


def out_of_domain(doc, prec):
    """values of an abstract document that are not in normal form or have more fraction digits than Prec declares
    (Prec is the table printed by the TLA+ module, not gnpy's): must be empty for every enumerated document"""
    bad = []

    def isval(x):
        return isinstance(x, dict) and set(x) == {'t', 'm', 's'}

    def chk(v, key, where):
        if v['t'] in ('absent', 'null'):
            if v['m'] or v['s']:
                bad.append(f'{where}: not normal')
            return
        if key not in prec:
            bad.append(f'{where}: no declared precision for {key}')
        elif v['s'] > prec[key]:
            bad.append(f'{where}: scale {v["s"]} > {prec[key]}')
        if (v['m'] == 0 and v['s'] != 0) or (v['m'] != 0 and v['m'] % 10 == 0):
            bad.append(f'{where}: not normal')

    def walk(x, key, where, ctx):
        if isval(x):
            chk(x, key, where)
        elif isinstance(x, dict):
            for k, v in x.items():
                kk = FIELD_KEY.get(k, k)
                if k == 'v' and 'deg' in x:
                    kk = ctx.get('eqtype')
                elif k == 'v' and x.get('form') == 'scalar':
                    kk = 'loss_coef'
                elif k == 'eq':
                    kk = x.get('eqtype')
                elif k == 'up_to':
                    kk = x.get('imp')
                elif k == 'power' and doc['kind'] == 'service':
                    kk = 'output_power'
                c2 = dict(ctx)
                if k in ('pch', 'psd', 'psw'):
                    c2['eqtype'] = k
                walk(v, kk, f'{where}.{k}', c2)
        elif isinstance(x, list):
            for i, v in enumerate(x):
                walk(v, key, f'{where}[{i}]', ctx)
    walk(doc, None, '', {})
    return bad
